module verif/harness

go 1.24.0

require (
	github.com/azihsoyn/rijndael256 v0.0.0-20200316065338-d14eefa2b66b
	github.com/sirupsen/logrus v1.9.3
	github.com/spali/go-rscp v0.0.0-00010101000000-000000000000
	github.com/spali/go-slicereader v0.0.0-20201122145524-8e262e1a5127
)

require (
	github.com/cstockton/go-conv v1.0.0 // indirect
	golang.org/x/sys v0.16.0 // indirect
)

replace github.com/spali/go-rscp => /repo
