package main

import (
	"crypto/cipher"
	"encoding/binary"
	"fmt"
	"io"
	"net"
	"os"
	"strconv"
	"strings"
	"sync"
	"time"

	"github.com/sirupsen/logrus"
	"github.com/spali/go-rscp/rscp"
)

// ---------------------------------------------------------------- session cases
//
//	S key user pass crc ct st rt rbuf level sec nsec mode | conn / conn ... | call ; call ...
//
// crc: nil|true|false; ct/st/rt: timeouts in ns; rbuf: blocks; mode: attach|tcp
// conn: reactions separated by ','; reaction: a:<hex>[@ns]+<hex>[@ns]...[:eof] | s | wf ; no connections: -
// call: send (msgs) | disc
type piece struct {
	data  []byte
	delay int64
}
type reaction struct {
	pieces    []piece
	eof       bool
	writeFail bool
	stall     int // > 0: the Write accepts this many bytes, then the write deadline passes (partial write + timeout error)
}
type sessionCase struct {
	key, user, pass string
	crc             string
	ct, st, rt      int64
	rbuf            int
	level           int
	sec, nsec       int64
	mode            string
	conns           [][]reaction
	calls           []string
}

func parseReaction(s string) reaction {
	switch {
	case s == "s":
		return reaction{}
	case s == "wf":
		return reaction{writeFail: true}
	case strings.HasPrefix(s, "ws"):
		k, _ := strconv.Atoi(s[2:])
		return reaction{writeFail: true, stall: k}
	}
	var r reaction
	parts := strings.Split(s, ":")
	if len(parts) >= 2 && parts[1] != "" {
		for _, p := range strings.Split(parts[1], "+") {
			var pc piece
			if i := strings.IndexByte(p, '@'); i >= 0 {
				pc.delay, _ = strconv.ParseInt(p[i+1:], 10, 64)
				p = p[:i]
			}
			if p == "z" { // a Read that returns (0, nil): allowed by io.Reader, never done by TCP for a non-empty buffer
				pc.data = []byte{}
			} else {
				pc.data = unhx(p)
			}
			r.pieces = append(r.pieces, pc)
		}
	}
	r.eof = len(parts) >= 3 && parts[2] == "eof"
	return r
}

func reactionStr(r reaction) string {
	if r.writeFail && r.stall > 0 {
		return fmt.Sprintf("ws%d", r.stall)
	}
	if r.writeFail {
		return "wf"
	}
	if len(r.pieces) == 0 && !r.eof {
		return "s"
	}
	var ps []string
	for _, p := range r.pieces {
		s := hx(p.data)
		if p.data != nil && len(p.data) == 0 {
			s = "z"
		}
		if p.delay != 0 {
			s += "@" + strconv.FormatInt(p.delay, 10)
		}
		ps = append(ps, s)
	}
	out := "a:" + strings.Join(ps, "+")
	if r.eof {
		out += ":eof"
	}
	return out
}

func parseSession(c string) sessionCase {
	parts := strings.Split(c, " | ")
	f := strings.Fields(parts[0])
	i64 := func(s string) int64 { v, _ := strconv.ParseInt(s, 10, 64); return v }
	sc := sessionCase{key: string(unhx(f[1])), user: string(unhx(f[2])), pass: string(unhx(f[3])), crc: f[4], ct: i64(f[5]), st: i64(f[6]), rt: i64(f[7]),
		rbuf: int(i64(f[8])), level: int(i64(f[9])), sec: i64(f[10]), nsec: i64(f[11]), mode: f[12]}
	if strings.TrimSpace(parts[1]) != "-" {
		for _, cs := range strings.Split(parts[1], " / ") {
			var rs []reaction
			cs = strings.TrimSpace(cs)
			if cs != "" && cs != "." {
				for _, r := range strings.Split(cs, ",") {
					rs = append(rs, parseReaction(r))
				}
			}
			sc.conns = append(sc.conns, rs)
		}
	}
	for _, cl := range strings.Split(parts[2], " ; ") {
		sc.calls = append(sc.calls, strings.TrimSpace(cl))
	}
	return sc
}

func (sc sessionCase) line() string {
	var conns []string
	for _, rs := range sc.conns {
		var parts []string
		for _, r := range rs {
			parts = append(parts, reactionStr(r))
		}
		if len(parts) == 0 {
			conns = append(conns, ".")
		} else {
			conns = append(conns, strings.Join(parts, ","))
		}
	}
	cs := "-"
	if len(conns) > 0 {
		cs = strings.Join(conns, " / ")
	}
	return fmt.Sprintf("S %s %s %s %s %d %d %d %d %d %d %d %s | %s | %s", hx([]byte(sc.key)), hx([]byte(sc.user)), hx([]byte(sc.pass)), sc.crc, sc.ct, sc.st, sc.rt,
		sc.rbuf, sc.level, sc.sec, sc.nsec, sc.mode, cs, strings.Join(sc.calls, " ; "))
}

// ---------------------------------------------------------------- event trace
type trace struct {
	mu sync.Mutex
	ev []string
}

func (t *trace) add(s string) { t.mu.Lock(); t.ev = append(t.ev, s); t.mu.Unlock() }

// logrus hook: log records enter the same ordered trace
type logHook struct{ t *trace }

func (h logHook) Levels() []logrus.Level { return logrus.AllLevels }
func (h logHook) Fire(e *logrus.Entry) error {
	kind := "text"
	switch {
	case strings.Contains(e.Message, "[]byte{"):
		kind = "dump"
	case strings.HasPrefix(e.Message, "write ") || strings.HasPrefix(e.Message, "read "):
		kind = "tree"
	}
	h.t.add(fmt.Sprintf("LOG %d %s", int(e.Level), kind))
	h.t.mu.Lock()
	logText.WriteString(e.Message)
	logText.WriteByte('\n')
	h.t.mu.Unlock()
	return nil
}

var logText strings.Builder

func msRound(d time.Duration) int64 {
	if d > (1<<62)-1 {
		return int64(d / time.Millisecond)
	}
	if d >= 0 {
		return int64((d + 500*time.Microsecond) / time.Millisecond)
	}
	return -int64((-d + 500*time.Microsecond) / time.Millisecond)
}

// ---------------------------------------------------------------- the scripted in-memory connection (attach mode)
type timeoutErr struct{}

func (timeoutErr) Error() string   { return "i/o timeout" }
func (timeoutErr) Timeout() bool   { return true }
func (timeoutErr) Temporary() bool { return true }
func (timeoutErr) Unwrap() error   { return os.ErrDeadlineExceeded }

type scriptConn struct {
	j        int
	t        *trace
	script   []reaction
	inflight []piece // data pieces; eof marked by data == nil && delay == -1
	budget   int64   // ns allowed by the armed read deadline, -1 = none armed
	elapsed  int64
	closed   bool
	reads    int
	maxBuf   int // the largest buffer the client handed to Read
}

func (c *scriptConn) Read(p []byte) (int, error) {
	c.reads++
	if len(p) > c.maxBuf {
		c.maxBuf = len(p)
	}
	if c.reads > 300000 {
		panic("harness: more than 300000 reads in one session (the call does not return)")
	}
	if len(p) == 0 { // like a TCP connection: an empty buffer reads nothing, at once, whatever the deadline
		c.t.add(fmt.Sprintf("READ %d 0", c.j))
		return 0, nil
	}
	if len(c.inflight) == 0 {
		c.t.add(fmt.Sprintf("READ %d TIMEOUT", c.j))
		if c.budget < 0 {
			panic("harness: blocking read without a deadline")
		}
		return 0, &net.OpError{Op: "read", Net: "tcp", Err: timeoutErr{}}
	}
	pc := c.inflight[0]
	if c.budget >= 0 && c.elapsed+pc.delay > c.budget {
		c.t.add(fmt.Sprintf("READ %d TIMEOUT", c.j))
		return 0, &net.OpError{Op: "read", Net: "tcp", Err: timeoutErr{}}
	}
	if c.budget < 0 && pc.delay > 0 {
		panic("harness: blocking read without a deadline")
	}
	c.elapsed += pc.delay
	if pc.data == nil {
		c.inflight = c.inflight[1:]
		c.t.add(fmt.Sprintf("READ %d EOF", c.j))
		return 0, io.EOF
	}
	n := copy(p, pc.data)
	if n < len(pc.data) {
		c.inflight[0] = piece{data: pc.data[n:]}
	} else {
		c.inflight = c.inflight[1:]
	}
	c.t.add(fmt.Sprintf("READ %d %d", c.j, n))
	return n, nil
}
func (c *scriptConn) Write(p []byte) (int, error) {
	if len(c.script) == 0 {
		c.t.add(fmt.Sprintf("WRITE %d %s", c.j, hx(p)))
		return len(p), nil
	}
	r := c.script[0]
	c.script = c.script[1:]
	if r.writeFail && r.stall > 0 {
		// the peer drains a few bytes, then the armed write deadline passes: net.Conn reports the progress and a timeout
		n := r.stall
		if n >= len(p) {
			n = len(p) - 1
		}
		c.t.add(fmt.Sprintf("WRITEFAIL %d", c.j))
		return n, &net.OpError{Op: "write", Net: "tcp", Err: os.ErrDeadlineExceeded}
	}
	if r.writeFail {
		c.t.add(fmt.Sprintf("WRITEFAIL %d", c.j))
		return 0, &net.OpError{Op: "write", Net: "tcp", Err: io.ErrClosedPipe}
	}
	c.t.add(fmt.Sprintf("WRITE %d %s", c.j, hx(p)))
	c.inflight = append(c.inflight, r.pieces...)
	if r.eof {
		c.inflight = append(c.inflight, piece{data: nil, delay: 0})
	}
	return len(p), nil
}
func (c *scriptConn) Close() error {
	c.t.add(fmt.Sprintf("CLOSE %d", c.j))
	c.closed = true
	c.inflight, c.script = nil, nil
	return nil
}
func (c *scriptConn) LocalAddr() net.Addr  { return &net.TCPAddr{IP: net.IPv4(127, 0, 0, 1), Port: 1} }
func (c *scriptConn) RemoteAddr() net.Addr { return &net.TCPAddr{IP: net.IPv4(127, 0, 0, 1), Port: 2} }
func (c *scriptConn) SetDeadline(t time.Time) error {
	_ = c.SetReadDeadline(t)
	return c.SetWriteDeadline(t)
}
func (c *scriptConn) SetReadDeadline(t time.Time) error {
	d := time.Until(t)
	c.t.add(fmt.Sprintf("SETRD %d %d", c.j, msRound(d)))
	c.budget = msRound(d) * 1000000
	if t.IsZero() {
		c.budget = -1
	}
	c.elapsed = 0
	return nil
}
func (c *scriptConn) SetWriteDeadline(t time.Time) error {
	c.t.add(fmt.Sprintf("SETWD %d %d", c.j, msRound(time.Until(t))))
	return nil
}

// ---------------------------------------------------------------- the TCP device (tcp mode): never calls into package rscp
type device struct {
	ln     net.Listener
	key    []byte
	conns  [][]reaction
	mu     sync.Mutex
	frames [][]string // per accepted connection: the request frames (ciphertext hex) as cut by the device's own decryption
	plains []string   // plaintext of every request frame, in order of arrival
	naccpt int
	wg     sync.WaitGroup
	done   chan struct{}
	once   sync.Once
}

func newDevice(key string, conns [][]reaction) (*device, error) {
	ln, err := net.Listen("tcp", "127.0.0.1:0")
	if err != nil {
		return nil, err
	}
	d := &device{ln: ln, key: []byte(key), conns: conns, done: make(chan struct{})}
	go d.serve()
	return d, nil
}
func (d *device) port() uint16 { return uint16(d.ln.Addr().(*net.TCPAddr).Port) }
func (d *device) serve() {
	for {
		c, err := d.ln.Accept()
		if err != nil {
			return
		}
		d.mu.Lock()
		j := d.naccpt
		d.naccpt++
		d.frames = append(d.frames, nil)
		var script []reaction
		if j < len(d.conns) {
			script = d.conns[j]
		}
		d.mu.Unlock()
		d.wg.Add(1)
		go d.handle(c, j, script)
	}
}

// readFrame reads one encrypted request frame: the first block tells the size
func readFrame(c net.Conn, dec cipher.BlockMode) (plain, ct []byte, err error) {
	first := make([]byte, 32)
	if _, err := io.ReadFull(c, first); err != nil {
		return nil, nil, err
	}
	p := make([]byte, 32)
	dec.CryptBlocks(p, first)
	ds := int(binary.LittleEndian.Uint16(p[16:]))
	total := 18 + ds
	if p[3]&0x10 != 0 {
		total += 4
	}
	total = (total + 31) / 32 * 32
	if binary.LittleEndian.Uint16(p) != 0xDCE3 || total > 65568 {
		return p, first, fmt.Errorf("device: cannot decrypt the frame header")
	}
	ct = first
	if total > 32 {
		rest := make([]byte, total-32)
		if _, err := io.ReadFull(c, rest); err != nil {
			return p, ct, err
		}
		pr := make([]byte, len(rest))
		dec.CryptBlocks(pr, rest)
		p = append(p, pr...)
		ct = append(ct, rest...)
	}
	return p, ct, nil
}

func (d *device) handle(c net.Conn, j int, script []reaction) {
	defer d.wg.Done()
	defer c.Close()
	dec := decrypter(d.key, nil)
	for {
		_ = c.SetReadDeadline(time.Now().Add(3 * time.Second))
		p, ct, err := readFrame(c, dec)
		if p != nil {
			d.mu.Lock()
			if err != nil {
				d.frames[j] = append(d.frames[j], "UNDECRYPTABLE")
			} else {
				d.frames[j] = append(d.frames[j], hx(ct))
				d.plains = append(d.plains, hx(p))
			}
			d.mu.Unlock()
		}
		if err != nil {
			return
		}
		if len(script) == 0 {
			continue // silent
		}
		r := script[0]
		script = script[1:]
		for _, pc := range r.pieces {
			if pc.delay > 0 {
				select {
				case <-time.After(time.Duration(pc.delay)):
				case <-d.done: // the session is over: nobody waits for this reply any more
					return
				}
			}
			if _, err := c.Write(pc.data); err != nil {
				return
			}
		}
		if r.eof {
			return
		}
	}
}
func (d *device) close() {
	d.ln.Close()
	d.once.Do(func() { close(d.done) })
	d.wg.Wait()
}

// ---------------------------------------------------------------- running a session on the real client
type sessionResult struct {
	events  []string
	results []string
	frames  [][]string // tcp mode: frames per connection as the device saw them
	logtext string
	levels  []int // the shared logger's level after every call (attach mode)
}

func runSession(sc sessionCase) sessionResult {
	tr := &trace{}
	if sc.mode != "tcp" {
		// attach mode: the package logger and clock belong to this session (sessions run one at a time)
		logText.Reset()
		rscp.Log = logrus.New()
		rscp.Log.SetOutput(io.Discard)
		rscp.Log.SetLevel(logrus.Level(sc.level))
		rscp.Log.AddHook(logHook{tr})
		rscp.Now = func() time.Time { return time.Unix(sc.sec, sc.nsec) }
	}
	cfg := rscp.ClientConfig{Address: "127.0.0.1", Port: 1, Username: sc.user, Password: sc.pass, Key: sc.key,
		ConnectionTimeout: time.Duration(sc.ct), SendTimeout: time.Duration(sc.st), ReceiveTimeout: time.Duration(sc.rt), ReceiveBufferBlockSize: uint16(sc.rbuf)}
	switch sc.crc {
	case "true":
		cfg.UseChecksum = true
	case "false":
		cfg.UseChecksum = false
	}
	var dev *device
	if sc.mode == "tcp" {
		var err error
		if dev, err = newDevice(sc.key, sc.conns); err != nil {
			panic("harness: cannot listen on loopback: " + err.Error())
		}
		cfg.Port = dev.port()
	}
	cl, err := rscp.NewClient(cfg)
	if err != nil {
		return sessionResult{results: []string{"NEWCLIENT-ERR"}}
	}
	if sc.mode == "attach" && len(sc.conns) > 0 {
		attachConn(cl, &scriptConn{j: 0, t: tr, script: sc.conns[0], budget: -1})
	}
	var res sessionResult
	for ci, call := range sc.calls {
		if ci > 0 && sc.mode != "tcp" {
			res.levels = append(res.levels, int(rscp.Log.GetLevel()))
		}
		if call == "disc" {
			_ = cl.Disconnect()
			res.results = append(res.results, "OK ()")
			continue
		}
		if strings.HasPrefix(call, "send1 ") { // the single-request API
			ms := msgsOfSx(parseSxString(strings.TrimPrefix(call, "send1 ")))
			r, err := cl.Send(ms[0])
			switch {
			case err != nil:
				res.results = append(res.results, "ERR")
			case r == nil:
				res.results = append(res.results, "NILRESULT")
			default:
				res.results = append(res.results, "OK "+sxs([]rscp.Message{*r}))
			}
			continue
		}
		ms := msgsOfSx(parseSxString(strings.TrimPrefix(call, "send ")))
		rs, err := cl.SendMultiple(ms)
		if err != nil {
			res.results = append(res.results, "ERR")
		} else {
			res.results = append(res.results, "OK "+sxs(rs))
		}
	}
	if sc.mode != "tcp" {
		res.levels = append(res.levels, int(rscp.Log.GetLevel()))
	}
	tr.mu.Lock()
	res.events = append([]string{}, tr.ev...)
	tr.mu.Unlock()
	_ = cl.Disconnect()
	if dev != nil {
		dev.close()
		res.frames = dev.frames
	}
	if sc.mode != "tcp" {
		res.logtext = logText.String()
		rscp.Log = logrus.New()
		rscp.Log.SetOutput(io.Discard)
	}
	return res
}

// the canonical result line of a session: events ; ... || results ; ...
func sessionLine(sc sessionCase, r sessionResult) string {
	var ev []string
	if sc.mode == "tcp" {
		// over real TCP the segmentation and the deadlines are not deterministic: the observable is what the device saw
		for j, fs := range r.frames {
			for _, f := range fs {
				ev = append(ev, fmt.Sprintf("FRAME %d %s", j, f))
			}
		}
	} else {
		ev = r.events
	}
	return strings.Join(ev, " ; ") + " || " + strings.Join(r.results, " ; ")
}
