package main

// Access to the client's unexported fields by TYPE instead of by name, so that a rename inside package rscp does not break the
// harness: the connection (the one field of interface type net.Conn), the effective configuration (the one field of type
// rscp.ClientConfig) and the address connect() dials (the one field of kind string). When a field cannot be identified the
// harness stops with exit status 3 and says so: the check then reports a broken tie (no failing input), never a failing input.

import (
	"fmt"
	"net"
	"os"
	"reflect"
	"unsafe"

	"github.com/spali/go-rscp/rscp"
)

var netConnType = reflect.TypeOf((*net.Conn)(nil)).Elem()

func clientField(cl *rscp.Client, what string, want func(reflect.StructField) bool) reflect.Value {
	v := reflect.ValueOf(cl).Elem()
	idx := -1
	for i := 0; i < v.NumField(); i++ {
		if want(v.Type().Field(i)) {
			if idx >= 0 {
				hooksUnavailable("rscp.Client has more than one " + what)
			}
			idx = i
		}
	}
	if idx < 0 {
		hooksUnavailable("rscp.Client has no " + what)
	}
	f := v.Field(idx)
	return reflect.NewAt(f.Type(), unsafe.Pointer(f.UnsafeAddr())).Elem()
}

func hooksUnavailable(why string) {
	fmt.Fprintln(os.Stderr, "harness: cannot reach into the client: "+why)
	os.Exit(3)
}

// attachConn installs an already established connection (the deterministic in-memory transport).
func attachConn(cl *rscp.Client, conn net.Conn) {
	clientField(cl, "field of type net.Conn", func(f reflect.StructField) bool { return f.Type == netConnType }).Set(reflect.ValueOf(conn))
}

// effectiveConfig returns the configuration after defaults were applied.
func effectiveConfig(cl *rscp.Client) rscp.ClientConfig {
	t := reflect.TypeOf(rscp.ClientConfig{})
	return clientField(cl, "field of type ClientConfig", func(f reflect.StructField) bool { return f.Type == t }).Interface().(rscp.ClientConfig)
}

// dialAddress returns the address connect() dials.
func dialAddress(cl *rscp.Client) string {
	return clientField(cl, "field of kind string (the address to dial)", func(f reflect.StructField) bool { return f.Type.Kind() == reflect.String }).String()
}
