package main

import (
	"bytes"
	"encoding/json"
	"fmt"
	"os"
	"os/exec"
	"path/filepath"
	"strconv"
	"strings"
	"sync/atomic"
	"time"

	"github.com/spali/go-rscp/rscp"
)

// CLI <help> <version> <flagerr> <host01> <user01> <pass01> <key01> <reqsrc> <reqhex> <outfmt> <split01> <cfg> <pair01> | <ast|-> | conns | table
type cliCase struct {
	help, version             bool
	flagerr                   int
	host, user, pass, key     bool
	reqsrc, reqhex, outfmt    string
	split                     bool
	cfg                       string
	pair                      bool
	ast, connsStr, table, raw string
	conns                     [][]reaction
}

const cliUser, cliPass, cliKey = "cliuser", "cliPa55word", "clikey"

func parseCli(c string) cliCase {
	parts := strings.Split(c, " | ")
	f := strings.Fields(parts[0])
	cc := cliCase{help: f[1] == "1", version: f[2] == "1", host: f[4] == "1", user: f[5] == "1", pass: f[6] == "1", key: f[7] == "1",
		reqsrc: f[8], reqhex: f[9], outfmt: f[10], split: f[11] == "1", cfg: f[12], pair: f[13] == "1", raw: c}
	cc.flagerr, _ = strconv.Atoi(f[3])
	cc.ast, cc.connsStr, cc.table = parts[1], parts[2], parts[3]
	sc := parseSession("S - - - true 0 0 0 0 0 0 0 tcp | " + parts[2] + " | disc")
	cc.conns = sc.conns
	return cc
}

var cliCounter int64

func runCli(cc cliCase) string {
	bin := os.Getenv("VERIF_E3DC")
	if bin == "" {
		panic("harness: VERIF_E3DC is not set")
	}
	dir := filepath.Join(os.Getenv("VERIF_WORK"), fmt.Sprintf("cli.%d.%d", os.Getpid(), atomic.AddInt64(&cliCounter, 1)))
	if err := os.MkdirAll(dir, 0o755); err != nil {
		panic("harness: " + err.Error())
	}
	defer os.RemoveAll(dir)
	dev, err := newDevice(cliKey, cc.conns)
	if err != nil {
		panic("harness: cannot listen")
	}
	defer dev.close()
	var args []string
	if cc.help {
		args = append(args, "-help")
	}
	if cc.version {
		args = append(args, "-version")
	}
	switch cc.flagerr {
	case 1:
		args = append(args, "-nosuchflag")
	case 2:
		args = append(args, "-port", "notanumber")
	case 3:
		args = append(args, "-config", filepath.Join(dir, "does-not-exist.conf"))
	case 4: // a configuration file that cannot be read: it is a directory
		_ = os.Mkdir(filepath.Join(dir, "confdir"), 0o755)
		args = append(args, "-config", filepath.Join(dir, "confdir"))
	case 5: // ... it lies below a regular file
		_ = os.WriteFile(filepath.Join(dir, "plainfile"), []byte("x\n"), 0o644)
		args = append(args, "-config", filepath.Join(dir, "plainfile", "e3dc.conf"))
	case 6: // ... the default .config of the working directory is a directory
		_ = os.Mkdir(filepath.Join(dir, ".config"), 0o755)
	}
	if cc.host {
		args = append(args, "-host", "127.0.0.1")
	}
	if cc.flagerr != 2 {
		args = append(args, "-port", fmt.Sprint(dev.port()))
	}
	cfgUser := false
	if cc.cfg == "present" { // the user name comes from a config file in the working directory
		_ = os.WriteFile(filepath.Join(dir, ".config"), []byte("user "+cliUser+"\n"), 0o644)
		cfgUser = true
	}
	if cc.user && !cfgUser {
		args = append(args, "-user", cliUser)
	}
	if cc.pass {
		args = append(args, "-password", cliPass)
	}
	if cc.key {
		args = append(args, "-key", cliKey)
	}
	if cc.outfmt == "EMPTY" {
		args = append(args, "-output", "")
	} else if cc.outfmt != "default" {
		args = append(args, "-output", cc.outfmt)
	}
	if cc.split {
		args = append(args, "-splitrequests")
	}
	var stdin []byte
	req := string(unhx(cc.reqhex))
	switch cc.reqsrc {
	case "arg":
		args = append(args, req)
	case "file":
		p := filepath.Join(dir, "request.json")
		_ = os.WriteFile(p, []byte(req), 0o644)
		args = append(args, "-file", p)
	case "badfile":
		args = append(args, "-file", filepath.Join(dir, "missing.json"))
	case "stdin":
		stdin = []byte(req)
	}
	cmd := exec.Command(bin, args...)
	cmd.Dir = dir
	cmd.Env = []string{"PATH=/usr/bin:/bin", "HOME=" + dir}
	cmd.Stdin = bytes.NewReader(stdin)
	var so, se bytes.Buffer
	cmd.Stdout, cmd.Stderr = &so, &se
	done := make(chan error, 1)
	if err := cmd.Start(); err != nil {
		panic("harness: cannot start e3dc: " + err.Error())
	}
	go func() { done <- cmd.Wait() }()
	status := 0
	select {
	case err := <-done:
		if ee, ok := err.(*exec.ExitError); ok {
			status = ee.ExitCode()
		} else if err != nil {
			status = -1
		}
	case <-time.After(15 * time.Second):
		_ = cmd.Process.Kill()
		return "HANG"
	}
	dev.close()
	panicTrace := strings.Contains(se.String(), "goroutine ") || strings.Contains(se.String(), "panic:")
	var frames []string
	dev.mu.Lock()
	k := 0
	for j, fs := range dev.frames {
		for range fs {
			v := "UNDECODABLE"
			if k < len(dev.plains) {
				p := unhx(dev.plains[k])
				r := implFeed([]byte("k"), nil, [][]byte{crypt(encrypter([]byte("k"), nil), p)})
				if strings.HasPrefix(r[0], "ACCEPT ") {
					v = strings.TrimPrefix(r[0], "ACCEPT ")
				}
			}
			k++
			frames = append(frames, fmt.Sprintf("FRAME %d %s", j, v))
		}
	}
	dev.mu.Unlock()
	return fmt.Sprintf("status=%d stdout=%s stderr=%s panic=%s || %s", status, hx(so.Bytes()), b01(se.Len() > 0), b01(panicTrace), strings.Join(frames, " ; "))
}

func cliLine(cc cliCase, reqText string, top *jn, conns [][]reaction, replyMsgs []rscp.Message) string {
	tbl := map[string]string{}
	leafOracle(replyMsgs, tbl)
	b, _ := json.Marshal(time.Unix(0, 0).UTC())
	tbl["time:0:0"] = hx(b)
	var parts []string
	for k, v := range tbl {
		if v == "" {
			parts = append(parts, k)
		} else {
			parts = append(parts, k+"="+v)
		}
	}
	sortStrings(parts)
	ast := "-"
	if top != nil {
		ast = top.ast()
	}
	sc := sessionCase{conns: conns}
	full := sc.line()
	connsStr := strings.Split(full, " | ")[1]
	return fmt.Sprintf("CLI %s %s %d %s %s %s %s %s %s %s %s %s %s | %s | %s | %s", b01(cc.help), b01(cc.version), cc.flagerr, b01(cc.host), b01(cc.user), b01(cc.pass), b01(cc.key),
		cc.reqsrc, hx([]byte(reqText)), cc.outfmt, b01(cc.split), cc.cfg, b01(cc.pair), ast, connsStr, strings.Join(parts, " "))
}

func init() {
	props["C15"] = &prop{
		parallel: 8,
		rule:     "the e3dc binary built from the working tree, run in an empty scratch directory with a clean environment against a scripted TCP device: request texts {valid in all notations, malformed, empty, []} x output {json, jsonsimple, jsonmerged, default, unknown} x split on/off x device behaviour {answer, refuse authentication, close, garble, bad CRC} x request as argument / -file / stdin / missing / unreadable file x .config present/absent x each required flag missing x -help, -version, unknown flag, bad flag value, unreadable explicit config; observable = exit status, stdout (exactly one JSON document, or empty), stderr (non-empty, no panic trace), the requests the device received per connection; non-trivial = the run gets past flag checking; distinct by case line",
		gen: func(tier string, r *rng, emit func(string)) {
			base := func() cliCase {
				return cliCase{host: true, user: true, pass: true, key: true, reqsrc: "arg", outfmt: []string{"json", "jsonsimple", "jsonmerged", "default"}[r.intn(4)], cfg: "none"}
			}
			n := tierPick(tier, 300, 3000)
			for i := 0; i < n; i++ {
				cc := base()
				// the request: 1..3 trees in mixed notations
				k := 1 + r.intn(3)
				var js []*jn
				var reqs []rscp.Message
				for j := 0; j < k; j++ {
					t := genRtree(r, r.intn(3))
					t.tag &^= 1 << 23 // request tags only, so that validation passes
					if t.tag.IsATag() && t.tag.DataType() != t.dt {
						t.explicit = true
					}
					if !t.tag.IsATag() {
						t.byName, t.explicit = false, true
					}
					assignNotation(r, t)
					js = append(js, t.json())
					reqs = append(reqs, t.message())
				}
				top := jarr(js...)
				text := top.text()
				cc.split = r.intn(3) == 0
				cc.reqsrc = []string{"arg", "arg", "file", "stdin"}[r.intn(4)]
				if r.intn(12) == 0 {
					cc.cfg = "present"
				}
				// the device
				sc := sessionCase{key: cliKey, crc: "true"}
				var nonce uint32
				behaviour := []string{"answer", "answer", "answer", "refuse", "close", "garbled", "badcrc"}[r.intn(7)]
				nex := 1
				if cc.split {
					nex = k
				}
				kinds := []string{"auth-ok"}
				if behaviour == "refuse" {
					kinds = []string{"auth-refuse"}
				}
				var replyMsgs []rscp.Message
				pc := newPeerConn(cliKey)
				var rs []reaction
				rs = append(rs, answer(pc.reply(authReply(map[bool]uint8{true: 0, false: 10}[behaviour == "refuse"]), true)))
				for e := 0; e < nex; e++ {
					switch {
					case behaviour == "answer" || (e < nex-1):
						nonce++
						var rep []rscp.Message
						if cc.split || r.intn(2) == 0 {
							rep = genResponse(r, 2, []rscp.Tag{rscp.BAT_DATA, rscp.BAT_RSOC, rscp.PVI_DATA, rscp.Tag(0x7f800001)})
							for len(rep) == 0 {
								rep = nonceReply(nonce)
							}
						} else {
							rep = nonceReply(nonce)
						}
						if cc.split {
							replyMsgs = append(replyMsgs, rep[0])
						} else {
							replyMsgs = append(replyMsgs, rep...)
						}
						rs = append(rs, answer(pc.reply(rep, true)))
					case behaviour == "close":
						rs = append(rs, reaction{eof: true})
					case behaviour == "garbled":
						g := r.bytes(32)
						g[0] = 0
						rs = append(rs, answer(pc.raw(g)))
					case behaviour == "badcrc":
						rs = append(rs, buildConn(r, &sc, []string{"badcrc"}, &nonce, func() int { return 1 })...)
					}
				}
				_ = kinds
				emit(cliLine(cc, text, top, [][]reaction{rs}, replyMsgs))
			}
			// -splitrequests against a device that answers every request with one message: same output as unsplit
			np := tierPick(tier, 40, 400)
			for i := 0; i < np; i++ {
				cc := base()
				cc.split, cc.pair = true, true
				k := 2 + r.intn(3)
				var js []*jn
				var rep []rscp.Message
				for j := 0; j < k; j++ {
					js = append(js, jstr([]string{"EMS_REQ_POWER_PV", "EMS_REQ_POWER_BAT", "BAT_REQ_RSOC", "INFO_REQ_SERIAL_NUMBER"}[r.intn(4)]))
					rep = append(rep, genResponse(r, 1, []rscp.Tag{rscp.Tag(0x00800100 + uint32(j))})...)
					for len(rep) < j+1 {
						rep = append(rep, rscp.Message{Tag: rscp.Tag(0x00800100 + uint32(j)), DataType: rscp.UInt16, Value: uint16(j)})
					}
					rep = rep[:j+1]
				}
				top := jarr(js...)
				pc := newPeerConn(cliKey)
				rs := []reaction{answer(pc.reply(authReply(10), true))}
				for j := 0; j < k; j++ {
					rs = append(rs, answer(pc.reply([]rscp.Message{rep[j]}, true)))
				}
				emit(cliLine(cc, top.text(), top, [][]reaction{rs}, rep))
			}
			// flags, configuration, request sources, malformed and empty texts
			okConn := func() ([][]reaction, []rscp.Message) {
				pc := newPeerConn(cliKey)
				rep := nonceReply(1)
				return [][]reaction{{answer(pc.reply(authReply(10), true)), answer(pc.reply(rep, true))}}, rep
			}
			pv := jarr(jstr("EMS_REQ_POWER_PV"))
			special := func(mod func(*cliCase), text string, top *jn) {
				cc := base()
				mod(&cc)
				conns, rep := okConn()
				emit(cliLine(cc, text, top, conns, rep))
			}
			{ // a well-formed reply frame without any message: as the authentication answer, and as an answer under -splitrequests
				cc := base()
				pc := newPeerConn(cliKey)
				emit(cliLine(cc, pv.text(), pv, [][]reaction{{answer(pc.reply([]rscp.Message{}, true))}}, nil))
				cc2 := base()
				cc2.split = true
				pc2 := newPeerConn(cliKey)
				two := jarr(jstr("EMS_REQ_POWER_PV"), jstr("EMS_REQ_POWER_BAT"))
				emit(cliLine(cc2, two.text(), two, [][]reaction{{answer(pc2.reply(authReply(10), true)), answer(pc2.reply([]rscp.Message{}, true))}}, nil))
			}
			special(func(c *cliCase) { c.help = true }, pv.text(), pv)
			special(func(c *cliCase) { c.version = true }, pv.text(), pv)
			special(func(c *cliCase) { c.help = true; c.host = false }, pv.text(), pv)
			for fe := 1; fe <= 6; fe++ {
				fe := fe
				special(func(c *cliCase) { c.flagerr = fe }, pv.text(), pv)
			}
			special(func(c *cliCase) { c.host = false }, pv.text(), pv)
			special(func(c *cliCase) { c.user = false }, pv.text(), pv)
			special(func(c *cliCase) { c.pass = false }, pv.text(), pv)
			special(func(c *cliCase) { c.key = false }, pv.text(), pv)
			special(func(c *cliCase) { c.reqsrc = "none" }, "", nil)
			special(func(c *cliCase) { c.reqsrc = "badfile" }, "", nil)
			special(func(c *cliCase) { c.reqsrc = "arg" }, "", nil)
			special(func(c *cliCase) { c.reqsrc = "stdin" }, "", nil)
			special(func(c *cliCase) { c.outfmt = "xml" }, pv.text(), pv)
			special(func(c *cliCase) { c.outfmt = "EMPTY" }, pv.text(), pv)
			special(func(c *cliCase) { c.cfg = "present" }, pv.text(), pv)
			for _, src := range []string{"arg", "file", "stdin"} {
				src := src
				special(func(c *cliCase) { c.reqsrc = src }, pv.text(), pv)
				special(func(c *cliCase) { c.reqsrc = src }, "[]", jarr())
				special(func(c *cliCase) { c.reqsrc = src; c.split = true }, "[]", jarr())
				special(func(c *cliCase) { c.reqsrc = src }, "{\"Tag\":\"EMS_REQ_POWER_PV\"}", jobj(jstr("EMS_REQ_POWER_PV"), nil, nil))
				special(func(c *cliCase) { c.reqsrc = src }, "[\"NO_SUCH_TAG\"]", jarr(jstr("NO_SUCH_TAG")))
				special(func(c *cliCase) { c.reqsrc = src }, "[[\"EMS_REQ_POWER_PV\",\"UInt16\",70000]]", jarr(jarr(jstr("EMS_REQ_POWER_PV"), jstr("UInt16"), jnum("70000"))))
				special(func(c *cliCase) { c.reqsrc = src }, "[\"EMS_POWER_PV\"]", jarr(jstr("EMS_POWER_PV"))) // a response tag: refused by validation after authentication
				// an acceptable element followed by an unacceptable one, unsplit and split: nothing may be transmitted
				for _, sp := range []bool{false, true} {
					sp := sp
					multi := func(text string, top *jn) {
						cc := base()
						cc.reqsrc, cc.split = src, sp
						pc := newPeerConn(cliKey)
						rs := []reaction{answer(pc.reply(authReply(10), true))}
						for j := uint32(1); j <= 3; j++ {
							rs = append(rs, answer(pc.reply(nonceReply(j), true)))
						}
						emit(cliLine(cc, text, top, [][]reaction{rs}, nil))
					}
					multi("[\"EMS_REQ_POWER_PV\",\"NO_SUCH_TAG\"]", jarr(jstr("EMS_REQ_POWER_PV"), jstr("NO_SUCH_TAG")))
					multi("[\"EMS_REQ_POWER_PV\",\"EMS_REQ_POWER_BAT\",[\"BAT_REQ_RSOC\",\"UInt16\",70000]]",
						jarr(jstr("EMS_REQ_POWER_PV"), jstr("EMS_REQ_POWER_BAT"), jarr(jstr("BAT_REQ_RSOC"), jstr("UInt16"), jnum("70000"))))
				}
				special(func(c *cliCase) { c.reqsrc = src }, "[this is not json", jnull())
				special(func(c *cliCase) { c.reqsrc = src }, "not json at all", jnull())
			}
		},
		run: func(c string) string { return runCli(parseCli(c)) },
		pred: func(c, res string) string {
			if strings.HasPrefix(res, "PANIC") || res == "HANG" {
				return "running e3dc: " + shorten(res, 200)
			}
			cc := parseCli(c)
			kv := _kv(strings.SplitN(res, " || ", 2)[0])
			out := unhx(kv["stdout"])
			if kv["panic"] == "1" {
				return "the command ends with a Go panic trace"
			}
			if cc.help || cc.version {
				if kv["status"] != "0" || len(out) != 0 || kv["stderr"] != "1" {
					return "-help / -version do not print to standard error with status 0: " + shorten(res, 100)
				}
				return ""
			}
			if kv["status"] == "0" {
				// exactly one JSON value, however it is laid out (json.Valid accepts one value surrounded by white space only)
				if len(bytes.TrimSpace(out)) == 0 || !json.Valid(out) {
					return "status 0 without exactly one JSON document on standard output"
				}
			} else {
				if len(out) != 0 {
					return "a failing run printed to standard output"
				}
				if kv["stderr"] != "1" {
					return "a failing run printed no diagnostic on standard error"
				}
			}
			if cc.split && kv["status"] == "0" {
				// each top-level request travelled in its own frame, in order
				parts := strings.SplitN(res, " || ", 2)
				var user []string
				for _, f := range strings.Split(parts[1], " ; ") {
					ff := strings.SplitN(f, " ", 3)
					if len(ff) == 3 && !strings.HasPrefix(ff[2], "((1 14 ") {
						user = append(user, ff[2])
					}
				}
				for _, u := range user {
					if strings.Count(u, "(")-strings.Count(u, "((")*0 > 0 && countTop(u) != 1 {
						return "with -splitrequests a frame carried more than one top-level request"
					}
				}
			}
			if cc.pair && kv["status"] == "0" {
				twin := cc
				twin.split, twin.pair = false, false
				// the unsplit run against a device that answers with the same messages in one reply
				var all []byte
				pdec := decrypter([]byte(cliKey), nil)
				var msgs []string
				for k, rc := range cc.conns[0] {
					for _, pc := range rc.pieces {
						all = pc.data
					}
					p := crypt(pdec, all)
					if k == 0 {
						continue
					}
					v := implFeed([]byte("k"), nil, [][]byte{crypt(encrypter([]byte("k"), nil), p)})
					msgs = append(msgs, strings.TrimSuffix(strings.TrimPrefix(v[0], "ACCEPT ("), ")"))
				}
				rep := msgsOfSx(parseSxString("(" + strings.Join(msgs, " ") + ")"))
				pc := newPeerConn(cliKey)
				twin.conns = [][]reaction{{answer(pc.reply(authReply(10), true)), answer(pc.reply(rep, true))}}
				r2 := runCli(twin)
				if _kv(strings.SplitN(r2, " || ", 2)[0])["stdout"] != kv["stdout"] {
					return "the output of the split run differs from the output of the unsplit run"
				}
			}
			return ""
		},
		class: func(c, res string) string {
			kv := _kv(strings.SplitN(res, " || ", 2)[0])
			if kv["status"] == "0" {
				if kv["stdout"] == "-" {
					return "status0:no-output"
				}
				return "status0:document"
			}
			return "status" + kv["status"]
		},
		nontrivial: func(c, res string) bool {
			cc := parseCli(c)
			return !cc.help && !cc.version && cc.flagerr == 0 && cc.host && cc.user && cc.pass && cc.key
		},
	}
}

// countTop counts the top-level items of an S-expression list "((..) (..))"
func countTop(s string) int {
	depth, n := 0, 0
	for _, ch := range s {
		switch ch {
		case '(':
			depth++
			if depth == 2 {
				n++
			}
		case ')':
			depth--
		}
	}
	return n
}
