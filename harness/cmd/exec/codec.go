package main

import (
	"crypto/cipher"
	"encoding/binary"
	"errors"
	"fmt"
	"hash/crc32"
	"math/bits"
	"strconv"
	"strings"
	"time"

	"github.com/azihsoyn/rijndael256"
	"github.com/spali/go-rscp/rscp"
)

// ---- harness-owned cipher states (crypto/cipher + rijndael256, never package rscp's own) ----
func keyBytes(key []byte) []byte {
	k := make([]byte, 32)
	for i := range k {
		k[i] = 0xff
	}
	copy(k, key)
	return k
}
func ivOr0(iv []byte) []byte {
	if len(iv) == 32 {
		return append([]byte{}, iv...)
	}
	v := make([]byte, 32)
	for i := range v {
		v[i] = 0xff
	}
	return v
}
func encrypter(key, iv []byte) cipher.BlockMode {
	b, _ := rijndael256.NewCipher(keyBytes(key))
	return cipher.NewCBCEncrypter(b, ivOr0(iv))
}
func decrypter(key, iv []byte) cipher.BlockMode {
	b, _ := rijndael256.NewCipher(keyBytes(key))
	return cipher.NewCBCDecrypter(b, ivOr0(iv))
}
func crypt(m cipher.BlockMode, in []byte) []byte {
	out := make([]byte, len(in))
	m.CryptBlocks(out, in)
	return out
}

// one call of rscp.Read, classified
type readState struct {
	mode cipher.BlockMode
	buf  []byte
	crc  bool
	fs   uint32
	ds   uint16
}

func (s *readState) step(chunk []byte) string {
	cp := append([]byte{}, chunk...)
	ms, err := rscp.Read(&s.mode, &s.buf, &s.crc, &s.fs, &s.ds, cp)
	switch {
	case err == nil:
		return "ACCEPT " + sxs(ms)
	case errors.Is(err, rscp.ErrRscpInvalidFrameLength):
		if len(s.buf) > 0 && len(s.buf) >= int(s.fs) {
			return "REJECT" // complete frame followed by data that is not padding
		}
		return "NEED"
	default:
		return "REJECT"
	}
}

// feed delivers the chunks one by one until a verdict other than NEED
func implFeed(key, iv []byte, chunks [][]byte) []string {
	s := &readState{mode: decrypter(key, iv)}
	var out []string
	for _, c := range chunks {
		v := s.step(c)
		out = append(out, v)
		if v != "NEED" {
			break
		}
	}
	return out
}

func implWrite(key, iv []byte, crc bool, sec, nsec int64, ms []rscp.Message) ([]byte, error) {
	rscp.Now = func() time.Time { return time.Unix(sec, nsec) }
	m := encrypter(key, iv)
	return rscp.Write(&m, ms, crc)
}

func parseW(c string) (key, iv []byte, crc bool, sec, nsec int64, ms []rscp.Message) {
	f := strings.SplitN(c, " ", 7)
	key, iv = unhx(f[1]), unhx(f[2])
	crc = f[3] == "1"
	sec, _ = strconv.ParseInt(f[4], 10, 64)
	nsec, _ = strconv.ParseInt(f[5], 10, 64)
	ms = msgsOfSx(parseSxString(f[6]))
	return
}

func splitChunks(b []byte, sizes []int) [][]byte {
	var out [][]byte
	for _, n := range sizes {
		if n > len(b) {
			n = len(b)
		}
		out = append(out, b[:n])
		b = b[n:]
	}
	if len(b) > 0 {
		out = append(out, b)
	}
	return out
}

func runCodec(c string) string {
	f := strings.Fields(c)
	switch f[0] {
	case "W":
		key, iv, crc, sec, nsec, ms := parseW(c)
		ct, err := implWrite(key, iv, crc, sec, nsec, ms)
		if err != nil {
			return "ERR"
		}
		p := crypt(decrypter(key, iv), ct)
		rt := implFeed(key, iv, [][]byte{ct})
		return fmt.Sprintf("c=%s p=%s rt=%s", hx(ct), hx(p), rt[len(rt)-1])
	case "WS":
		// WS key crc | sec nsec (msgs) | sec nsec (msgs) ...   one chained pair of cipher states
		parts := strings.Split(c, " | ")
		hd := strings.Fields(parts[0])
		key, crc := unhx(hd[1]), hd[2] == "1"
		em := encrypter(key, nil)
		rs := &readState{mode: decrypter(key, nil)}
		var out []string
		for _, fr := range parts[1:] {
			ff := strings.SplitN(fr, " ", 3)
			sec, _ := strconv.ParseInt(ff[0], 10, 64)
			nsec, _ := strconv.ParseInt(ff[1], 10, 64)
			ms := msgsOfSx(parseSxString(ff[2]))
			rscp.Now = func() time.Time { return time.Unix(sec, nsec) }
			ct, err := rscp.Write(&em, ms, crc)
			if err != nil {
				out = append(out, "ERR")
				continue
			}
			rs.buf, rs.fs, rs.ds, rs.crc = nil, 0, 0, false
			out = append(out, "c="+hx(ct)+" rt="+rs.step(ct))
		}
		return strings.Join(out, " | ")
	case "R", "XR":
		key, iv := unhx(f[1]), unhx(f[2])
		var chunks [][]byte
		for _, h := range f[3:] {
			chunks = append(chunks, unhx(h))
		}
		return strings.Join(implFeed(key, iv, chunks), " ; ")
	case "RC":
		// pieces fed one after the other to ONE decoding state, going on after a refusal as well (a caller may): nothing is
		// claimed about the verdicts after the first refusal, only that no call panics or hangs
		s := &readState{mode: decrypter(unhx(f[1]), unhx(f[2]))}
		for _, h := range f[3:] {
			s.step(unhx(h))
		}
		return "FED"
	case "D":
		// a plaintext: encrypted by the harness, read in one piece
		p := unhx(f[1])
		ct := crypt(encrypter([]byte("k"), nil), p)
		v := implFeed([]byte("k"), nil, [][]byte{ct})
		return v[0]
	case "X":
		// X <plain of a valid checksummed frame> <error mask>: the altered frame, read in one piece
		orig, mask := unhx(f[1]), unhx(f[2])
		alt := append([]byte{}, orig...)
		for i := range mask {
			alt[i] ^= mask[i]
		}
		vo := implFeed([]byte("k"), nil, [][]byte{crypt(encrypter([]byte("k"), nil), orig)})
		va := implFeed([]byte("k"), nil, [][]byte{crypt(encrypter([]byte("k"), nil), alt)})
		return "orig=" + strings.ReplaceAll(vo[0], " ", "_") + " got=" + va[0]
	case "XC":
		// XC key <ciphertext of a valid checksummed frame> <error mask on the ciphertext>
		key, ct, mask := unhx(f[1]), unhx(f[2]), unhx(f[3])
		alt := append([]byte{}, ct...)
		for i := range mask {
			alt[i] ^= mask[i]
		}
		va := implFeed(key, nil, [][]byte{alt})
		return va[0]
	case "CRC":
		return fmt.Sprint(crc32.ChecksumIEEE(unhx(f[1])))
	case "ENC":
		key, iv, p := unhx(f[1]), unhx(f[2]), unhx(f[3])
		ct := crypt(encrypter(key, iv), p)
		return hx(ct) + " " + hx(ct[len(ct)-32:])
	}
	return "?"
}

// ---- a TLV walker used ONLY to locate fields for mutation (never to decide a verdict) ----
type field struct {
	typeOff, lenOff, valOff, valLen int
	depth                           int
}

func walk(p []byte, off, end, depth int, out *[]field) {
	for off+7 <= end {
		l := int(binary.LittleEndian.Uint16(p[off+5:]))
		fl := field{typeOff: off + 4, lenOff: off + 5, valOff: off + 7, valLen: l, depth: depth}
		*out = append(*out, fl)
		if off+7+l > end {
			return
		}
		if p[off+4] == 14 {
			walk(p, off+7, off+7+l, depth+1, out)
		}
		off += 7 + l
	}
}

func frameFields(p []byte) []field {
	var fs []field
	if len(p) < 18 {
		return nil
	}
	ds := int(binary.LittleEndian.Uint16(p[16:]))
	end := 18 + ds
	if end > len(p) {
		end = len(p)
	}
	walk(p, 18, end, 0, &fs)
	return fs
}

func repairCRC(p []byte) {
	if len(p) < 18 || p[3]&0x10 == 0 {
		return
	}
	end := 18 + int(binary.LittleEndian.Uint16(p[16:]))
	if end+4 <= len(p) {
		binary.LittleEndian.PutUint32(p[end:], crc32.ChecksumIEEE(p[:end]))
	}
}

func plainOf(r *rng, ms []rscp.Message, crc bool) []byte {
	sec, nsec := int64(r.u64()>>uint(r.intn(64))), int64(r.intn(1000000000))
	if r.intn(4) == 0 {
		sec = -sec
	}
	ct, err := implWrite([]byte("k"), nil, crc, sec, nsec, ms)
	if err != nil {
		return nil
	}
	return crypt(decrypter([]byte("k"), nil), ct)
}

// seedFrames: valid plaintext frames of varied structure
func seedFrames(r *rng, n int) [][]byte {
	var out [][]byte
	special := [][]rscp.Message{
		{},
		{{Tag: 1, DataType: rscp.None}},
		{{Tag: 0x01000001, DataType: rscp.Container, Value: []rscp.Message{}}},
		{{Tag: 0x01000001, DataType: rscp.Container, Value: []rscp.Message{{Tag: 2, DataType: rscp.Container, Value: []rscp.Message{{Tag: 3, DataType: rscp.Container,
			Value: []rscp.Message{{Tag: 4, DataType: rscp.UInt16, Value: uint16(513)}, {Tag: 5, DataType: rscp.None}}}, {Tag: 6, DataType: rscp.CString, Value: "ab"}}}, {Tag: 7, DataType: rscp.Bool, Value: true}}}},
		{{Tag: 8, DataType: rscp.Timestamp, Value: time.Unix(-1, 999999999).UTC()}, {Tag: 9, DataType: rscp.ByteArray, Value: []byte{}}, {Tag: 10, DataType: rscp.CString, Value: ""}},
		{{Tag: 11, DataType: rscp.Container, Value: []rscp.Message{{Tag: 12, DataType: rscp.UInt16, Value: uint16(1)}, {Tag: 13, DataType: rscp.UInt16, Value: uint16(2)}}}, {Tag: 14, DataType: rscp.Error, Value: rscp.RscpError(7)}},
	}
	for _, ms := range special {
		for _, crc := range []bool{true, false} {
			out = append(out, plainOf(r, ms, crc))
		}
	}
	for len(out) < n {
		out = append(out, plainOf(r, genMsgs(r, 3, 12, false), r.intn(4) != 0))
	}
	return out
}

var lenEdits = []int{0, 1, -1001, -1002, 65528, 65529, 65535} // -1001 = len-1, -1002 = len+1

// structural mutations of one valid plaintext frame
func mutations(r *rng, p []byte, tier string, emit func([]byte)) {
	put16 := func(q []byte, off int, orig int, e int) {
		v := e
		if e == -1001 {
			v = orig - 1
		} else if e == -1002 {
			v = orig + 1
		}
		binary.LittleEndian.PutUint16(q[off:], uint16(v))
	}
	fix := func(q []byte) []byte {
		if r.intn(4) != 0 {
			repairCRC(q)
		}
		return q
	}
	fs := frameFields(p)
	// frame length field
	ds := int(binary.LittleEndian.Uint16(p[16:]))
	for _, e := range lenEdits {
		q := append([]byte{}, p...)
		put16(q, 16, ds, e)
		emit(fix(q))
	}
	// every item length field, at every nesting level
	for _, fl := range fs {
		for _, e := range lenEdits {
			q := append([]byte{}, p...)
			put16(q, fl.lenOff, fl.valLen, e)
			emit(fix(q))
		}
	}
	// the type byte of every item
	for _, fl := range fs {
		codes := []int{0, 1, 13, 14, 15, 16, 17, 18, 0x20, 0x7f, 0x80, 0xfe, 0xff, r.intn(256), r.intn(256)}
		if tier == "thorough" {
			codes = codes[:0]
			for c := 0; c < 256; c++ {
				codes = append(codes, c)
			}
		}
		for _, c := range codes {
			q := append([]byte{}, p...)
			q[fl.typeOff] = byte(c)
			emit(fix(q))
		}
	}
	// truncation to every block count, extension by zero and non-zero blocks
	for n := 32; n < len(p); n += 32 {
		emit(append([]byte{}, p[:n]...))
	}
	for k := 1; k <= 3; k++ {
		emit(append(append([]byte{}, p...), make([]byte, 32*k)...))
		q := append(append([]byte{}, p...), make([]byte, 32*k)...)
		q[len(p)+r.intn(32*k)] = byte(1 + r.intn(255))
		emit(q)
	}
	// padding content
	end := 18 + ds
	if p[3]&0x10 != 0 {
		end += 4
	}
	if end < len(p) {
		q := append([]byte{}, p...)
		q[end+r.intn(len(p)-end)] = byte(1 + r.intn(255))
		emit(q)
		q = append([]byte{}, p...)
		q[len(q)-1] = 1
		emit(q)
	}
	// CRC flag / field edits
	q := append([]byte{}, p...)
	q[3] ^= 0x10
	emit(q)
	q = append([]byte{}, p...)
	q[3] ^= 0x10
	repairCRC(q)
	emit(q)
	if p[3]&0x10 != 0 && 18+ds+4 <= len(p) {
		q = append([]byte{}, p...)
		q[18+ds+r.intn(4)] ^= byte(1 << uint(r.intn(8)))
		emit(q)
	}
	// random byte edits
	for i := 0; i < 6; i++ {
		q := append([]byte{}, p...)
		o := r.intn(end)
		switch r.intn(3) {
		case 0:
			q[o] ^= byte(1 + r.intn(255))
		case 1:
			q[o] = []byte{0, 1, 7, 8, 14, 16, 17, 255}[r.intn(8)]
		case 2:
			q[o]++
		}
		emit(fix(q))
	}
}

func ctrlWords(r *rng, p []byte, tier string, emit func([]byte)) {
	n := 1500
	if tier == "thorough" {
		n = 65536
	}
	for i := 0; i < n; i++ {
		c := i
		if tier != "thorough" {
			switch r.intn(3) {
			case 0:
				c = r.intn(65536)
			case 1:
				c = 0x1100 ^ (1 << uint(r.intn(16)))
			default:
				c = (r.intn(16) << 8) | (r.intn(2) << 12) | (r.intn(2) * (1 << uint(r.intn(16))))
			}
		}
		q := append([]byte{}, p...)
		binary.LittleEndian.PutUint16(q[2:], uint16(c))
		if r.bool() {
			repairCRC(q)
		}
		emit(q)
	}
}

func chunkings(r *rng, ct []byte, nrand int, emit func([][]byte)) {
	nb := len(ct) / 32
	// every block-aligned 2-chunking
	for k := 1; k < nb; k++ {
		emit([][]byte{ct[:32*k], ct[32*k:]})
	}
	// block by block
	var one [][]byte
	for k := 0; k < nb; k++ {
		one = append(one, ct[32*k:32*k+32])
	}
	emit(one)
	for i := 0; i < nrand; i++ {
		var cs [][]byte
		rest := ct
		for len(rest) > 0 {
			k := 1 + r.intn(len(rest)/32)
			if r.intn(3) == 0 {
				k = 1
			}
			cs = append(cs, rest[:32*k])
			rest = rest[32*k:]
		}
		emit(cs)
	}
	// a chunk that is not block aligned, an empty chunk
	if len(ct) > 40 {
		emit([][]byte{ct[:16], ct[16:]})
		emit([][]byte{ct[:40], ct[40:]})
	}
	emit([][]byte{{}, ct})
}

func rline(key []byte, chunks [][]byte) string {
	parts := make([]string, len(chunks))
	for i, c := range chunks {
		parts[i] = hx(c)
	}
	return "R " + hx(key) + " - " + strings.Join(parts, " ")
}

// small trees, bounded-exhaustive: every tree of <= 2 items over 6 types (containers one level deep) with every length field skewed
func smallTrees() [][]rscp.Message {
	leaf := []rscp.Message{
		{Tag: 1, DataType: rscp.Bool, Value: true},
		{Tag: 2, DataType: rscp.UInt16, Value: uint16(0x0102)},
		{Tag: 3, DataType: rscp.CString, Value: "ab"},
		{Tag: 4, DataType: rscp.None},
		{Tag: 5, DataType: rscp.Timestamp, Value: time.Unix(1, 2).UTC()},
		{Tag: 6, DataType: rscp.CString, Value: ""},
	}
	var items []rscp.Message
	items = append(items, leaf...)
	items = append(items, rscp.Message{Tag: 7, DataType: rscp.Container, Value: []rscp.Message{}})
	for _, a := range leaf {
		items = append(items, rscp.Message{Tag: 7, DataType: rscp.Container, Value: []rscp.Message{a}})
		for _, b := range leaf {
			items = append(items, rscp.Message{Tag: 7, DataType: rscp.Container, Value: []rscp.Message{a, b}})
		}
	}
	var out [][]rscp.Message
	for _, a := range items {
		out = append(out, []rscp.Message{a})
	}
	for _, a := range items {
		for _, b := range items[:13] {
			out = append(out, []rscp.Message{a, b})
		}
	}
	return out
}

func codecClass(c, res string) string {
	f := strings.Fields(c)
	switch {
	case strings.HasPrefix(res, "PANIC"):
		return f[0] + ":panic"
	case res == "HANG":
		return f[0] + ":hang"
	}
	last := res
	if i := strings.LastIndex(res, " ; "); i >= 0 {
		last = res[i+3:]
	}
	if i := strings.Index(res, "rt="); i >= 0 {
		last = res[i+3:]
	}
	if i := strings.Index(res, "got="); i >= 0 {
		last = res[i+4:]
	}
	switch {
	case strings.HasPrefix(last, "ACCEPT"):
		return f[0] + ":accept"
	case strings.HasPrefix(last, "NEED"):
		return f[0] + ":needmore"
	case strings.HasPrefix(last, "REJECT"):
		return f[0] + ":reject"
	}
	return f[0] + ":other"
}

func headerOK(p []byte) bool {
	if len(p) < 18 {
		return false
	}
	c := binary.LittleEndian.Uint16(p[2:])
	return binary.LittleEndian.Uint16(p) == 0xDCE3 && c|0x1f00 == 0x1f00 && c&0x0f00 == 0x0100
}

// passes the header checks: the case reaches past the first validation step of Read
func codecNontrivial(c, res string) bool {
	f := strings.Fields(c)
	switch f[0] {
	case "D":
		return headerOK(unhx(f[1]))
	case "X":
		return true
	case "R":
		if len(f) > 3 {
			first := unhx(f[3])
			if len(first) >= 32 && len(first)%32 == 0 {
				return headerOK(crypt(decrypter(unhx(f[1]), unhx(f[2])), first))
			}
		}
		return false
	}
	return true
}

func onesCount(b []byte) int {
	n := 0
	for _, x := range b {
		n += bits.OnesCount8(x)
	}
	return n
}

// burstWidth: distance between the lowest and highest set bit, bits numbered LSB-first within each byte
func burstWidth(b []byte) int {
	lo, hi := -1, -1
	for i, x := range b {
		for k := 0; k < 8; k++ {
			if x&(1<<uint(k)) != 0 {
				if lo < 0 {
					lo = 8*i + k
				}
				hi = 8*i + k
			}
		}
	}
	if lo < 0 {
		return 0
	}
	return hi - lo + 1
}

func init() {
	// ------------------------------------------------------------------ C01
	props["C01"] = &prop{
		rule: "random message trees over all 18 data types (depth <= 6, value-less items, empty strings/byte arrays/containers, unknown 32-bit tags, boundary values, NaN/Inf bit patterns, pre-1970 and far-away timestamps) + payload sizes around 0..70 and 65440..65535 one by one (quick: a boundary subset) x CRC on/off x keys of 1/31/32 bytes x chained positions 1..4 in a stream; non-trivial = the frame carries at least one item; distinct by case line",
		gen: func(tier string, r *rng, emit func(string)) {
			keys := [][]byte{[]byte("k"), r.bytes(31), r.bytes(32)}
			n := 600
			if tier == "thorough" {
				n = 20000
			}
			for i := 0; i < n; i++ {
				depth := r.intn(7)
				ms := genMsgs(r, depth, 40, false)
				iv := "-"
				if r.intn(3) == 0 {
					iv = hx(r.bytes(32))
				}
				sec := int64(r.u64() >> uint(r.intn(64)))
				if r.intn(5) == 0 {
					sec = -sec
				}
				emit(fmt.Sprintf("W %s %s %s %d %d %s", hx(keys[r.intn(3)]), iv, b01(r.intn(4) != 0), sec, r.intn(1000000000), sxs(ms)))
			}
			// streams on one chained pair
			ns := n / 10
			for i := 0; i < ns; i++ {
				k := 2 + r.intn(3)
				parts := []string{fmt.Sprintf("WS %s %s", hx(keys[r.intn(3)]), b01(r.bool()))}
				for j := 0; j < k; j++ {
					parts = append(parts, fmt.Sprintf("%d %d %s", int64(r.u64()>>uint(1+r.intn(63))), r.intn(1000000000), sxs(genMsgs(r, 3, 70, false))))
				}
				emit(strings.Join(parts, " | "))
			}
			// sizes
			var sizes []int
			if tier == "thorough" {
				for s := 0; s <= 70; s++ {
					sizes = append(sizes, s)
				}
				for s := 65440; s <= 65535; s++ {
					sizes = append(sizes, s)
				}
			} else {
				sizes = []int{0, 7, 8, 13, 14, 15, 39, 46, 47, 65503, 65513, 65514, 65517, 65518, 65535}
			}
			for _, s := range sizes {
				for _, crc := range []bool{true, false} {
					ms := sizedMsgs(r, s, false)
					if ms == nil {
						continue
					}
					emit(fmt.Sprintf("W %s - %s %d %d %s", hx([]byte("k")), b01(crc), 1700000000, 5, sxs(ms)))
				}
			}
		},
		run: runCodec,
		pred: func(c, res string) string {
			if strings.HasPrefix(res, "PANIC") || res == "HANG" || res == "ERR" {
				return "encoding well-formed messages: " + res
			}
			if strings.HasPrefix(c, "W ") {
				want := "ACCEPT " + restAfter(c, 6)
				i := strings.Index(res, "rt=")
				if i < 0 || res[i+3:] != want {
					got := res
					if i >= 0 {
						got = res[i+3:]
					}
					return "Read(Write(ms)) returned " + shorten(got, 200) + " instead of the messages written"
				}
				return ""
			}
			parts := strings.Split(c, " | ")
			rs := strings.Split(res, " | ")
			if len(rs) != len(parts)-1 {
				return "stream: not every frame was written"
			}
			for j, fr := range parts[1:] {
				want := "ACCEPT " + restAfter(fr, 2)
				i := strings.Index(rs[j], "rt=")
				if i < 0 || rs[j][i+3:] != want {
					return fmt.Sprintf("frame %d of a stream on chained cipher states did not decode to the messages written", j+1)
				}
			}
			return ""
		},
		class: func(c, res string) string {
			if strings.HasPrefix(c, "WS") {
				return "stream"
			}
			i := strings.Index(res, " p=")
			j := strings.Index(res, " rt=")
			if i > 0 && j > i {
				n := (j - i - 3) / 2
				switch {
				case n <= 32:
					return "frame:1-block"
				case n <= 160:
					return "frame:2-5-blocks"
				case n < 60000:
					return "frame:6+blocks"
				}
				return "frame:near-64KiB"
			}
			return "other"
		},
		nontrivial: func(c, res string) bool { return !strings.HasSuffix(c, " ()") },
	}

	// ------------------------------------------------------------------ C02 / C03 share the byte-level generators
	genBytes := func(tier string, r *rng, emit func(string), chunked bool) {
		nseeds := 40
		seeds := seedFrames(r, nseeds)
		emitD := func(p []byte) {
			if len(p) == 0 {
				return
			}
			emit("D " + hx(p))
		}
		for i, p := range seeds {
			emitD(p)
			if tier == "thorough" || i < 18 {
				mutations(r, p, tier, emitD)
			}
		}
		ctrlWords(r, seeds[3], tier, emitD)
		if tier == "thorough" {
			ctrlWords(r, seeds[2], tier, emitD)
		}
		// bounded-exhaustive small trees with every length field skewed
		st := smallTrees()
		if tier != "thorough" {
			st = st[:60]
		}
		for _, ms := range st {
			p := plainOf(r, ms, true)
			fs := frameFields(p)
			ds := int(binary.LittleEndian.Uint16(p[16:]))
			skews := []int{-2, -1, 1, 2, 7}
			for _, sk := range skews {
				if ds+sk >= 0 {
					q := append([]byte{}, p...)
					binary.LittleEndian.PutUint16(q[16:], uint16(ds+sk))
					repairCRC(q)
					emitD(q)
				}
				for _, fl := range fs {
					if fl.valLen+sk < 0 {
						continue
					}
					q := append([]byte{}, p...)
					binary.LittleEndian.PutUint16(q[fl.lenOff:], uint16(fl.valLen+sk))
					repairCRC(q)
					emitD(q)
				}
			}
		}
		// raw random blocks
		nraw := 300
		if tier == "thorough" {
			nraw = 20000
		}
		for i := 0; i < nraw; i++ {
			p := r.bytes(32 * (1 + r.intn(4)))
			if r.intn(2) == 0 { // a valid-looking header in front of random bytes
				copy(p, []byte{0xe3, 0xdc, 0x00, 0x11})
				if r.bool() {
					p[3] = 0x01
				}
				if r.intn(3) == 0 {
					binary.LittleEndian.PutUint16(p[16:], uint16(r.intn(len(p))))
				}
			}
			emitD(p)
		}
		// frames around the maximal size: length fields near the limits
		for _, s := range []int{65535, 65514, 65513, 65000} {
			ms := sizedMsgs(r, s, false)
			p := plainOf(r, ms, true)
			emitD(p)
			q := append([]byte{}, p[:len(p)-32]...)
			emitD(q)
		}
		if !chunked {
			return
		}
		// chunked delivery under 3 cipher states
		keys := [][]byte{[]byte("k"), r.bytes(32), []byte("0123456789abcdefghij")}
		nr := 2
		if tier == "thorough" {
			nr = 50
		}
		for i, p := range seeds {
			if tier != "thorough" && i >= 16 {
				break
			}
			key := keys[i%3]
			variants := [][]byte{p}
			q := append([]byte{}, p...)
			if len(q) > 40 {
				q[20+r.intn(len(q)-20)] ^= 0x40
				variants = append(variants, q)
			}
			variants = append(variants, append(append([]byte{}, p...), make([]byte, 32)...))
			for _, v := range variants {
				ct := crypt(encrypter(key, nil), v)
				chunkings(r, ct, nr, func(cs [][]byte) { emit(rline(key, cs)) })
			}
		}
		// going on after a refusal: a first piece that is refused (no magic / all zero / bad version / undefined type / bad
		// length), then further pieces of every kind on the same state
		firsts := [][]byte{make([]byte, 32), make([]byte, 64), append([]byte{0xe3, 0xdc, 0x00, 0x21}, make([]byte, 28)...), r.bytes(32)}
		if len(seeds) > 2 && len(seeds[2]) >= 32 {
			bad := append([]byte{}, seeds[2]...)
			bad[22] = 0x11 // an undefined data type in the first item
			firsts = append(firsts, bad)
		}
		nexts := [][]byte{make([]byte, 32), make([]byte, 96), r.bytes(32), r.bytes(64)}
		if len(seeds) > 1 {
			nexts = append(nexts, seeds[1])
		}
		for _, a := range firsts {
			for _, b := range nexts {
				for _, c := range nexts[:3] {
					key := keys[r.intn(3)]
					em := encrypter(key, nil)
					var parts []string
					for _, pz := range [][]byte{a, b, c} {
						q := append([]byte{}, pz...)
						for len(q)%32 != 0 {
							q = append(q, 0)
						}
						parts = append(parts, hx(crypt(em, q)))
					}
					emit("RC " + hx(key) + " - " + strings.Join(parts, " "))
				}
			}
		}
	}
	props["C02"] = &prop{
		rule: "40 valid seed frames (nested containers, value-less items, empty values) x every length field at every nesting level set to {0,1,len-1,len+1,65528,65529,65535}, type byte over 256 codes (quick: 15), control word over 65536 values (quick: 1500), truncation to every block count, extension by zero/non-zero blocks, padding and CRC edits (CRC repaired 3 times out of 4), bounded-exhaustive small trees with length skews, raw random blocks, maximal frames; block-aligned 2-chunkings + random chunkings under 3 cipher states; non-trivial = passes the header checks; distinct by case line",
		gen:  func(tier string, r *rng, emit func(string)) { genBytes(tier, r, emit, true) },
		run:  runCodec,
		pred: func(c, res string) string {
			if strings.HasPrefix(res, "PANIC") {
				return "decoding panics: " + shorten(res, 200)
			}
			if res == "HANG" {
				return "decoding does not terminate within the time limit"
			}
			return ""
		},
		class:      codecClass,
		nontrivial: codecNontrivial,
	}
	props["C03"] = &prop{
		rule: "same byte-level families as C02 (structural edits of valid frames at every nesting level, type codes, control words, frame lengths, padding, CRC flag/field, bounded-exhaustive small trees with every length skew, random bytes) + chunked delivery; observable = Accept(tree) / incomplete / error; non-trivial = passes the header checks",
		gen:  func(tier string, r *rng, emit func(string)) { genBytes(tier, r, emit, true) },
		run:  runCodec,
		pred: func(c, res string) string {
			if strings.HasPrefix(res, "PANIC") || res == "HANG" {
				return "decoding: " + shorten(res, 200)
			}
			if strings.HasPrefix(c, "R ") {
				// chunked delivery: 'incomplete' until enough has arrived, then the verdict of the one-piece delivery
				f := strings.Fields(c)
				var all []byte
				aligned := true
				for _, h := range f[3:] {
					b := unhx(h)
					if len(b) == 0 || len(b)%32 != 0 {
						aligned = false
					}
					all = append(all, b...)
				}
				if !aligned {
					return ""
				}
				vs := strings.Split(res, " ; ")
				for _, v := range vs[:len(vs)-1] {
					if v != "NEED" {
						return "a verdict other than 'incomplete' was followed by further reads"
					}
				}
				if len(vs) == len(f)-3 { // every chunk was consumed
					one := implFeed(unhx(f[1]), unhx(f[2]), [][]byte{all})
					if one[0] != vs[len(vs)-1] {
						return "chunked delivery ends in " + shorten(vs[len(vs)-1], 80) + " but the one-piece delivery in " + shorten(one[0], 80)
					}
				}
			}
			return ""
		},
		class:      codecClass,
		nontrivial: codecNontrivial,
	}

	// ------------------------------------------------------------------ C04
	props["C04"] = &prop{
		rule: "valid checksummed frames x every single-bit flip in timestamp/payload/CRC, pairs of flips (small frames: all pairs in thorough, sampled in quick), bursts of 1..32 bits at every offset (all-ones and random fill), random multi-byte corruptions of plaintext and of ciphertext; plus hash/crc32 against the Gallina CRC on random and boundary strings; non-trivial = the unaltered frame is accepted and the error pattern is non-zero",
		gen: func(tier string, r *rng, emit func(string)) {
			// the CRC function itself
			ncrc := 500
			if tier == "thorough" {
				ncrc = 5000
			}
			for i := 0; i < ncrc; i++ {
				n := r.intn(71)
				if i%50 == 0 {
					n = 65553 - r.intn(3)
				}
				if i%7 == 0 {
					n = r.intn(2000)
				}
				emit("CRC " + hx(r.bytes(n)))
			}
			emit("CRC -")
			emit("CRC 313233343536373839")
			var frames [][]byte
			small := [][]rscp.Message{
				{{Tag: 0x00800001, DataType: rscp.UChar8, Value: uint8(10)}},
				{{Tag: 0x01000001, DataType: rscp.Container, Value: []rscp.Message{{Tag: 4, DataType: rscp.UInt16, Value: uint16(513)}, {Tag: 6, DataType: rscp.CString, Value: "ab"}}}},
			}
			for _, ms := range small {
				frames = append(frames, plainOf(r, ms, true))
			}
			for len(frames) < 38 {
				frames = append(frames, plainOf(r, genMsgs(r, 3, 30, false), true))
			}
			// every residue of the data size modulo the cipher block, in particular frames that end on a block boundary
			// (data size = 10 mod 32: no padding at all) and frames whose checksum straddles one
			for k := 0; k < 32; k++ {
				frames = append(frames, plainOf(r, sizedMsgs(r, 32+k, false), true))
			}
			// frames of nearly the maximal size (the checksum range must not wrap)
			frames = append(frames, plainOf(r, sizedMsgs(r, 65535, false), true), plainOf(r, sizedMsgs(r, 65520, false), true))
			region := func(p []byte) (int, int) { // [lo, hi): timestamp .. end of CRC, excluding the length field handled below
				return 4, 18 + int(binary.LittleEndian.Uint16(p[16:])) + 4
			}
			inRegion := func(p []byte, bit int) bool {
				lo, hi := region(p)
				by := bit / 8
				return by >= lo && by < hi && !(by == 16 || by == 17)
			}
			emitX := func(p []byte, mask []byte) { emit("X " + hx(p) + " " + hx(mask)) }
			for fi, p := range frames {
				_, hi := region(p)
				big := len(p) > 4096
				// every single-bit flip
				for bit := 32; bit < 8*hi; bit++ {
					if !inRegion(p, bit) {
						continue
					}
					if big && bit%40009 != 3 && bit < 8*hi-64 {
						continue
					}
					if tier != "thorough" && fi >= 8 && bit%5 != fi%5 && bit < 8*hi-40 {
						continue
					}
					m := make([]byte, len(p))
					m[bit/8] |= 1 << uint(bit%8)
					emitX(p, m)
				}
				// pairs of flips
				if fi < 2 {
					var bitsIn []int
					for bit := 32; bit < 8*hi; bit++ {
						if inRegion(p, bit) {
							bitsIn = append(bitsIn, bit)
						}
					}
					if tier == "thorough" {
						for a := 0; a < len(bitsIn); a++ {
							for b := a + 1; b < len(bitsIn); b++ {
								m := make([]byte, len(p))
								m[bitsIn[a]/8] |= 1 << uint(bitsIn[a]%8)
								m[bitsIn[b]/8] |= 1 << uint(bitsIn[b]%8)
								emitX(p, m)
							}
						}
					} else {
						for k := 0; k < 2500; k++ {
							a, b := bitsIn[r.intn(len(bitsIn))], bitsIn[r.intn(len(bitsIn))]
							if a == b {
								continue
							}
							m := make([]byte, len(p))
							m[a/8] |= 1 << uint(a%8)
							m[b/8] |= 1 << uint(b%8)
							emitX(p, m)
						}
					}
				}
				// bursts of 1..32 bits at every offset
				step := 1
				if tier != "thorough" {
					step = 7
				}
				if big {
					step = 52361
				}
				for start := 32 + fi%step; start < 8*hi; start += step {
					w := 1 + r.intn(32)
					if tier == "thorough" && fi < 4 {
						w = 32
					}
					m := make([]byte, len(p))
					ok := true
					for k := 0; k < w; k++ {
						bit := start + k
						if !inRegion(p, bit) {
							ok = false
							break
						}
						if k == 0 || k == w-1 || fi%2 == 0 || r.bool() {
							m[bit/8] |= 1 << uint(bit%8)
						}
					}
					if ok {
						emitX(p, m)
					}
				}
				// random multi-byte corruptions of the plaintext
				for k := 0; k < 6; k++ {
					m := make([]byte, len(p))
					for j := 0; j < 1+r.intn(6); j++ {
						m[r.intn(len(p))] = byte(1 + r.intn(255))
					}
					emitX(p, m)
				}
				// altered frames delivered in several block-aligned pieces (the check must not depend on the chunking)
				if len(p) >= 64 {
					for k := 0; k < 4; k++ {
						q := append([]byte{}, p...)
						bit := 32 + r.intn(8*hi-32)
						for !inRegion(p, bit) {
							bit = 32 + r.intn(8*hi-32)
						}
						q[bit/8] ^= 1 << uint(bit%8)
						ct := crypt(encrypter([]byte("k"), nil), q)
						var cs []string
						switch k % 3 {
						case 0:
							cs = []string{hx(ct[:32]), hx(ct[32:])}
						case 1:
							for o := 0; o < len(ct); o += 32 {
								cs = append(cs, hx(ct[o:o+32]))
							}
						default:
							cut := 32 * (1 + r.intn(len(ct)/32-1))
							cs = []string{hx(ct[:cut]), hx(ct[cut:])}
						}
						emit("XR " + hx([]byte("k")) + " - " + strings.Join(cs, " "))
					}
				}
				// ... and of the ciphertext
				key := []byte("k")
				ct := crypt(encrypter(key, nil), p)
				for k := 0; k < 4; k++ {
					m := make([]byte, len(ct))
					for j := 0; j < 1+r.intn(3); j++ {
						m[r.intn(len(ct))] = byte(1 + r.intn(255))
					}
					emit("XC " + hx(key) + " " + hx(ct) + " " + hx(m))
				}
			}
		},
		run: runCodec,
		pred: func(c, res string) string {
			if strings.HasPrefix(res, "PANIC") || res == "HANG" {
				return "decoding an altered frame: " + shorten(res, 200)
			}
			f := strings.Fields(c)
			if f[0] == "CRC" {
				return ""
			}
			if f[0] == "XC" {
				return ""
			}
			if f[0] == "XR" {
				if strings.Contains(res, "ACCEPT") {
					return "a checksummed frame with one flipped bit is accepted when it is delivered in several pieces"
				}
				return ""
			}
			p, mask := unhx(f[1]), unhx(f[2])
			if !strings.HasPrefix(res, "orig=ACCEPT") {
				return ""
			}
			if onesCount(mask) == 0 {
				return ""
			}
			// is the alteration one the property speaks about? confined to timestamp, payload, CRC field; <= 32 consecutive bits or <= 2 bits
			lo, hi := 4, 18+int(binary.LittleEndian.Uint16(p[16:]))+4
			for i, x := range mask {
				if x != 0 && (i < lo || i >= hi || i == 16 || i == 17) {
					return ""
				}
			}
			if burstWidth(mask) <= 32 || onesCount(mask) <= 2 {
				if strings.Contains(res, "got=ACCEPT") {
					return fmt.Sprintf("a checksummed frame altered by %d bit(s) within %d consecutive bits is accepted", onesCount(mask), burstWidth(mask))
				}
			}
			return ""
		},
		class: func(c, res string) string {
			f := strings.Fields(c)
			if f[0] != "X" {
				return strings.ToLower(f[0])
			}
			mask := unhx(f[2])
			k := "multi"
			switch {
			case onesCount(mask) == 1:
				k = "1-bit"
			case onesCount(mask) == 2:
				k = "2-bit"
			case burstWidth(mask) <= 32:
				k = "burst<=32"
			}
			if strings.Contains(res, "got=ACCEPT") {
				return k + ":accepted"
			}
			return k + ":rejected"
		},
		nontrivial: func(c, res string) bool { return !strings.HasPrefix(c, "X ") || strings.HasPrefix(res, "orig=ACCEPT") },
	}
}

func shorten(s string, n int) string {
	if len(s) > n {
		return s[:n] + "..."
	}
	return s
}
