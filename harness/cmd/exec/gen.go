package main

import (
	"math"
	"time"

	"github.com/spali/go-rscp/rscp"
)

var allTypes = []rscp.DataType{rscp.None, rscp.Bool, rscp.Char8, rscp.UChar8, rscp.Int16, rscp.UInt16, rscp.Int32, rscp.Uint32, rscp.Int64, rscp.Uint64,
	rscp.Float32, rscp.Double64, rscp.Bitfield, rscp.CString, rscp.Container, rscp.Timestamp, rscp.ByteArray, rscp.Error}

var f32Specials = []uint32{0, 0x80000000, 0x7f800000, 0xff800000, 0x7fc00000, 0x7f800001, 0x00000001, 0x7f7fffff, 0x3f800000}
var f64Specials = []uint64{0, 0x8000000000000000, 0x7ff0000000000000, 0xfff0000000000000, 0x7ff8000000000000, 0x7ff0000000000001, 1, 0x7fefffffffffffff, 0x3ff0000000000000}

func pick64(r *rng, bits uint) uint64 {
	switch r.intn(6) {
	case 0:
		return 0
	case 1:
		return 1
	case 2:
		return (1 << (bits - 1)) - 1 // max signed
	case 3:
		return 1 << (bits - 1) // min signed
	case 4:
		if bits == 64 {
			return math.MaxUint64
		}
		return (1 << bits) - 1 // -1 / max unsigned
	}
	if bits == 64 {
		return r.u64()
	}
	return r.u64() & ((1 << bits) - 1)
}

func genTag(r *rng, request bool) rscp.Tag {
	var t uint32
	switch r.intn(4) {
	case 0:
		tv := rscp.TagValues()
		t = uint32(tv[r.intn(len(tv))])
	case 1:
		t = []uint32{0, 1, 0x7fffff, 0x800000, 0xffffffff, 0xff7fffff, 0x80000000}[r.intn(7)]
	default:
		t = uint32(r.u64())
	}
	if request {
		t &^= 1 << 23
	}
	return rscp.Tag(t)
}

// genValue builds a well-formed value of data type d
func genValue(r *rng, d rscp.DataType, depth int, maxLen int, request bool) interface{} {
	switch d {
	case rscp.None:
		return nil
	case rscp.Bool:
		return r.bool()
	case rscp.Char8:
		return int8(pick64(r, 8))
	case rscp.UChar8, rscp.Bitfield:
		return uint8(pick64(r, 8))
	case rscp.Int16:
		return int16(pick64(r, 16))
	case rscp.UInt16:
		return uint16(pick64(r, 16))
	case rscp.Int32:
		return int32(pick64(r, 32))
	case rscp.Uint32:
		return uint32(pick64(r, 32))
	case rscp.Int64:
		return int64(pick64(r, 64))
	case rscp.Uint64:
		return pick64(r, 64)
	case rscp.Float32:
		if r.intn(2) == 0 {
			return math.Float32frombits(f32Specials[r.intn(len(f32Specials))])
		}
		return math.Float32frombits(uint32(r.u64()))
	case rscp.Double64:
		if r.intn(2) == 0 {
			return math.Float64frombits(f64Specials[r.intn(len(f64Specials))])
		}
		return math.Float64frombits(r.u64())
	case rscp.CString:
		n := 0
		if r.intn(4) != 0 {
			n = r.intn(maxLen + 1)
		}
		return string(r.bytes(n))
	case rscp.ByteArray:
		n := 0
		if r.intn(4) != 0 {
			n = r.intn(maxLen + 1)
		}
		return r.bytes(n)
	case rscp.Container:
		n := r.intn(4)
		if depth <= 0 {
			n = 0
		}
		ms := make([]rscp.Message, n)
		for i := range ms {
			ms[i] = genMsg(r, depth-1, maxLen, false)
		}
		return ms
	case rscp.Timestamp:
		var s int64
		switch r.intn(8) {
		case 6: // Go's zero time (year 1) and its neighbours, the values a program holds when a time was never set
			return []time.Time{{}, time.Time{}.Add(time.Nanosecond), time.Time{}.Add(-time.Nanosecond), time.Time{}.UTC()}[r.intn(4)]
		case 7: // the calendar boundaries
			s = []int64{-62135596800, -62135596801, 253402300799, 253402300800, -62167219200, 1700000000, math.MaxInt64, math.MinInt64}[r.intn(8)]
		case 0:
			s = 0
		case 1:
			s = -1
		case 2:
			s = 1 << 62
		case 3:
			s = -(1 << 62)
		case 4:
			s = int64(r.u64() >> uint(r.intn(40)))
		default:
			s = int64(r.u64())
		}
		ns := []int64{0, 999999999, int64(r.intn(1000000000))}[r.intn(3)]
		return time.Unix(s, ns).UTC()
	case rscp.Error:
		return rscp.RscpError(pick64(r, 32))
	}
	return nil
}

func genMsg(r *rng, depth int, maxLen int, request bool) rscp.Message {
	d := allTypes[r.intn(len(allTypes))]
	if depth <= 0 && d == rscp.Container && r.intn(2) == 0 {
		d = rscp.CString
	}
	return rscp.Message{Tag: genTag(r, request), DataType: d, Value: genValue(r, d, depth, maxLen, request)}
}

func genMsgs(r *rng, depth int, maxLen int, request bool) []rscp.Message {
	n := r.intn(5)
	ms := make([]rscp.Message, n)
	for i := range ms {
		ms[i] = genMsg(r, depth, maxLen, request)
	}
	return ms
}

// sizedMsgs builds a message list whose encoding is exactly size bytes (size == 0 or size >= 7)
func sizedMsgs(r *rng, size int, request bool) []rscp.Message {
	if size == 0 {
		return []rscp.Message{}
	}
	if size < 7 {
		return nil
	}
	var ms []rscp.Message
	rest := size
	// optionally a few small fixed items first
	for rest >= 7+7+8 && r.intn(3) == 0 {
		ms = append(ms, rscp.Message{Tag: genTag(r, request), DataType: rscp.Int64, Value: int64(r.u64())})
		rest -= 15
	}
	// optionally nest the remainder in a container
	if rest >= 14 && rest-7 <= 65528 && r.intn(3) == 0 {
		inner := rest - 7
		child := rscp.Message{Tag: genTag(r, false), DataType: rscp.ByteArray, Value: r.bytes(inner - 7)}
		ms = append(ms, rscp.Message{Tag: genTag(r, request), DataType: rscp.Container, Value: []rscp.Message{child}})
		return ms
	}
	for rest > 0 {
		n := rest - 7
		if n > 65528 {
			n = 65528
			if rest-7-n < 7 && rest-7-n != 0 {
				n -= 7
			}
		}
		if r.bool() {
			ms = append(ms, rscp.Message{Tag: genTag(r, request), DataType: rscp.CString, Value: string(r.bytes(n))})
		} else {
			ms = append(ms, rscp.Message{Tag: genTag(r, request), DataType: rscp.ByteArray, Value: r.bytes(n)})
		}
		rest -= 7 + n
	}
	return ms
}
