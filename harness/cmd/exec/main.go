// exec is the implementation side of the correspondence check. It is compiled against /repo's working tree
// (with the verif hooks overlaid), generates the cases of one property from a seed, runs the real code on each
// case and evaluates the property's direct predicate on the real code's output.
//
//	exec <property> <tier> <seed> <outdir>     writes cases.txt impl.txt pred.txt stats.json
//	exec replay <property> <casefile> <outdir> re-runs the case lines of a file
package main

import (
	"bufio"
	"encoding/json"
	"fmt"
	"io"
	"os"
	"path/filepath"
	"sort"
	"strings"
	"sync"
	"time"

	"github.com/spali/go-rscp/rscp"
)

// A property's implementation-side driver.
type prop struct {
	// gen emits the case lines (one PRNG state; corpus lines come first and are added by main)
	gen func(tier string, r *rng, emit func(string))
	// run executes one case on the real code and returns its canonical result line
	run func(c string) string
	// pred evaluates the property directly on the real code's result; "" means it holds
	pred func(c, res string) string
	// class buckets a (case, result) pair for the distribution in the evidence
	class func(c, res string) string
	// nontrivial says whether the case reaches past the first validation step
	nontrivial func(c, res string) bool
	rule       string
	parallel   int // > 1: cases are independent and may run concurrently
}

var props = map[string]*prop{}

func safeRun(p *prop, c string) (res string) {
	done := make(chan string, 1)
	go func() {
		defer func() {
			if rec := recover(); rec != nil {
				done <- "PANIC " + strings.ReplaceAll(fmt.Sprint(rec), "\n", " ")
			}
		}()
		done <- p.run(c)
	}()
	select {
	case r := <-done:
		return r
	case <-time.After(caseTimeout):
		return "HANG"
	}
}

var caseTimeout = 20 * time.Second

func main() {
	if len(os.Args) < 5 {
		fmt.Fprintln(os.Stderr, "usage: exec <property> <tier> <seed> <outdir> | exec replay <property> <casefile> <outdir>")
		os.Exit(2)
	}
	replay := os.Args[1] == "replay"
	name := os.Args[1]
	if replay {
		name = os.Args[2]
	}
	p, ok := props[name]
	if !ok {
		fmt.Fprintln(os.Stderr, "unknown property", name)
		os.Exit(2)
	}
	outdir := os.Args[4]
	quietLog()
	must(os.MkdirAll(outdir, 0o755))
	var cases []string
	if replay {
		cases = readLines(os.Args[3])
	} else {
		var seed uint64
		fmt.Sscan(os.Args[3], &seed)
		// corpus first
		corpus, _ := filepath.Glob(filepath.Join(os.Getenv("VERIF_ROOT"), "corpus", name, "*.case"))
		sort.Strings(corpus)
		for _, f := range corpus {
			cases = append(cases, readLines(f)...)
		}
		p.gen(os.Args[2], newRng(seed), func(c string) { cases = append(cases, c) })
	}
	cw := create(filepath.Join(outdir, "cases.txt"))
	iw := create(filepath.Join(outdir, "impl.txt"))
	pw := create(filepath.Join(outdir, "pred.txt"))
	dist := map[string]int{}
	distinct := map[string]bool{}
	nontrivial := 0
	results := make([]string, len(cases))
	if p.parallel > 1 {
		rscp.Now = func() time.Time { return time.Unix(tcpSec, tcpNsec) }
		// independent sessions against independent devices may run concurrently (that they do not interfere is C17)
		sem := make(chan struct{}, p.parallel)
		var wg sync.WaitGroup
		for i := range cases {
			wg.Add(1)
			sem <- struct{}{}
			go func(i int) {
				defer wg.Done()
				results[i] = safeRun(p, cases[i])
				<-sem
			}(i)
		}
		wg.Wait()
	} else {
		for i := range cases {
			results[i] = safeRun(p, cases[i])
		}
	}
	for i, c := range cases {
		res := results[i]
		fmt.Fprintln(cw, c)
		fmt.Fprintln(iw, res)
		if msg := p.pred(c, res); msg != "" {
			fmt.Fprintf(pw, "%d\t%s\n", i, msg)
		}
		if p.class != nil {
			dist[p.class(c, res)]++
		}
		if !distinct[c] {
			distinct[c] = true
			if p.nontrivial == nil || p.nontrivial(c, res) {
				nontrivial++
			}
		}
	}
	cw.Flush()
	iw.Flush()
	pw.Flush()
	st := map[string]interface{}{"evaluations": len(cases), "distinct": len(distinct), "distinct_nontrivial": nontrivial,
		"distribution": dist, "rule": p.rule}
	b, _ := json.MarshalIndent(st, "", " ")
	must(os.WriteFile(filepath.Join(outdir, "stats.json"), b, 0o644))
}

func must(err error) {
	if err != nil {
		fmt.Fprintln(os.Stderr, "exec:", err)
		os.Exit(2)
	}
}

type lineWriter struct {
	*bufio.Writer
	f *os.File
}

func create(path string) *bufio.Writer {
	f, err := os.Create(path)
	must(err)
	return bufio.NewWriterSize(f, 1<<20)
}

func readLines(path string) []string {
	b, err := os.ReadFile(path)
	must(err)
	var out []string
	for _, l := range strings.Split(string(b), "\n") {
		l = strings.TrimRight(l, "\r")
		if l == "" || strings.HasPrefix(l, "#") {
			continue
		}
		out = append(out, l)
	}
	return out
}

func quietLog() { rscp.Log.SetOutput(io.Discard) }
