package main

import (
	"crypto/cipher"
	"encoding/json"
	"fmt"
	"os"
	"path/filepath"
	"reflect"
	"strconv"
	"strings"
	"time"

	"github.com/azihsoyn/rijndael256"
	"github.com/spali/go-rscp/rscp"
)

// kind codes shared with coq/theories/Vocab.v and harness/cmd/translate
func kindOf(v interface{}) int {
	if v == nil {
		return 0
	}
	rv := reflect.ValueOf(v)
	if rv.Kind() == reflect.Ptr {
		if rv.IsNil() {
			return 17
		}
		return kindOf(rv.Elem().Interface())
	}
	switch v.(type) {
	case bool:
		return 1
	case int8:
		return 2
	case uint8:
		return 3
	case int16:
		return 4
	case uint16:
		return 5
	case int32:
		return 6
	case uint32:
		return 7
	case int64:
		return 8
	case uint64:
		return 9
	case float32:
		return 10
	case float64:
		return 11
	case string:
		return 12
	case []byte:
		return 13
	case []rscp.Message:
		return 14
	case time.Time:
		return 15
	case rscp.RscpError:
		return 16
	}
	return 17
}

func jsonString(s string) []byte { b, _ := json.Marshal(s); return b }

func tagUnmarshal(js []byte) string {
	var t rscp.Tag
	if err := json.Unmarshal(js, &t); err != nil {
		return "ERR"
	}
	return fmt.Sprint(uint32(t))
}

func modesFor(key string) (cipher.BlockMode, cipher.BlockMode) {
	k := make([]byte, 32)
	iv := make([]byte, 32)
	for i := range k {
		k[i] = 0xff
		iv[i] = 0xff
	}
	copy(k, key)
	b, _ := rijndael256.NewCipher(k)
	return cipher.NewCBCEncrypter(b, iv), cipher.NewCBCDecrypter(b, iv)
}

// a boundary value of the Go representation the decoder uses for a data type
func boundaryValue(d rscp.DataType) interface{} {
	switch d {
	case rscp.None:
		return nil
	case rscp.Bool:
		return true
	case rscp.Char8:
		return int8(-128)
	case rscp.UChar8, rscp.Bitfield:
		return uint8(255)
	case rscp.Int16:
		return int16(-32768)
	case rscp.UInt16:
		return uint16(65535)
	case rscp.Int32:
		return int32(-2147483648)
	case rscp.Uint32:
		return uint32(4294967295)
	case rscp.Int64:
		return int64(-9223372036854775808)
	case rscp.Uint64:
		return uint64(18446744073709551615)
	case rscp.Float32:
		return float32(-1.5)
	case rscp.Double64:
		return float64(1e300)
	case rscp.CString:
		return "x\x00y"
	case rscp.Container:
		return []rscp.Message{{Tag: 5, DataType: rscp.None}}
	case rscp.Timestamp:
		return time.Unix(-5, 999999999).UTC()
	case rscp.ByteArray:
		return []byte{0, 255}
	case rscp.Error:
		return rscp.RscpError(4294967295)
	}
	return nil
}

// the committed snapshot of published tags: number -> (name, data type)
var published = map[uint64][2]string{}

func loadPublished() {
	b, err := os.ReadFile(filepath.Join(os.Getenv("VERIF_ROOT"), "coq", "golden", "Published.tsv"))
	if err != nil {
		return
	}
	for _, l := range strings.Split(string(b), "\n") {
		f := strings.Split(l, "\t")
		if len(f) == 3 {
			n, _ := strconv.ParseUint(f[0], 10, 32)
			published[n] = [2]string{f[1], f[2]}
		}
	}
}

func init() {
	loadPublished()
	props["C14"] = &prop{
		rule: "all known tags (String, TagString, IsATag, DataType, request/response/secret, JSON both ways) + boundary and random unknown tag numbers + decimal/malformed tag strings + all 256 data type codes + data type names; non-trivial = every case (each exercises a table lookup or a JSON conversion); distinct by case line",
		gen: func(tier string, r *rng, emit func(string)) {
			tags := rscp.TagValues()
			for _, t := range tags {
				emit(fmt.Sprintf("TAG %d", uint32(t)))
				emit("TNAME " + hx([]byte(t.String())))
			}
			for _, n := range []uint64{0, 1, 1 << 23, 1<<23 - 1, 1<<23 + 1, 1<<24 - 1, 1<<32 - 1, 1<<32 - 2, 1 << 31, 11, 12, 14} {
				emit(fmt.Sprintf("TAG %d", n))
			}
			nrand := 5000
			if tier == "thorough" {
				nrand = 200000
			}
			for i := 0; i < nrand; i++ {
				var n uint64
				switch r.intn(4) {
				case 0:
					n = r.u64() & 0xffffffff
				case 1: // neighbours of known tags
					n = (uint64(tags[r.intn(len(tags))]) + uint64(r.intn(5)) - 2) & 0xffffffff
				case 2: // same low bits, other namespace / request bit
					n = uint64(tags[r.intn(len(tags))]) ^ (1 << uint(r.intn(32)))
				default:
					n = r.u64() & 0xffffffff >> uint(r.intn(32))
				}
				emit(fmt.Sprintf("TAG %d", n))
			}
			// strings handed to Tag.UnmarshalJSON
			strs := []string{"", "0", "00", "007", "4294967295", "4294967296", "04294967295", "99999999999999999999", "+5", "-1", "1.0", " 1", "1 ", "1e3",
				"0x10", "1_000", "Tag(5)", "rscp_req_authentication", "RSCP_REQ_AUTHENTICATION ", "RSCP_REQ_AUTHENTICATIO", "٣", "１２"}
			for _, s := range strs {
				emit("TUNM " + hx([]byte(s)))
				emit("TNAME " + hx([]byte(s)))
			}
			for i := 0; i < nrand/10; i++ {
				n := r.u64() >> uint(r.intn(64))
				s := strconv.FormatUint(n, 10)
				if r.intn(4) == 0 {
					s = strings.Repeat("0", r.intn(3)) + s
				}
				emit("TUNM " + hx([]byte(s)))
				emit(fmt.Sprintf("TUNMN %d", n))
			}
			for _, n := range []string{"0", "4294967295", "4294967296", "18446744073709551615"} {
				emit("TUNMN " + n)
			}
			for d := 0; d < 256; d++ {
				emit(fmt.Sprintf("DT %d", d))
				emit(fmt.Sprintf("DTV %d", d))
			}
			for _, d := range rscp.DataTypeValues() {
				emit("DTNAME " + hx([]byte(d.String())))
				emit("DTNAME " + hx([]byte(strings.ToLower(d.String()))))
			}
			for _, s := range []string{"", "DataType(17)", "0", "Bool ", "Error", "error"} {
				emit("DTNAME " + hx([]byte(s)))
			}
		},
		run: func(c string) string {
			f := strings.Fields(c)
			switch f[0] {
			case "TAG":
				n, _ := strconv.ParseUint(f[1], 10, 32)
				t := rscp.Tag(n)
				js, err := json.Marshal(t)
				if err != nil {
					return "MARSHAL-ERR"
				}
				var s string
				if err := json.Unmarshal(js, &s); err != nil {
					return "MARSHAL-NOT-A-STRING " + string(js)
				}
				return fmt.Sprintf("name=%s isa=%s dt=%d req=%s resp=%s sec=%s js=%s back=%s", hx([]byte(t.String())), b01(t.IsATag()),
					uint8(t.DataType()), b01(rscp.VerifIsRequest(t)), b01(rscp.VerifIsResponse(t)), b01(rscp.VerifIsSecret(t)), hx([]byte(s)), tagUnmarshal(js))
			case "TNAME":
				t, err := rscp.TagString(string(unhx(f[1])))
				if err != nil {
					return "ERR"
				}
				return fmt.Sprint(uint32(t))
			case "TUNM":
				return tagUnmarshal(jsonString(string(unhx(f[1]))))
			case "TUNMN":
				return tagUnmarshal([]byte(f[1]))
			case "DT":
				n, _ := strconv.ParseUint(f[1], 10, 8)
				d := rscp.DataType(n)
				js, err := json.Marshal(d)
				if err != nil {
					return "MARSHAL-ERR"
				}
				var s string
				if err := json.Unmarshal(js, &s); err != nil {
					return "MARSHAL-NOT-A-STRING"
				}
				back := "ERR"
				var d2 rscp.DataType
				if err := json.Unmarshal(js, &d2); err == nil {
					back = fmt.Sprint(uint8(d2))
				}
				kind := "none"
				if d.IsADataType() {
					func() {
						defer func() {
							if recover() != nil {
								kind = "panic"
							}
						}()
						kind = fmt.Sprint(kindOf(rscp.VerifNewEmpty(d, 0)))
						// every call yields a value of its own: writing into one must not show in another
						if aliased(rscp.VerifNewEmpty(d, 4), rscp.VerifNewEmpty(d, 4)) {
							kind = "aliased"
						}
					}()
				}
				return fmt.Sprintf("name=%s isa=%s len=%d kind=%s js=%s back=%s", hx([]byte(d.String())), b01(d.IsADataType()), rscp.VerifLength(d), kind, hx([]byte(s)), back)
			case "DTNAME":
				d, err := rscp.DataTypeString(string(unhx(f[1])))
				if err != nil {
					return "ERR"
				}
				return fmt.Sprint(uint8(d))
			case "DTV":
				// value-level clause, evaluated by the predicate only (the model answers SKIP)
				n, _ := strconv.ParseUint(f[1], 10, 8)
				d := rscp.DataType(n)
				if !d.IsADataType() {
					return "undefined"
				}
				v := boundaryValue(d)
				m := rscp.Message{Tag: rscp.Tag(0x01000000 | uint32(n)), DataType: d, Value: v}
				valid := rscp.VerifIsValid(d, v)
				nk := -1
				if nv, err := rscp.VerifNew(d, v); err == nil {
					nk = kindOf(nv)
				} else if d == rscp.ByteArray { // the constructor of ByteArray takes a string
					if nv, err := rscp.VerifNew(d, "ab"); err == nil {
						nk = kindOf(nv)
					}
				}
				enc, dec := modesFor("k")
				ct, err := rscp.Write(&enc, []rscp.Message{m}, true)
				if err != nil {
					return "write-error"
				}
				var buf []byte
				var cf bool
				var fs uint32
				var ds uint16
				got, err := rscp.Read(&dec, &buf, &cf, &fs, &ds, ct)
				if err != nil {
					return "read-error " + err.Error()
				}
				wire := int(ds) - 7
				return fmt.Sprintf("valid=%s newkind=%d kind=%d wire=%d len=%d same=%s", b01(valid), nk, kindOf(v), wire, rscp.VerifLength(d), b01(sxs(got) == sxs([]rscp.Message{m})))
			}
			return "?"
		},
		pred: func(c, res string) string {
			if strings.HasPrefix(res, "PANIC") || res == "HANG" {
				return res
			}
			f := strings.Fields(c)
			kv := map[string]string{}
			for _, x := range strings.Fields(res) {
				if i := strings.IndexByte(x, '='); i > 0 {
					kv[x[:i]] = x[i+1:]
				}
			}
			switch f[0] {
			case "TAG":
				n, _ := strconv.ParseUint(f[1], 10, 32)
				if kv["back"] != f[1] {
					return fmt.Sprintf("tag %s written to JSON as %q reads back as %s", f[1], string(unhx(kv["js"])), kv["back"])
				}
				if pub, ok := published[n]; ok {
					if kv["isa"] != "1" || string(unhx(kv["name"])) != pub[0] || kv["dt"] != pub[1] {
						return fmt.Sprintf("published tag %d (%s, data type %s) is now (%s, data type %s)", n, pub[0], pub[1], string(unhx(kv["name"])), kv["dt"])
					}
				}
				bit := (n>>23)&1 == 1
				if kv["req"] != b01(!bit) || kv["resp"] != b01(bit) {
					return fmt.Sprintf("request/response classification of tag %s is not bit 23", f[1])
				}
				if kv["isa"] == "1" {
					t, err := rscp.TagString(string(unhx(kv["name"])))
					if err != nil || uint64(t) != n {
						return fmt.Sprintf("name of known tag %s does not parse back", f[1])
					}
					d, _ := strconv.ParseUint(kv["dt"], 10, 8)
					if !rscp.DataType(d).IsADataType() {
						return fmt.Sprintf("known tag %s has undefined data type %d", f[1], d)
					}
				}
			case "TNAME":
				if res != "ERR" {
					n, _ := strconv.ParseUint(res, 10, 32)
					if rscp.Tag(n).String() != string(unhx(f[1])) {
						return fmt.Sprintf("name %q parses to tag %s whose name is %q", string(unhx(f[1])), res, rscp.Tag(n).String())
					}
				}
			case "DT":
				if kv["isa"] == "1" && kv["back"] != f[1] {
					return fmt.Sprintf("data type %s written to JSON reads back as %s", f[1], kv["back"])
				}
			case "DTV":
				if res == "undefined" {
					return ""
				}
				if strings.HasPrefix(res, "write-error") || strings.HasPrefix(res, "read-error") {
					return "boundary value of data type " + f[1] + ": " + res
				}
				if kv["valid"] != "1" || kv["same"] != "1" || kv["newkind"] != kv["kind"] {
					return "data type " + f[1] + ": encoder/decoder/validator/constructor disagree: " + res
				}
				if kv["len"] != "0" && kv["len"] != kv["wire"] {
					return "data type " + f[1] + ": wire length differs from the declared length: " + res
				}
			}
			return ""
		},
		class: func(c, res string) string {
			f := strings.Fields(c)
			switch f[0] {
			case "TAG":
				if strings.Contains(res, "isa=1") {
					return "tag-known"
				}
				return "tag-unknown"
			case "TUNM", "TUNMN", "TNAME", "DTNAME":
				if res == "ERR" {
					return strings.ToLower(f[0]) + "-rejected"
				}
				return strings.ToLower(f[0]) + "-accepted"
			}
			return strings.ToLower(f[0])
		},
	}
}

// aliased: do two values handed out by newEmpty share memory? (pointers: same address; byte slices: same backing array)
func aliased(a, b interface{}) bool {
	va, vb := reflect.ValueOf(a), reflect.ValueOf(b)
	if !va.IsValid() || !vb.IsValid() || va.Kind() != vb.Kind() {
		return false
	}
	switch va.Kind() {
	case reflect.Ptr:
		return !va.IsNil() && va.Pointer() == vb.Pointer()
	case reflect.Slice:
		return va.Len() > 0 && vb.Len() > 0 && va.Pointer() == vb.Pointer()
	}
	return false
}
