package main

import (
	"fmt"
	"math"
	"strconv"
	"strings"
	"time"

	"github.com/sirupsen/logrus"
	"github.com/spali/go-rscp/rscp"
)

type verifSwitch bool

func cksumValue(k string) interface{} {
	b := true
	switch k {
	case "nil":
		return nil
	case "true":
		return true
	case "false":
		return false
	case "1":
		return 1
	case "2":
		return "yes"
	case "3":
		return 1.0
	case "4":
		return struct{}{}
	case "5":
		return &b
	case "6":
		return []bool{true}
	case "7":
		return func() bool { return true }
	case "8":
		return verifSwitch(true) // a defined type whose underlying type is bool: not a bool
	}
	return 0
}

func parseCfg(c string) rscp.ClientConfig {
	f := strings.Fields(c)
	i64 := func(s string) int64 { v, _ := strconv.ParseInt(s, 10, 64); return v }
	port, _ := strconv.ParseUint(f[5], 10, 16)
	rb, _ := strconv.ParseUint(f[11], 10, 16)
	return rscp.ClientConfig{Address: string(unhx(f[1])), Username: string(unhx(f[2])), Password: string(unhx(f[3])), Key: string(unhx(f[4])),
		Port: uint16(port), HeartbeatInterval: time.Duration(i64(f[6])), ConnectionTimeout: time.Duration(i64(f[7])),
		SendTimeout: time.Duration(i64(f[8])), ReceiveTimeout: time.Duration(i64(f[9])), UseChecksum: cksumValue(f[10]), ReceiveBufferBlockSize: uint16(rb)}
}

func init() {
	props["C16"] = &prop{
		rule: "the options a client really uses over three connections of its life (checksum flag of every frame the device receives; 3 checksum settings) + every subset of the four required fields x checksum option of 10 Go kinds (nil, true, false, int, string, float64, struct, *bool, slice, func) x key/user/password lengths {0,1,31,32,33,64,255,70000} x numeric options {0, negative, 1, max} (sampled cross product + all single-factor variations); non-trivial = all four required fields present; distinct by case line",
		gen: func(tier string, r *rng, emit func(string)) {
			lens := []int{0, 1, 31, 32, 33, 64, 255, 65535, 65536, 65537, 70000, 131072}
			cks := []string{"nil", "true", "false", "1", "2", "3", "4", "5", "6", "7", "8"}
			durs := []int64{0, -1, 1, math.MaxInt64, math.MinInt64, 1000000000, 1000000001, 50000000}
			ports := []int{0, 1, 5033, 65535}
			rbufs := []int{0, 1, 2, 2048, 2049, 2050, 65535}
			str := func(n int) string { return hx(r.bytes(n)) }
			line := func(a, u, p, k string, port int, hb, ct, st, rt int64, ck string, rb int) string {
				return fmt.Sprintf("CFG %s %s %s %s %d %d %d %d %d %s %d", a, u, p, k, port, hb, ct, st, rt, ck, rb)
			}
			// the receive buffer a client really uses, after another client with another setting ran in the same process
			for _, a := range []int{1, 4, 64, 0} {
				for _, b := range []int{0, 1, 2, 4, 3000} {
					emit(fmt.Sprintf("CFGREAD %d %d", a, b))
				}
			}
			// the options a client really uses over its life: three connections of one client (exchange, Disconnect, a connection
			// that breaks inside a call, exchange) - every frame carries the checksum the configuration means and the effective
			// configuration is what it was when the client was created (real connect() against the loopback device)
			for _, ck := range []string{"nil", "true", "false"} {
				emit("CFGLIFE " + ck)
			}
			// every subset of the required fields x every checksum kind
			for m := 0; m < 16; m++ {
				for _, ck := range cks {
					f := func(bit int) string {
						if m&(1<<uint(bit)) != 0 {
							return str(1 + r.intn(12))
						}
						return "-"
					}
					emit(line(f(0), f(1), f(2), f(3), 0, 0, 0, 0, 0, ck, 0))
				}
			}
			// lengths of key, user, password
			for _, lk := range lens {
				for _, lu := range lens {
					for _, lp := range lens {
						if tier != "thorough" && lk < 65535 && lu != lp && r.intn(3) != 0 {
							continue
						}
						emit(line(str(9), str(lu), str(lp), str(lk), ports[r.intn(4)], durs[r.intn(8)], durs[r.intn(8)], durs[r.intn(8)], durs[r.intn(8)], cks[r.intn(3)], rbufs[r.intn(7)]))
					}
				}
			}
			// numeric options, one factor at a time and random combinations
			for _, d := range durs {
				emit(line(str(4), str(4), str(4), str(4), 5033, d, 1, 1, 1, "nil", 1))
				emit(line(str(4), str(4), str(4), str(4), 5033, 1, d, 1, 1, "nil", 1))
				emit(line(str(4), str(4), str(4), str(4), 5033, 1, 1, d, 1, "true", 1))
				emit(line(str(4), str(4), str(4), str(4), 5033, 1, 1, 1, d, "false", 1))
			}
			for _, p := range ports {
				for _, rb := range rbufs {
					emit(line(str(4), str(4), str(4), str(4), p, 0, 0, 0, 0, "nil", rb))
				}
			}
			n := 1500
			if tier == "thorough" {
				n = 30000
			}
			for i := 0; i < n; i++ {
				l := func() int {
					if r.intn(5) == 0 {
						return 0
					}
					if r.intn(12) == 0 {
						return lens[r.intn(len(lens))]
					}
					return lens[r.intn(7)] // the long values are covered by the length cross product above
				}
				emit(line(str(l()), str(l()), str(l()), str(l()), r.intn(65536)*r.intn(2), durs[r.intn(8)]+int64(r.intn(3))-1, durs[r.intn(8)], durs[r.intn(8)], durs[r.intn(8)], cks[r.intn(len(cks))], r.intn(65536)*r.intn(2)))
			}
		},
		run: func(c string) string {
			if strings.HasPrefix(c, "CFGREAD ") {
				// two clients in a row, each with its own scripted connection and one exchange: the second one must read with the
				// buffer ITS configuration means, whatever the first one used
				f := strings.Fields(c)
				var out string
				for k := 1; k <= 2; k++ {
					rb, _ := strconv.Atoi(f[k])
					cl, err := rscp.NewClient(rscp.ClientConfig{Address: "127.0.0.1", Username: "u", Password: "p", Key: "k3y", ReceiveBufferBlockSize: uint16(rb),
						ReceiveTimeout: time.Second, SendTimeout: time.Second})
					if err != nil {
						return "ERR"
					}
					pc := newPeerConn("k3y")
					tr := &trace{}
					sc := &scriptConn{j: 0, t: tr, budget: -1, script: []reaction{answer(pc.reply(authReply(10), true)), answer(pc.reply(sizedReply(9, true, 1), true))}}
					attachConn(cl, sc)
					_, err = cl.SendMultiple([]rscp.Message{{Tag: rscp.INFO_REQ_SERIAL_NUMBER, DataType: rscp.None}})
					out = fmt.Sprintf("read=%d blocks=%d ok=%s", sc.maxBuf, effectiveConfig(cl).ReceiveBufferBlockSize, b01(err == nil))
				}
				return out
			}
			if strings.HasPrefix(c, "CFGLIFE ") {
				f := strings.Fields(c)
				var conns [][]reaction
				for k := 0; k < 3; k++ {
					pc := newPeerConn("k3y")
					script := []reaction{answer(pc.reply(authReply(10), true)), answer(pc.reply(sizedReply(1, true, 1), true))}
					if k == 1 {
						script[1] = reaction{eof: true} // the connection breaks inside the call: the client closes it itself
					}
					conns = append(conns, script)
				}
				dev, err := newDevice("k3y", conns)
				if err != nil {
					return "ERR device"
				}
				defer dev.close()
				cl, err := rscp.NewClient(rscp.ClientConfig{Address: "127.0.0.1", Port: dev.port(), Username: "u", Password: "p", Key: "k3y", UseChecksum: cksumValue(f[1])})
				if err != nil {
					return "ERR"
				}
				before := fmt.Sprintf("%v", effectiveConfig(cl))
				oks := ""
				for k := 0; k < 3; k++ {
					_, err = cl.SendMultiple([]rscp.Message{{Tag: rscp.INFO_REQ_SERIAL_NUMBER, DataType: rscp.None}})
					oks += b01(err == nil)
					if k == 0 {
						_ = cl.Disconnect()
					}
				}
				_ = cl.Disconnect()
				same := b01(before == fmt.Sprintf("%v", effectiveConfig(cl)))
				dev.close()
				var crcs []string
				dev.mu.Lock()
				for _, h := range dev.plains {
					pt := unhx(h)
					crcs = append(crcs, b01(len(pt) >= 4 && pt[3]&0x10 != 0))
				}
				dev.mu.Unlock()
				return fmt.Sprintf("ok=%s crc=%s cfgsame=%s", oks, strings.Join(crcs, ","), same)
			}
			cfg := parseCfg(c)
			// "no configuration causes a panic" whatever the package logger's level: the same call once more at the most verbose level
			// (a panic there is reported through the case's recovered panic; the outcome must be the same)
			cl, err := rscp.NewClient(cfg)
			func() {
				old := rscp.Log.GetLevel()
				rscp.Log.SetLevel(logrus.TraceLevel)
				defer rscp.Log.SetLevel(old)
				_, err2 := rscp.NewClient(cfg)
				if (err == nil) != (err2 == nil) {
					panic("creating a client succeeds or fails depending on the log level")
				}
			}()
			if err != nil {
				msg := err.Error()
				if strings.Contains(msg, "UseChecksum") {
					return "ERR checksum"
				}
				var miss []string
				for _, f := range []string{"address", "username", "password", "key"} {
					if strings.Contains(msg, f) {
						miss = append(miss, f)
					}
				}
				return "ERR missing=" + strings.Join(miss, ",")
			}
			e := effectiveConfig(cl)
			ck := "?"
			if b, ok := e.UseChecksum.(bool); ok {
				ck = b01(b)
			}
			// where connect() will dial: host part in hex, port in decimal
			dial := dialAddress(cl)
			if i := strings.LastIndex(dial, ":"); i >= 0 {
				dial = hx([]byte(dial[:i])) + ":" + dial[i+1:]
			}
			return fmt.Sprintf("OK port=%d hb=%d conn=%d send=%d recv=%d ck=%s rbuf=%d key=%s dial=%s", e.Port, int64(e.HeartbeatInterval), int64(e.ConnectionTimeout),
				int64(e.SendTimeout), int64(e.ReceiveTimeout), ck, e.ReceiveBufferBlockSize, hx(rscp.VerifKey(cfg.Key)), dial)
		},
		pred: func(c, res string) string {
			if strings.HasPrefix(res, "PANIC") || res == "HANG" {
				return "creating a client: " + shorten(res, 200)
			}
			if strings.HasPrefix(c, "CFGREAD ") {
				kv := _kv(res)
				n, _ := strconv.Atoi(kv["read"])
				b, _ := strconv.Atoi(kv["blocks"])
				if res == "ERR" || kv["ok"] != "1" || n != 32*b {
					return fmt.Sprintf("a client whose receive buffer setting means %d block(s) reads with a buffer of %d bytes (after another client with another setting was used): %s", b, n, res)
				}
				return ""
			}
			if strings.HasPrefix(c, "CFGLIFE ") {
				f := strings.Fields(c)
				kv := _kv(res)
				if res == "ERR" || kv["ok"] != "101" {
					return "a client with an admissible configuration does not work over three connections (exchange, Disconnect, broken connection, exchange): " + res
				}
				wantCk := b01(f[1] != "false")
				frames := strings.Split(kv["crc"], ",")
				if len(frames) < 6 {
					return "fewer than six frames were written over the three connections: " + res
				}
				for i, x := range frames {
					if x != wantCk {
						return fmt.Sprintf("frame %d of the client's life is written with checksum=%s although the configuration (UseChecksum %s) means %s (checksums are on unless switched off): %s", i, x, f[1], wantCk, res)
					}
				}
				return ""
			}
			f := strings.Fields(c)
			complete := f[1] != "-" && f[2] != "-" && f[3] != "-" && f[4] != "-"
			ckok := f[10] == "nil" || f[10] == "true" || f[10] == "false"
			ok := strings.HasPrefix(res, "OK")
			if ok != (complete && ckok) {
				return fmt.Sprintf("creating a client succeeded=%v for a configuration with all required fields=%v and an admissible checksum option=%v", ok, complete, ckok)
			}
			if !ok {
				if !complete {
					for i, name := range []string{"address", "username", "password", "key"} {
						if (f[1+i] == "-") != strings.Contains(res, name) {
							return "the error does not name exactly the missing fields: " + res
						}
					}
				}
				return ""
			}
			kv := _kv(res)
			i64 := func(s string) int64 { v, _ := strconv.ParseInt(s, 10, 64); return v }
			wantPort := f[5]
			if wantPort == "0" {
				wantPort = "5033"
			}
			if kv["dial"] != f[1]+":"+wantPort {
				return "the client will not dial the configured address and the effective port (5033 when unset): " + kv["dial"]
			}
			for _, k := range []string{"conn", "send", "recv"} {
				if i64(kv[k]) <= 0 {
					return "effective " + k + " timeout is not positive: " + kv[k]
				}
			}
			for i, k := range []string{"conn", "send", "recv"} {
				if i64(f[7+i]) <= 0 && i64(kv[k]) != 3000000000 {
					return "an unset/negative " + k + " timeout does not fall back to 3 s: " + kv[k]
				}
			}
			if f[5] == "0" && kv["port"] != "5033" {
				return "default port is " + kv["port"]
			}
			if f[10] == "nil" && kv["ck"] != "1" {
				return "checksums are not on by default"
			}
			rb := i64(f[11])
			if (rb == 0 || rb > 2049) && kv["rbuf"] != "1" {
				return "an unset/out-of-range receive buffer does not fall back to one block: " + kv["rbuf"]
			}
			return ""
		},
		class: func(c, res string) string {
			if strings.HasPrefix(c, "CFGREAD ") {
				return "buffer-in-use"
			}
			if strings.HasPrefix(c, "CFGLIFE ") {
				return "options-in-use"
			}
			if strings.HasPrefix(res, "OK") {
				return "accepted"
			}
			return strings.SplitN(strings.TrimPrefix(res, "ERR "), "=", 2)[0]
		},
		nontrivial: func(c, res string) bool {
			f := strings.Fields(c)
			if f[0] == "CFGREAD" || f[0] == "CFGLIFE" {
				return true
			}
			return f[1] != "-" && f[2] != "-" && f[3] != "-" && f[4] != "-"
		},
	}
}

func _kv(line string) map[string]string {
	d := map[string]string{}
	for _, x := range strings.Fields(line) {
		if i := strings.IndexByte(x, '='); i > 0 {
			d[x[:i]] = x[i+1:]
		}
	}
	return d
}
