package main

import (
	"bufio"
	"bytes"
	"encoding/json"
	"fmt"
	"io"
	"math"
	"math/big"
	"os"
	"os/exec"
	"regexp"
	"strconv"
	"strings"
	"sync"
	"time"

	"github.com/spali/go-rscp/rscp"
)

// ---------------------------------------------------------------- the in-package driver of cmd/e3dc as a subprocess
type e3dcDriver struct {
	cmd *exec.Cmd
	in  io.WriteCloser
	out *bufio.Reader
	mu  sync.Mutex
}

var drv *e3dcDriver

func driver() *e3dcDriver {
	if drv != nil {
		return drv
	}
	path := os.Getenv("VERIF_E3DC_TEST")
	if path == "" {
		panic("harness: VERIF_E3DC_TEST is not set")
	}
	c := exec.Command(path, "-test.run", "TestVerifDriver")
	c.Env = append(os.Environ(), "VERIF_DRIVER=1")
	in, _ := c.StdinPipe()
	out, _ := c.StdoutPipe()
	c.Stderr = io.Discard
	if err := c.Start(); err != nil {
		panic("harness: cannot start the e3dc driver: " + err.Error())
	}
	drv = &e3dcDriver{cmd: c, in: in, out: bufio.NewReaderSize(out, 1<<22)}
	return drv
}

func (d *e3dcDriver) ask(line string) string {
	d.mu.Lock()
	defer d.mu.Unlock()
	if _, err := io.WriteString(d.in, line+"\n"); err != nil {
		drv = nil
		return "PANIC the e3dc driver died"
	}
	for {
		l, err := d.out.ReadString('\n')
		if err != nil {
			drv = nil
			return "PANIC the e3dc driver died"
		}
		l = strings.TrimRight(l, "\r\n")
		if strings.HasPrefix(l, "VERIF-RESULT ") {
			return strings.TrimPrefix(l, "VERIF-RESULT ")
		}
	}
}

// ---------------------------------------------------------------- annotated JSON syntax trees
type jn struct {
	kind      string // null bool num str arr obj
	b         bool
	lit       string // number literal
	s         string
	arr       []*jn
	t, d, val *jn // object notation
}

func jnum(lit string) *jn  { return &jn{kind: "num", lit: lit} }
func jstr(s string) *jn    { return &jn{kind: "str", s: s} }
func jarr(l ...*jn) *jn    { return &jn{kind: "arr", arr: l} }
func jobj(t, d, v *jn) *jn { return &jn{kind: "obj", t: t, d: d, val: v} }
func jbool(b bool) *jn     { return &jn{kind: "bool", b: b} }
func jnull() *jn           { return &jn{kind: "null"} }
func (j *jn) text() string {
	switch j.kind {
	case "null":
		return "null"
	case "bool":
		if j.b {
			return "true"
		}
		return "false"
	case "num":
		return j.lit
	case "str":
		b, _ := json.Marshal(j.s)
		return string(b)
	case "arr":
		parts := make([]string, len(j.arr))
		for i, x := range j.arr {
			parts[i] = x.text()
		}
		return "[" + strings.Join(parts, ",") + "]"
	case "obj":
		var parts []string
		if j.t != nil {
			parts = append(parts, `"Tag":`+j.t.text())
		}
		if j.d != nil {
			parts = append(parts, `"DataType":`+j.d.text())
		}
		if j.val != nil {
			parts = append(parts, `"Value":`+j.val.text())
		}
		return "{" + strings.Join(parts, ",") + "}"
	}
	return "?"
}

var plainRe = regexp.MustCompile(`^(0|[1-9][0-9]*)$`)

// ast prints the tree with the oracle annotations (exact integer value, strconv roundings, RFC 3339 instants)
func (j *jn) ast() string {
	switch j.kind {
	case "null":
		return "(null)"
	case "bool":
		return "(bool " + b01(j.b) + ")"
	case "num":
		iz, f32, f64 := "-", "-", "-"
		if r, ok := new(big.Rat).SetString(j.lit); ok && r.IsInt() {
			iz = r.Num().String()
		}
		if f, err := strconv.ParseFloat(j.lit, 32); err == nil {
			f32 = fmt.Sprint(math.Float32bits(float32(f)))
		}
		if f, err := strconv.ParseFloat(j.lit, 64); err == nil {
			f64 = fmt.Sprint(math.Float64bits(f))
		}
		return fmt.Sprintf("(num %s %s %s %s)", iz, b01(plainRe.MatchString(j.lit)), f32, f64)
	case "str":
		var t time.Time
		if err := json.Unmarshal([]byte(j.text()), &t); err == nil {
			return fmt.Sprintf("(str %s %d %d)", hx([]byte(j.s)), t.Unix(), t.Nanosecond())
		}
		return "(str " + hx([]byte(j.s)) + " -)"
	case "arr":
		parts := make([]string, len(j.arr))
		for i, x := range j.arr {
			parts[i] = x.ast()
		}
		return strings.TrimRight("(arr "+strings.Join(parts, " "), " ") + ")"
	case "obj":
		o := func(x *jn) string {
			if x == nil {
				return "-"
			}
			return x.ast()
		}
		return fmt.Sprintf("(obj %s %s %s)", o(j.t), o(j.d), o(j.val))
	}
	return "?"
}

// ---------------------------------------------------------------- request trees with a notation per node
type rtree struct {
	nota     int // 0 bare, 1 tuple, 2 object
	tag      rscp.Tag
	byName   bool
	explicit bool          // data type written explicitly
	dt       rscp.DataType // effective data type
	val      *jn           // scalar value as JSON (nil: no value)
	kids     []*rtree      // container children (nil: not a container value)
	hasKids  bool
	expect   interface{} // the Go value the scalar denotes (nil when none)
}

func (t *rtree) json() *jn {
	var jt *jn
	if t.byName && t.tag.IsATag() {
		jt = jstr(t.tag.String())
	} else {
		jt = jnum(fmt.Sprint(uint32(t.tag)))
	}
	var jd, jv *jn
	if t.explicit {
		jd = jstr(t.dt.String())
	}
	if t.hasKids {
		l := make([]*jn, len(t.kids))
		for i, k := range t.kids {
			l[i] = k.json()
		}
		jv = jarr(l...)
	} else if t.val != nil {
		jv = t.val
	}
	switch t.nota {
	case 0:
		return jt
	case 2:
		return jobj(jt, jd, jv)
	}
	l := []*jn{jt}
	if jd != nil {
		l = append(l, jd)
	}
	if jv != nil {
		l = append(l, jv)
	}
	return jarr(l...)
}

func (t *rtree) message() rscp.Message {
	m := rscp.Message{Tag: t.tag, DataType: t.dt}
	if t.hasKids {
		ks := make([]rscp.Message, len(t.kids))
		for i, k := range t.kids {
			ks[i] = k.message()
		}
		m.Value = ks
	} else if t.val != nil {
		m.Value = t.expect
	}
	return m
}

var tagsByType map[rscp.DataType][]rscp.Tag

func tagFor(r *rng, d rscp.DataType) (rscp.Tag, bool) {
	if tagsByType == nil {
		tagsByType = map[rscp.DataType][]rscp.Tag{}
		for _, t := range rscp.TagValues() {
			tagsByType[t.DataType()] = append(tagsByType[t.DataType()], t)
		}
	}
	if l := tagsByType[d]; len(l) > 0 && r.intn(3) != 0 {
		return l[r.intn(len(l))], true
	}
	return rscp.Tag(0x7e000000 | uint32(r.intn(1<<20))), false // unknown tag: the type has to be explicit
}

// an in-range value of the data type, as JSON and as the Go value it denotes
func scalarFor(r *rng, d rscp.DataType) (*jn, interface{}) {
	intLit := func(v *big.Int) *jn {
		switch r.intn(6) {
		case 0:
			return jnum(v.String() + ".0")
		case 1:
			if v.Sign() != 0 && new(big.Int).Mod(v, big.NewInt(10)).Sign() == 0 {
				return jnum(new(big.Int).Div(v, big.NewInt(10)).String() + "e1")
			}
		}
		return jnum(v.String())
	}
	pick := func(bits uint, signed bool) *big.Int {
		lo, hi := big.NewInt(0), new(big.Int).Sub(new(big.Int).Lsh(big.NewInt(1), bits), big.NewInt(1))
		if signed {
			lo = new(big.Int).Neg(new(big.Int).Lsh(big.NewInt(1), bits-1))
			hi = new(big.Int).Sub(new(big.Int).Lsh(big.NewInt(1), bits-1), big.NewInt(1))
		}
		switch r.intn(6) {
		case 0:
			return lo
		case 1:
			return hi
		case 2:
			return big.NewInt(0)
		case 3:
			return big.NewInt(1)
		case 4:
			if signed {
				return big.NewInt(-1)
			}
		}
		v := new(big.Int).SetUint64(r.u64())
		v.Mod(v, new(big.Int).Add(new(big.Int).Sub(hi, lo), big.NewInt(1)))
		return v.Add(v, lo)
	}
	switch d {
	case rscp.Bool:
		b := r.bool()
		if r.intn(3) == 0 {
			return jnum(b01(b)), b
		}
		return jbool(b), b
	case rscp.Char8:
		v := pick(8, true)
		return intLit(v), int8(v.Int64())
	case rscp.UChar8, rscp.Bitfield:
		v := pick(8, false)
		return intLit(v), uint8(v.Uint64())
	case rscp.Int16:
		v := pick(16, true)
		return intLit(v), int16(v.Int64())
	case rscp.UInt16:
		v := pick(16, false)
		return intLit(v), uint16(v.Uint64())
	case rscp.Int32:
		v := pick(32, true)
		return intLit(v), int32(v.Int64())
	case rscp.Uint32:
		v := pick(32, false)
		return intLit(v), uint32(v.Uint64())
	case rscp.Int64:
		v := pick(64, true)
		if r.intn(4) == 0 {
			v = big.NewInt(9007199254740993) // 2^53+1
		}
		return intLit(v), v.Int64()
	case rscp.Uint64:
		v := pick(64, false)
		return intLit(v), v.Uint64()
	case rscp.Error:
		v := pick(32, false)
		return intLit(v), rscp.RscpError(v.Uint64())
	case rscp.Float32:
		lits := []string{"0", "-0", "1.5", "0.1", "3.4028235e38", "1e-45", "16777217", "-2.5e10", "0.30000001192092896",
			// within half a float64 ulp of the midpoint of two adjacent float32 values (rounding twice goes wrong), and the largest value that still rounds to MaxFloat32
			"1.00000005960464477540", "1.00000017881393432617", "340282356779733661637539395458142568447", "0.50000002980232238770", "16777217.0000000001"}
		l := lits[r.intn(len(lits))]
		f, _ := strconv.ParseFloat(l, 32)
		return jnum(l), float32(f)
	case rscp.Double64:
		lits := []string{"0", "-0", "1.5", "0.1", "1.7976931348623157e308", "5e-324", "9007199254740993", "-2.5e100", "123456789.125"}
		l := lits[r.intn(len(lits))]
		f, _ := strconv.ParseFloat(l, 64)
		return jnum(l), f
	case rscp.CString:
		ss := []string{"", "abc", "ümläut €", "with \"quotes\" and \\", "Bool", "a\nb", "<html>&"}
		s := ss[r.intn(len(ss))]
		return jstr(s), s
	case rscp.Timestamp:
		ts := []string{"1970-01-01T00:00:00Z", "2024-02-29T12:34:56.789012345Z", "1969-12-31T23:59:59.999999999Z", "9999-12-31T23:59:59Z", "2020-06-01T10:00:00+02:00", "0001-01-01T00:00:00Z"}
		s := ts[r.intn(len(ts))]
		var t time.Time
		_ = json.Unmarshal([]byte(`"`+s+`"`), &t)
		return jstr(s), time.Unix(t.Unix(), int64(t.Nanosecond())).UTC()
	case rscp.ByteArray:
		n := r.intn(5)
		b := r.bytes(n)
		l := make([]*jn, n)
		for i := range b {
			l[i] = jnum(fmt.Sprint(b[i]))
		}
		return jarr(l...), append([]byte{}, b...)
	}
	return nil, nil
}

// a value the data type cannot represent
func badScalarFor(r *rng, d rscp.DataType) *jn {
	out := func(bits uint, signed bool) *jn {
		lo, hi := big.NewInt(-1), new(big.Int).Lsh(big.NewInt(1), bits)
		if signed {
			lo = new(big.Int).Sub(new(big.Int).Neg(new(big.Int).Lsh(big.NewInt(1), bits-1)), big.NewInt(1))
			hi = new(big.Int).Lsh(big.NewInt(1), bits-1)
		}
		switch r.intn(7) {
		case 0:
			return jnum(lo.String())
		case 1:
			return jnum(hi.String())
		case 2:
			return jnum("0.5")
		case 3:
			return jnum("1e60")
		case 4:
			return jstr("1")
		case 5:
			return jnull()
		}
		return jnum("18446744073709551616")
	}
	switch d {
	case rscp.Bool:
		return []*jn{jnum("2"), jstr("true"), jnum("-1"), jnum("0.5")}[r.intn(4)]
	case rscp.Char8:
		return out(8, true)
	case rscp.UChar8, rscp.Bitfield:
		return out(8, false)
	case rscp.Int16:
		return out(16, true)
	case rscp.UInt16:
		return out(16, false)
	case rscp.Int32:
		return out(32, true)
	case rscp.Uint32, rscp.Error:
		return out(32, false)
	case rscp.Int64:
		return out(64, true)
	case rscp.Uint64:
		return out(64, false)
	case rscp.Float32:
		return []*jn{jnum("1e39"), jstr("1.5"), jbool(true)}[r.intn(3)]
	case rscp.Double64:
		return []*jn{jnum("1e309"), jstr("1.5"), jarr()}[r.intn(3)]
	case rscp.CString:
		return []*jn{jnum("1"), jbool(true), jarr(jstr("a"))}[r.intn(3)]
	case rscp.Timestamp:
		return []*jn{jstr("yesterday"), jnum("0"), jstr("2024-13-01T00:00:00Z")}[r.intn(3)]
	case rscp.ByteArray:
		// one inadmissible element at any position among admissible ones (an element that is skipped or defaulted would
		// silently change the bytes sent)
		bad := []*jn{jnum("256"), jnum("-1"), jnum("1.5"), jstr("1"), jnull(), jbool(true), jarr(jnum("1")), jnum("1e3")}[r.intn(8)]
		n := r.intn(5)
		pos := r.intn(n + 1)
		var el []*jn
		for i := 0; i <= n; i++ {
			if i == pos {
				el = append(el, bad)
			} else {
				el = append(el, jnum(fmt.Sprint(r.intn(256))))
			}
		}
		if r.intn(6) == 0 {
			return jstr("AQI=")
		}
		return jarr(el...)
	case rscp.Container:
		return []*jn{jnum("1"), jstr("x"), jobj(jstr("EMS_REQ_POWER_PV"), nil, nil)}[r.intn(3)]
	}
	return jnull()
}

var scalarTypes = []rscp.DataType{rscp.Bool, rscp.Char8, rscp.UChar8, rscp.Int16, rscp.UInt16, rscp.Int32, rscp.Uint32, rscp.Int64, rscp.Uint64,
	rscp.Float32, rscp.Double64, rscp.Bitfield, rscp.CString, rscp.Timestamp, rscp.ByteArray, rscp.Error}

func genRtree(r *rng, depth int) *rtree {
	t := &rtree{}
	k := r.intn(10)
	switch {
	case k < 2: // no value
		t.dt = rscp.None
		if r.intn(3) == 0 {
			t.dt = scalarTypes[r.intn(len(scalarTypes))]
		}
	case k < 4 && depth > 0:
		t.dt = rscp.Container
		t.hasKids = true
		n := r.intn(4)
		for i := 0; i < n; i++ {
			t.kids = append(t.kids, genRtree(r, depth-1))
		}
	default:
		t.dt = scalarTypes[r.intn(len(scalarTypes))]
		t.val, t.expect = scalarFor(r, t.dt)
	}
	known := false
	t.tag, known = tagFor(r, t.dt)
	t.byName = known && r.intn(4) != 0
	t.explicit = !known || r.intn(3) == 0
	if t.tag.IsATag() && t.tag.DataType() != t.dt {
		t.explicit = true
	}
	assignNotation(r, t)
	return t
}

// admissible: bare only without type and value; the 2-tuple [tag, value] only when the value is not a string naming a data type
func admissible(t *rtree, n int) bool {
	if n == 0 {
		return !t.explicit && t.val == nil && !t.hasKids
	}
	if n == 1 && !t.explicit && t.val != nil && t.val.kind == "str" {
		if _, err := rscp.DataTypeString(t.val.s); err == nil {
			return false
		}
	}
	return true
}
func assignNotation(r *rng, t *rtree) {
	for {
		n := r.intn(3)
		if admissible(t, n) {
			t.nota = n
			return
		}
	}
}

// allNotations enumerates every admissible notation assignment of a tree (small trees only)
func allNotations(t *rtree, emit func()) {
	var nodes []*rtree
	var collect func(x *rtree)
	collect = func(x *rtree) {
		nodes = append(nodes, x)
		for _, k := range x.kids {
			collect(k)
		}
	}
	collect(t)
	var rec func(i int)
	rec = func(i int) {
		if i == len(nodes) {
			emit()
			return
		}
		for n := 0; n < 3; n++ {
			if admissible(nodes[i], n) {
				nodes[i].nota = n
				rec(i + 1)
			}
		}
	}
	rec(0)
}
func countNodes(t *rtree) int {
	n := 1
	for _, k := range t.kids {
		n += countNodes(k)
	}
	return n
}

func jinLine(top *jn, expect string) string {
	return "JIN " + hx([]byte(top.text())) + " " + top.ast() + " => " + expect
}

func init() {
	props["C12"] = &prop{
		rule: "random request trees (known tags with inferred types, numeric and unknown tags with explicit types, all data types, boundary values per type written as 5 / 5.0 / 5e0, nesting <= 4) with a notation per node (bare, tuple, object); EVERY notation assignment for trees of <= 4 nodes (JEQ groups), random assignments beyond; out-of-range / non-integral / wrongly typed values for every type; malformed requests (not an array, empty or 4-element tuple, unknown tag or type name, tag outside uint32 or not a plain integer, null / {} / object without Tag, 3-tuple without a type); the request text goes through the real unmarshalJSONRequests in package main of cmd/e3dc; + the real e3dc binary (split and unsplit) on texts whose later element is unacceptable: rejected, nothing transmitted; non-trivial = the text is a JSON array; distinct by case line",
		gen: func(tier string, r *rng, emit func(string)) {
			n := tierPick(tier, 1500, 30000)
			for i := 0; i < n; i++ {
				k := 1 + r.intn(3)
				var ts []*rtree
				var js []*jn
				var ms []rscp.Message
				for j := 0; j < k; j++ {
					t := genRtree(r, r.intn(5))
					ts = append(ts, t)
					js = append(js, t.json())
					ms = append(ms, t.message())
				}
				emit(jinLine(jarr(js...), "OK "+sxs(ms)))
			}
			// every notation assignment of small trees must give the same messages
			ng := tierPick(tier, 150, 2000)
			for i := 0; i < ng; i++ {
				t := genRtree(r, 2)
				if countNodes(t) > 4 {
					continue
				}
				var texts, asts []string
				allNotations(t, func() {
					top := jarr(t.json())
					texts = append(texts, hx([]byte(top.text())))
					asts = append(asts, top.ast())
				})
				if len(texts) > 1 {
					emit("JEQ " + strings.Join(texts, ",") + " | " + strings.Join(asts, " ;; "))
				}
			}
			// values the data type cannot represent: rejected, never replaced
			nb := tierPick(tier, 600, 10000)
			for i := 0; i < nb; i++ {
				d := append(append([]rscp.DataType{}, scalarTypes...), rscp.Container)[r.intn(len(scalarTypes)+1)]
				t := &rtree{dt: d, explicit: true, nota: 1 + r.intn(2)}
				t.tag, _ = tagFor(r, d)
				t.byName = t.tag.IsATag()
				t.val = badScalarFor(r, d)
				top := t.json()
				if r.intn(3) == 0 { // nested in a container
					c := &rtree{dt: rscp.Container, explicit: true, nota: 1 + r.intn(2), tag: rscp.BAT_REQ_DATA, byName: true, hasKids: true, kids: []*rtree{t}}
					top = c.json()
				}
				emit(jinLine(jarr(top), "ERR"))
			}
			// malformed requests
			pv := jstr("EMS_REQ_POWER_PV")
			mal := []*jn{
				pv, jobj(pv, nil, nil), jnum("1"), jnull(), jbool(true), // not an array at top level
				jarr(jarr()), jarr(jarr(pv, jstr("Bool"), jbool(true), jbool(true))), // empty / overlong tuple
				jarr(jstr("NO_SUCH_TAG")), jarr(jarr(pv, jstr("NoSuchType"), jnum("1"))), jarr(jobj(pv, jstr("bool"), jbool(true))),
				jarr(jnum("4294967296")), jarr(jnum("-1")), jarr(jnum("1.0")), jarr(jnum("1e3")), jarr(jarr(jnum("1.5"))),
				jarr(jnull()), jarr(jobj(nil, nil, nil)), jarr(jobj(nil, jstr("Bool"), jbool(true))), jarr(jbool(true)),
				jarr(jarr(jstr("BAT_INDEX"), jnum("1"), jnum("2"))), jarr(jarr(pv, jnull(), jnum("2"))),
				jarr(jobj(jarr(pv), nil, nil)), jarr(jarr(jarr(pv))), jarr(jobj(jstr("4294967296"), nil, nil)),
				jarr(jstr("")), jarr(jstr("007")), jarr(jstr("4294967295")), jarr(jarr(jstr("16777221"), jstr("UInt16"), jnum("5"))),
			}
			for _, m := range mal {
				emit(jinLine(m, "?"))
			}
			emit("JIN " + hx([]byte("")) + " (null) => ERR")
			// "... is rejected with an error and no request is transmitted": the real e3dc binary against a device that would answer,
			// a request text whose LATER element is unacceptable (unknown tag or type, unrepresentable value, bad tuple), split and unsplit
			for _, bad := range []string{"\"NO_SUCH_TAG\"", "[\"EMS_REQ_POWER_BAT\",\"UInt16\",70000]", "[\"EMS_REQ_POWER_BAT\",\"NoSuchType\",1]",
				"[\"EMS_REQ_POWER_BAT\",\"UChar8\",-1]", "[1,2,3,4]", "[]", "null", "{\"DataType\":\"UInt16\"}", "[\"EMS_REQ_POWER_BAT\",\"Float32\",\"x\"]", "4294967296"} {
				for _, lead := range []string{"\"EMS_REQ_POWER_PV\"", "\"EMS_REQ_POWER_PV\",[\"BAT_REQ_RSOC\"]", "[\"EMS_REQ_SET_POWER\",[[\"EMS_REQ_SET_POWER_MODE\",1]]]"} {
					for _, split := range []string{"0", "1"} {
						emit("CLI12 " + split + " " + hx([]byte("["+lead+","+bad+"]")))
					}
				}
			}
			emit("JIN " + hx([]byte("  \n[ \"EMS_REQ_POWER_PV\" ,\t[\"EMS_REQ_POWER_BAT\"] ]\n")) + " " + jarr(pv, jarr(jstr("EMS_REQ_POWER_BAT"))).ast() + " => ?")
		},
		run: func(c string) string {
			f := strings.SplitN(c, " ", 3)
			switch f[0] {
			case "CLI12":
				pc := newPeerConn(cliKey)
				rs := []reaction{answer(pc.reply(authReply(10), true))}
				for j := uint32(1); j <= 4; j++ {
					rs = append(rs, answer(pc.reply(nonceReply(j), true)))
				}
				return runCli(cliCase{host: true, user: true, pass: true, key: true, reqsrc: "arg", reqhex: f[2], outfmt: "json", split: f[1] == "1", cfg: "none",
					conns: [][]reaction{rs}})
			case "JIN":
				return driver().ask("JIN " + f[1])
			case "JEQ":
				var rs []string
				for _, h := range strings.Split(f[1], ",") {
					rs = append(rs, driver().ask("JIN "+h))
				}
				for _, x := range rs[1:] {
					if x != rs[0] {
						return "DIFF"
					}
				}
				if rs[0] == "ERR" {
					return "ALLERR"
				}
				if strings.HasPrefix(rs[0], "OK ") {
					return "SAME " + rs[0][3:]
				}
				return rs[0]
			}
			return "?"
		},
		pred: func(c, res string) string {
			if strings.HasPrefix(res, "PANIC") || res == "HANG" {
				return "parsing a request text: " + shorten(res, 200)
			}
			if strings.HasPrefix(c, "CLI12 ") {
				parts := strings.SplitN(res, " || ", 2)
				kv := _kv(parts[0])
				if kv["status"] == "0" || kv["stdout"] != "-" {
					return "a request text with an unacceptable element is not rejected by the command: " + shorten(res, 160)
				}
				if len(parts) == 2 {
					for _, fr := range strings.Split(parts[1], " ; ") {
						ff := strings.SplitN(fr, " ", 3)
						if len(ff) == 3 && !strings.HasPrefix(ff[2], "((1 14 ") && !strings.HasPrefix(ff[2], "(1 14 ") {
							return "a request text with an unacceptable element is rejected, but a request was transmitted before: " + shorten(ff[2], 160)
						}
					}
				}
				return ""
			}
			if strings.HasPrefix(c, "JEQ") {
				if res == "DIFF" {
					return "the same request tree written in different notations is parsed to different messages"
				}
				if res == "ALLERR" {
					return "a well-formed request tree is rejected in every notation"
				}
				return ""
			}
			i := strings.LastIndex(c, " => ")
			want := c[i+4:]
			switch {
			case want == "?":
				return ""
			case want == "ERR" && res != "ERR":
				return "a value the data type cannot represent (or a malformed request) is accepted as " + shorten(res, 120)
			case strings.HasPrefix(want, "OK") && res != want:
				return "the request is not parsed to the messages it denotes: got " + shorten(res, 160)
			}
			return ""
		},
		class: func(c, res string) string {
			k := strings.Fields(c)[0]
			switch {
			case k == "CLI12":
				return "CLI12:rejected-by-the-command"
			case strings.HasPrefix(res, "OK"), strings.HasPrefix(res, "SAME"):
				return k + ":accepted"
			case res == "ERR", res == "ALLERR":
				return k + ":rejected"
			}
			return k + ":" + strings.Fields(res)[0]
		},
		nontrivial: func(c, res string) bool {
			f := strings.Fields(c)
			if f[0] == "CLI12" {
				return true
			}
			return len(f) > 1 && strings.HasPrefix(f[1], "5b")
		},
	}
}

// ---------------------------------------------------------------- C13: output formats
// oracle table for leaves whose text is produced by encoding/json, strconv and time (modelled, not verified)
func leafOracle(ms []rscp.Message, tbl map[string]string) {
	put := func(k string, v interface{}) {
		if _, ok := tbl[k]; ok {
			return
		}
		b, err := json.Marshal(v)
		if err != nil {
			tbl[k] = "FAIL"
		} else {
			tbl[k] = hx(b)
		}
	}
	for _, m := range ms {
		switch v := m.Value.(type) {
		case float32:
			put(fmt.Sprintf("f32:%d", math.Float32bits(v)), v)
		case float64:
			put(fmt.Sprintf("f64:%d", math.Float64bits(v)), v)
		case string:
			put("str:"+hx([]byte(v)), v)
		case time.Time:
			put(fmt.Sprintf("time:%d:%d", v.Unix(), v.Nanosecond()), v)
			if v.Year() < 0 {
				tbl[fmt.Sprintf("yneg:%d:%d", v.Unix(), v.Nanosecond())] = ""
			}
		case rscp.RscpError:
			put(fmt.Sprintf("err:%d", uint32(v)), v)
		case []byte:
			put("b64:"+hx(v), v)
		case []rscp.Message:
			leafOracle(v, tbl)
		}
	}
}

func joutLine(op, format string, ms []rscp.Message) string {
	tbl := map[string]string{}
	leafOracle(ms, tbl)
	put := func(k string, v interface{}) {
		b, _ := json.Marshal(v)
		tbl[k] = hx(b)
	}
	put("time:0:0", time.Unix(0, 0).UTC()) // what a negative year is replaced by
	var parts []string
	for k, v := range tbl {
		if v == "" {
			parts = append(parts, k)
		} else {
			parts = append(parts, k+"="+v)
		}
	}
	sortStrings(parts)
	return op + " " + format + " " + sxs(ms) + " | " + strings.Join(parts, " ")
}

func sortStrings(a []string) {
	for i := 1; i < len(a); i++ {
		for j := i; j > 0 && a[j] < a[j-1]; j-- {
			a[j], a[j-1] = a[j-1], a[j]
		}
	}
}

func responseValue(r *rng, d rscp.DataType, depth int) interface{} {
	switch d {
	case rscp.Float32:
		if r.intn(3) == 0 {
			return math.Float32frombits([]uint32{0x7fc00000, 0x7f800000, 0xff800000, 0x80000000, 1}[r.intn(5)])
		}
	case rscp.Double64:
		if r.intn(3) == 0 {
			return math.Float64frombits([]uint64{0x7ff8000000000000, 0x7ff0000000000000, 0xfff0000000000000, 0x8000000000000000, 1}[r.intn(5)])
		}
	case rscp.Timestamp:
		secs := []int64{0, -1, 253402300799, 253402300800, -62135596800, -62135596801, -62167219200, -62167219201, 1 << 40, -(1 << 40), math.MaxInt64, math.MinInt64, 1700000000}
		return time.Unix(secs[r.intn(len(secs))], int64(r.intn(2)*123456789)).UTC()
	case rscp.CString:
		ss := []string{"", "abc", "ümläut €", "q\"uote\\", "<b>&amp;</b>", "line\nbreak\ttab", "\x00\x01", "bad\xffutf8", " "}
		return ss[r.intn(len(ss))]
	case rscp.Error:
		return rscp.RscpError([]uint32{1, 2, 7, 8, 9, 0, 4294967295, 12345}[r.intn(8)])
	}
	return genValue(r, d, depth, 6, false)
}

func genResponse(r *rng, depth int, tags []rscp.Tag) []rscp.Message {
	n := r.intn(5)
	ms := make([]rscp.Message, n)
	for i := range ms {
		d := allTypes[r.intn(len(allTypes))]
		if depth <= 0 && d == rscp.Container {
			d = rscp.UInt16
		}
		t := tags[r.intn(len(tags))]
		var v interface{}
		if d == rscp.Container {
			v = genResponse(r, depth-1, tags)
		} else {
			v = responseValue(r, d, depth)
		}
		ms[i] = rscp.Message{Tag: t, DataType: d, Value: v}
	}
	return ms
}

// hasCollision: one tag is used for both a scalar and a container at the same level (the rendering is not pinned by the property)
func hasCollision(ms []rscp.Message) bool {
	kind := map[rscp.Tag]int{}
	for _, m := range ms {
		k := 1
		if kids, ok := m.Value.([]rscp.Message); ok {
			k = 2
			if hasCollision(kids) {
				return true
			}
		}
		if kind[m.Tag] != 0 && kind[m.Tag] != k {
			return true
		}
		kind[m.Tag] = k
	}
	return false
}

func unrenderable(ms []rscp.Message, format string) string {
	for _, m := range ms {
		switch v := m.Value.(type) {
		case float32:
			if math.IsNaN(float64(v)) || math.IsInf(float64(v), 0) {
				return "non-finite-float"
			}
		case float64:
			if math.IsNaN(v) || math.IsInf(v, 0) {
				return "non-finite-float"
			}
		case time.Time:
			if v.Year() > 9999 || (v.Year() < 0 && format == "json") {
				return "timestamp-year-out-of-range"
			}
		case []rscp.Message:
			if s := unrenderable(v, format); s != "" {
				return s
			}
		}
	}
	return ""
}

func init() {
	props["C13"] = &prop{
		rule: "response trees over all data types incl. NaN/+-Inf/-0, timestamps over the whole int64 range (years far below 0, -1, 0, 1, 9999, 10000), (+ for every data type at top level the same through the real e3dc binary, unsplit and with -splitrequests); strings with quotes/control characters/invalid UTF-8, unknown tags, repeated and interleaved container tags (A A B, A B A, A A B B), scalar/container collisions in both orders, depth <= 5 x the 3 output formats, rendered by the real NewJSON*Messages / json.Marshal in package main of cmd/e3dc; the document text is compared with the model's (leaf formatting from an oracle table), each output is checked to be valid JSON and deterministic; non-trivial = at least two messages; distinct by case line",
		gen: func(tier string, r *rng, emit func(string)) {
			formats := []string{"json", "jsonsimple", "jsonmerged"}
			A, B, C := rscp.BAT_DATA, rscp.PVI_DATA, rscp.Tag(0x7f800001)
			S := rscp.BAT_RSOC
			c := func(t rscp.Tag, kids ...rscp.Message) rscp.Message {
				return rscp.Message{Tag: t, DataType: rscp.Container, Value: append([]rscp.Message{}, kids...)}
			}
			s := func(t rscp.Tag, v uint16) rscp.Message { return rscp.Message{Tag: t, DataType: rscp.UInt16, Value: v} }
			fixed := [][]rscp.Message{
				{}, {s(S, 1)}, {c(A)}, {c(A, s(S, 1)), c(A, s(S, 2))}, {c(A, s(S, 1)), c(A, s(S, 2)), c(B, s(S, 3))},
				{c(A, s(S, 1)), c(B, s(S, 2)), c(A, s(S, 3))}, {c(A, s(S, 1)), c(A, s(S, 2)), c(B, s(S, 3)), c(B, s(S, 4))},
				{c(A, s(S, 1)), c(A, s(S, 2)), c(A, s(S, 3))}, {c(C, c(A, s(S, 1)), c(A, s(S, 2))), c(C, c(A, s(S, 3)))},
				{s(S, 1), s(S, 2)}, {s(A, 1), c(A, s(S, 2))}, {c(A, s(S, 2)), s(A, 1)}, {s(A, 1), c(A, s(S, 2)), c(A, s(S, 3))}, {c(A, s(S, 2)), s(A, 1), c(A, s(S, 3))},
				{c(A, c(B, c(C, c(A, s(S, 9)))))},
				{c(A, s(S, 1)), c(A, s(S, 2)), s(A, 7)}, {c(A, s(S, 1)), c(A, s(S, 2)), s(A, 7), c(A, s(S, 3))}, {c(A, s(S, 1)), c(A, s(S, 2)), c(A, s(S, 3)), s(A, 7)},
				{c(C, c(A, s(S, 1)), c(A, s(S, 2)), s(A, 7))}, {s(A, 1), c(A, s(S, 1)), s(A, 2), c(A, s(S, 2)), s(A, 3)},
			}
			for _, ms := range fixed {
				for _, f := range formats {
					op := "JOUT"
					if hasCollision(ms) && f == "jsonmerged" {
						op = "JOUTC"
					}
					emit(joutLine(op, f, ms))
				}
			}
			// one message of every type with boundary values
			for _, d := range allTypes {
				if d == rscp.Container {
					continue
				}
				for k := 0; k < 8; k++ {
					ms := []rscp.Message{{Tag: S, DataType: d, Value: responseValue(r, d, 0)}}
					emit(joutLine("JOUT", formats[k%3], ms))
				}
				// the same through the real e3dc binary and a scripted device (JOUTB: one SendMultiple; JOUTBS: -splitrequests, one
				// Client.Send per message): what the device answered is what is printed, for every data type at top level
				if d != rscp.Container {
					for k := 0; k < 3; k++ {
						ms := []rscp.Message{{Tag: S, DataType: d, Value: responseValue(r, d, 0)}, {Tag: rscp.BAT_RSOC, DataType: rscp.Float32, Value: float32(1.5)}}
						emit(joutLine("JOUTB", formats[k%3], ms))
						emit(joutLine("JOUTBS", formats[(k+1)%3], ms))
					}
				}
			}
			// every arrangement of up to 6 containers under two tags (A A A B B, A B A B A, ...), each occurrence with its own
			// content, at top level and inside a container: no occurrence may be lost or turn up under the other tag
			for n := 3; n <= 6; n++ {
				for pat := 0; pat < 1<<uint(n); pat++ {
					if tier != "thorough" && n == 6 && pat%3 != 0 {
						continue
					}
					var ms []rscp.Message
					for i := 0; i < n; i++ {
						tg := A
						if pat&(1<<uint(i)) != 0 {
							tg = B
						}
						ms = append(ms, c(tg, s(S, uint16(100*n+i))))
					}
					emit(joutLine("JOUT", "jsonmerged", ms))
					// the same arrangement with one occurrence empty (a container without items), at every position
					if n <= 4 {
						for e := 0; e < n; e++ {
							ms2 := append([]rscp.Message{}, ms...)
							ms2[e] = c(ms[e].Tag)
							emit(joutLine("JOUT", "jsonmerged", ms2))
							if (pat+e)%4 == 0 {
								emit(joutLine("JOUT", "jsonmerged", []rscp.Message{c(C, ms2...)}))
							}
						}
					}
					if pat%5 == 0 {
						emit(joutLine("JOUT", "jsonmerged", []rscp.Message{c(C, ms...)}))
						emit(joutLine("JOUT", "jsonsimple", ms))
						emit(joutLine("JOUT", "json", ms))
					}
				}
			}
			n := tierPick(tier, 1200, 30000)
			for i := 0; i < n; i++ {
				var tags []rscp.Tag
				switch r.intn(3) {
				case 0:
					tags = []rscp.Tag{A, B, S}
				case 1:
					tags = []rscp.Tag{A, B, C, S, rscp.BAT_INDEX, rscp.Tag(uint32(r.u64()))}
				default:
					tv := rscp.TagValues()
					for k := 0; k < 6; k++ {
						tags = append(tags, tv[r.intn(len(tv))])
					}
				}
				ms := genResponse(r, r.intn(6), tags)
				f := formats[r.intn(3)]
				op := "JOUT"
				if hasCollision(ms) && f == "jsonmerged" {
					op = "JOUTC"
				}
				emit(joutLine(op, f, ms))
			}
		},
		run: func(c string) string {
			hd := strings.SplitN(c, " | ", 2)[0]
			f := strings.SplitN(hd, " ", 3)
			if f[0] == "JOUTB" || f[0] == "JOUTBS" {
				ms := msgsOfSx(parseSxString(f[2]))
				split := f[0] == "JOUTBS"
				pc := newPeerConn(cliKey)
				rs := []reaction{answer(pc.reply(authReply(10), true))}
				var reqs []string
				for range ms {
					reqs = append(reqs, "\"EMS_REQ_POWER_PV\"")
				}
				if split {
					for j := range ms {
						rs = append(rs, answer(pc.reply(ms[j:j+1], true)))
					}
				} else {
					rs = append(rs, answer(pc.reply(ms, true)))
				}
				res := runCli(cliCase{host: true, user: true, pass: true, key: true, reqsrc: "arg", reqhex: hx([]byte("[" + strings.Join(reqs, ",") + "]")),
					outfmt: f[1], split: split, cfg: "none", conns: [][]reaction{rs}})
				if res == "HANG" {
					return res
				}
				kv := _kv(strings.SplitN(res, " || ", 2)[0])
				if kv["panic"] == "1" {
					return "PANIC the command ends with a Go panic trace"
				}
				if kv["status"] != "0" {
					return "FAIL"
				}
				return "OK " + hx(bytes.TrimRight(unhx(kv["stdout"]), "\n"))
			}
			q := "JOUT " + f[1] + " " + f[2]
			a := driver().ask(q)
			// deterministic: the same document three times
			for k := 0; k < 2; k++ {
				if b := driver().ask(q); b != a {
					return "NONDETERMINISTIC"
				}
			}
			return a
		},
		pred: func(c, res string) string {
			hd := strings.SplitN(c, " | ", 2)[0]
			f := strings.SplitN(hd, " ", 3)
			ms := msgsOfSx(parseSxString(f[2]))
			if strings.HasPrefix(res, "PANIC") || res == "HANG" {
				return "rendering a response crashes: " + shorten(res, 160)
			}
			if res == "NONDETERMINISTIC" {
				return "the same response is rendered differently on repeated runs"
			}
			if res == "FAIL" {
				why := unrenderable(ms, f[1])
				if why == "" {
					why = "unknown-reason"
				}
				return "the tool fails on an unusual value: " + why
			}
			if strings.HasPrefix(res, "OK ") {
				doc := unhx(res[3:])
				if !json.Valid(doc) {
					return "the output is not a valid JSON document"
				}
				if f[1] == "jsonmerged" {
					var top map[string]json.RawMessage
					if err := json.Unmarshal(doc, &top); err != nil {
						return "jsonmerged does not print an object"
					}
					if why := checkNoLoss(ms, top); why != "" {
						return why
					}
				}
			}
			return ""
		},
		class: func(c, res string) string {
			f := strings.Fields(c)
			switch {
			case strings.HasPrefix(res, "OK"):
				return f[1] + ":rendered"
			case res == "FAIL":
				return f[1] + ":fails"
			}
			return f[1] + ":" + strings.Fields(res)[0]
		},
		nontrivial: func(c, res string) bool {
			return strings.HasPrefix(c, "JOUTB") || strings.Count(strings.SplitN(c, " | ", 2)[0], "(") > 3
		},
	}
}

// checkNoLoss: in jsonmerged every tag under which containers arrived holds exactly those containers - one object for a
// single occurrence, the array of all occurrences in order for several - whatever else arrived under the tag
func checkNoLoss(ms []rscp.Message, obj map[string]json.RawMessage) string {
	var order []rscp.Tag
	conts := map[rscp.Tag][][]rscp.Message{}
	for _, m := range ms {
		if kids, ok := m.Value.([]rscp.Message); ok {
			if _, seen := conts[m.Tag]; !seen {
				order = append(order, m.Tag)
			}
			conts[m.Tag] = append(conts[m.Tag], kids)
		}
	}
	for _, t := range order {
		kb, _ := json.Marshal(t)
		var key string
		_ = json.Unmarshal(kb, &key)
		raw, ok := obj[key]
		if !ok {
			return fmt.Sprintf("the containers that arrived under %s are missing from the output", key)
		}
		cs := conts[t]
		if len(cs) == 1 {
			var sub map[string]json.RawMessage
			if err := json.Unmarshal(raw, &sub); err != nil {
				return fmt.Sprintf("the container that arrived under %s was replaced by other data", key)
			}
			if why := checkNoLoss(cs[0], sub); why != "" {
				return why
			}
			continue
		}
		var arr []map[string]json.RawMessage
		if err := json.Unmarshal(raw, &arr); err != nil || len(arr) != len(cs) {
			return fmt.Sprintf("%d containers arrived under %s but the output does not hold all of them", len(cs), key)
		}
		for i := range cs {
			if why := checkNoLoss(cs[i], arr[i]); why != "" {
				return why
			}
		}
	}
	return ""
}
