package main

import (
	"encoding/hex"
	"fmt"
	"math"
	"strconv"
	"strings"
	"time"

	"github.com/spali/go-rscp/rscp"
)

// ---- splitmix64: every random choice of a run derives from one state ----
type rng struct{ s uint64 }

func newRng(seed uint64) *rng { return &rng{s: seed*0x9E3779B97F4A7C15 + 0x1234567} }
func (r *rng) u64() uint64 {
	r.s += 0x9E3779B97F4A7C15
	z := r.s
	z = (z ^ (z >> 30)) * 0xBF58476D1CE4E5B9
	z = (z ^ (z >> 27)) * 0x94D049BB133111EB
	return z ^ (z >> 31)
}
func (r *rng) intn(n int) int {
	if n <= 0 {
		return 0
	}
	return int(r.u64() % uint64(n))
}
func (r *rng) bool() bool { return r.u64()&1 == 1 }
func (r *rng) bytes(n int) []byte {
	b := make([]byte, n)
	for i := range b {
		b[i] = byte(r.u64())
	}
	return b
}
func (r *rng) fork() *rng { return &rng{s: r.u64()} }

func hx(b []byte) string {
	if len(b) == 0 {
		return "-"
	}
	return hex.EncodeToString(b)
}
func unhx(s string) []byte {
	if s == "-" {
		return nil
	}
	b, err := hex.DecodeString(s)
	if err != nil {
		panic("bad hex " + s)
	}
	return b
}
func b01(b bool) string {
	if b {
		return "1"
	}
	return "0"
}

// ---- message trees as S-expressions ----
func sx(m rscp.Message) string {
	k, p := "other", "0"
	switch v := m.Value.(type) {
	case nil:
		k, p = "nil", "-"
	case bool:
		k, p = "bool", b01(v)
	case int8:
		k, p = "i8", fmt.Sprint(v)
	case uint8:
		k, p = "u8", fmt.Sprint(v)
	case int16:
		k, p = "i16", fmt.Sprint(v)
	case uint16:
		k, p = "u16", fmt.Sprint(v)
	case int32:
		k, p = "i32", fmt.Sprint(v)
	case uint32:
		k, p = "u32", fmt.Sprint(v)
	case int64:
		k, p = "i64", fmt.Sprint(v)
	case uint64:
		k, p = "u64", fmt.Sprint(v)
	case float32:
		k, p = "f32", fmt.Sprint(math.Float32bits(v))
	case float64:
		k, p = "f64", fmt.Sprint(math.Float64bits(v))
	case string:
		k, p = "str", hx([]byte(v))
	case []byte:
		k, p = "bytes", hx(v)
	case []rscp.Message:
		k, p = "msgs", sxs(v)
	case time.Time:
		k, p = "time", fmt.Sprintf("(%d %d)", v.Unix(), v.Nanosecond())
	case rscp.RscpError:
		k, p = "err", fmt.Sprint(uint32(v))
	case int:
		k, p = "other", "1"
	case *int8:
		k, p = "other", "2"
	case rscp.Tag:
		k, p = "other", "3"
	case rscp.DataType:
		k, p = "other", "4"
	case struct{}:
		k, p = "other", "5"
	}
	return fmt.Sprintf("(%d %d %s %s)", uint32(m.Tag), uint8(m.DataType), k, p)
}
func sxs(ms []rscp.Message) string {
	parts := make([]string, len(ms))
	for i, m := range ms {
		parts[i] = sx(m)
	}
	return "(" + strings.Join(parts, " ") + ")"
}

type sexp struct {
	atom string
	list []sexp
	isL  bool
}

func tokenize(s string) []string {
	var toks []string
	cur := strings.Builder{}
	flush := func() {
		if cur.Len() > 0 {
			toks = append(toks, cur.String())
			cur.Reset()
		}
	}
	for _, c := range s {
		switch c {
		case '(', ')':
			flush()
			toks = append(toks, string(c))
		case ' ', '\t':
			flush()
		default:
			cur.WriteRune(c)
		}
	}
	flush()
	return toks
}
func parseSx(toks []string) (sexp, []string) {
	if len(toks) == 0 {
		panic("sexp: eof")
	}
	if toks[0] == "(" {
		toks = toks[1:]
		var l []sexp
		for {
			if len(toks) == 0 {
				panic("sexp: eof in list")
			}
			if toks[0] == ")" {
				return sexp{list: l, isL: true}, toks[1:]
			}
			var x sexp
			x, toks = parseSx(toks)
			l = append(l, x)
		}
	}
	return sexp{atom: toks[0]}, toks[1:]
}
func parseSxString(s string) sexp { x, _ := parseSx(tokenize(s)); return x }

func otherValue(code string) interface{} {
	switch code {
	case "1":
		return int(1)
	case "2":
		v := int8(1)
		return &v
	case "3":
		return rscp.Tag(1)
	case "4":
		return rscp.Bool
	}
	return struct{}{}
}

func msgOfSx(x sexp) rscp.Message {
	if !x.isL || len(x.list) != 4 {
		panic("bad message sexp")
	}
	tag, _ := strconv.ParseUint(x.list[0].atom, 10, 32)
	dt, _ := strconv.ParseUint(x.list[1].atom, 10, 8)
	p := x.list[3]
	pi := func(bits int) int64 { v, _ := strconv.ParseInt(p.atom, 10, bits); return v }
	pu := func(bits int) uint64 { v, _ := strconv.ParseUint(p.atom, 10, bits); return v }
	var v interface{}
	switch x.list[2].atom {
	case "nil":
		v = nil
	case "bool":
		v = p.atom == "1"
	case "i8":
		v = int8(pi(8))
	case "u8":
		v = uint8(pu(8))
	case "i16":
		v = int16(pi(16))
	case "u16":
		v = uint16(pu(16))
	case "i32":
		v = int32(pi(32))
	case "u32":
		v = uint32(pu(32))
	case "i64":
		v = pi(64)
	case "u64":
		v = pu(64)
	case "f32":
		v = math.Float32frombits(uint32(pu(32)))
	case "f64":
		v = math.Float64frombits(pu(64))
	case "str":
		v = string(unhx(p.atom))
	case "bytes":
		b := unhx(p.atom)
		if b == nil {
			b = []byte{}
		}
		v = b
	case "msgs":
		v = msgsOfSx(p)
	case "time":
		s, _ := strconv.ParseInt(p.list[0].atom, 10, 64)
		ns, _ := strconv.ParseInt(p.list[1].atom, 10, 64)
		v = time.Unix(s, ns).UTC()
	case "err":
		v = rscp.RscpError(pu(32))
	case "other":
		v = otherValue(p.atom)
	default:
		panic("bad kind " + x.list[2].atom)
	}
	return rscp.Message{Tag: rscp.Tag(tag), DataType: rscp.DataType(dt), Value: v}
}
func msgsOfSx(x sexp) []rscp.Message {
	ms := make([]rscp.Message, len(x.list))
	for i := range x.list {
		ms[i] = msgOfSx(x.list[i])
	}
	return ms
}

// restAfter returns the rest of the line after the first n space-separated fields
func restAfter(line string, n int) string {
	i := 0
	for c := 0; c < n && i < len(line); i++ {
		if line[i] == ' ' {
			c++
		}
	}
	return line[i:]
}
