package main

import (
	"encoding/base64"
	"encoding/hex"
	"regexp"
	"strconv"
	"strings"
)

var dumpRe = regexp.MustCompile(`\[\]byte\{([^}]*)\}`)

// scanLog looks for the password in everything the client logged: literally, hex or base64 encoded, and inside
// []byte{...} dumps (parsed back to bytes); and for secret-tagged values (the passphrase of the case) in rendered trees.
func scanLog(text, password, caseLine string) string {
	if password == "" {
		return "clean"
	}
	if strings.Contains(text, password) {
		return "password as text: " + around(text, password)
	}
	if strings.Contains(strings.ToLower(text), hex.EncodeToString([]byte(password))) {
		return "password hex encoded"
	}
	if strings.Contains(text, base64.StdEncoding.EncodeToString([]byte(password))) {
		return "password base64 encoded"
	}
	for _, m := range dumpRe.FindAllStringSubmatch(text, -1) {
		var b []byte
		for _, f := range strings.Split(m[1], ",") {
			f = strings.TrimSpace(f)
			if f == "" {
				continue
			}
			v, err := strconv.ParseUint(f, 0, 8)
			if err != nil {
				continue
			}
			b = append(b, byte(v))
		}
		if strings.Contains(string(b), password) {
			return "password inside a byte dump"
		}
	}
	// values of secret tags must be masked wherever messages are rendered as text
	if i := strings.Index(caseLine, "PHRASE-"); i >= 0 {
		_ = i
	}
	for _, line := range strings.Split(text, "\n") {
		if strings.Contains(line, "[]byte{") {
			continue
		}
		if j := strings.Index(line, "PHRASE-"); j >= 0 {
			return "a secret-tagged value is rendered unmasked: " + shorten(line, 120)
		}
	}
	return "clean"
}

func around(text, s string) string {
	i := strings.Index(text, s)
	lo, hi := i-40, i+len(s)+10
	if lo < 0 {
		lo = 0
	}
	if hi > len(text) {
		hi = len(text)
	}
	return strings.ReplaceAll(text[lo:hi], "\n", " ")
}
