package main

import (
	"errors"
	"fmt"
	"reflect"
	"strconv"
	"strings"

	"github.com/spali/go-rscp/rscp"
	"github.com/spali/go-slicereader"
)

// Go values of different kinds handed to the builder as "a value"
var (
	ptrString = "ptr"
	ptrUint16 = uint16(9)
)

// (v10..v13: pointers - to a string, a typed nil pointer, to a uint16 - and a map: "exactly the next argument" means the very pointer)
var builderValues = []interface{}{"str", int(5), true, uint16(7), []byte{1}, struct{}{}, float64(1.5), []rscp.Message{}, int8(-1), rscp.RscpError(1),
	&ptrString, (*string)(nil), &ptrUint16, map[string]int{"a": 1}}

// sameValue: the message holds exactly the argument - for pointers the same pointer, not an equal pointee
func sameValue(arg, got interface{}) bool {
	if reflect.TypeOf(arg) != reflect.TypeOf(got) {
		return false
	}
	if va := reflect.ValueOf(arg); va.Kind() == reflect.Ptr {
		return va.Pointer() == reflect.ValueOf(got).Pointer()
	}
	return reflect.DeepEqual(arg, got)
}

func argOfTok(t string) interface{} {
	if t == "nil" {
		return nil
	}
	n, _ := strconv.ParseUint(t[1:], 10, 64)
	switch t[0] {
	case 't':
		return rscp.Tag(n)
	case 'd':
		return rscp.DataType(n)
	case 'v':
		return builderValues[n]
	}
	panic("bad arg " + t)
}

func bmsgStr(m rscp.Message) string {
	var p string
	switch v := m.Value.(type) {
	case nil:
		if m.DataType == rscp.None {
			p = "none"
		} else {
			p = "nil"
		}
	case []rscp.Message:
		if m.DataType == rscp.Container {
			parts := make([]string, len(v))
			for i := range v {
				parts[i] = bmsgStr(v[i])
			}
			p = "(" + strings.Join(parts, " ") + ")"
			break
		}
		p = "v7"
	default:
		p = "v?"
		for k, bv := range builderValues {
			if sameValue(bv, v) {
				p = fmt.Sprintf("v%d", k)
			}
		}
	}
	return fmt.Sprintf("(%d %d %s)", uint32(m.Tag), uint8(m.DataType), p)
}

func berrClass(err error) string {
	switch {
	case errors.Is(err, rscp.ErrNoArguments):
		return "noargs"
	case errors.Is(err, slicereader.EOS):
		return "empty"
	case errors.Is(err, rscp.ErrValidTag):
		return "notatag"
	case errors.Is(err, rscp.ErrMissingValue):
		return "missing"
	case errors.Is(err, rscp.ErrDataTypeValueMismatch):
		return "tagortype"
	}
	return "other:" + err.Error()
}

func init() {
	// the alphabet of the exhaustive family: tags of type None, Bool, CString, Container, Timestamp, an unknown tag, a response tag;
	// values string, int, nil; a DataType constant; a second container tag
	tagOf := func(d rscp.DataType, request bool) rscp.Tag {
		for _, t := range rscp.TagValues() {
			if t.DataType() == d && rscp.VerifIsRequest(t) == request && t != rscp.RSCP_REQ_AUTHENTICATION {
				return t
			}
		}
		return 0
	}
	props["C18"] = &prop{
		rule: "all argument lists of length <= 4 over a 12 symbol alphabet (tags of type None, Bool, CString, Container x2, Timestamp, an unknown tag, a response tag; values string, int, nil; a DataType constant) = 22,620 lists, exhaustively, + random lists of length <= 14 over a wider alphabet (every data type's tags, Go values of 14 kinds incl. pointers, a typed nil pointer and a map) + CreateRequests on 0..4 lists; non-trivial = the list starts with a tag; distinct by case line",
		gen: func(tier string, r *rng, emit func(string)) {
			alpha := []string{
				fmt.Sprintf("t%d", uint32(tagOf(rscp.None, true))), fmt.Sprintf("t%d", uint32(tagOf(rscp.Bool, true))),
				fmt.Sprintf("t%d", uint32(tagOf(rscp.CString, true))), fmt.Sprintf("t%d", uint32(rscp.RSCP_REQ_AUTHENTICATION)),
				fmt.Sprintf("t%d", uint32(tagOf(rscp.Container, true))), fmt.Sprintf("t%d", uint32(tagOf(rscp.Timestamp, true))),
				"t2130706433", fmt.Sprintf("t%d", uint32(rscp.RSCP_AUTHENTICATION)),
				"v0", "v1", "nil", "d1"}
			var rec func(prefix []string, n int)
			rec = func(prefix []string, n int) {
				if len(prefix) > 0 {
					emit("B " + strings.Join(prefix, " "))
				}
				if n == 0 {
					return
				}
				for _, a := range alpha {
					rec(append(append([]string{}, prefix...), a), n-1)
				}
			}
			rec(nil, 4)
			emit("B")
			wide := append([]string{}, alpha...)
			for _, d := range allTypes {
				for _, req := range []bool{true, false} {
					if t := tagOf(d, req); t != 0 {
						wide = append(wide, fmt.Sprintf("t%d", uint32(t)))
					}
				}
			}
			for k := range builderValues {
				wide = append(wide, fmt.Sprintf("v%d", k))
			}
			wide = append(wide, "d0", "d14", "d255", "d17", "t0", "t4294967295")
			n := 5000
			if tier == "thorough" {
				n = 100000
			}
			randList := func() []string {
				l := make([]string, r.intn(15))
				for i := range l {
					if r.intn(3) == 0 {
						l[i] = alpha[r.intn(8)]
					} else {
						l[i] = wide[r.intn(len(wide))]
					}
				}
				return l
			}
			for i := 0; i < n; i++ {
				emit(strings.TrimRight("B "+strings.Join(randList(), " "), " "))
			}
			emit("BM")
			for i := 0; i < n/5; i++ {
				parts := []string{"BM"}
				for j := 0; j < 1+r.intn(4); j++ {
					parts = append(parts, strings.Join(randList(), " "))
				}
				emit(strings.Join(parts, " | "))
			}
		},
		run: func(c string) string {
			if strings.HasPrefix(c, "BM") {
				var lists [][]interface{}
				if c != "BM" {
					for _, l := range strings.Split(c, " | ")[1:] {
						var args []interface{}
						for _, t := range strings.Fields(l) {
							args = append(args, argOfTok(t))
						}
						lists = append(lists, args)
					}
				}
				ms, err := rscp.CreateRequests(lists...)
				if err != nil {
					return "ERR " + berrClass(err)
				}
				parts := make([]string, len(ms))
				for i := range ms {
					parts[i] = bmsgStr(ms[i])
				}
				return strings.TrimRight("OK "+strings.Join(parts, " "), " ")
			}
			var args []interface{}
			for _, t := range strings.Fields(c)[1:] {
				args = append(args, argOfTok(t))
			}
			m, err := rscp.CreateRequest(args...)
			if err != nil {
				return "ERR " + berrClass(err)
			}
			return "OK " + bmsgStr(*m)
		},
		pred: func(c, res string) string {
			if strings.HasPrefix(res, "PANIC") || res == "HANG" {
				return "building a request: " + shorten(res, 200)
			}
			if strings.HasPrefix(res, "ERR other:") {
				return "an undocumented error is returned: " + res
			}
			if strings.HasPrefix(c, "BM | ") {
				// the multi form equals the single form applied to each list in turn
				var want []string
				for _, l := range strings.Split(c, " | ")[1:] {
					var args []interface{}
					for _, t := range strings.Fields(l) {
						args = append(args, argOfTok(t))
					}
					m, err := rscp.CreateRequest(args...)
					if err != nil {
						if res != "ERR "+berrClass(err) {
							return "CreateRequests differs from CreateRequest applied to each list: " + res + " vs ERR " + berrClass(err)
						}
						return ""
					}
					want = append(want, bmsgStr(*m))
				}
				if res != "OK "+strings.Join(want, " ") {
					return "CreateRequests differs from CreateRequest applied to each list"
				}
			}
			return ""
		},
		class: func(c, res string) string {
			f := strings.Fields(res)
			if f[0] == "ERR" {
				return strings.Fields(c)[0] + ":" + f[1]
			}
			return strings.Fields(c)[0] + ":ok"
		},
		nontrivial: func(c, res string) bool {
			f := strings.Fields(c)
			return len(f) > 1 && (f[1][0] == 't' || f[0] == "BM")
		},
	}
}
