package main

import (
	"crypto/cipher"
	"encoding/binary"
	"fmt"
	"strings"
	"time"

	"github.com/spali/go-rscp/rscp"
)

const (
	sec3 = int64(3000000000)
)

// the peer's side of one connection: replies are chained from the IV, like an RSCP peer does
type peerConn struct {
	enc cipher.BlockMode
}

func newPeerConn(key string) *peerConn { return &peerConn{enc: encrypter([]byte(key), nil)} }
func (p *peerConn) reply(ms []rscp.Message, crc bool) []byte {
	rscp.Now = func() time.Time { return time.Unix(1700000000, 42) }
	ct, err := rscp.Write(&p.enc, ms, crc)
	if err != nil {
		panic("harness: cannot encode a reply")
	}
	return ct
}

// raw: encrypts an arbitrary block-aligned plaintext on the peer's chain
func (p *peerConn) raw(plain []byte) []byte { return crypt(p.enc, plain) }

func authReply(level uint8) []rscp.Message {
	return []rscp.Message{{Tag: rscp.RSCP_AUTHENTICATION, DataType: rscp.UChar8, Value: level}}
}

func answer(data ...[]byte) reaction {
	var r reaction
	for _, d := range data {
		r.pieces = append(r.pieces, piece{data: d})
	}
	return r
}

func nonceReply(n uint32) []rscp.Message {
	// the nonce first: Client.Send returns only the first message of a reply
	return []rscp.Message{{Tag: rscp.Tag(0x00800000 | (n & 0xffff)), DataType: rscp.Uint32, Value: n},
		{Tag: rscp.INFO_SERIAL_NUMBER, DataType: rscp.CString, Value: fmt.Sprintf("reply-%d", n)}}
}
func nonceRequest(n uint32) string {
	return "send " + sxs([]rscp.Message{{Tag: rscp.INFO_REQ_SERIAL_NUMBER, DataType: rscp.None}, {Tag: rscp.Tag(0x00010000 | (n & 0xffff)), DataType: rscp.Uint32, Value: n}})
}

func baseSession(r *rng) sessionCase {
	return sessionCase{key: "k3y", user: "user1", pass: "S3cr3t-" + hx(r.bytes(4)), crc: []string{"nil", "true", "false"}[r.intn(3)], ct: sec3, st: sec3, rt: sec3,
		rbuf: 1, level: 0, sec: int64(1600000000 + r.intn(100000000)), nsec: int64(r.intn(1000000000)), mode: "attach"}
}
func (sc *sessionCase) useCRC() bool { return sc.crc != "false" }

// splits the trace line into events and results
func splitTrace(res string) (ev []string, rs []string) {
	parts := strings.SplitN(res, " || ", 2)
	if parts[0] != "" {
		ev = strings.Split(parts[0], " ; ")
	}
	if len(parts) > 1 && parts[1] != "" {
		rs = strings.Split(parts[1], " ; ")
	}
	return
}

func sessionRun(c string) string {
	if strings.HasPrefix(c, "V ") {
		if err := rscp.VerifValidateRequests(msgsOfSx(parseSxString(restAfter(c, 1)))); err != nil {
			return "ERR"
		}
		return "OK"
	}
	sc := parseSession(c)
	if sc.mode == "tcp" { // sequential use: the shared clock is the fixed one of all tcp sessions
		rscp.Now = func() time.Time { return time.Unix(tcpSec, tcpNsec) }
	}
	return sessionLine(sc, runSession(sc))
}

func sessionClass(c, res string) string {
	if strings.HasPrefix(c, "V ") {
		return "validate:" + strings.ToLower(res)
	}
	if strings.HasPrefix(res, "PANIC") {
		return "panic"
	}
	_, rs := splitTrace(res)
	ok, er := 0, 0
	for _, r := range rs {
		if strings.HasPrefix(r, "OK") {
			ok++
		} else {
			er++
		}
	}
	switch {
	case er == 0:
		return "session:all-calls-ok"
	case ok == 0:
		return "session:all-calls-fail"
	}
	return "session:mixed"
}

// ---- C05 request families ----
func requestTag(r *rng) rscp.Tag { return genTag(r, true) }

func validRequests(r *rng, depth, maxLen int) []rscp.Message {
	n := 1 + r.intn(4)
	ms := make([]rscp.Message, n)
	for i := range ms {
		ms[i] = genMsg(r, depth, maxLen, true)
		ms[i].Tag = requestTag(r)
	}
	return ms
}

// injectMismatch replaces, at a random position of depth <= maxDepth, the value by one of another kind
func injectMismatch(r *rng, ms []rscp.Message, maxDepth int) bool {
	if len(ms) == 0 {
		return false
	}
	i := r.intn(len(ms))
	if kids, ok := ms[i].Value.([]rscp.Message); ok && maxDepth > 0 && len(kids) > 0 && r.bool() {
		return injectMismatch(r, kids, maxDepth-1)
	}
	wrong := []interface{}{int(1), "x", uint16(1), int8(1), nil, true, []byte{1}, float64(1), struct{}{}, rscp.Tag(1), []rscp.Message{}}
	for try := 0; try < 20; try++ {
		v := wrong[r.intn(len(wrong))]
		if !rscp.VerifIsValid(ms[i].DataType, v) {
			ms[i].Value = v
			return true
		}
	}
	return false
}

func init() {
	props["C05"] = &prop{
		rule: "request lists: valid trees (request tags at top level, all 18 types, depth <= 4), a type/value mismatch injected at every depth <= 4, every data type byte 0..255 with a plausible value, response tags at top level and nested, foreign Go values, string/byte-array lengths 65527..65537 and 131072+k, totals across 2-4 messages and nested containers 65520..65560 and above 131072, x checksum on/off; validation alone (V) for volume and whole client sessions over an attached scripted connection (S) for what is transmitted; non-trivial = at least one message; distinct by case line",
		gen: func(tier string, r *rng, emit func(string)) {
			nv, ns := 800, 120
			if tier == "thorough" {
				nv, ns = 20000, 1500
			}
			var lists [][]rscp.Message
			add := func(ms []rscp.Message) { lists = append(lists, ms) }
			for i := 0; i < nv; i++ {
				ms := validRequests(r, r.intn(5), 30)
				switch r.intn(6) {
				case 0:
					injectMismatch(r, ms, 4)
				case 1: // a response tag at top level or nested
					if r.bool() {
						ms[r.intn(len(ms))].Tag |= 1 << 23
					} else {
						for j := range ms {
							if kids, ok := ms[j].Value.([]rscp.Message); ok && len(kids) > 0 {
								kids[0].Tag |= 1 << 23
							}
						}
					}
				case 2: // an undefined data type with a plausible value
					ms[r.intn(len(ms))].DataType = rscp.DataType(17 + r.intn(238))
				}
				add(ms)
			}
			for d := 0; d < 256; d++ {
				for _, v := range []interface{}{nil, uint8(1), "x", []rscp.Message{}} {
					add([]rscp.Message{{Tag: 0x01000005, DataType: rscp.DataType(d), Value: v}})
				}
			}
			// every defined data type x every kind of Go value, at nesting depth 0..3 (a value of the wrong kind must be refused
			// wherever it sits; also None with a value)
			kinds := []interface{}{nil, true, int8(1), uint8(1), int16(1), uint16(1), int32(1), uint32(1), int64(1), uint64(1), float32(1), float64(1),
				"x", []byte{1}, []rscp.Message{}, time.Unix(1, 0).UTC(), rscp.RscpError(1), int(1), struct{}{}, rscp.Tag(1)}
			for _, d := range allTypes {
				for _, v := range kinds {
					for depth := 0; depth <= 3; depth++ {
						m := rscp.Message{Tag: 0x01000005, DataType: d, Value: v}
						for k := 0; k < depth; k++ {
							sib := rscp.Message{Tag: 0x01000007, DataType: rscp.None}
							m = rscp.Message{Tag: rscp.Tag(0x01000030 + uint32(k)), DataType: rscp.Container, Value: []rscp.Message{sib, m}}
						}
						add([]rscp.Message{m})
					}
				}
			}
			add([]rscp.Message{})
			for _, ms := range lists {
				emit("V " + sxs(ms))
			}
			// sizes, one by one
			var sizes []int
			if tier == "thorough" {
				for n := 65527; n <= 65537; n++ {
					sizes = append(sizes, n)
				}
				for k := 0; k <= 8; k++ {
					sizes = append(sizes, 131072+k)
				}
			} else {
				sizes = []int{65527, 65528, 65529, 65535, 65536, 65537, 65541, 131072, 131077}
			}
			for _, n := range sizes {
				emit("V " + sxs([]rscp.Message{{Tag: 0x01000005, DataType: rscp.CString, Value: string(make([]byte, n))}}))
				emit("V " + sxs([]rscp.Message{{Tag: 0x01000006, DataType: rscp.ByteArray, Value: make([]byte, n)}}))
			}
			var totals []int
			if tier == "thorough" {
				for n := 65520; n <= 65560; n++ {
					totals = append(totals, n)
				}
				totals = append(totals, 131072, 131080, 80014, 196610)
			} else {
				totals = []int{65520, 65534, 65535, 65536, 65537, 65560, 80014, 131080}
			}
			for _, tot := range totals {
				// across 2..4 top-level messages
				k := 2 + r.intn(3)
				var ms []rscp.Message
				rest := tot
				for j := 0; j < k; j++ {
					n := rest/(k-j) - 7
					if j == k-1 {
						n = rest - 7
					}
					if n < 0 {
						n = 0
					}
					ms = append(ms, rscp.Message{Tag: rscp.Tag(0x01000010 + uint32(j)), DataType: rscp.ByteArray, Value: make([]byte, n)})
					rest -= 7 + n
				}
				emit("V " + sxs(ms))
				// nested: a container whose children total tot-7
				if tot-7-7 <= 65528*2 {
					half := (tot - 7 - 14) / 2
					if half >= 0 && half <= 65528 && tot-7-14-half <= 65528 {
						inner := []rscp.Message{{Tag: 1, DataType: rscp.ByteArray, Value: make([]byte, half)}, {Tag: 2, DataType: rscp.ByteArray, Value: make([]byte, tot-7-14-half)}}
						emit("V " + sxs([]rscp.Message{{Tag: 0x01000020, DataType: rscp.Container, Value: inner}}))
					}
				}
			}
			// sequences: requests that are refused (too large in total, a mismatch, a response tag), then a small valid request
			nseq := tierPick(tier, 40, 400)
			for i := 0; i < nseq; i++ {
				sc := baseSession(r)
				pc := newPeerConn(sc.key)
				rs := []reaction{answer(pc.reply(authReply(10), sc.useCRC()))}
				var calls []string
				k := 1 + r.intn(3)
				for j := 0; j < k; j++ {
					switch r.intn(4) {
					case 0: // every value fits, the total does not
						n := 33000 + r.intn(1000)
						calls = append(calls, "send "+sxs([]rscp.Message{{Tag: 0x01000010, DataType: rscp.CString, Value: strings.Repeat("S", n)}, {Tag: 0x01000011, DataType: rscp.CString, Value: strings.Repeat("T", n)}}))
					case 1:
						calls = append(calls, "send "+sxs([]rscp.Message{{Tag: 0x01000010, DataType: rscp.UInt16, Value: "notanumber"}}))
					case 2:
						calls = append(calls, "send "+sxs([]rscp.Message{{Tag: 0x01800010, DataType: rscp.Bool, Value: true}}))
					default: // accepted, with a reply
						calls = append(calls, "send "+sxs(validRequests(r, 2, 200)))
						rs = append(rs, answer(pc.reply(nonceReply(uint32(j)), sc.useCRC())))
					}
				}
				calls = append(calls, "send "+sxs([]rscp.Message{{Tag: 0x01000012, DataType: rscp.CString, Value: strings.Repeat("x", r.intn(40))}}))
				rs = append(rs, answer(pc.reply(nonceReply(99), sc.useCRC())))
				sc.conns = [][]reaction{rs}
				sc.calls = calls
				emit(sc.line())
			}
			// whole sessions: authentication, then the request list
			for i := 0; i < ns; i++ {
				sc := baseSession(r)
				ms := lists[r.intn(len(lists))]
				if i%10 == 0 {
					ms = sizedMsgs(r, []int{65535, 65536, 65528 + 7, 65529 + 7, 7, 0}[r.intn(6)], true)
					if ms == nil {
						ms = []rscp.Message{}
					}
				}
				pc := newPeerConn(sc.key)
				a := pc.reply(authReply(10), sc.useCRC())
				u := pc.reply(nonceReply(uint32(i)), sc.useCRC())
				sc.conns = [][]reaction{{answer(a), answer(u)}}
				sc.calls = []string{"send " + sxs(ms)}
				emit(sc.line())
			}
		},
		run: sessionRun,
		pred: func(c, res string) string {
			if strings.HasPrefix(res, "PANIC") || res == "HANG" {
				return "handing requests to the client: " + shorten(res, 200)
			}
			if strings.HasPrefix(c, "V ") {
				return ""
			}
			sc := parseSession(c)
			ev, rs := splitTrace(res)
			var writes [][]byte
			for _, e := range ev {
				if strings.HasPrefix(e, "WRITE ") {
					writes = append(writes, unhx(strings.Fields(e)[2]))
				}
			}
			if len(rs) != len(sc.calls) {
				return "no result for a call"
			}
			if len(writes) == 0 {
				return "" // not even the authentication was sent (cannot happen in these scripts)
			}
			user := writes[1:] // writes[0] is the authentication frame
			nok := 0
			var okCalls []string
			for i, x := range rs {
				if strings.HasPrefix(x, "OK") {
					nok++
					okCalls = append(okCalls, sc.calls[i])
				}
			}
			if len(user) > nok && len(sc.calls) == 1 && len(user) > 1 {
				return fmt.Sprintf("the request list was transmitted in %d writes", len(user))
			}
			if len(user) < nok {
				return "a call succeeded although nothing was transmitted for it"
			}
			if len(sc.calls) > 1 && len(user) != nok {
				return fmt.Sprintf("%d frames were transmitted for %d accepted request lists", len(user), nok)
			}
			if len(user) == 0 {
				return ""
			}
			// decrypt with the harness's own chain: the authentication frame came first on this connection
			dec := decrypter([]byte(sc.key), nil)
			_ = crypt(dec, writes[0])
			for ui, f := range user {
				if len(f) == 0 || len(f)%32 != 0 {
					return "the transmitted frame is not block aligned"
				}
				p := crypt(dec, f)
				if binary.LittleEndian.Uint16(p) != 0xDCE3 {
					return "the transmitted frame does not decrypt to an RSCP frame"
				}
				ds := int(binary.LittleEndian.Uint16(p[16:]))
				hasCRC := p[3]&0x10 != 0
				if hasCRC != sc.useCRC() {
					return "the checksum flag of the transmitted frame does not follow the configuration"
				}
				end := 18 + ds
				if hasCRC {
					end += 4
				}
				if end > len(p) || len(p)-end >= 32 {
					return "the frame length field does not agree with the transmitted size (or the padding is not minimal)"
				}
				for _, b := range p[end:] {
					if b != 0 {
						return "the padding is not zero"
					}
				}
				if int64(binary.LittleEndian.Uint64(p[4:])) != sc.sec || int64(int32(binary.LittleEndian.Uint32(p[12:]))) != sc.nsec {
					return "the frame does not carry the current time"
				}
				// decode what was sent (reference: the decoder, which C03 ties to the grammar) and compare with the requests
				v := implFeed([]byte("k"), nil, [][]byte{crypt(encrypter([]byte("k"), nil), p)})
				if ui < len(okCalls) {
					want := "ACCEPT " + strings.TrimPrefix(okCalls[ui], "send ")
					if len(sc.calls) == 1 {
						want = "ACCEPT " + strings.TrimPrefix(sc.calls[0], "send ")
					}
					if v[0] != want {
						return "the transmitted frame does not decode to the requests handed to the client: " + shorten(v[0], 120)
					}
				}
			}
			return ""
		},
		class: sessionClass,
		nontrivial: func(c, res string) bool {
			if strings.HasPrefix(c, "V ") {
				return c != "V ()"
			}
			return true
		},
	}
}

// ---------------------------------------------------------------- helpers for segmented replies
func cut(b []byte, at ...int) [][]byte {
	var out [][]byte
	prev := 0
	for _, a := range at {
		if a > prev && a < len(b) {
			out = append(out, b[prev:a])
			prev = a
		}
	}
	return append(out, b[prev:])
}
func uniform(b []byte, n int) [][]byte {
	var out [][]byte
	for len(b) > 0 {
		k := n
		if k > len(b) {
			k = len(b)
		}
		out = append(out, b[:k])
		b = b[k:]
	}
	return out
}
func randomCuts(r *rng, b []byte) [][]byte {
	var out [][]byte
	for len(b) > 0 {
		k := 1 + r.intn(len(b))
		switch r.intn(4) {
		case 0:
			k = 1 + r.intn(3)
		case 1:
			k = 1 + r.intn(40)
		}
		if k > len(b) {
			k = len(b)
		}
		out = append(out, b[:k])
		b = b[k:]
	}
	return out
}

// a reply of exactly `blocks` cipher blocks
func sizedReply(blocks int, crc bool, n uint32) []rscp.Message {
	payload := 32*blocks - 18 - 7 - 7 - 4
	if crc {
		payload -= 4
	}
	if payload < 0 {
		return []rscp.Message{{Tag: rscp.Tag(0x00800000 | (n & 0xffff)), DataType: rscp.Bool, Value: true}}
	}
	if payload > 65517 { // 11 + 7 + payload has to fit the 16 bit frame length
		payload = 65517
	}
	s := make([]byte, payload)
	for i := range s {
		s[i] = byte('a' + (i+int(n))%26)
	}
	return []rscp.Message{{Tag: rscp.Tag(0x00800000 | (n & 0xffff)), DataType: rscp.Uint32, Value: n}, {Tag: rscp.INFO_SERIAL_NUMBER, DataType: rscp.CString, Value: string(s)}}
}

// mergePieces: the same session with every reaction's pieces delivered in one piece
func mergePieces(sc sessionCase) sessionCase {
	out := sc
	out.conns = nil
	for _, rs := range sc.conns {
		var nrs []reaction
		for _, r := range rs {
			nr := reaction{eof: r.eof, writeFail: r.writeFail}
			var all []byte
			for _, p := range r.pieces {
				all = append(all, p.data...)
			}
			if len(all) > 0 {
				nr.pieces = []piece{{data: all}}
			}
			nrs = append(nrs, nr)
		}
		out.conns = append(out.conns, nrs)
	}
	return out
}

func init() {
	// ------------------------------------------------------------------ C07
	props["C07"] = &prop{
		rule: "reply sizes 1,2,3,5,64 (thorough: 2049) blocks x every single cut position (replies <= 5 blocks), every pair of cuts of the 2 block reply (thorough; sampled in quick), every uniform piece size 1..97, random multi-cut patterns x receive buffer settings {1,2,3,4,7,64,2048,0,2050,65535} blocks, for the authentication reply and for the user reply; observable = returned messages and number of bytes consumed; non-trivial = at least one piece is not a multiple of the block size; distinct by case line",
		gen: func(tier string, r *rng, emit func(string)) {
			rbufs := []int{1, 2, 3, 4, 7, 64, 2048, 0, 2050, 65535}
			mk := func(authPieces, userPieces [][]byte, rbuf int, crc string) {
				sc := baseSession(r)
				sc.crc = crc
				sc.rbuf = rbuf
				sc.conns = [][]reaction{{answer(authPieces...), answer(userPieces...)}}
				sc.calls = []string{nonceRequest(7)}
				emit(sc.line())
			}
			replies := func(blocks int, crc string) ([]byte, []byte) {
				pc := newPeerConn("k3y")
				useCRC := crc != "false"
				return pc.reply(authReply(10), useCRC), pc.reply(sizedReply(blocks, useCRC, uint32(blocks)), useCRC)
			}
			sizes := []int{1, 2, 3, 5}
			for _, b := range sizes {
				a, u := replies(b, "true")
				step := 1
				if tier != "thorough" && b >= 3 {
					step = 3
				}
				for c := 1; c < len(u); c += step { // every single cut of the user reply
					mk([][]byte{a}, cut(u, c), rbufs[c%len(rbufs)], "true")
				}
			}
			a, u := replies(2, "nil")
			for c := 1; c < len(a); c++ { // every single cut of the authentication reply
				mk(cut(a, c), [][]byte{u}, rbufs[c%len(rbufs)], "nil")
			}
			// pairs of cuts of the 2 block reply
			if tier == "thorough" {
				for c1 := 1; c1 < len(u); c1++ {
					for c2 := c1 + 1; c2 < len(u); c2++ {
						mk([][]byte{a}, cut(u, c1, c2), rbufs[(c1+c2)%len(rbufs)], "nil")
					}
				}
			} else {
				for i := 0; i < 300; i++ {
					c1 := 1 + r.intn(len(u)-2)
					c2 := c1 + 1 + r.intn(len(u)-c1-1)
					mk([][]byte{a}, cut(u, c1, c2), rbufs[r.intn(len(rbufs))], "nil")
				}
			}
			// uniform piece sizes
			big := []int{5, 64}
			if tier == "thorough" {
				big = append(big, 2049)
			}
			for _, b := range big {
				a, u := replies(b, "false")
				for n := 1; n <= 97; n++ {
					if tier != "thorough" && b == 64 && n%8 != 1 {
						continue
					}
					if b == 2049 && n < 31 {
						continue
					}
					mk(uniform(a, n), uniform(u, n), rbufs[n%len(rbufs)], "false")
				}
			}
			// random multi-cut patterns x every buffer setting
			nr := 40
			if tier == "thorough" {
				nr = 500
			}
			for _, b := range []int{1, 2, 3, 5, 64} {
				a, u := replies(b, "true")
				for i := 0; i < nr; i++ {
					if b == 64 && i%10 != 0 {
						continue
					}
					mk(randomCuts(r, a), randomCuts(r, u), rbufs[i%len(rbufs)], "true")
				}
			}
			// over real TCP: a reply that is cut off at a byte count that is not a multiple of the cipher block (the peer closes), then
			// the next call on a new connection with its replies in pieces: nothing of the aborted reply may survive
			for i := 0; i < tierPick(tier, 12, 120); i++ {
				sc := tcpSession(r)
				sc.rbuf = []int{1, 4, 64, 2048}[i%4]
				crcOn := sc.useCRC()
				pc0, pc1 := newPeerConn(sc.key), newPeerConn(sc.key)
				a0, u0 := pc0.reply(authReply(10), crcOn), pc0.reply(sizedReply(2+i%3, crcOn, 1), crcOn)
				a1, u1 := pc1.reply(authReply(10), crcOn), pc1.reply(sizedReply(1+i%3, crcOn, 2), crcOn)
				cutAt := 1 + r.intn(len(u0)-1)
				if i%4 != 0 && cutAt%32 == 0 {
					cutAt++
				}
				sc.conns = [][]reaction{{answer(a0), {pieces: []piece{{data: u0[:cutAt]}}, eof: true}}, {answer(randomCuts(r, a1)...), answer(randomCuts(r, u1)...)}}
				sc.calls = []string{nonceRequest(1), nonceRequest(2)}
				emit(sc.line())
			}
			for _, blocks := range []int{2048, 2049} {
				a, u := replies(blocks, "true")
				for _, rb := range []int{1, 2048, 2049} {
					if tier != "thorough" && rb == 1 && blocks == 2048 {
						continue
					}
					mk([][]byte{a}, [][]byte{u}, rb, "true")
					mk([][]byte{a}, cut(u, len(u)/2), rb, "true")
					if tier == "thorough" {
						mk([][]byte{a}, cut(u, 1), rb, "true")
						mk([][]byte{a}, randomCuts(r, u), rb, "true")
					}
				}
			}
		},
		run: sessionRun,
		pred: func(c, res string) string {
			if strings.HasPrefix(res, "PANIC") || res == "HANG" {
				return "receiving a segmented reply: " + shorten(res, 200)
			}
			sc := parseSession(c)
			one := mergePieces(sc)
			_, rs1 := splitTrace(sessionLine(one, runSession(one)))
			_, rs := splitTrace(res)
			if strings.Join(rs, ";") != strings.Join(rs1, ";") {
				return "the segmented delivery returns " + shorten(strings.Join(rs, ";"), 100) + " but the one-piece delivery " + shorten(strings.Join(rs1, ";"), 100)
			}
			return ""
		},
		class: func(c, res string) string {
			sc := parseSession(c)
			n := 0
			for _, rs := range sc.conns {
				for _, r := range rs {
					n += len(r.pieces)
				}
			}
			k := "pieces:2-3"
			switch {
			case n > 50:
				k = "pieces:51+"
			case n > 10:
				k = "pieces:11-50"
			case n > 3:
				k = "pieces:4-10"
			}
			_, rs := splitTrace(res)
			if len(rs) > 0 && strings.HasPrefix(rs[0], "OK") {
				return k + ":ok"
			}
			return k + ":err"
		},
		nontrivial: func(c, res string) bool {
			sc := parseSession(c)
			for _, rs := range sc.conns {
				for _, r := range rs {
					for _, p := range r.pieces {
						if len(p.data)%32 != 0 {
							return true
						}
					}
				}
			}
			return false
		},
	}

	// ------------------------------------------------------------------ C09
	props["C09"] = &prop{
		rule: "authentication replies: first tag in {RSCP_AUTHENTICATION, another response tag, a request tag, an unknown tag} x all 18 data types x values {zero, one, ten, max, min, non-zero of the wrong width} x 1..3 messages (all enumerated) x what the caller does next {same call again, disconnect then call, a different request}; observable = frames written per connection and call results; non-trivial = every case (each is a distinct reply); distinct by case line",
		gen: func(tier string, r *rng, emit func(string)) {
			tags := []rscp.Tag{rscp.RSCP_AUTHENTICATION, rscp.RSCP_USER_LEVEL, rscp.RSCP_REQ_AUTHENTICATION, 0x7f800001}
			values := func(d rscp.DataType) []interface{} {
				switch d {
				case rscp.None:
					return []interface{}{nil}
				case rscp.Bool:
					return []interface{}{false, true}
				case rscp.Char8:
					return []interface{}{int8(0), int8(1), int8(10), int8(127), int8(-128)}
				case rscp.UChar8, rscp.Bitfield:
					return []interface{}{uint8(0), uint8(1), uint8(10), uint8(255)}
				case rscp.Int16:
					return []interface{}{int16(0), int16(10), int16(256), int16(-32768)}
				case rscp.UInt16:
					return []interface{}{uint16(0), uint16(10), uint16(256), uint16(65535)}
				case rscp.Int32:
					return []interface{}{int32(0), int32(1), int32(10), int32(256), int32(2147483647), int32(-2147483648)}
				case rscp.Uint32:
					return []interface{}{uint32(0), uint32(10), uint32(4294967295)}
				case rscp.Int64:
					return []interface{}{int64(0), int64(10), int64(1 << 40)}
				case rscp.Uint64:
					return []interface{}{uint64(0), uint64(10)}
				case rscp.Float32:
					return []interface{}{float32(0), float32(10)}
				case rscp.Double64:
					return []interface{}{float64(0), float64(10)}
				case rscp.CString:
					return []interface{}{"", "10"}
				case rscp.Container:
					return []interface{}{[]rscp.Message{}, authReply(10)}
				case rscp.Timestamp:
					return []interface{}{time.Unix(0, 0).UTC(), time.Unix(10, 10).UTC()}
				case rscp.ByteArray:
					return []interface{}{[]byte{}, []byte{10}}
				case rscp.Error:
					return []interface{}{rscp.RscpError(0), rscp.RscpError(7)}
				}
				return nil
			}
			nexts := []string{"same", "disc", "other"}
			i := 0
			for _, tag := range tags {
				for _, d := range allTypes {
					for _, v := range values(d) {
						for k := 1; k <= 3; k++ {
							first := rscp.Message{Tag: tag, DataType: d, Value: v}
							reply := []rscp.Message{first}
							if k >= 2 {
								reply = append(reply, authReply(10)[0])
							}
							if k == 3 {
								reply = append(reply, rscp.Message{Tag: rscp.RSCP_USER_LEVEL, DataType: rscp.UChar8, Value: uint8(40)})
							}
							next := nexts[i%3]
							i++
							sc := baseSession(r)
							pc := newPeerConn(sc.key)
							crc := sc.useCRC()
							sc.conns = [][]reaction{{answer(pc.reply(reply, crc)), answer(pc.reply(authReply(10), crc)), answer(pc.reply(nonceReply(1), crc)), answer(pc.reply(nonceReply(2), crc))}}
							switch next {
							case "same":
								sc.calls = []string{nonceRequest(1), nonceRequest(1)}
							case "disc":
								sc.calls = []string{nonceRequest(1), "disc", nonceRequest(1)}
							default:
								sc.calls = []string{nonceRequest(1), nonceRequest(2)}
							}
							emit(sc.line())
						}
					}
				}
			}
			// a well-formed reply frame that carries no message at all (the client goes on reading and runs into the timeout)
			for _, crc := range []string{"true", "false"} {
				sc := baseSession(r)
				sc.crc = crc
				pc := newPeerConn(sc.key)
				sc.conns = [][]reaction{{answer(pc.reply([]rscp.Message{}, sc.useCRC())), answer(pc.reply(authReply(10), sc.useCRC()))}}
				sc.calls = []string{nonceRequest(1), nonceRequest(1)}
				emit(sc.line())
				sc2 := baseSession(r)
				sc2.crc = crc
				pc2 := newPeerConn(sc2.key)
				sc2.conns = [][]reaction{{answer(pc2.reply(authReply(10), sc2.useCRC())), answer(pc2.reply([]rscp.Message{}, sc2.useCRC()))}}
				sc2.calls = []string{nonceRequest(1), nonceRequest(2)}
				emit(sc2.line())
			}
			// over real TCP: the connection is lost after a successful authentication; whatever the caller does next has to
			// authenticate again on the new connection before any user request travels
			nt := tierPick(tier, 60, 600)
			for i := 0; i < nt; i++ {
				sc := tcpSession(r)
				var nonce uint32
				one := func() int { return 1 }
				fail := []string{"close-before", "close-inside", "garbled", "badcrc", "malformed", "silent"}[i%6]
				pre := r.intn(3)
				kinds := []string{"auth-ok"}
				for k := 0; k < pre; k++ {
					kinds = append(kinds, "answer")
				}
				kinds = append(kinds, fail)
				sc.conns = [][]reaction{buildConn(r, &sc, kinds, &nonce, one), healthyConn(r, &sc, 3, &nonce, one), healthyConn(r, &sc, 3, &nonce, one)}
				for q := 1; q <= pre+1; q++ {
					sc.calls = append(sc.calls, nonceRequest(uint32(q)))
				}
				if r.intn(3) == 0 {
					sc.calls = append(sc.calls, "disc")
				}
				sc.calls = append(sc.calls, nonceRequest(uint32(pre+2)), nonceRequest(uint32(pre+3)))
				emit(sc.line())
			}
		},
		run: sessionRun,
		pred: func(c, res string) string {
			if strings.HasPrefix(res, "PANIC") || res == "HANG" {
				return "authenticating: " + shorten(res, 200)
			}
			sc := parseSession(c)
			if sc.mode == "tcp" {
				frames, bad := framesOf(sc, res)
				if bad {
					return "the device cannot decrypt a frame"
				}
				authWant := "ACCEPT " + sxs([]rscp.Message{{Tag: rscp.RSCP_REQ_AUTHENTICATION, DataType: rscp.Container, Value: []rscp.Message{
					{Tag: rscp.RSCP_AUTHENTICATION_USER, DataType: rscp.CString, Value: sc.user}, {Tag: rscp.RSCP_AUTHENTICATION_PASSWORD, DataType: rscp.CString, Value: sc.pass}}}})
				for j, fs := range frames {
					if len(fs) > 0 && fs[0] != authWant {
						return fmt.Sprintf("the first frame on connection %d is not the authentication request: a user request travelled over a connection that was never authenticated", j)
					}
				}
				return ""
			}
			ev, _ := splitTrace(res)
			// classify every frame written on connection 0 by decrypting with the harness's own chain
			dec := decrypter([]byte(sc.key), nil)
			authWant := sxs([]rscp.Message{{Tag: rscp.RSCP_REQ_AUTHENTICATION, DataType: rscp.Container, Value: []rscp.Message{
				{Tag: rscp.RSCP_AUTHENTICATION_USER, DataType: rscp.CString, Value: sc.user}, {Tag: rscp.RSCP_AUTHENTICATION_PASSWORD, DataType: rscp.CString, Value: sc.pass}}}})
			pdec := decrypter([]byte(sc.key), nil) // the peer's direction, to see what was granted
			granted := false
			k := 0
			for _, e := range ev {
				if !strings.HasPrefix(e, "WRITE 0 ") {
					continue
				}
				p := crypt(dec, unhx(strings.Fields(e)[2]))
				v := implFeed([]byte("k"), nil, [][]byte{crypt(encrypter([]byte("k"), nil), p)})
				isAuth := v[0] == "ACCEPT "+authWant
				if k == 0 && !isAuth {
					return "the first frame on the connection is not the authentication request with the configured user and password"
				}
				if !isAuth && !granted {
					return "a user request was transmitted although no non-zero authentication level had been granted on the connection"
				}
				// what does the scripted reply to this write grant?
				if k < len(sc.conns[0]) {
					var all []byte
					for _, pc := range sc.conns[0][k].pieces {
						all = append(all, pc.data...)
					}
					rp := crypt(pdec, all)
					if isAuth {
						rv := implFeed([]byte("k"), nil, [][]byte{crypt(encrypter([]byte("k"), nil), rp)})
						granted = false
						if strings.HasPrefix(rv[0], "ACCEPT ((8388609 ") {
							f := strings.Fields(strings.TrimPrefix(rv[0], "ACCEPT (("))
							if len(f) >= 4 && (f[2] == "u8" || f[2] == "i32") && strings.TrimRight(f[3], ")") != "0" {
								granted = true
							}
						}
					}
				}
				k++
			}
			return ""
		},
		class: sessionClass,
	}
}

func init() {
	// ------------------------------------------------------------------ C10
	props["C10"] = &prop{
		rule: "virtual time over an attached scripted connection: a stall after every byte offset of the authentication reply and of the user reply, a failing write in either direction, trickles of 1..3 bytes per read with delays below the timeout whose sum exceeds it, endless zero / non-zero / valid-looking data x timeout settings {0, -1 ns, 1 ms, 50 ms, default, max int64}; observable = the sequence of SetWriteDeadline/Write/SetReadDeadline/Read/Close with deadline offsets in ms; a blocking read without an armed deadline is a violation; non-trivial = at least one scripted delay or stall; distinct by case line",
		gen: func(tier string, r *rng, emit func(string)) {
			timeouts := []int64{0, -1, 1000000, 50000000, sec3, 9223372036854775807}
			mk := func(to int64, reactions []reaction, calls ...string) {
				sc := baseSession(r)
				sc.rbuf = []int{1, 1, 2, 64, 2047, 2048, 2049, 0, 65535}[r.intn(9)]
				sc.ct, sc.st, sc.rt = timeouts[r.intn(len(timeouts))], to, to
				if r.bool() {
					sc.st = timeouts[r.intn(len(timeouts))]
				}
				sc.conns = [][]reaction{reactions}
				sc.calls = calls
				if len(calls) == 0 {
					sc.calls = []string{nonceRequest(3)}
				}
				emit(sc.line())
			}
			pcs := func() ([]byte, []byte) {
				pc := newPeerConn("k3y")
				return pc.reply(authReply(10), true), pc.reply(sizedReply(3, true, 9), true)
			}
			a, u := pcs()
			step := 1
			if tier != "thorough" {
				step = 2
			}
			for i, to := range timeouts {
				// a stall after every byte offset of the authentication reply
				for k := 0; k <= len(a); k += step {
					if tier != "thorough" && (k+i)%3 != 0 {
						continue
					}
					if k == 0 {
						mk(to, []reaction{{}})
					} else {
						mk(to, []reaction{answer(a[:k])})
					}
				}
				// ... and of the user reply
				for k := 0; k < len(u); k += step {
					if tier != "thorough" && (k+i)%3 != 0 {
						continue
					}
					if k == 0 {
						mk(to, []reaction{answer(a), {}})
					} else {
						mk(to, []reaction{answer(a), answer(u[:k])})
					}
				}
				// the request direction
				mk(to, []reaction{{writeFail: true}})
				mk(to, []reaction{answer(a), {writeFail: true}})
				// a peer that drains the request slowly: some bytes are accepted, then the write deadline passes
				mk(to, []reaction{{writeFail: true, stall: 1 + r.intn(40)}})
				mk(to, []reaction{answer(a), {writeFail: true, stall: 1 + r.intn(40)}, answer(u), answer(u)})
				// the peer closes at every stage
				mk(to, []reaction{{eof: true}})
				mk(to, []reaction{answer(a), {eof: true}})
				mk(to, []reaction{answer(a), {pieces: []piece{{data: u[:40]}}, eof: true}})
			}
			// trickles: n bytes per read, each after a delay
			ntr := 60
			if tier == "thorough" {
				ntr = 1500
			}
			for i := 0; i < ntr; i++ {
				to := []int64{1000000, 50000000, sec3}[r.intn(3)]
				per := 1 + r.intn(3)
				var ps []piece
				data := u
				// delay chosen so that the deadline falls somewhere inside (or just after) the reply
				d := to / int64(1+r.intn(2*len(u)/per))
				for len(data) > 0 {
					k := per
					if k > len(data) {
						k = len(data)
					}
					ps = append(ps, piece{data: data[:k], delay: d})
					data = data[k:]
				}
				mk(to, []reaction{answer(a), {pieces: ps}})
			}
			// over real TCP: Disconnect on a client that has no connection (fresh, twice, after a failed call), then a call against a
			// silent device - it must still come back after the receive timeout
			for i := 0; i < tierPick(tier, 6, 24); i++ {
				sc := tcpSession(r)
				pcA, pcB := newPeerConn(sc.key), newPeerConn(sc.key)
				silent := func(pc *peerConn) []reaction { return []reaction{answer(pc.reply(authReply(10), sc.useCRC())), {}} }
				switch i % 3 {
				case 0:
					sc.calls = []string{"disc", nonceRequest(1)}
					sc.conns = [][]reaction{silent(pcA)}
				case 1:
					sc.calls = []string{"disc", "disc", nonceRequest(1), "disc", "disc"}
					sc.conns = [][]reaction{silent(pcA)}
				default:
					sc.calls = []string{nonceRequest(1), "disc", "disc", nonceRequest(2)}
					sc.conns = [][]reaction{silent(pcA), silent(pcB)}
				}
				emit(sc.line())
			}
			// a Read that returns (0, nil) - io.Reader allows it, TCP does not do it: the call fails at once and the connection
			// stays open (receive returns without Disconnect); before any data, inside the authentication reply, inside the user
			// reply; then another call on the same connection
			for i := 0; i < tierPick(tier, 9, 60); i++ {
				to := []int64{1000000, 50000000, sec3}[r.intn(3)]
				a, u := pcs()
				zero := piece{data: []byte{}}
				cutA, cutU := 1+r.intn(len(a)-1), 1+r.intn(len(u)-1)
				switch i % 3 {
				case 0:
					mk(to, []reaction{{pieces: []piece{zero, {data: a}}}, answer(u)}, nonceRequest(3), nonceRequest(4))
				case 1:
					mk(to, []reaction{{pieces: []piece{{data: a[:cutA]}, zero, {data: a[cutA:]}}}, answer(u)}, nonceRequest(3), nonceRequest(4))
				default:
					mk(to, []reaction{answer(a), {pieces: []piece{{data: u[:cutU]}, zero, {data: u[cutU:]}}}, answer(u)}, nonceRequest(3), nonceRequest(4))
				}
			}
			// complete frames that carry no message (the client goes on reading): each within the timeout, for ever or followed by
			// silence - as answer to the authentication request and to the user request
			for i := 0; i < tierPick(tier, 12, 120); i++ {
				to := []int64{1000000, 50000000, sec3}[r.intn(3)]
				pc := newPeerConn("k3y")
				crcOn := true
				var first []byte
				if i%2 == 1 {
					first = pc.reply(authReply(10), crcOn)
				}
				var ps []piece
				k := 1 + r.intn(6)
				for j := 0; j < k; j++ {
					ps = append(ps, piece{data: pc.reply([]rscp.Message{}, crcOn), delay: to / int64(2+r.intn(3))})
				}
				if i%2 == 1 {
					mk(to, []reaction{answer(first), {pieces: ps}})
				} else {
					mk(to, []reaction{{pieces: ps}})
				}
			}
			// endless data: many blocks, then silence
			nend := 6
			if tier == "thorough" {
				nend = 60
			}
			for i := 0; i < nend; i++ {
				to := []int64{1000000, 50000000}[r.intn(2)]
				n := 200 + r.intn(300)
				var ps []piece
				pc := newPeerConn("k3y")
				_ = pc.reply(authReply(10), true)
				for j := 0; j < n; j++ {
					var blk []byte
					switch i % 3 {
					case 0:
						blk = make([]byte, 32) // ciphertext zeros
					case 1:
						blk = r.bytes(32)
					default: // a frame header announcing the maximal length, then payload for ever
						if j == 0 {
							h := make([]byte, 32)
							copy(h, []byte{0xe3, 0xdc, 0x00, 0x11})
							h[16], h[17] = 0xff, 0xff
							blk = pc.raw(h)
						} else {
							blk = pc.raw(make([]byte, 32))
						}
					}
					ps = append(ps, piece{data: blk, delay: to / int64(n/2)})
				}
				mk(to, []reaction{answer(a), {pieces: ps}})
			}
		},
		run: sessionRun,
		pred: func(c, res string) string {
			if strings.HasPrefix(res, "PANIC harness: blocking read without a deadline") {
				return "a blocking read was started without an armed deadline"
			}
			if strings.HasPrefix(res, "PANIC") || res == "HANG" {
				return "a call does not return: " + shorten(res, 200)
			}
			sc := parseSession(c)
			eff := func(t int64) int64 {
				if t <= 0 {
					return 3000
				}
				return t / 1000000
			}
			ev, _ := splitTrace(res)
			armedSinceWrite := 0
			for _, e := range ev {
				f := strings.Fields(e)
				switch f[0] {
				case "WRITE", "WRITEFAIL":
					armedSinceWrite = 0
				case "SETRD":
					armedSinceWrite++
					if armedSinceWrite > 1 {
						return "the read deadline is armed more than once while waiting for one reply (a trickling peer can extend the call for ever)"
					}
					var ms int64
					fmt.Sscan(f[2], &ms)
					if d := ms - eff(sc.rt); d > 1 || d < -1 {
						return fmt.Sprintf("the read deadline is %d ms but the effective receive timeout is %d ms", ms, eff(sc.rt))
					}
				case "SETWD":
					var ms int64
					fmt.Sscan(f[2], &ms)
					if d := ms - eff(sc.st); d > 1 || d < -1 {
						return fmt.Sprintf("the write deadline is %d ms but the effective send timeout is %d ms", ms, eff(sc.st))
					}
				}
			}
			// a write that failed or ran into its deadline ends the call: the connection is closed, nothing more is written on it
			for i, e := range ev {
				if strings.HasPrefix(e, "WRITEFAIL") {
					for _, e2 := range ev[i+1:] {
						if strings.HasPrefix(e2, "CLOSE") || strings.HasPrefix(e2, "DIAL") {
							break
						}
						if strings.HasPrefix(e2, "SETWD") || strings.HasPrefix(e2, "WRITE") {
							return "after a write ran into its deadline the client arms a new deadline and goes on writing (a slowly draining peer can hold the call for ever)"
						}
					}
				}
			}
			// every write is preceded by an armed write deadline
			lastWD := false
			for _, e := range ev {
				switch {
				case strings.HasPrefix(e, "SETWD"):
					lastWD = true
				case strings.HasPrefix(e, "WRITE"):
					if !lastWD {
						return "a write was started without an armed deadline"
					}
					lastWD = false
				}
			}
			return ""
		},
		class: func(c, res string) string {
			ev, _ := splitTrace(res)
			for _, e := range ev {
				if strings.HasSuffix(e, "TIMEOUT") {
					return "ends-in-timeout"
				}
			}
			for _, e := range ev {
				if strings.HasSuffix(e, "EOF") || strings.HasPrefix(e, "WRITEFAIL") {
					return "ends-in-io-error"
				}
			}
			return "completes"
		},
	}

	// ------------------------------------------------------------------ C11
	props["C11"] = &prop{
		rule: "every log level 0..98 x sessions {successful, authentication refused, failing at each stage (stall/close/garbage during authentication and during the user exchange)} x a random 24 character password x a secret-tagged message (encryption passphrase) nested at depth 0..3 in the user request; the whole log text is scanned for the password (literal, hex, base64, and inside []byte{...} dumps parsed back to bytes) and for the passphrase in rendered trees; the records written around each transmission are compared with the model's; non-trivial = level >= 4 (something is logged); distinct by case line",
		gen: func(tier string, r *rng, emit func(string)) {
			reps := 1
			if tier == "thorough" {
				reps = 10
			}
			alphabet := "ABCDEFGHJKLMNPQRSTUVWXYZabcdefghijkmnopqrstuvwxyz23456789"
			for rep := 0; rep < reps; rep++ {
				for level := 0; level <= 98; level++ {
					for shape := 0; shape < 4; shape++ {
						sc := baseSession(r)
						pw := make([]byte, 24)
						for i := range pw {
							pw[i] = alphabet[r.intn(len(alphabet))]
						}
						sc.pass = string(pw)
						sc.level = level
						phrase := "PHRASE-" + hx(r.bytes(6))
						depth := r.intn(4)
						m := rscp.Message{Tag: rscp.RSCP_REQ_SET_ENCRYPTION_PASSPHRASE, DataType: rscp.CString, Value: phrase}
						for d := 0; d < depth; d++ {
							m = rscp.Message{Tag: rscp.Tag(0x01000000 + uint32(d)), DataType: rscp.Container, Value: []rscp.Message{{Tag: 0x01000099, DataType: rscp.Bool, Value: true}, m}}
						}
						pc := newPeerConn(sc.key)
						crc := sc.useCRC()
						a := pc.reply(authReply(10), crc)
						u := pc.reply(nonceReply(5), crc)
						call := "send " + sxs([]rscp.Message{m})
						switch (shape + level + rep) % 10 {
						case 8: // the write of the authentication frame fails (outright, or after a partial write at the deadline)
							sc.conns = [][]reaction{{{writeFail: true, stall: r.intn(2) * (1 + r.intn(30))}}}
						case 9: // ... the write of the user request fails
							sc.conns = [][]reaction{{answer(a), {writeFail: true}}}
						case 0, 1, 2:
							sc.conns = [][]reaction{{answer(a), answer(u)}}
						case 3:
							pc2 := newPeerConn(sc.key)
							sc.conns = [][]reaction{{answer(pc2.reply(authReply(0), crc)), answer(pc2.reply(authReply(10), crc)), answer(pc2.reply(nonceReply(5), crc))}}
						case 4:
							sc.conns = [][]reaction{{{}}}
						case 5:
							sc.conns = [][]reaction{{{eof: true}}}
						case 6:
							sc.conns = [][]reaction{{answer(a), answer(r.bytes(32))}}
						case 7:
							sc.conns = [][]reaction{{answer(a[:16])}}
						}
						sc.rt = 1000000
						sc.calls = []string{call, call}
						emit(sc.line())
					}
				}
			}
		},
		run: func(c string) string {
			sc := parseSession(c)
			r := runSession(sc)
			scan := scanLog(r.logtext, sc.pass, c)
			// the logger is shared: after every call - successful or not - its level must be what it was (C11_no_secret: level restored)
			for i, lv := range r.levels {
				if lv != sc.level && scan == "clean" {
					scan = fmt.Sprintf("LEVEL after call %d the logger's level is %d, it was %d before (not restored on this path)", i+1, lv, sc.level)
				}
			}
			return sessionLine(sc, r) + " ## " + scan
		},
		pred: func(c, res string) string {
			if strings.HasPrefix(res, "PANIC") || res == "HANG" {
				return "logging: " + shorten(res, 200)
			}
			if i := strings.Index(res, " ## "); i >= 0 && strings.HasPrefix(res[i+4:], "LEVEL ") {
				return "the log level is lowered for the authentication and not restored: " + res[i+10:]
			}
			if i := strings.Index(res, " ## "); i >= 0 && res[i+4:] != "clean" {
				return "the log reveals a secret: " + res[i+4:]
			}
			return ""
		},
		class: func(c, res string) string {
			sc := parseSession(c)
			switch {
			case sc.level >= 6:
				return "level:trace+"
			case sc.level == 5:
				return "level:debug"
			case sc.level == 4:
				return "level:info"
			}
			return "level:quiet"
		},
		nontrivial: func(c, res string) bool { return parseSession(c).level >= 4 },
	}
}

// ---------------------------------------------------------------- tcp mode: C06 and C08
// annotations of a scripted exchange for the predicates (not part of the case semantics): which nonce a reaction answers with
type exch struct {
	kind  string // auth-ok | auth-refuse | answer | late | silent | close-before | close-inside | garbled | badcrc | malformed
	nonce uint32
}

// buildConn scripts one connection: an authentication exchange followed by user exchanges of the given kinds
func buildConn(r *rng, sc *sessionCase, kinds []string, nonce *uint32, blocks func() int) []reaction {
	pc := newPeerConn(sc.key)
	crc := sc.useCRC()
	var rs []reaction
	for _, k := range kinds {
		switch k {
		case "auth-ok":
			rs = append(rs, answer(pc.reply(authReply(10), crc)))
		case "auth-refuse":
			rs = append(rs, answer(pc.reply(authReply(0), crc)))
		case "answer":
			*nonce++
			rs = append(rs, answer(pc.reply(append(nonceReply(*nonce), sizedReply(blocks(), crc, *nonce)...), crc)))
		case "late":
			*nonce++
			rp := pc.reply(nonceReply(*nonce), crc)
			// well inside the receive timeout (300 ms) even on a heavily loaded machine
			rs = append(rs, reaction{pieces: []piece{{data: rp[:32], delay: 4000000}, {data: rp[32:], delay: 3000000}}})
		case "toolate": // the complete reply arrives long after the receive timeout has passed (the margin covers a client that is
			// descheduled between its Write and the arming of its read deadline): on a connection the client has given up
			*nonce++
			rp := pc.reply(nonceReply(*nonce), crc)
			rs = append(rs, reaction{pieces: []piece{{data: rp, delay: 2*sc.rt + 100000000}}})
		case "silent":
			rs = append(rs, reaction{})
		case "close-before":
			rs = append(rs, reaction{eof: true})
		case "close-inside":
			*nonce++
			rp := pc.reply(append(nonceReply(*nonce), sizedReply(3, crc, *nonce)...), crc)
			cutAt := 32 * (1 + r.intn(2))
			if r.intn(3) != 0 { // mostly inside a cipher block
				cutAt = 1 + r.intn(len(rp)-1)
			}
			rs = append(rs, reaction{pieces: []piece{{data: rp[:cutAt]}}, eof: true})
		case "garbled": // a garbled header followed by k blocks, possibly a well-formed stale frame
			g := r.bytes(32)
			g[0] = 0
			data := pc.raw(g)
			switch r.intn(3) {
			case 1:
				data = append(data, pc.raw(r.bytes(32*(1+r.intn(3))))...)
			case 2:
				*nonce++
				data = append(data, pc.reply(nonceReply(*nonce), crc)...)
			}
			rs = append(rs, answer(data))
		case "empty": // a well-formed frame without any message: the client goes on waiting
			rs = append(rs, answer(pc.reply([]rscp.Message{}, crc)))
		case "badcrc":
			*nonce++
			pe := encrypter([]byte("scratch"), nil)
			rscp.Now = func() time.Time { return time.Unix(1700000000, 42) }
			ct, _ := rscp.Write(&pe, nonceReply(*nonce), true)
			p := crypt(decrypter([]byte("scratch"), nil), ct)
			ds := int(binary.LittleEndian.Uint16(p[16:]))
			p[18+ds] ^= 0x01 // the CRC field
			rs = append(rs, answer(pc.raw(p)))
		case "malformed":
			*nonce++
			pe := encrypter([]byte("scratch"), nil)
			rscp.Now = func() time.Time { return time.Unix(1700000000, 42) }
			ct, _ := rscp.Write(&pe, nonceReply(*nonce), false)
			p := crypt(decrypter([]byte("scratch"), nil), ct)
			p[18+4] = 0x11 // an undefined data type in the first item
			rs = append(rs, answer(pc.raw(p)))
		}
	}
	return rs
}

// healthy: the connection authenticates and answers every request
func healthyConn(r *rng, sc *sessionCase, n int, nonce *uint32, blocks func() int) []reaction {
	kinds := []string{"auth-ok"}
	for i := 0; i < n; i++ {
		kinds = append(kinds, "answer")
	}
	return buildConn(r, sc, kinds, nonce, blocks)
}

func tcpRun(c string) string {
	sc := parseSession(c)
	return sessionLine(sc, runSession(sc))
}

// framesOf: the request frames the device saw, per connection, decrypted by the harness's own chain
func framesOf(sc sessionCase, res string) (perConn [][]string, undecryptable bool) {
	ev, _ := splitTrace(res)
	decs := map[string]cipher.BlockMode{}
	idx := map[string]int{}
	for _, e := range ev {
		f := strings.Fields(e)
		if f[0] != "FRAME" {
			continue
		}
		if _, ok := idx[f[1]]; !ok {
			idx[f[1]] = len(perConn)
			perConn = append(perConn, nil)
			decs[f[1]] = decrypter([]byte(sc.key), nil)
		}
		if f[2] == "UNDECRYPTABLE" {
			undecryptable = true
			perConn[idx[f[1]]] = append(perConn[idx[f[1]]], "UNDECRYPTABLE")
			continue
		}
		p := crypt(decs[f[1]], unhx(f[2]))
		v := implFeed([]byte("k"), nil, [][]byte{crypt(encrypter([]byte("k"), nil), p)})
		perConn[idx[f[1]]] = append(perConn[idx[f[1]]], v[0])
	}
	return
}

func requestNonce(decoded string) (uint32, bool) {
	// ACCEPT ((167772161 0 nil -) (<tag> 7 u32 <nonce>))
	i := strings.LastIndex(decoded, " u32 ")
	if i < 0 || !strings.HasPrefix(decoded, "ACCEPT ((") {
		return 0, false
	}
	var n uint32
	fmt.Sscan(strings.TrimRight(decoded[i+5:], ")"), &n)
	return n, true
}

func init() {
	// ------------------------------------------------------------------ C06
	props["C06"] = &prop{
		rule: "real TCP on loopback against a device that implements just the scheme (own Rijndael-256/CBC chains from the all-0xFF IV per accepted connection, key padded with 0xFF; it never calls package rscp): keys of every length 1..64 with arbitrary bytes (0x00, 0xFF, multi-byte UTF-8) x session shapes (1..N exchanges with replies of 1,2,3,65 blocks; 2..4 connections in one client's life separated by Disconnect(), by the peer closing, by a timeout); observable = the ciphertext frames the device received per connection and the call results; non-trivial = every session; distinct by case line",
		gen: func(tier string, r *rng, emit func(string)) {
			n := 150
			if tier == "thorough" {
				n = 2000
			}
			for i := 0; i < n; i++ {
				sc := tcpSession(r)
				kl := 1 + i%64
				key := r.bytes(kl)
				switch r.intn(4) {
				case 0:
					for j := range key {
						key[j] = []byte{0x00, 0xff, 'a'}[r.intn(3)]
					}
				case 1:
					key = []byte(strings.Repeat("é€", kl))[:kl]
				}
				sc.key = string(key)
				var nonce uint32
				blocks := func() int { return []int{1, 1, 2, 3, 65}[r.intn(5)] }
				nconn := 1 + r.intn(4)
				if i%5 == 0 {
					nconn = 1
				}
				next := uint32(0)
				for j := 0; j < nconn; j++ {
					nx := 1 + r.intn(3)
					if nconn == 1 && i%10 == 0 {
						nx = 20 + r.intn(tierPick(tier, 20, 80))
					}
					last := j == nconn-1
					sep := r.intn(4)
					kinds := []string{"auth-ok"}
					if r.intn(4) == 0 { // the peer refuses the first authentication; the retry travels on the same connection
						kinds = []string{"auth-refuse", "auth-ok"}
						next++
						sc.calls = append(sc.calls, nonceRequest(next))
					}
					for k := 0; k < nx; k++ {
						kinds = append(kinds, "answer")
					}
					ncalls := nx
					if !last {
						switch sep {
						case 1: // the peer closes before answering the next request
							kinds = append(kinds, "close-before")
							ncalls++
						case 2: // the peer stays silent: the client runs into its receive timeout
							kinds = append(kinds, "silent")
							ncalls++
						case 3: // the peer closes in the middle of a reply (usually inside a cipher block)
							kinds = append(kinds, "close-inside")
							ncalls++
						}
					}
					sc.conns = append(sc.conns, buildConn(r, &sc, kinds, &nonce, blocks))
					for k := 0; k < ncalls; k++ {
						next++
						sc.calls = append(sc.calls, nonceRequest(next))
					}
					if !last && sep == 0 {
						sc.calls = append(sc.calls, "disc")
					}
				}
				emit(sc.line())
			}
		},
		run: tcpRun,
		pred: func(c, res string) string {
			if strings.HasPrefix(res, "PANIC") || res == "HANG" {
				return "a session: " + shorten(res, 200)
			}
			sc := parseSession(c)
			frames, bad := framesOf(sc, res)
			if bad {
				return "the device cannot decrypt a frame (wrong key padding, IV or chaining)"
			}
			authWant := "ACCEPT " + sxs([]rscp.Message{{Tag: rscp.RSCP_REQ_AUTHENTICATION, DataType: rscp.Container, Value: []rscp.Message{
				{Tag: rscp.RSCP_AUTHENTICATION_USER, DataType: rscp.CString, Value: sc.user}, {Tag: rscp.RSCP_AUTHENTICATION_PASSWORD, DataType: rscp.CString, Value: sc.pass}}}})
			for j, fs := range frames {
				if len(fs) > 0 && fs[0] != authWant {
					return fmt.Sprintf("the first frame of connection %d does not decrypt to the authentication request", j)
				}
				for _, f := range fs {
					if !strings.HasPrefix(f, "ACCEPT") {
						return fmt.Sprintf("a frame of connection %d does not decrypt to a well-formed frame", j)
					}
				}
			}
			// against this device every call succeeds except the ones the script makes fail (close-before / silent)
			_, rs := splitTrace(res)
			fails := 0
			for _, rr := range rs {
				if rr == "ERR" {
					fails++
				}
			}
			want := 0
			for _, cn := range sc.conns {
				pdec := decrypter([]byte(sc.key), nil)
				for _, rc := range cn {
					var all []byte
					for _, pc := range rc.pieces {
						all = append(all, pc.data...)
					}
					refused := false
					if len(all) > 0 && len(all)%32 == 0 {
						v := implFeed([]byte("k"), nil, [][]byte{crypt(encrypter([]byte("k"), nil), crypt(pdec, all))})
						refused = strings.HasPrefix(v[0], "ACCEPT ((8388609 3 u8 0)")
					}
					if len(rc.pieces) == 0 || rc.eof || refused {
						want++
					}
				}
			}
			if fails != want {
				return fmt.Sprintf("%d calls failed against a healthy device, %d failures were scripted", fails, want)
			}
			return ""
		},
		class: func(c, res string) string {
			sc := parseSession(c)
			return fmt.Sprintf("connections:%d", len(sc.conns))
		},
	}
}

func tierPick(tier string, q, t int) int {
	if tier == "thorough" {
		return t
	}
	return q
}

// tcp sessions share one fixed clock so that they may run concurrently
const tcpSec, tcpNsec = int64(1700000000), int64(123456789)

func tcpSession(r *rng) sessionCase {
	sc := baseSession(r)
	sc.mode = "tcp"
	sc.sec, sc.nsec = tcpSec, tcpNsec
	sc.rt, sc.st, sc.ct = 300000000, 1000000000, 1000000000
	return sc
}

var userKinds = []string{"answer", "late", "toolate", "silent", "close-before", "close-inside", "garbled", "badcrc", "malformed"}
var authKinds = []string{"auth-ok", "auth-refuse", "silent", "close-before", "garbled"}

// layoutHistory scripts the connections a well-behaved client would use for the given behaviours
// calls: 'o' send one, 'm' send several, 'd' disconnect; behaviours are consumed one per exchange
func layoutHistory(r *rng, calls []byte, behaviours []string) sessionCase {
	sc := tcpSession(r)
	var nonce uint32
	blocks := func() int { return 1 + r.intn(2) }
	var cur []string // kinds of the current connection
	connected, authed := false, false
	bi := 0
	nextB := func(auth bool) string {
		if bi < len(behaviours) {
			b := behaviours[bi]
			bi++
			if auth {
				switch b {
				case "answer", "late":
					return "auth-ok"
				case "badcrc", "malformed", "close-inside", "empty":
					return "garbled"
				case "refuse":
					return "auth-refuse"
				}
				return b
			}
			if b == "refuse" {
				return "answer"
			}
			return b
		}
		if auth {
			return "auth-ok"
		}
		return "answer"
	}
	flush := func() {
		if connected {
			sc.conns = append(sc.conns, buildConn(r, &sc, cur, &nonce, blocks))
		}
		cur, connected, authed = nil, false, false
	}
	q := uint32(0)
	for _, cl := range calls {
		if cl == 'd' {
			sc.calls = append(sc.calls, "disc")
			flush()
			continue
		}
		q++
		if cl == 'o' {
			sc.calls = append(sc.calls, "send1 "+sxs([]rscp.Message{{Tag: rscp.Tag(0x00010000 | (q & 0xffff)), DataType: rscp.Uint32, Value: q}}))
		} else {
			sc.calls = append(sc.calls, nonceRequest(q))
		}
		connected = true
		if !authed {
			a := nextB(true)
			cur = append(cur, a)
			switch a {
			case "auth-ok":
				authed = true
			case "auth-refuse":
				continue
			default:
				flush()
				continue
			}
		}
		b := nextB(false)
		cur = append(cur, b)
		if b != "answer" && b != "late" {
			flush()
		}
	}
	// whatever the client does next finds a healthy peer
	if connected {
		cur = append(cur, "answer", "answer")
	}
	flush()
	sc.conns = append(sc.conns, healthyConn(r, &sc, 3, &nonce, blocks), healthyConn(r, &sc, 3, &nonce, blocks))
	return sc
}

func init() {
	props["C08"] = &prop{
		parallel: 16,
		rule:     "real TCP on loopback: call sequences over {send one, send several, disconnect} x per-exchange peer behaviour {answer, answer late, stay silent, close before / inside the reply, garbled header with following blocks or a well-formed stale frame, bad CRC, malformed payload, refuse authentication}, exhaustively to depth 2 (thorough: 3, and 4 over the five most distinct behaviours) + random histories up to length 10 (thorough: 14); every request and reply carries a nonce; observable = per call OK(reply)/error and the frames each connection of the device received; non-trivial = at least one exchange does not simply succeed; distinct by case line",
		gen: func(tier string, r *rng, emit func(string)) {
			beh := []string{"answer", "late", "toolate", "silent", "close-before", "close-inside", "garbled", "badcrc", "malformed", "refuse", "empty"}
			var rec func(prefix []string, depth int)
			rec = func(prefix []string, depth int) {
				if len(prefix) > 0 {
					calls := make([]byte, len(prefix)+2)
					for i := range calls {
						calls[i] = "om"[r.intn(2)]
					}
					emit(layoutHistory(r, calls, prefix).line())
					if r.intn(3) == 0 { // the same with an explicit disconnect somewhere
						calls[1+r.intn(len(calls)-1)] = 'd'
						emit(layoutHistory(r, calls, prefix).line())
					}
				}
				if depth == 0 {
					return
				}
				for _, b := range beh {
					rec(append(append([]string{}, prefix...), b), depth-1)
				}
			}
			rec(nil, tierPick(tier, 2, 3))
			if tier == "thorough" {
				five := []string{"answer", "silent", "close-inside", "garbled", "refuse"}
				var rec4 func(prefix []string, depth int)
				rec4 = func(prefix []string, depth int) {
					if depth == 0 {
						calls := make([]byte, len(prefix)+1)
						for i := range calls {
							calls[i] = "om"[r.intn(2)]
						}
						emit(layoutHistory(r, calls, prefix).line())
						return
					}
					for _, b := range five {
						rec4(append(append([]string{}, prefix...), b), depth-1)
					}
				}
				rec4(nil, 4)
			}
			n := tierPick(tier, 300, 5000)
			maxLen := tierPick(tier, 10, 14)
			for i := 0; i < n; i++ {
				k := 1 + r.intn(maxLen)
				calls := make([]byte, k)
				for j := range calls {
					calls[j] = "oommd"[r.intn(5)]
				}
				bs := make([]string, r.intn(k+1))
				for j := range bs {
					if r.intn(3) == 0 {
						bs[j] = "answer"
					} else {
						bs[j] = beh[r.intn(len(beh))]
					}
				}
				emit(layoutHistory(r, calls, bs).line())
			}
		},
		run: tcpRun,
		pred: func(c, res string) string {
			if strings.HasPrefix(res, "PANIC") || res == "HANG" {
				return "a history: " + shorten(res, 200)
			}
			sc := parseSession(c)
			frames, bad := framesOf(sc, res)
			if bad {
				return "the device cannot decrypt a frame"
			}
			_, rs := splitTrace(res)
			// nonce of every scripted reaction (decrypted on the peer's own chain)
			type pair struct{ q, n uint32 }
			var pairs []pair
			var order []uint32
			for j, fs := range frames {
				if j >= len(sc.conns) {
					break
				}
				pdec := decrypter([]byte(sc.key), nil)
				for k, rc := range sc.conns[j] {
					var all []byte
					for _, pc := range rc.pieces {
						all = append(all, pc.data...)
					}
					var rn uint32
					hasN := false
					if len(all) > 0 && len(all)%32 == 0 {
						v := implFeed([]byte("k"), nil, [][]byte{crypt(encrypter([]byte("k"), nil), crypt(pdec, all))})
						if i := strings.Index(v[0], " 7 u32 "); i >= 0 && strings.HasPrefix(v[0], "ACCEPT") {
							fmt.Sscan(v[0][i+7:], &rn)
							hasN = true
						}
					}
					if k < len(fs) {
						if q, ok := requestNonce(fs[k]); ok {
							order = append(order, q)
							if hasN {
								pairs = append(pairs, pair{q, rn})
							}
						}
					}
				}
			}
			for i := 1; i < len(order); i++ {
				if order[i] <= order[i-1] {
					return fmt.Sprintf("request %d reached the peer after request %d (a request is repeated or out of call order)", order[i], order[i-1])
				}
			}
			// every successful call returned the reply produced for that very request
			q := uint32(0)
			for ci, cl := range sc.calls {
				if cl == "disc" {
					continue
				}
				q++
				if ci >= len(rs) || !strings.HasPrefix(rs[ci], "OK") {
					continue
				}
				i := strings.Index(rs[ci], " 7 u32 ")
				if i < 0 {
					return fmt.Sprintf("call %d returned a reply that no exchange of the peer produced: %s", ci+1, shorten(rs[ci], 100))
				}
				var n uint32
				fmt.Sscan(rs[ci][i+7:], &n)
				ok := false
				for _, p := range pairs {
					if p.q == q && p.n == n {
						ok = true
					}
				}
				if !ok {
					return fmt.Sprintf("call %d (request %d) returned reply %d, which the peer produced for another request or never sent as a reply", ci+1, q, n)
				}
			}
			// recovery: a fresh connection to a healthy peer authenticates and answers
			for j := 1; j < len(frames) && j < len(sc.conns); j++ {
				scr := sc.conns[j]
				if len(scr) < 2 || len(frames[j]) == 0 {
					continue
				}
				healthy := len(scr[0].pieces) == 1 && !scr[0].eof && len(scr[1].pieces) >= 1 && !scr[1].eof && scr[1].pieces[0].delay == 0
				if !healthy {
					continue
				}
				// is reaction 0 a granting authentication reply and reaction 1 a well-formed answer?
				pdec := decrypter([]byte(sc.key), nil)
				v0 := implFeed([]byte("k"), nil, [][]byte{crypt(encrypter([]byte("k"), nil), crypt(pdec, scr[0].pieces[0].data))})
				if !strings.HasPrefix(v0[0], "ACCEPT ((8388609 3 u8 10)") {
					continue
				}
				var all []byte
				for _, pc := range scr[1].pieces {
					all = append(all, pc.data...)
				}
				v1 := implFeed([]byte("k"), nil, [][]byte{crypt(encrypter([]byte("k"), nil), crypt(pdec, all))})
				if !strings.HasPrefix(v1[0], "ACCEPT ((") { // a reply with at least one message
					continue
				}
				if len(frames[j]) < 2 {
					return fmt.Sprintf("after a failure or disconnect the client opened connection %d to a healthy peer but did not get past authentication", j)
				}
				if rq, ok := requestNonce(frames[j][1]); ok {
					// the call that carried request rq must have succeeded
					qq := uint32(0)
					for ci, cl := range sc.calls {
						if cl == "disc" {
							continue
						}
						qq++
						if qq == rq && ci < len(rs) && rs[ci] == "ERR" {
							return fmt.Sprintf("call %d failed on a fresh connection to a healthy peer (no recovery after the previous failure)", ci+1)
						}
					}
				}
			}
			return ""
		},
		class: func(c, res string) string {
			_, rs := splitTrace(res)
			er := 0
			for _, x := range rs {
				if x == "ERR" {
					er++
				}
			}
			switch {
			case er == 0:
				return "no-call-fails"
			case er == 1:
				return "one-call-fails"
			}
			return "several-calls-fail"
		},
		nontrivial: func(c, res string) bool { return strings.Contains(res, "ERR") || strings.Contains(c, "@") },
	}
	props["C06"].parallel = 16
	props["C09"].parallel = 1
}

// ------------------------------------------------------------------ C17: independent clients and codec calls run concurrently
func runSub(c string) string {
	switch {
	case strings.HasPrefix(c, "S "):
		sc := parseSession(c)
		return sessionLine(sc, runSession(sc))
	case strings.HasPrefix(c, "W "):
		// rscp.Write / rscp.Read on this goroutine's own cipher states (the shared clock is fixed for the whole run)
		key, iv, crc, _, _, ms := parseW(c)
		m := encrypter(key, iv)
		ct, err := rscp.Write(&m, ms, crc)
		if err != nil {
			return "ERR"
		}
		p := crypt(decrypter(key, iv), ct)
		rt := implFeed(key, iv, [][]byte{ct})
		return fmt.Sprintf("c=%s p=%s rt=%s", hx(ct), hx(p), rt[len(rt)-1])
	}
	return "?"
}

func init() {
	props["C17"] = &prop{
		rule: "k in {2,4,8,16} goroutines at the same time under the race detector, each either a whole client session against its own TCP device (several exchanges, a reconnect) or a loop of rscp.Write/rscp.Read on its own cipher states, with randomised start skew; every goroutine's results must equal the model's sequential prediction for that session/loop and the race detector's report must be empty; non-trivial = every run; distinct by case line",
		gen: func(tier string, r *rng, emit func(string)) {
			n := tierPick(tier, 50, 1000)
			for i := 0; i < n; i++ {
				k := []int{2, 4, 8, 16}[i%4]
				var subs []string
				for j := 0; j < k; j++ {
					if r.intn(2) == 0 {
						sc := tcpSession(r)
						sc.key = string(r.bytes(1 + r.intn(20)))
						var nonce uint32
						blocks := func() int { return 1 + r.intn(3) }
						nx := 1 + r.intn(4)
						if j%3 == 0 { // this client first meets a protocol error (a garbled or malformed reply), then carries on
							bad := []string{"garbled", "badcrc", "malformed"}[r.intn(3)]
							sc.conns = [][]reaction{buildConn(r, &sc, []string{"auth-ok", bad}, &nonce, blocks), healthyConn(r, &sc, nx, &nonce, func() int { return 3 + r.intn(6) })}
							sc.calls = append(sc.calls, nonceRequest(100))
							for q := 1; q <= nx; q++ {
								sc.calls = append(sc.calls, nonceRequest(uint32(q)))
							}
						} else {
							big := func() int { return 2 + r.intn(8) }
							sc.conns = [][]reaction{healthyConn(r, &sc, nx, &nonce, big), healthyConn(r, &sc, 2, &nonce, big)}
							// multi-block replies arrive block by block
							for ci := range sc.conns {
								for ri := range sc.conns[ci] {
									var ps []piece
									for _, pc := range sc.conns[ci][ri].pieces {
										for o := 0; o < len(pc.data); o += 32 {
											ps = append(ps, piece{data: pc.data[o : o+32], delay: 200000})
										}
									}
									sc.conns[ci][ri].pieces = ps
								}
							}
							for q := 1; q <= nx; q++ {
								sc.calls = append(sc.calls, nonceRequest(uint32(q)))
							}
							sc.calls = append(sc.calls, "disc", nonceRequest(uint32(nx+1)))
						}
						subs = append(subs, sc.line())
					} else {
						ms := genMsgs(r, 3, 200, false)
						subs = append(subs, fmt.Sprintf("W %s - %s %d %d %s", hx(r.bytes(1+r.intn(32))), b01(r.bool()), tcpSec, tcpNsec, sxs(ms)))
					}
				}
				emit(fmt.Sprintf("CONC %d %d | %s", k, r.intn(1000), strings.Join(subs, " ## ")))
			}
		},
		run: func(c string) string {
			parts := strings.SplitN(c, " | ", 2)
			var skew int
			fmt.Sscan(strings.Fields(parts[0])[2], &skew)
			subs := strings.Split(parts[1], " ## ")
			rscp.Now = func() time.Time { return time.Unix(tcpSec, tcpNsec) }
			out := make([]string, len(subs))
			done := make(chan int, len(subs))
			for i := range subs {
				go func(i int) {
					defer func() {
						if rec := recover(); rec != nil {
							out[i] = "PANIC " + fmt.Sprint(rec)
						}
						done <- i
					}()
					time.Sleep(time.Duration((i*skew)%700) * time.Microsecond)
					reps := 1
					if strings.HasPrefix(subs[i], "W ") {
						reps = 20 // a loop of codec calls
					}
					for k := 0; k < reps; k++ {
						out[i] = runSub(subs[i])
					}
				}(i)
			}
			for range subs {
				<-done
			}
			return strings.Join(out, " ## ")
		},
		pred: func(c, res string) string {
			if strings.HasPrefix(res, "PANIC") || res == "HANG" || strings.Contains(res, "## PANIC") {
				return "concurrent use: " + shorten(res, 200)
			}
			return ""
		},
		class: func(c, res string) string { return "goroutines:" + strings.Fields(c)[1] },
	}
}
