// footprint lists every package-level variable of a package directory and the places where function bodies write to it
// (assignment, index/field assignment, ++/--, taking its address). It is the footprint part of C17: package rscp must
// have no shared mutable state besides its logger and the patchable clock.
package main

import (
	"encoding/json"
	"fmt"
	"go/ast"
	"go/parser"
	"go/token"
	"os"
	"sort"
	"strings"
)

type site struct {
	Var  string `json:"var"`
	Pos  string `json:"pos"`
	Kind string `json:"kind"`
}

func main() {
	dir := os.Args[1]
	fset := token.NewFileSet()
	pkgs, err := parser.ParseDir(fset, dir, func(fi os.FileInfo) bool { return !strings.HasSuffix(fi.Name(), "_test.go") }, 0)
	if err != nil {
		fmt.Fprintln(os.Stderr, err)
		os.Exit(2)
	}
	vars := map[string]string{}
	topSpecs := map[*ast.ValueSpec]bool{}
	var files []*ast.File
	for _, p := range pkgs {
		for _, f := range p.Files {
			files = append(files, f)
			for _, d := range f.Decls {
				gd, ok := d.(*ast.GenDecl)
				if !ok || gd.Tok != token.VAR {
					continue
				}
				for _, s := range gd.Specs {
					vs := s.(*ast.ValueSpec)
					topSpecs[vs] = true
					for _, n := range vs.Names {
						if n.Name != "_" {
							vars[n.Name] = fset.Position(n.Pos()).String()
						}
					}
				}
			}
		}
	}
	isPkgVar := func(e ast.Expr) (string, bool) {
		for {
			switch x := e.(type) {
			case *ast.Ident:
				if _, ok := vars[x.Name]; !ok {
					return "", false
				}
				if x.Obj != nil {
					vs, ok := x.Obj.Decl.(*ast.ValueSpec)
					if !ok || !topSpecs[vs] {
						return "", false // a local of the same name
					}
				}
				return x.Name, true
			case *ast.IndexExpr:
				e = x.X
			case *ast.SelectorExpr:
				e = x.X
			case *ast.StarExpr:
				e = x.X
			case *ast.ParenExpr:
				e = x.X
			default:
				return "", false
			}
		}
	}
	var sites []site
	for _, f := range files {
		for _, d := range f.Decls {
			fd, ok := d.(*ast.FuncDecl)
			if !ok || fd.Body == nil || (fd.Name.Name == "init" && fd.Recv == nil) {
				continue
			}
			ast.Inspect(fd.Body, func(n ast.Node) bool {
				switch x := n.(type) {
				case *ast.AssignStmt:
					if x.Tok == token.DEFINE {
						return true
					}
					for _, l := range x.Lhs {
						if v, ok := isPkgVar(l); ok {
							sites = append(sites, site{v, fset.Position(l.Pos()).String(), "assign"})
						}
					}
				case *ast.IncDecStmt:
					if v, ok := isPkgVar(x.X); ok {
						sites = append(sites, site{v, fset.Position(x.Pos()).String(), "incdec"})
					}
				case *ast.CallExpr:
					if sel, ok := x.Fun.(*ast.SelectorExpr); ok {
						if id, ok := sel.X.(*ast.Ident); ok {
							if v, ok := isPkgVar(id); ok {
								sites = append(sites, site{v, fset.Position(x.Pos()).String(), "method-call " + sel.Sel.Name})
							}
						}
					}
				case *ast.UnaryExpr:
					if x.Op == token.AND {
						if v, ok := isPkgVar(x.X); ok {
							sites = append(sites, site{v, fset.Position(x.Pos()).String(), "address"})
						}
					}
				}
				return true
			})
		}
	}
	names := make([]string, 0, len(vars))
	for n := range vars {
		names = append(names, n)
	}
	sort.Strings(names)
	out := map[string]interface{}{"dir": dir, "vars": names, "writes": sites}
	b, _ := json.MarshalIndent(out, "", " ")
	fmt.Println(string(b))
}
