// Command mutate enumerates and applies small syntactic mutations of a Go source file (a mutation sweep measures which
// changes of /repo the checks notice; see lib/mutsweep.sh). It never writes into the file it reads.
//
//	mutate -list file.go            prints one line per mutation site:  <id> <line> <description>
//	mutate -id N -o out.go file.go  writes the file with mutation N applied
package main

import (
	"flag"
	"fmt"
	"go/ast"
	"go/parser"
	"go/printer"
	"go/token"
	"os"
	"strconv"
)

type site struct {
	line  int
	desc  string
	apply func()
}

var swapOp = map[token.Token]token.Token{
	token.LSS: token.LEQ, token.LEQ: token.LSS, token.GTR: token.GEQ, token.GEQ: token.GTR,
	token.EQL: token.NEQ, token.NEQ: token.EQL, token.LAND: token.LOR, token.LOR: token.LAND,
	token.ADD: token.SUB, token.SUB: token.ADD,
}

func main() {
	list := flag.Bool("list", false, "list mutation sites")
	id := flag.Int("id", -1, "mutation to apply")
	out := flag.String("o", "", "output file")
	flag.Parse()
	if flag.NArg() != 1 {
		fmt.Fprintln(os.Stderr, "usage: mutate (-list | -id N -o out.go) file.go")
		os.Exit(2)
	}
	fset := token.NewFileSet()
	f, err := parser.ParseFile(fset, flag.Arg(0), nil, parser.ParseComments)
	if err != nil {
		fmt.Fprintln(os.Stderr, err)
		os.Exit(2)
	}
	var sites []site
	add := func(pos token.Pos, desc string, apply func()) {
		sites = append(sites, site{line: fset.Position(pos).Line, desc: desc, apply: apply})
	}
	ast.Inspect(f, func(n ast.Node) bool {
		switch x := n.(type) {
		case *ast.BinaryExpr:
			if to, ok := swapOp[x.Op]; ok {
				// string concatenation is not arithmetic
				if x.Op == token.ADD || x.Op == token.SUB {
					if isStringish(x.X) || isStringish(x.Y) {
						return true
					}
				}
				from := x.Op
				add(x.OpPos, fmt.Sprintf("binary %s -> %s", from, to), func() { x.Op = to })
			}
		case *ast.BasicLit:
			if x.Kind == token.INT {
				if v, err := strconv.ParseInt(x.Value, 0, 64); err == nil && v >= 0 && v < 1<<20 {
					old := x.Value
					nv := strconv.FormatInt(v+1, 10)
					add(x.ValuePos, fmt.Sprintf("literal %s -> %s", old, nv), func() { x.Value = nv })
					if v > 0 {
						nv2 := strconv.FormatInt(v-1, 10)
						add(x.ValuePos, fmt.Sprintf("literal %s -> %s", old, nv2), func() { x.Value = nv2 })
					}
				}
			}
		case *ast.IfStmt:
			cond := x.Cond
			add(x.If, "if: condition negated", func() { x.Cond = &ast.UnaryExpr{Op: token.NOT, X: &ast.ParenExpr{X: cond}} })
		case *ast.BlockStmt:
			for i := range x.List {
				i := i
				blk := x
				switch s := x.List[i].(type) {
				case *ast.ExprStmt:
					if _, ok := s.X.(*ast.CallExpr); ok {
						add(s.Pos(), "statement removed: "+exprHead(s.X), func() { blk.List[i] = &ast.EmptyStmt{} })
					}
				case *ast.AssignStmt:
					if s.Tok == token.ASSIGN && len(s.Lhs) == 1 {
						add(s.Pos(), "assignment removed: "+exprHead(s.Lhs[0]), func() { blk.List[i] = &ast.EmptyStmt{} })
					}
				case *ast.IncDecStmt:
					add(s.Pos(), "inc/dec removed", func() { blk.List[i] = &ast.EmptyStmt{} })
				case *ast.BranchStmt:
					if s.Tok == token.BREAK || s.Tok == token.CONTINUE {
						add(s.Pos(), s.Tok.String()+" removed", func() { blk.List[i] = &ast.EmptyStmt{} })
					}
				}
			}
		case *ast.ReturnStmt:
			// return <..., err> -> return <..., nil> when the last result is an identifier called err
			if k := len(x.Results); k > 0 {
				if idt, ok := x.Results[k-1].(*ast.Ident); ok && idt.Name == "err" {
					add(x.Return, "return err -> return nil", func() { x.Results[k-1] = ast.NewIdent("nil") })
				}
			}
		}
		return true
	})
	if *list {
		for i, s := range sites {
			fmt.Printf("%d %d %s\n", i, s.line, s.desc)
		}
		return
	}
	if *id < 0 || *id >= len(sites) || *out == "" {
		fmt.Fprintln(os.Stderr, "mutate: no such mutation or no output file")
		os.Exit(2)
	}
	sites[*id].apply()
	w, err := os.Create(*out)
	if err != nil {
		fmt.Fprintln(os.Stderr, err)
		os.Exit(2)
	}
	defer w.Close()
	if err := printer.Fprint(w, fset, f); err != nil {
		fmt.Fprintln(os.Stderr, err)
		os.Exit(2)
	}
}

func isStringish(e ast.Expr) bool {
	switch x := e.(type) {
	case *ast.BasicLit:
		return x.Kind == token.STRING || x.Kind == token.CHAR
	case *ast.BinaryExpr:
		return isStringish(x.X) || isStringish(x.Y)
	case *ast.CallExpr:
		if s, ok := x.Fun.(*ast.SelectorExpr); ok {
			if id, ok := s.X.(*ast.Ident); ok && (id.Name == "fmt" || id.Name == "strings" || id.Name == "strconv") {
				return true
			}
		}
		if id, ok := x.Fun.(*ast.Ident); ok && id.Name == "string" {
			return true
		}
	}
	return false
}

func exprHead(e ast.Expr) string {
	switch x := e.(type) {
	case *ast.CallExpr:
		return exprHead(x.Fun) + "(...)"
	case *ast.SelectorExpr:
		return exprHead(x.X) + "." + x.Sel.Name
	case *ast.Ident:
		return x.Name
	case *ast.StarExpr:
		return "*" + exprHead(x.X)
	case *ast.IndexExpr:
		return exprHead(x.X) + "[...]"
	}
	return "expr"
}
