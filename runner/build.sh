#!/bin/bash
# Builds the model runner: extracts the Coq model to OCaml and compiles it with driver.ml.
# Cached by the hash of every input; prints the path of the runner binary.
set -e
V=${VERIF_ROOT:-/verif}
cd "$V"
h=$( (cat coq/theories/*.v coq/gen/*.v coq/golden/*.v coq/extract/Extract.v runner/driver.ml; coqc --version) | sha256sum | cut -c1-16)
B="$V/runner/_build/$h"
if [ ! -x "$B/driver" ]; then
  (
    flock 9
    if [ ! -x "$B/driver" ]; then
      rm -rf "$B.tmp"; mkdir -p "$B.tmp"; cd "$B.tmp"
      # the theories must be compiled (the caller ran make); extraction writes model.ml/.mli into the cwd
      timeout 900 coqc -R "$V/coq/theories" RSCP -R "$V/coq/gen" RSCP -R "$V/coq/golden" RSCP "$V/coq/extract/Extract.v" -o "$B.tmp/Extract.vo" >extract.log 2>&1 || { cat extract.log >&2; exit 3; }
      cp "$V/runner/driver.ml" .
      timeout 900 ocamlfind ocamlopt -O2 -package zarith,str -linkpkg model.mli model.ml driver.ml -o driver >ocaml.log 2>&1 || \
      timeout 900 ocamlfind ocamlopt -package zarith,str -linkpkg model.mli model.ml driver.ml -o driver >ocaml.log 2>&1 || { cat ocaml.log >&2; exit 4; }
      rm -f model.ml model.o model.cmx model.cmi driver.o driver.cmx driver.cmi Extract.vo Extract.glob
      cd "$V"; rm -rf "$B"; mv "$B.tmp" "$B"
      # keep only the three most recent builds
      ls -dt "$V"/runner/_build/*/ 2>/dev/null | tail -n +4 | xargs -r rm -rf
    fi
  ) 9>"$V/runner/_build.lock"
fi
echo "$B/driver"
