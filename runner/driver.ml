(* Model runner: reads one case per line on stdin, evaluates the extracted Coq model, prints one result per line.
   The line formats are shared with harness/cmd/exec (see DESIGN.md section 13). *)
module BZ = Z
module M = Model

(* ---- number conversions (zarith <-> Coq positive/N/Z/nat) ---- *)
let rec pos_of_z (x : BZ.t) : M.positive =
  if BZ.equal x BZ.one then M.XH
  else if BZ.testbit x 0 then M.XI (pos_of_z (BZ.shift_right x 1)) else M.XO (pos_of_z (BZ.shift_right x 1))
let n_of_z (x : BZ.t) : M.n = if BZ.sign x = 0 then M.N0 else M.Npos (pos_of_z x)
let cz_of_z (x : BZ.t) : M.z =
  if BZ.sign x = 0 then M.Z0 else if BZ.sign x > 0 then M.Zpos (pos_of_z x) else M.Zneg (pos_of_z (BZ.neg x))
let rec z_of_pos = function
  | M.XH -> BZ.one | M.XO p -> BZ.shift_left (z_of_pos p) 1 | M.XI p -> BZ.succ (BZ.shift_left (z_of_pos p) 1)
let z_of_n = function M.N0 -> BZ.zero | M.Npos p -> z_of_pos p
let z_of_cz = function M.Z0 -> BZ.zero | M.Zpos p -> z_of_pos p | M.Zneg p -> BZ.neg (z_of_pos p)
let n_of_int i = n_of_z (BZ.of_int i)
let int_of_n x = BZ.to_int (z_of_n x)
let n_of_str s = n_of_z (BZ.of_string s)
let z_of_str s = cz_of_z (BZ.of_string s)
let str_of_n x = BZ.to_string (z_of_n x)
let str_of_z x = BZ.to_string (z_of_cz x)
let rec int_of_nat = function M.O -> 0 | M.S n -> 1 + int_of_nat n
let rec nat_of_int i = if i <= 0 then M.O else M.S (nat_of_int (i - 1))

(* byte tables for speed *)
let byte_tab : M.n array = Array.init 256 n_of_int
let bytes_of_hex (s : string) : M.n list =
  if s = "-" then [] else List.init (String.length s / 2) (fun i -> byte_tab.(int_of_string ("0x" ^ String.sub s (2 * i) 2)))
let hex_of_bytes (l : M.n list) : string =
  if l = [] then "-" else begin
    let b = Buffer.create (2 * List.length l) in
    List.iter (fun x -> Buffer.add_string b (Printf.sprintf "%02x" (int_of_n x land 255))) l; Buffer.contents b end

(* Coq strings *)
let ascii_of_char (c : char) : M.ascii =
  let k = Char.code c in let b i = (k lsr i) land 1 = 1 in
  M.Ascii (b 0, b 1, b 2, b 3, b 4, b 5, b 6, b 7)
let char_of_ascii (M.Ascii (a, b, c, d, e, f, g, h)) : char =
  let v x i = if x then 1 lsl i else 0 in
  Char.chr (v a 0 + v b 1 + v c 2 + v d 3 + v e 4 + v f 5 + v g 6 + v h 7)
let cstring_of_string (s : string) : M.string =
  let r = ref M.EmptyString in
  for i = String.length s - 1 downto 0 do r := M.String (ascii_of_char s.[i], !r) done; !r
let string_of_cstring (s : M.string) : string =
  let b = Buffer.create 32 in
  let rec go = function M.EmptyString -> () | M.String (c, r) -> Buffer.add_char b (char_of_ascii c); go r in
  go s; Buffer.contents b
let string_of_hex (s : string) : string =
  if s = "-" then "" else String.init (String.length s / 2) (fun i -> Char.chr (int_of_string ("0x" ^ String.sub s (2 * i) 2)))
let hex_of_string (s : string) : string =
  if s = "" then "-" else String.concat "" (List.init (String.length s) (fun i -> Printf.sprintf "%02x" (Char.code s.[i])))

(* ---- S-expressions ---- *)
type sx = A of string | L of sx list
let tokenize (s : string) : string list =
  let toks = ref [] and buf = Buffer.create 16 in
  let flush () = if Buffer.length buf > 0 then (toks := Buffer.contents buf :: !toks; Buffer.clear buf) in
  String.iter (fun c -> match c with
    | '(' | ')' -> flush (); toks := String.make 1 c :: !toks
    | ' ' | '\t' -> flush ()
    | c -> Buffer.add_char buf c) s;
  flush (); List.rev !toks
let rec parse_sx toks = match toks with
  | "(" :: r -> let (items, r') = parse_list r in (L items, r')
  | a :: r -> (A a, r)
  | [] -> failwith "eof"
and parse_list toks = match toks with
  | ")" :: r -> ([], r)
  | [] -> failwith "eof in list"
  | _ -> let (x, r) = parse_sx toks in let (xs, r') = parse_list r in (x :: xs, r')
let sx_of_string s = fst (parse_sx (tokenize s))

let rec msg_of_sx = function
  | L [A tag; A dt; A kind; p] ->
    let v = match kind, p with
      | "nil", _ -> M.GNil
      | "bool", A s -> M.GBool (s = "1")
      | "i8", A s -> M.GI8 (z_of_str s) | "u8", A s -> M.GU8 (n_of_str s)
      | "i16", A s -> M.GI16 (z_of_str s) | "u16", A s -> M.GU16 (n_of_str s)
      | "i32", A s -> M.GI32 (z_of_str s) | "u32", A s -> M.GU32 (n_of_str s)
      | "i64", A s -> M.GI64 (z_of_str s) | "u64", A s -> M.GU64 (n_of_str s)
      | "f32", A s -> M.GF32 (n_of_str s) | "f64", A s -> M.GF64 (n_of_str s)
      | "str", A s -> M.GStr (bytes_of_hex s) | "bytes", A s -> M.GBytes (bytes_of_hex s)
      | "msgs", L l -> M.GMsgs (List.map msg_of_sx l)
      | "time", L [A s; A ns] -> M.GTime (z_of_str s, z_of_str ns)
      | "err", A s -> M.GErr (n_of_str s)
      | "other", A s -> M.GOther (n_of_str s)
      | _ -> failwith ("bad kind " ^ kind) in
    M.Msg (n_of_str tag, n_of_str dt, v)
  | _ -> failwith "bad message"
let msgs_of_sx = function L l -> List.map msg_of_sx l | _ -> failwith "expected a list of messages"

let rec sx_of_msg (M.Msg (tag, dt, v)) : string =
  let (k, p) = match v with
    | M.GNil -> ("nil", "-") | M.GBool b -> ("bool", if b then "1" else "0")
    | M.GI8 x -> ("i8", str_of_z x) | M.GU8 x -> ("u8", str_of_n x) | M.GI16 x -> ("i16", str_of_z x) | M.GU16 x -> ("u16", str_of_n x)
    | M.GI32 x -> ("i32", str_of_z x) | M.GU32 x -> ("u32", str_of_n x) | M.GI64 x -> ("i64", str_of_z x) | M.GU64 x -> ("u64", str_of_n x)
    | M.GF32 x -> ("f32", str_of_n x) | M.GF64 x -> ("f64", str_of_n x)
    | M.GStr s -> ("str", hex_of_bytes s) | M.GBytes s -> ("bytes", hex_of_bytes s)
    | M.GMsgs l -> ("msgs", sx_of_msgs l)
    | M.GTime (s, ns) -> ("time", "(" ^ str_of_z s ^ " " ^ str_of_z ns ^ ")")
    | M.GErr x -> ("err", str_of_n x) | M.GOther x -> ("other", str_of_n x) in
  Printf.sprintf "(%s %s %s %s)" (str_of_n tag) (str_of_n dt) k p
and sx_of_msgs l = "(" ^ String.concat " " (List.map sx_of_msg l) ^ ")"

let b01 b = if b then "1" else "0"
let opt_n = function Some x -> str_of_n x | None -> "ERR"

let verdict_str = function
  | M.Accept ms -> "ACCEPT " ^ sx_of_msgs ms
  | M.NeedMore -> "NEED"
  | M.Reject -> "REJECT"

(* key schedules are cached per key *)
let ks_cache : (string, M.n list) Hashtbl.t = Hashtbl.create 16
let ks_of_hexkey (k : string) : M.n list =
  match Hashtbl.find_opt ks_cache k with
  | Some ks -> ks
  | None -> let ks = M.key_schedule (M.key_pad (bytes_of_hex k)) in Hashtbl.add ks_cache k ks; ks

let iv_of_hex h = if h = "-" then M.iv0 else bytes_of_hex h
let split_on_string sep s = Str.split (Str.regexp_string sep) s
(* a xor m, m padded with zeros to the length of a *)
let rec xor_pad (a : M.n list) (m : M.n list) : M.n list =
  match a, m with
  | [], _ -> []
  | x :: a', [] -> x :: xor_pad a' []
  | x :: a', y :: m' -> byte_tab.((int_of_n x) lxor (int_of_n y)) :: xor_pad a' m'

(* builder arguments and trees *)
let arg_of_tok (t : string) : M.arg =
  if t = "nil" then M.ANil
  else let r = String.sub t 1 (String.length t - 1) in
    match t.[0] with
    | 't' -> M.ATag (n_of_str r) | 'd' -> M.AType (n_of_str r) | 'v' -> M.AVal (n_of_str r)
    | _ -> failwith ("bad arg " ^ t)
let tok_of_arg = function
  | M.ATag t -> "t" ^ str_of_n t | M.AType d -> "d" ^ str_of_n d | M.AVal k -> "v" ^ str_of_n k | M.ANil -> "nil"
let rec bmsg_str (M.BM (tag, dt, v)) =
  let p = match v with
    | M.BNone -> "none" | M.BVal a -> tok_of_arg a
    | M.BKids ks -> "(" ^ String.concat " " (List.map bmsg_str ks) ^ ")" in
  Printf.sprintf "(%s %s %s)" (str_of_n tag) (str_of_n dt) p
let berr_str = function
  | M.Empty -> "empty" | M.NotATag -> "notatag" | M.MissingValue -> "missing" | M.TagOrTypeAsValue -> "tagortype"
  | M.NoArguments -> "noargs" | M.Fuel -> "FUEL"
let bres = function M.Ok m -> "OK " ^ bmsg_str m | M.Err e -> "ERR " ^ berr_str e
(* split on a separator, keeping empty fields *)
let split_on_string_keep sep s = Str.split_delim (Str.regexp_string sep) s

(* annotated JSON syntax trees (C12) *)
let opt_of f = function A "-" -> None | x -> Some (f x)
let rec json_of_sx (x : sx) : M.json =
  match x with
  | L [A "null"] -> M.JNull
  | L [A "bool"; A b] -> M.JBool (b = "1")
  | L [A "num"; iz; A plain; f32; f64] ->
    M.JNum (opt_of (function A s -> z_of_str s | _ -> failwith "num") iz, plain = "1",
            opt_of (function A s -> n_of_str s | _ -> failwith "f32") f32, opt_of (function A s -> n_of_str s | _ -> failwith "f64") f64)
  | L [A "str"; A h; A "-"] -> M.JStr (bytes_of_hex h, None)
  | L [A "str"; A h; A sec; A nsec] -> M.JStr (bytes_of_hex h, Some (z_of_str sec, z_of_str nsec))
  | L (A "arr" :: l) -> M.JArr (List.map json_of_sx l)
  | L [A "obj"; t; d; v] -> M.JObj (opt_of json_of_sx t, opt_of json_of_sx d, opt_of json_of_sx v)
  | _ -> failwith "bad json ast"

(* JSON documents (C13): leaves formatted by the library come from the oracle table of the case *)
exception Leaf_fail
let leaf_key (v : M.gval) : string =
  match v with
  | M.GF32 b -> "f32:" ^ str_of_n b | M.GF64 b -> "f64:" ^ str_of_n b
  | M.GStr s -> "str:" ^ hex_of_bytes s | M.GTime (s, ns) -> "time:" ^ str_of_z s ^ ":" ^ str_of_z ns
  | M.GErr n -> "err:" ^ str_of_n n
  | _ -> "?"
let rec doc_text tbl (d : M.jdoc) : string =
  let lookup k = match Hashtbl.find_opt tbl k with
    | Some "FAIL" -> raise Leaf_fail
    | Some h -> string_of_hex h
    | None -> failwith ("no oracle entry for " ^ k) in
  match d with
  | M.DNull -> "null" | M.DBool b -> if b then "true" else "false"
  | M.DInt z -> str_of_z z
  | M.DLeaf v -> lookup (leaf_key v)
  | M.DBytes64 s -> lookup ("b64:" ^ hex_of_bytes s)
  | M.DBytesArr s -> "[" ^ String.concat "," (List.map str_of_n s) ^ "]"
  | M.DStr s -> "\"" ^ string_of_cstring s ^ "\""
  | M.DArr l -> "[" ^ String.concat "," (List.map (doc_text tbl) l) ^ "]"
  | M.DObj o -> "{" ^ String.concat "," (List.map (fun (k, v) -> "\"" ^ string_of_cstring k ^ "\":" ^ doc_text tbl v) o) ^ "}"

(* after the first space-separated n fields, the rest of the line *)
let rest_after (line : string) (n : int) : string =
  let i = ref 0 and c = ref 0 in
  while !c < n && !i < String.length line do (if line.[!i] = ' ' then incr c); incr i done;
  String.sub line !i (String.length line - !i)

(* S key user pass crc ct st rt rbuf level sec nsec mode | conn / conn ... | call ; call ... *)
let parse_reaction (s : string) : M.reaction =
  if s = "s" then M.RAnswer ([], false)
  else if s = "wf" || (String.length s > 2 && String.sub s 0 2 = "ws") then M.RWriteFail   (* ws<k>: a partial write that ran into the deadline *)
  else begin
    let parts = split_on_string_keep ":" s in
    let pieces = match parts with
      | _ :: ps :: _ when ps <> "" ->
        let bytes_of_piece h = if h = "z" then [] else bytes_of_hex h in   (* z: a Read returning (0, nil) *)
        List.map (fun p -> match String.split_on_char '@' p with
          | [h; d] -> (bytes_of_piece h, z_of_str d)
          | [h] -> (bytes_of_piece h, M.Z0)
          | _ -> failwith "piece") (String.split_on_char '+' ps)
      | _ -> [] in
    let eof = match parts with [_; _; "eof"] -> true | _ -> false in
    M.RAnswer (pieces, eof)
  end
let ms_round (ns : M.z) : string =
  let x = z_of_cz ns in
  let half = BZ.of_int 500000 and m = BZ.of_int 1000000 in
  if BZ.geq x (BZ.shift_left BZ.one 62) then BZ.to_string (BZ.div x m)
  else if BZ.sign x >= 0 then BZ.to_string (BZ.div (BZ.add x half) m)
  else BZ.to_string (BZ.neg (BZ.div (BZ.add (BZ.neg x) half) m))
let run_session (line : string) : string =
  match split_on_string_keep " | " line with
  | [hd; conns; calls] ->
    (match String.split_on_char ' ' hd with
     | ["S"; key; user; pass; crc; ct; st; rt; rbuf; level; sec; nsec; mode] ->
       let cfg = { M.s_key = bytes_of_hex key; M.s_user = bytes_of_hex user; M.s_pass = bytes_of_hex pass; M.s_crc = (crc <> "false");
                   M.s_conn_to = z_of_str ct; M.s_send_to = z_of_str st; M.s_recv_to = z_of_str rt; M.s_rbuf = n_of_str rbuf;
                   M.s_level = n_of_str level; M.s_time = (z_of_str sec, z_of_str nsec); M.s_attached = (mode = "attach") } in
       let conns = if String.trim conns = "-" then [] else
         List.map (fun c -> let c = String.trim c in if c = "." || c = "" then [] else List.map parse_reaction (String.split_on_char ',' c))
           (split_on_string_keep " / " conns) in
       (* send <list>: Client.SendMultiple; send1 <one-element list>: Client.Send; disc: Client.Disconnect *)
       let call_strs = List.map String.trim (split_on_string_keep " ; " calls) in
       let is_one c = String.length c > 6 && String.sub c 0 6 = "send1 " in
       let calls = List.map (fun c ->
           if c = "disc" then M.SDisc
           else if is_one c then M.SSend (msgs_of_sx (sx_of_string (String.sub c 6 (String.length c - 6))))
           else M.SSend (msgs_of_sx (sx_of_string (String.sub c 5 (String.length c - 5))))) call_strs in
       let (evs, rs) = M.session cfg conns calls in
       let rs = (try List.map2 (fun c r -> if is_one c then M.send_one_result r else r) call_strs rs with Invalid_argument _ -> rs) in
       let tcp = (mode = "tcp") in
       let ev_str e = match e with
         | M.EvDial _ | M.EvDialFail | M.EvFrame _ | M.EvGranted _ -> None
         | M.EvSetWD (j, d) -> if tcp then None else Some (Printf.sprintf "SETWD %d %s" (int_of_nat j) (ms_round d))
         | M.EvSetRD (j, d) -> if tcp then None else Some (Printf.sprintf "SETRD %d %s" (int_of_nat j) (ms_round d))
         | M.EvWrite (j, ct) -> Some (Printf.sprintf "%s %d %s" (if tcp then "FRAME" else "WRITE") (int_of_nat j) (hex_of_bytes ct))
         | M.EvWriteFail j -> if tcp then None else Some (Printf.sprintf "WRITEFAIL %d" (int_of_nat j))
         | M.EvRead (j, M.RData b) -> if tcp then None else Some (Printf.sprintf "READ %d %d" (int_of_nat j) (List.length b))
         | M.EvRead (j, M.REOF) -> if tcp then None else Some (Printf.sprintf "READ %d EOF" (int_of_nat j))
         | M.EvRead (j, M.RTimeout) -> if tcp then None else Some (Printf.sprintf "READ %d TIMEOUT" (int_of_nat j))
         | M.EvClose j -> if tcp then None else Some (Printf.sprintf "CLOSE %d" (int_of_nat j))
         | M.EvLog (l, M.LText _) -> if tcp then None else Some (Printf.sprintf "LOG %d text" (int_of_n l))
         | M.EvLog (l, M.LTree _) -> if tcp then None else Some (Printf.sprintf "LOG %d tree" (int_of_n l))
         | M.EvLog (l, M.LDump _) -> if tcp then None else Some (Printf.sprintf "LOG %d dump" (int_of_n l)) in
       let evs = List.filter_map ev_str evs in
       let res_str = function M.Ok0 ms -> "OK " ^ sx_of_msgs ms | M.Err0 _ -> "ERR" in
       String.concat " ; " evs ^ " || " ^ String.concat " ; " (List.map res_str rs)
     | _ -> "?")
  | _ -> "?"

let rec handle (line : string) : string =
  match String.split_on_char ' ' line with
  (* ---------------- C14 vocabulary ---------------- *)
  | ["TAG"; t] ->
    let t = n_of_str t in
    let js = M.marshal_tag t in
    Printf.sprintf "name=%s isa=%s dt=%s req=%s resp=%s sec=%s js=%s back=%s"
      (hex_of_string (string_of_cstring (M.tag_string t))) (b01 (M.is_a_tag t)) (str_of_n (M.tag_datatype t))
      (b01 (M.is_request t)) (b01 (M.is_response t)) (b01 (M.is_secret t))
      (hex_of_string (string_of_cstring js)) (opt_n (M.unmarshal_tag js))
  | ["TNAME"; h] -> opt_n (M.tag_of_name (cstring_of_string (string_of_hex h)))
  | ["TUNM"; h] -> opt_n (M.unmarshal_tag (cstring_of_string (string_of_hex h)))
  | ["TUNMN"; n] -> opt_n (M.unmarshal_tag_num (n_of_str n))
  | ["DT"; d] ->
    let d = n_of_str d in
    let js = M.marshal_dt d in
    Printf.sprintf "name=%s isa=%s len=%s kind=%s js=%s back=%s"
      (hex_of_string (string_of_cstring (M.dt_string d))) (b01 (M.is_a_datatype d)) (str_of_n (M.dt_length d))
      (match M.model_kind d with Some k -> str_of_n k | None -> "none")
      (hex_of_string (string_of_cstring js)) (opt_n (M.unmarshal_dt js))
  | ["DTNAME"; h] -> opt_n (M.dt_of_name (cstring_of_string (string_of_hex h)))
  | ["DTV"; _] -> "SKIP"
  (* ---------------- C18 request builder ---------------- *)
  | "B" :: toks -> bres (M.b_create_request (List.map arg_of_tok toks))
  | "BM" :: _ ->
    let lists = List.tl (split_on_string_keep " | " line) in
    (match M.b_create_requests (List.map (fun l -> List.map arg_of_tok (List.filter (fun x -> x <> "") (String.split_on_char ' ' l))) lists) with
     | M.Ok ms -> "OK " ^ String.concat " " (List.map bmsg_str ms)
     | M.Err e -> "ERR " ^ berr_str e)
  (* ---------------- C16 configuration ---------------- *)
  | ["CFGLIFE"; _] -> "SKIP"   (* the options a client really uses over its life: harness predicate against C16_defaults *)
  | ["CFGREAD"; _; _] -> "SKIP"   (* the buffer a client really reads with: decided by the harness predicate against C16_defaults *)
  | ["CFG"; addr; user; pass; key; port; hb; conn; send; recv; ck; rbuf] ->
    let cks = match ck with "nil" -> M.CNil | "true" -> M.CBool true | "false" -> M.CBool false | k -> M.COther (n_of_str k) in
    let c = { M.address = bytes_of_hex addr; M.user = bytes_of_hex user; M.password = bytes_of_hex pass; M.key = bytes_of_hex key;
              M.port = n_of_str port; M.heartbeat = z_of_str hb; M.conn_to = z_of_str conn; M.send_to = z_of_str send;
              M.recv_to = z_of_str recv; M.use_checksum = cks; M.rbuf_blocks = n_of_str rbuf } in
    (match M.check c with
     | M.Inl c' ->
       Printf.sprintf "OK port=%s hb=%s conn=%s send=%s recv=%s ck=%s rbuf=%s key=%s dial=%s:%s" (str_of_n c'.M.port) (str_of_z c'.M.heartbeat)
         (str_of_z c'.M.conn_to) (str_of_z c'.M.send_to) (str_of_z c'.M.recv_to)
         (match c'.M.use_checksum with M.CBool b -> b01 b | _ -> "?") (str_of_n c'.M.rbuf_blocks) (hex_of_bytes (M.key_of c'))
         (hex_of_bytes c'.M.address) (str_of_n c'.M.port)
     | M.Inr (M.Missing fs) ->
       "ERR missing=" ^ String.concat "," (List.map (function M.FAddress -> "address" | M.FUser -> "username" | M.FPassword -> "password" | M.FKey -> "key") fs)
     | M.Inr (M.BadChecksum _) -> "ERR checksum")
  (* ---------------- client sessions ---------------- *)
  | "S" :: _ -> run_session line
  | "V" :: _ -> if M.c_valid (msgs_of_sx (sx_of_string (rest_after line 1))) then "OK" else "ERR"
  (* ---------------- C12 / C13 JSON ---------------- *)
  | "CLI12" :: _ -> "SKIP"   (* rejected request texts through the real binary: decided by the harness predicate (C15_nothing_sent) *)
  | "JIN" :: _ :: _ ->
    let ast = rest_after line 2 in
    let ast = (match split_on_string_keep " => " ast with a :: _ -> a | [] -> ast) in
    (match M.parse_requests (json_of_sx (sx_of_string ast)) with
     | M.Ok1 ms -> "OK " ^ sx_of_msgs ms
     | M.Err1 -> "ERR")
  | "JEQ" :: _ ->
    (match split_on_string_keep " | " line with
     | [_; asts] ->
       let rs = List.map (fun a -> M.parse_requests (json_of_sx (sx_of_string a))) (split_on_string_keep " ;; " asts) in
       let strs = List.map (function M.Ok1 ms -> "OK " ^ sx_of_msgs ms | M.Err1 -> "ERR") rs in
       (match strs with
        | [] -> "?"
        | x :: r -> if List.for_all (fun y -> y = x) r then (if x = "ERR" then "ALLERR" else "SAME " ^ String.sub x 3 (String.length x - 3)) else "DIFF")
     | _ -> "?")
  | "JOUT" :: fmt :: _ | "JOUTC" :: fmt :: _ | "JOUTB" :: fmt :: _ | "JOUTBS" :: fmt :: _ ->
    (match split_on_string_keep " | " line with
     | [hd; table] ->
       let ms = msgs_of_sx (sx_of_string (rest_after hd 2)) in
       let tbl = Hashtbl.create 64 in
       List.iter (fun kv -> match String.index_opt kv '=' with
         | Some i -> Hashtbl.replace tbl (String.sub kv 0 i) (String.sub kv (i + 1) (String.length kv - i - 1))
         | None -> if kv <> "" then Hashtbl.replace tbl kv "") (String.split_on_char ' ' table);
       let yneg s ns = Hashtbl.mem tbl ("yneg:" ^ str_of_z s ^ ":" ^ str_of_z ns) in
       let doc = (match fmt with
         | "json" -> M.render_json ms
         | "jsonsimple" -> M.render_simple yneg ms
         | _ -> M.render_merged yneg ms) in
       (try "OK " ^ hex_of_string (doc_text tbl doc) with Leaf_fail -> "FAIL")
     | _ -> "?")
  (* ---------------- C17: the sequential prediction of every goroutine's work ---------------- *)
  | "CONC" :: _ ->
    (match split_on_string_keep " | " line with
     | _ :: rest -> let body = String.concat " | " rest in
       String.concat " ## " (List.map handle (split_on_string_keep " ## " body))
     | _ -> "?")
  (* ---------------- C15 command line tool ---------------- *)
  | "CLI" :: _ ->
    (match split_on_string_keep " | " line with
     | [hd; ast; conns; table] ->
       (match String.split_on_char ' ' hd with
        | ["CLI"; help; version; flagerr; host; user; pass; key; reqsrc; reqhex; outfmt; split; cfg; _pair] ->
          let tbl = Hashtbl.create 64 in
          List.iter (fun kv -> match String.index_opt kv '=' with
            | Some i -> Hashtbl.replace tbl (String.sub kv 0 i) (String.sub kv (i + 1) (String.length kv - i - 1))
            | None -> if kv <> "" then Hashtbl.replace tbl kv "") (String.split_on_char ' ' table);
          let yneg s ns = Hashtbl.mem tbl ("yneg:" ^ str_of_z s ^ ":" ^ str_of_z ns) in
          let bytes_of_str (s : string) = List.init (String.length s) (fun i -> byte_tab.(Char.code s.[i])) in
          let present b v = if b then bytes_of_str v else [] in
          let request = if reqsrc = "none" || reqsrc = "badfile" || reqhex = "-" || ast = "-" then None else Some (json_of_sx (sx_of_string ast)) in
          let i = { M.ci_help = (help = "1"); M.ci_version = (version = "1"); M.ci_flag_error = (flagerr <> "0");
                    M.ci_host = present (host = "1") "127.0.0.1"; M.ci_port = M.N0;
                    M.ci_user = present (user = "1" || cfg = "present") "cliuser"; M.ci_pass = present (pass = "1") "cliPa55word";
                    M.ci_key = present (key = "1") "clikey"; M.ci_request = request;
                    M.ci_output = (match outfmt with "json" -> n_of_int 0 | "jsonsimple" -> n_of_int 1 | "jsonmerged" | "default" -> n_of_int 2 | _ -> n_of_int 3);
                    M.ci_split = (split = "1"); M.ci_time = (M.Z0, M.Z0) } in
          let conns = if String.trim conns = "-" then [] else
            List.map (fun c -> let c = String.trim c in if c = "." || c = "" then [] else List.map parse_reaction (String.split_on_char ',' c))
              (split_on_string_keep " / " conns) in
          let (o, evs) = M.cli_main yneg i conns in
          let frames = List.filter_map (function M.EvFrame (j, ms) -> Some (Printf.sprintf "FRAME %d %s" (int_of_nat j) (sx_of_msgs ms)) | _ -> None) evs in
          let (st, out, err) = (match o with
            | M.CHelp -> ("0", "-", "1")
            | M.CFail -> ("1", "-", "1")
            | M.CDoc d -> (try ("0", hex_of_string (doc_text tbl d ^ "\n"), "0") with Leaf_fail -> ("1", "-", "1"))) in
          Printf.sprintf "status=%s stdout=%s stderr=%s panic=0 || %s" st out err (String.concat " ; " frames)
        | _ -> "?")
     | _ -> "?")
  (* ---------------- codec ---------------- *)
  | "W" :: key :: iv :: crc :: sec :: nsec :: _ ->
    (* W key iv crc sec nsec (msgs): rscp.Write on the chain iv, then rscp.Read of the result on the same chain *)
    let ms = msgs_of_sx (sx_of_string (rest_after line 6)) in
    let ks = ks_of_hexkey key and iv = iv_of_hex iv in
    let (c, _) = M.model_write ks iv (crc = "1") (z_of_str sec) (z_of_str nsec) ms in
    let p = M.model_plain (crc = "1") (z_of_str sec) (z_of_str nsec) ms in
    let (vs, _) = M.model_feed ks M.rinit iv [c] in
    Printf.sprintf "c=%s p=%s rt=%s" (hex_of_bytes c) (hex_of_bytes p) (verdict_str (List.nth vs (List.length vs - 1)))
  | "WS" :: key :: crc :: _ ->
    let parts = split_on_string " | " line in
    let ks = ks_of_hexkey key in
    let eiv = ref M.iv0 and div = ref M.iv0 in
    String.concat " | " (List.map (fun fr ->
      match String.split_on_char ' ' fr with
      | sec :: nsec :: _ ->
        let ms = msgs_of_sx (sx_of_string (rest_after fr 2)) in
        let (c, e') = M.model_write ks !eiv (crc = "1") (z_of_str sec) (z_of_str nsec) ms in
        eiv := e';
        let (vs, d') = M.model_feed ks M.rinit !div [c] in
        div := d';
        "c=" ^ hex_of_bytes c ^ " rt=" ^ verdict_str (List.nth vs (List.length vs - 1))
      | _ -> "?") (List.tl parts))
  | "RC" :: _ -> "SKIP"   (* feeding on after a refusal: only "no panic" is claimed, by the harness predicate *)
  | "R" :: key :: iv :: chunks | "XR" :: key :: iv :: chunks ->
    let (vs, _) = M.model_feed (ks_of_hexkey key) M.rinit (iv_of_hex iv) (List.map bytes_of_hex chunks) in
    String.concat " ; " (List.map verdict_str vs)
  | ["D"; plain] -> verdict_str (M.decode_frame (bytes_of_hex plain))
  | ["X"; orig; mask] ->
    let o = bytes_of_hex orig in
    let a = xor_pad o (bytes_of_hex mask) in
    let us s = String.map (fun c -> if c = ' ' then '_' else c) s in
    "orig=" ^ us (verdict_str (M.decode_frame o)) ^ " got=" ^ verdict_str (M.decode_frame a)
  | ["XC"; key; ct; mask] ->
    let (vs, _) = M.model_feed (ks_of_hexkey key) M.rinit M.iv0 [xor_pad (bytes_of_hex ct) (bytes_of_hex mask)] in
    verdict_str (List.hd vs)
  | ["CRC"; d] -> str_of_n (M.crc32 (bytes_of_hex d))
  | ["ENC"; key; iv; p] -> let (c, iv') = M.c_enc (ks_of_hexkey key) (bytes_of_hex iv) (bytes_of_hex p) in hex_of_bytes c ^ " " ^ hex_of_bytes iv'
  | ["KEY"; k] -> hex_of_bytes (M.key_pad (bytes_of_hex k))
  | _ -> "?"

let () =
  try while true do
    let line = input_line stdin in
    (try print_endline (handle line) with e -> print_endline ("MODEL-EXCEPTION " ^ Printexc.to_string e))
  done with End_of_file -> ()
