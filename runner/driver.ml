(* Model runner: reads one case per line on stdin, evaluates the extracted Coq model, prints one result per line.
   The line formats are shared with harness/cmd/exec (see DESIGN.md section 13). *)
module BZ = Z
module M = Model

(* ---- number conversions (zarith <-> Coq positive/N/Z/nat) ---- *)
let rec pos_of_z (x : BZ.t) : M.positive =
  if BZ.equal x BZ.one then M.XH
  else if BZ.testbit x 0 then M.XI (pos_of_z (BZ.shift_right x 1)) else M.XO (pos_of_z (BZ.shift_right x 1))
let n_of_z (x : BZ.t) : M.n = if BZ.sign x = 0 then M.N0 else M.Npos (pos_of_z x)
let cz_of_z (x : BZ.t) : M.z =
  if BZ.sign x = 0 then M.Z0 else if BZ.sign x > 0 then M.Zpos (pos_of_z x) else M.Zneg (pos_of_z (BZ.neg x))
let rec z_of_pos = function
  | M.XH -> BZ.one | M.XO p -> BZ.shift_left (z_of_pos p) 1 | M.XI p -> BZ.succ (BZ.shift_left (z_of_pos p) 1)
let z_of_n = function M.N0 -> BZ.zero | M.Npos p -> z_of_pos p
let z_of_cz = function M.Z0 -> BZ.zero | M.Zpos p -> z_of_pos p | M.Zneg p -> BZ.neg (z_of_pos p)
let n_of_int i = n_of_z (BZ.of_int i)
let int_of_n x = BZ.to_int (z_of_n x)
let n_of_str s = n_of_z (BZ.of_string s)
let z_of_str s = cz_of_z (BZ.of_string s)
let str_of_n x = BZ.to_string (z_of_n x)
let str_of_z x = BZ.to_string (z_of_cz x)
let rec int_of_nat = function M.O -> 0 | M.S n -> 1 + int_of_nat n
let rec nat_of_int i = if i <= 0 then M.O else M.S (nat_of_int (i - 1))

(* byte tables for speed *)
let byte_tab : M.n array = Array.init 256 n_of_int
let bytes_of_hex (s : string) : M.n list =
  if s = "-" then [] else List.init (String.length s / 2) (fun i -> byte_tab.(int_of_string ("0x" ^ String.sub s (2 * i) 2)))
let hex_of_bytes (l : M.n list) : string =
  if l = [] then "-" else begin
    let b = Buffer.create (2 * List.length l) in
    List.iter (fun x -> Buffer.add_string b (Printf.sprintf "%02x" (int_of_n x land 255))) l; Buffer.contents b end

(* Coq strings *)
let ascii_of_char (c : char) : M.ascii =
  let k = Char.code c in let b i = (k lsr i) land 1 = 1 in
  M.Ascii (b 0, b 1, b 2, b 3, b 4, b 5, b 6, b 7)
let char_of_ascii (M.Ascii (a, b, c, d, e, f, g, h)) : char =
  let v x i = if x then 1 lsl i else 0 in
  Char.chr (v a 0 + v b 1 + v c 2 + v d 3 + v e 4 + v f 5 + v g 6 + v h 7)
let cstring_of_string (s : string) : M.string =
  let r = ref M.EmptyString in
  for i = String.length s - 1 downto 0 do r := M.String (ascii_of_char s.[i], !r) done; !r
let string_of_cstring (s : M.string) : string =
  let b = Buffer.create 32 in
  let rec go = function M.EmptyString -> () | M.String (c, r) -> Buffer.add_char b (char_of_ascii c); go r in
  go s; Buffer.contents b
let string_of_hex (s : string) : string =
  if s = "-" then "" else String.init (String.length s / 2) (fun i -> Char.chr (int_of_string ("0x" ^ String.sub s (2 * i) 2)))
let hex_of_string (s : string) : string =
  if s = "" then "-" else String.concat "" (List.init (String.length s) (fun i -> Printf.sprintf "%02x" (Char.code s.[i])))

(* ---- S-expressions ---- *)
type sx = A of string | L of sx list
let tokenize (s : string) : string list =
  let toks = ref [] and buf = Buffer.create 16 in
  let flush () = if Buffer.length buf > 0 then (toks := Buffer.contents buf :: !toks; Buffer.clear buf) in
  String.iter (fun c -> match c with
    | '(' | ')' -> flush (); toks := String.make 1 c :: !toks
    | ' ' | '\t' -> flush ()
    | c -> Buffer.add_char buf c) s;
  flush (); List.rev !toks
let rec parse_sx toks = match toks with
  | "(" :: r -> let (items, r') = parse_list r in (L items, r')
  | a :: r -> (A a, r)
  | [] -> failwith "eof"
and parse_list toks = match toks with
  | ")" :: r -> ([], r)
  | [] -> failwith "eof in list"
  | _ -> let (x, r) = parse_sx toks in let (xs, r') = parse_list r in (x :: xs, r')
let sx_of_string s = fst (parse_sx (tokenize s))

let rec msg_of_sx = function
  | L [A tag; A dt; A kind; p] ->
    let v = match kind, p with
      | "nil", _ -> M.GNil
      | "bool", A s -> M.GBool (s = "1")
      | "i8", A s -> M.GI8 (z_of_str s) | "u8", A s -> M.GU8 (n_of_str s)
      | "i16", A s -> M.GI16 (z_of_str s) | "u16", A s -> M.GU16 (n_of_str s)
      | "i32", A s -> M.GI32 (z_of_str s) | "u32", A s -> M.GU32 (n_of_str s)
      | "i64", A s -> M.GI64 (z_of_str s) | "u64", A s -> M.GU64 (n_of_str s)
      | "f32", A s -> M.GF32 (n_of_str s) | "f64", A s -> M.GF64 (n_of_str s)
      | "str", A s -> M.GStr (bytes_of_hex s) | "bytes", A s -> M.GBytes (bytes_of_hex s)
      | "msgs", L l -> M.GMsgs (List.map msg_of_sx l)
      | "time", L [A s; A ns] -> M.GTime (z_of_str s, z_of_str ns)
      | "err", A s -> M.GErr (n_of_str s)
      | "other", A s -> M.GOther (n_of_str s)
      | _ -> failwith ("bad kind " ^ kind) in
    M.Msg (n_of_str tag, n_of_str dt, v)
  | _ -> failwith "bad message"
let msgs_of_sx = function L l -> List.map msg_of_sx l | _ -> failwith "expected a list of messages"

let rec sx_of_msg (M.Msg (tag, dt, v)) : string =
  let (k, p) = match v with
    | M.GNil -> ("nil", "-") | M.GBool b -> ("bool", if b then "1" else "0")
    | M.GI8 x -> ("i8", str_of_z x) | M.GU8 x -> ("u8", str_of_n x) | M.GI16 x -> ("i16", str_of_z x) | M.GU16 x -> ("u16", str_of_n x)
    | M.GI32 x -> ("i32", str_of_z x) | M.GU32 x -> ("u32", str_of_n x) | M.GI64 x -> ("i64", str_of_z x) | M.GU64 x -> ("u64", str_of_n x)
    | M.GF32 x -> ("f32", str_of_n x) | M.GF64 x -> ("f64", str_of_n x)
    | M.GStr s -> ("str", hex_of_bytes s) | M.GBytes s -> ("bytes", hex_of_bytes s)
    | M.GMsgs l -> ("msgs", sx_of_msgs l)
    | M.GTime (s, ns) -> ("time", "(" ^ str_of_z s ^ " " ^ str_of_z ns ^ ")")
    | M.GErr x -> ("err", str_of_n x) | M.GOther x -> ("other", str_of_n x) in
  Printf.sprintf "(%s %s %s %s)" (str_of_n tag) (str_of_n dt) k p
and sx_of_msgs l = "(" ^ String.concat " " (List.map sx_of_msg l) ^ ")"

let b01 b = if b then "1" else "0"
let opt_n = function Some x -> str_of_n x | None -> "ERR"

let verdict_str = function
  | M.Accept ms -> "ACCEPT " ^ sx_of_msgs ms
  | M.NeedMore -> "NEED"
  | M.Reject -> "REJECT"

(* key schedules are cached per key *)
let ks_cache : (string, M.n list) Hashtbl.t = Hashtbl.create 16
let ks_of_hexkey (k : string) : M.n list =
  match Hashtbl.find_opt ks_cache k with
  | Some ks -> ks
  | None -> let ks = M.key_schedule (M.key_pad (bytes_of_hex k)) in Hashtbl.add ks_cache k ks; ks

let iv_of_hex h = if h = "-" then M.iv0 else bytes_of_hex h
let split_on_string sep s = Str.split (Str.regexp_string sep) s
(* a xor m, m padded with zeros to the length of a *)
let rec xor_pad (a : M.n list) (m : M.n list) : M.n list =
  match a, m with
  | [], _ -> []
  | x :: a', [] -> x :: xor_pad a' []
  | x :: a', y :: m' -> byte_tab.((int_of_n x) lxor (int_of_n y)) :: xor_pad a' m'

(* after the first space-separated n fields, the rest of the line *)
let rest_after (line : string) (n : int) : string =
  let i = ref 0 and c = ref 0 in
  while !c < n && !i < String.length line do (if line.[!i] = ' ' then incr c); incr i done;
  String.sub line !i (String.length line - !i)

let handle (line : string) : string =
  match String.split_on_char ' ' line with
  (* ---------------- C14 vocabulary ---------------- *)
  | ["TAG"; t] ->
    let t = n_of_str t in
    let js = M.marshal_tag t in
    Printf.sprintf "name=%s isa=%s dt=%s req=%s resp=%s sec=%s js=%s back=%s"
      (hex_of_string (string_of_cstring (M.tag_string t))) (b01 (M.is_a_tag t)) (str_of_n (M.tag_datatype t))
      (b01 (M.is_request t)) (b01 (M.is_response t)) (b01 (M.is_secret t))
      (hex_of_string (string_of_cstring js)) (opt_n (M.unmarshal_tag js))
  | ["TNAME"; h] -> opt_n (M.tag_of_name (cstring_of_string (string_of_hex h)))
  | ["TUNM"; h] -> opt_n (M.unmarshal_tag (cstring_of_string (string_of_hex h)))
  | ["TUNMN"; n] -> opt_n (M.unmarshal_tag_num (n_of_str n))
  | ["DT"; d] ->
    let d = n_of_str d in
    let js = M.marshal_dt d in
    Printf.sprintf "name=%s isa=%s len=%s kind=%s js=%s back=%s"
      (hex_of_string (string_of_cstring (M.dt_string d))) (b01 (M.is_a_datatype d)) (str_of_n (M.dt_length d))
      (match M.model_kind d with Some k -> str_of_n k | None -> "none")
      (hex_of_string (string_of_cstring js)) (opt_n (M.unmarshal_dt js))
  | ["DTNAME"; h] -> opt_n (M.dt_of_name (cstring_of_string (string_of_hex h)))
  | ["DTV"; _] -> "SKIP"
  (* ---------------- codec ---------------- *)
  | "W" :: key :: iv :: crc :: sec :: nsec :: _ ->
    (* W key iv crc sec nsec (msgs): rscp.Write on the chain iv, then rscp.Read of the result on the same chain *)
    let ms = msgs_of_sx (sx_of_string (rest_after line 6)) in
    let ks = ks_of_hexkey key and iv = iv_of_hex iv in
    let (c, _) = M.model_write ks iv (crc = "1") (z_of_str sec) (z_of_str nsec) ms in
    let p = M.model_plain (crc = "1") (z_of_str sec) (z_of_str nsec) ms in
    let (vs, _) = M.model_feed ks M.rinit iv [c] in
    Printf.sprintf "c=%s p=%s rt=%s" (hex_of_bytes c) (hex_of_bytes p) (verdict_str (List.nth vs (List.length vs - 1)))
  | "WS" :: key :: crc :: _ ->
    let parts = split_on_string " | " line in
    let ks = ks_of_hexkey key in
    let eiv = ref M.iv0 and div = ref M.iv0 in
    String.concat " | " (List.map (fun fr ->
      match String.split_on_char ' ' fr with
      | sec :: nsec :: _ ->
        let ms = msgs_of_sx (sx_of_string (rest_after fr 2)) in
        let (c, e') = M.model_write ks !eiv (crc = "1") (z_of_str sec) (z_of_str nsec) ms in
        eiv := e';
        let (vs, d') = M.model_feed ks M.rinit !div [c] in
        div := d';
        "c=" ^ hex_of_bytes c ^ " rt=" ^ verdict_str (List.nth vs (List.length vs - 1))
      | _ -> "?") (List.tl parts))
  | "R" :: key :: iv :: chunks ->
    let (vs, _) = M.model_feed (ks_of_hexkey key) M.rinit (iv_of_hex iv) (List.map bytes_of_hex chunks) in
    String.concat " ; " (List.map verdict_str vs)
  | ["D"; plain] -> verdict_str (M.decode_frame (bytes_of_hex plain))
  | ["X"; orig; mask] ->
    let o = bytes_of_hex orig in
    let a = xor_pad o (bytes_of_hex mask) in
    let us s = String.map (fun c -> if c = ' ' then '_' else c) s in
    "orig=" ^ us (verdict_str (M.decode_frame o)) ^ " got=" ^ verdict_str (M.decode_frame a)
  | ["XC"; key; ct; mask] ->
    let (vs, _) = M.model_feed (ks_of_hexkey key) M.rinit M.iv0 [xor_pad (bytes_of_hex ct) (bytes_of_hex mask)] in
    verdict_str (List.hd vs)
  | ["CRC"; d] -> str_of_n (M.crc32 (bytes_of_hex d))
  | ["ENC"; key; iv; p] -> let (c, iv') = M.c_enc (ks_of_hexkey key) (bytes_of_hex iv) (bytes_of_hex p) in hex_of_bytes c ^ " " ^ hex_of_bytes iv'
  | ["KEY"; k] -> hex_of_bytes (M.key_pad (bytes_of_hex k))
  | _ -> "?"

let () =
  try while true do
    let line = input_line stdin in
    (try print_endline (handle line) with e -> print_endline ("MODEL-EXCEPTION " ^ Printexc.to_string e))
  done with End_of_file -> ()
