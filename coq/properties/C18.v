(* C18 - The request builder follows its documented grammar.
   create / create_request / create_requests (theories/Builder.v) mirror read_request_slice.go and request.go and are
   run against rscp.CreateRequest(s) by the correspondence check; Derives is the documented grammar and Fails the
   documented errors, both as inductive relations that do not mention the parser. tag_dt is any tag -> data type table
   (the checks instantiate it with the table generated from the source). *)
From Coq Require Import List NArith Bool.
Import ListNotations.
Require Import Builder BuilderInst Vocab.
Local Open Scope N_scope.

Theorem C18_grammar : forall tag_dt args m rest,
  create tag_dt (S (2 * length args)) args = Ok (m, rest) <-> Derives tag_dt args m rest.
Proof. exact Builder.C18_grammar. Qed.

(* every argument list builds the documented tree or returns the documented error; never anything else *)
Theorem C18_total : forall tag_dt args,
  (exists m rest, create_request tag_dt args = Ok m /\ Derives tag_dt args m rest) \/
  (exists e, create_request tag_dt args = Err e /\ Fails tag_dt args e).
Proof. exact Builder.C18_total. Qed.

Theorem C18_fuel : forall tag_dt args, create_request tag_dt args <> Err Fuel.
Proof. exact Builder.C18_fuel. Qed.

Theorem C18_multi : forall tag_dt ls, create_requests tag_dt ls =
  match ls with [] => Err NoArguments | _ => map_requests tag_dt ls end.
Proof. exact Builder.C18_multi. Qed.

(* non-vacuity, on the generated table: the documented example BAT_REQ_DATA, BAT_INDEX, uint16(0), BAT_REQ_RSOC builds a
   container with two children, and a value in tag position is the documented error *)
Example C18_nonvacuous :
  b_create_request [ATag 1; ATag 2; AVal 0; ATag 3; AVal 0] = Ok (BM 1 14 (BKids [BM 2 13 (BVal (AVal 0)); BM 3 13 (BVal (AVal 0))])) /\
  b_create_request [ATag 1; AVal 0] = Err NotATag /\ b_create_request [ATag 2] = Err MissingValue /\
  b_create_request [ATag 2; AType 1] = Err TagOrTypeAsValue /\ b_create_request [] = Err Empty.
Proof. vm_compute. repeat split. Qed.

Print Assumptions C18_grammar. Print Assumptions C18_total. Print Assumptions C18_fuel. Print Assumptions C18_multi.
