(* C16 - Creating a client is total and validates its configuration.
   Config.check mirrors ClientConfig.check (client_config.go) and createAESKey (crypt.go); use_checksum is the dynamic
   kind of the option (nil / a bool / any other Go kind). Totality is by construction (check is a total function that
   returns a configuration or an error) and is tied to "no panic" by the correspondence run. *)
From Coq Require Import List NArith ZArith Bool.
Import ListNotations.
Require Import Constants Config ConstantsAgree.
Local Open Scope Z_scope.

Theorem C16_iff : forall c, (exists c', check c = inl c') <->
  address c <> [] /\ user c <> [] /\ password c <> [] /\ key c <> [] /\ checksum_ok (use_checksum c).
Proof. exact Config.C16_iff. Qed.

Theorem C16_error_names : forall c fs, check c = inr (Missing fs) ->
  (In FAddress fs <-> address c = []) /\ (In FUser fs <-> user c = []) /\
  (In FPassword fs <-> password c = []) /\ (In FKey fs <-> key c = []).
Proof. exact Config.C16_error_names. Qed.

Theorem C16_defaults : forall c c', check c = inl c' ->
  port c' = (if (port c =? 0)%N then 5033%N else port c) /\
  use_checksum c' = (match use_checksum c with CNil => CBool true | x => x end) /\
  0 < conn_to c' /\ 0 < send_to c' /\ 0 < recv_to c' /\
  (conn_to c <= 0 -> conn_to c' = 3 * second) /\ (send_to c <= 0 -> send_to c' = 3 * second) /\
  (recv_to c <= 0 -> recv_to c' = 3 * second) /\
  (0 < conn_to c -> conn_to c' = conn_to c) /\ (0 < send_to c -> send_to c' = send_to c) /\ (0 < recv_to c -> recv_to c' = recv_to c) /\
  (1 <= rbuf_blocks c' <= max_blocks)%N /\ ((1 <= rbuf_blocks c <= max_blocks)%N -> rbuf_blocks c' = rbuf_blocks c) /\
  length (key_of c') = 32%nat /\ key_of c' = key_of c.
Proof. exact Config.C16_defaults. Qed.

(* the defaults of the model are the defaults of the source *)
Theorem C16_constants :
  default_port = 5033%N /\ default_connection_timeout_ns = 3 * second /\ default_send_timeout_ns = 3 * second /\
  default_receive_timeout_ns = 3 * second /\ default_heartbeat_ns = 10 * second /\
  default_receive_buffer_blocks = 1%N /\ default_use_checksum = 1%N /\ RSCP_FRAME_MAX_BLOCK_SIZE = max_blocks.
Proof. exact ConstantsAgree.config_constants. Qed.

Example C16_nonvacuous :
  (exists c', check {| address := [49%N]; user := [117%N]; password := [112%N]; key := repeat 107%N 40;  port := 0; heartbeat := 0; conn_to := -1;
                       send_to := 0; recv_to := 5; use_checksum := CNil; rbuf_blocks := 3000 |} = inl c' /\
              port c' = 5033%N /\ conn_to c' = 3 * second /\ recv_to c' = 5 /\ rbuf_blocks c' = 1%N /\ key_of c' = repeat 107%N 32) /\
  check {| address := []; user := [117%N]; password := []; key := [1%N]; port := 0; heartbeat := 0; conn_to := 0; send_to := 0; recv_to := 0;
           use_checksum := COther 2; rbuf_blocks := 0 |} = inr (Missing [FAddress; FPassword]).
Proof. split; [eexists; split; [reflexivity|]|]; vm_compute; repeat split. Qed.

Print Assumptions C16_iff. Print Assumptions C16_error_names. Print Assumptions C16_defaults. Print Assumptions C16_constants.
