(* C16 - Creating a client is total and validates its configuration.
   Config.check mirrors ClientConfig.check (client_config.go) and createAESKey (crypt.go); use_checksum is the dynamic
   kind of the option (nil / a bool / any other Go kind). Totality is by construction (check is a total function that
   returns a configuration or an error) and is tied to "no panic" by the correspondence run. *)
From Coq Require Import List NArith ZArith Bool.
Import ListNotations.
Require Import Constants Config ConstantsAgree.
Require Codec Frame Rijndael RijP1 Cipher SCipher Validate Client ClientSend Session C05Proofs.
Local Open Scope Z_scope.

Theorem C16_iff : forall c, (exists c', check c = inl c') <->
  address c <> [] /\ user c <> [] /\ password c <> [] /\ key c <> [] /\ checksum_ok (use_checksum c).
Proof. exact Config.C16_iff. Qed.

Theorem C16_error_names : forall c fs, check c = inr (Missing fs) ->
  (In FAddress fs <-> address c = []) /\ (In FUser fs <-> user c = []) /\
  (In FPassword fs <-> password c = []) /\ (In FKey fs <-> key c = []).
Proof. exact Config.C16_error_names. Qed.

Theorem C16_defaults : forall c c', check c = inl c' ->
  port c' = (if (port c =? 0)%N then 5033%N else port c) /\
  use_checksum c' = (match use_checksum c with CNil => CBool true | x => x end) /\
  0 < conn_to c' /\ 0 < send_to c' /\ 0 < recv_to c' /\
  (conn_to c <= 0 -> conn_to c' = 3 * second) /\ (send_to c <= 0 -> send_to c' = 3 * second) /\
  (recv_to c <= 0 -> recv_to c' = 3 * second) /\
  (0 < conn_to c -> conn_to c' = conn_to c) /\ (0 < send_to c -> send_to c' = send_to c) /\ (0 < recv_to c -> recv_to c' = recv_to c) /\
  (1 <= rbuf_blocks c' <= max_blocks)%N /\ ((1 <= rbuf_blocks c <= max_blocks)%N -> rbuf_blocks c' = rbuf_blocks c) /\
  length (key_of c') = 32%nat /\ key_of c' = key_of c.
Proof. exact Config.C16_defaults. Qed.

(* the defaults of the model are the defaults of the source *)
Theorem C16_constants :
  default_port = 5033%N /\ default_connection_timeout_ns = 3 * second /\ default_send_timeout_ns = 3 * second /\
  default_receive_timeout_ns = 3 * second /\ default_heartbeat_ns = 10 * second /\
  default_receive_buffer_blocks = 1%N /\ default_use_checksum = 1%N /\ RSCP_FRAME_MAX_BLOCK_SIZE = max_blocks.
Proof. exact ConstantsAgree.config_constants. Qed.

Example C16_nonvacuous :
  (exists c', check {| address := [49%N]; user := [117%N]; password := [112%N]; key := repeat 107%N 40;  port := 0; heartbeat := 0; conn_to := -1;
                       send_to := 0; recv_to := 5; use_checksum := CNil; rbuf_blocks := 3000 |} = inl c' /\
              port c' = 5033%N /\ conn_to c' = 3 * second /\ recv_to c' = 5 /\ rbuf_blocks c' = 1%N /\ key_of c' = repeat 107%N 32) /\
  check {| address := []; user := [117%N]; password := []; key := [1%N]; port := 0; heartbeat := 0; conn_to := 0; send_to := 0; recv_to := 0;
           use_checksum := COther 2; rbuf_blocks := 0 |} = inr (Missing [FAddress; FPassword]).
Proof. split; [eexists; split; [reflexivity|]|]; vm_compute; repeat split. Qed.

(* "behave as the documented defaults" over the whole life of a client: in the client model the options in use are those of
   the effective configuration, whatever happened before - for EVERY client state and world (after any history of calls,
   failures, disconnects and reconnects) a request that is transmitted goes out as exactly one frame built with the configured
   checksum setting, under a write deadline of the effective send timeout (theories/C05Proofs.v; the seeded change C16h - the
   option resolved once into a field that Disconnect forgets - breaks this and is found by the CFGLIFE cases) *)
Section InUse.
  Import Codec Frame Rijndael RijP1 Cipher SCipher Client ClientSend Session C05Proofs.
  Local Open Scope N_scope.
  Theorem C16_checksum_in_use : forall c, RijP1.bytes_ok (s_key c) -> forall s w ms s' w' u, Forall Validate.repr_msg ms ->
    let ks := key_schedule (key_pad (s_key c)) in
    send message (c_encode (s_crc c)) (s_enc ks) c_valid (eff_to (s_send_to c)) renv reactive s w ms = (s', w', Ok unit u) ->
    exists new ct ts, out message renv w' = new ++ out message renv w /\ writes_of message new = [ct] /\
      s_decP ks (eiv s) ct = pad32 (frame (fst ts) (snd ts) (s_crc c) ms).
  Proof.
    intros c Bk s w ms s' w' u Hr ks H.
    destruct (C05Proofs.C05_send c Bk s w ms s' w' (Ok unit u) Hr H) as (new & Hout & _ & _ & ct & ts & Hw & _ & _ & _ & Hp & _).
    exists new, ct, ts. auto.
  Qed.
End InUse.

Print Assumptions C16_iff. Print Assumptions C16_error_names. Print Assumptions C16_defaults. Print Assumptions C16_constants.
Print Assumptions C16_checksum_in_use.
