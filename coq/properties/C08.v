(* C08 - Replies are paired with their requests and the client recovers after failures.
   The composed system is the executable client model (theories/Client.v instantiated with RSCP frames, the model of
   validateRequests and Rijndael-256/CBC, exactly as in theories/Session.v) over the honest reactive peer of
   theories/PeerU.v: on every complete request the peer decrypts and decodes it, logs it (plog) and - depending on its fault
   script, one behaviour per exchange: Answer | Silent | CloseBefore | Garbage tail (a rejected block followed by arbitrary
   further blocks, e.g. a well-formed stale frame) - sends reply_of request on its own CBC chain, stays silent, closes,
   or sends garbage. reply_of is ANY function whose replies can be encoded, are never empty and grant the authentication.
   Sync s w is the invariant "in sync or closed": no connection and not authenticated, or nothing in flight, the peer open
   and both cipher chains of client and peer equal. maxlen = 65600 bounds the fuel (one unit per Read).
   No premise about codec or cipher is left: they are discharged in theories/C08Proofs.v. The behaviours Late, CloseInside,
   BadCRC, Malformed and RefuseAuth are covered by the correspondence runs over real TCP, not by these theorems. *)
From Coq Require Import List NArith ZArith Bool Lia.
Import ListNotations.
Require Import Codec Rijndael RijP1 Cipher SCipher Client ClientReasm PeerU Session C08Proofs.
Local Open Scope N_scope.

Section C08.
  Variable key : list N.
  Hypothesis Bk : RijP1.bytes_ok key.
  Variables user pass : list N.
  Hypothesis Bu : Codec.bytes_ok user.
  Hypothesis Bp : Codec.bytes_ok pass.
  Hypothesis Hlen : N.of_nat (length user + length pass) <= 60000.
  Variable crc : bool.
  Variables conn_to send_to recv_to : Z.
  Hypothesis to_pos : (0 < conn_to /\ 0 < send_to /\ 0 < recv_to)%Z.
  Variable rbuf : nat.
  Hypothesis rbuf_pos : (0 < rbuf)%nat.
  Variable reply_of : list message -> list message.
  Hypothesis reply_okm : forall ms, okm (reply_of ms).
  Hypothesis reply_nonempty : forall ms, reply_of ms <> [].
  Hypothesis auth_grants : c_auth_ok (reply_of (c_auth_req user pass)) = true.

  Let ks := key_schedule (key_pad key).
  Notation cpeer := (peer message (c_encode crc) (s_enc ks) (s_decP ks) (s_decI ks) iv0 decodeP reply_of gp).
  Notation csend_multiple := (send_multiple message (c_encode crc) c_decode_step (s_enc ks) (s_dec ks) iv0 c_valid
                                (c_auth_req user pass) c_auth_ok conn_to send_to recv_to rbuf (pstate message) cpeer).

  (* one call: Sync is preserved; the peer's log grows by nothing, the authentication request, the request, or both, in
     that order (each request at most once, in call order); a successful call returns the reply to that very request *)
  Theorem C08_call_spec : forall fuel s w ms s' w' r,
    Sync message s w -> (maxlen < fuel)%nat -> (c_valid ms = true -> okm ms) ->
    csend_multiple fuel s w ms = (s', w', r) ->
    Sync message s' w' /\
    (exists l, plog message (est message (pstate message) w') = plog message (est message (pstate message) w) ++ l /\
               one_of message (c_auth_req user pass) l ms) /\
    (forall x, r = Ok (list message) x -> x = reply_of ms /\
       exists l, plog message (est message (pstate message) w') = plog message (est message (pstate message) w) ++ l ++ [ms]).
  Proof. exact (C08Proofs.C08_call_spec key Bk user pass Bu Bp Hlen crc conn_to send_to recv_to to_pos rbuf rbuf_pos reply_of reply_okm reply_nonempty auth_grants). Qed.

  (* recovery: from a closed state (after a timeout, a broken connection, a protocol error or Disconnect), against a peer
     that is healthy for the next two exchanges, the call reconnects, authenticates again and returns the reply to this
     very request *)
  Theorem C08_recovery : forall fuel s w ms s' w' r,
    Sync message s w -> cur message (pstate message) w = None -> (maxlen < fuel)%nat -> c_valid ms = true -> okm ms ->
    (match script message (est message (pstate message) w) with [] => True | [Answer] => True | Answer :: Answer :: _ => True | _ => False end) ->
    csend_multiple fuel s w ms = (s', w', r) ->
    r = Ok (list message) (reply_of ms) /\
    plog message (est message (pstate message) w') = plog message (est message (pstate message) w) ++ [c_auth_req user pass; ms] /\
    Sync message s' w'.
  Proof. exact (C08Proofs.C08_recovery key Bk user pass Bu Bp Hlen crc conn_to send_to recv_to to_pos rbuf rbuf_pos reply_of reply_okm reply_nonempty auth_grants). Qed.
End C08.

(* the same two theorems, and the per-behaviour exchange lemma, for every codec/cipher satisfying the interface *)
Definition C08_exchange_generic := @PeerU.exchange.

(* non-vacuity: an encodable reply function exists (here: answer everything with a level 10 grant) and the configured
   authentication request is valid and encodable *)
Example C08_nonvacuous :
  okm [Msg 8388609 3 (GU8 10)] /\ c_auth_ok [Msg 8388609 3 (GU8 10)] = true /\ c_valid (c_auth_req [117] [112]) = true.
Proof. split; [split; [repeat constructor; cbn; auto; lia|unfold WireProofs.fits; vm_compute; reflexivity]|split; vm_compute; reflexivity]. Qed.

Print Assumptions C08_call_spec. Print Assumptions C08_recovery. Print Assumptions C08_exchange_generic.
