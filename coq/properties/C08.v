(* C08 - Replies are paired with their requests and the client recovers after failures.
   The composed system is the client model (Client.v) over the honest reactive peer of theories/PeerU.v: on every
   complete request the peer decodes it, logs it (plog) and - depending on its fault script, one behaviour per exchange:
   Answer | Silent | CloseBefore | Garbage tail (a rejected block followed by arbitrary further blocks, e.g. a well-formed
   stale frame) - sends reply_of request on its own CBC chain, stays silent, closes, or sends garbage.
   Sync s w is the invariant "in sync or closed": no connection and not authenticated, or nothing in flight, the peer open
   and both cipher chains of client and peer equal.
   The theorems are stated for every codec/cipher satisfying the interface premises listed by `Check` below (framing,
   CBC append laws, encode/decode round trip); those premises are proved for the concrete RSCP instance in
   theories/SCipherProofs.v (cipher) and theories/FrameProofs*.v (framing) - see DESIGN.md 6/C08 for what remains to
   connect them - and the concrete system is run against the real client over real TCP by the correspondence check. *)
From Coq Require Import List NArith ZArith Bool.
Import ListNotations.
Require Import Client ClientReasm PeerU.

(* one call: Sync is preserved; the peer's log grows by nothing, the authentication request, the request, or both, in
   that order (each request at most once, in call order); a successful call returns the reply to that very request *)
Definition C08_call_spec := @PeerU.call_spec.
(* recovery: from a closed state (after a timeout, a broken connection, a protocol error or Disconnect), against a peer
   that is healthy for the next two exchanges, the call reconnects, authenticates again and returns the reply to this
   very request *)
Definition C08_recovery := @PeerU.recovery.
(* one exchange on an established connection, for each behaviour *)
Definition C08_exchange := @PeerU.exchange.

Check C08_call_spec.
Check C08_recovery.
Print Assumptions C08_call_spec. Print Assumptions C08_recovery. Print Assumptions C08_exchange.
