(* C08 - Replies are paired with their requests and the client recovers after failures.
   The composed system is the executable client model (theories/Client.v instantiated with RSCP frames, the model of
   validateRequests and Rijndael-256/CBC, exactly as in theories/Session.v) over the honest reactive peer of
   theories/PeerU.v: on every complete request the peer decrypts and decodes it, logs it (plog) and - by its fault script, one
   behaviour per exchange - does one of
     Answer         sends reply_of request on its own CBC chain
     Refuse         sends deny_of request (a refused authentication)
     Silent         sends nothing
     Late           sends the reply only after the client's Read has timed out
     CloseBefore    closes the connection instead of answering
     CloseInside n  sends the first n mod length bytes of the encrypted reply (any cut, inside a cipher block or not), then closes
     Bad g tail     sends a plaintext g that the receiver rejects when it has read all of it (badg: a garbled header block,
                    a frame with a wrong checksum, a frame with a malformed payload - instances below), followed by arbitrary
                    further bytes, e.g. a well-formed stale frame.
   reply_of and deny_of are ANY functions whose values can be encoded and are never empty; reply_of grants the
   authentication, deny_of does not. cSync s w is the invariant "in sync or closed": no connection and not authenticated, or
   nothing in flight, the peer open and both cipher chains of client and peer equal (and the rest of the script well-formed).
   maxlen = 65600 bounds the fuel (one unit per Read). No premise about codec or cipher is left: all are discharged in
   theories/C08Proofs.v. The transport is in-order and reliable per connection (TCP); time is the model's clock. *)
From Coq Require Import List NArith ZArith Bool Lia.
Import ListNotations.
Require Import Codec CRCFrame C04Proofs Frame Rijndael RijP1 Cipher SCipher Client ClientReasm PeerU Session C08Proofs C08Bad ClientNonEmpty.
Local Open Scope N_scope.

Section C08.
  Variable key : list N.
  Hypothesis Bk : RijP1.bytes_ok key.
  Variables user pass : list N.
  Hypothesis Bu : Codec.bytes_ok user.
  Hypothesis Bp : Codec.bytes_ok pass.
  Hypothesis Hlen : N.of_nat (length user + length pass) <= 60000.
  Variable crc : bool.
  Variables conn_to send_to recv_to : Z.
  Hypothesis to_pos : (0 < conn_to /\ 0 < send_to /\ 0 < recv_to)%Z.
  Variable rbuf : nat.
  Hypothesis rbuf_pos : (0 < rbuf)%nat.
  Variables reply_of deny_of : list message -> list message.
  Hypothesis reply_okm : forall ms, okm (reply_of ms).
  Hypothesis deny_okm : forall ms, okm (deny_of ms).
  Hypothesis reply_nonempty : forall ms, reply_of ms <> [].
  Hypothesis deny_nonempty : forall ms, deny_of ms <> [].
  Hypothesis auth_grants : c_auth_ok (reply_of (c_auth_req user pass)) = true.
  Hypothesis auth_denies : c_auth_ok (deny_of (c_auth_req user pass)) = false.

  Notation csend_multiple := (csend_multiple key user pass crc conn_to send_to recv_to rbuf reply_of deny_of).
  Notation cdisconnect := (cdisconnect key crc reply_of deny_of).
  Notation crun_res := (crun_res key user pass crc conn_to send_to recv_to rbuf reply_of deny_of).
  Notation W := (world message (pstate message)).
  Notation peer_log w := (plog message (est message (pstate message) w)).
  Notation peer_script w := (script message (est message (pstate message) w)).
  Notation connection w := (cur message (pstate message) w).

  (* every history of calls {SendMultiple, Disconnect} against every fault script: the invariant holds at the end, the
     peer's log is the concatenation, in call order, of what the single calls contributed - nothing, the authentication
     request, the request, or both: every request reaches the peer at most once and in call order - and every successful
     call returned the reply the peer produced for that very request, which is the last thing the peer received *)
  Theorem C08_history : forall cs s (w : W), cSync s w -> Forall cokc cs ->
    let '(s', w', rs) := crun_res s w cs in
    cSync s' w' /\ exists ls, cpaired user pass reply_of deny_of cs rs ls /\ peer_log w' = peer_log w ++ concat ls.
  Proof. exact (C08Proofs.C08_history key Bk user pass Bu Bp Hlen crc conn_to send_to recv_to to_pos rbuf rbuf_pos reply_of deny_of reply_okm deny_okm reply_nonempty deny_nonempty auth_grants auth_denies). Qed.

  (* one call; a failed call leaves the client closed unless the failure is a refused request or a refused authentication *)
  Theorem C08_call_spec : forall fuel s (w : W) ms s' w' r,
    cSync s w -> (maxlen < fuel)%nat -> (c_valid ms = true -> okm ms) ->
    csend_multiple fuel s w ms = (s', w', r) ->
    cSync s' w' /\
    (exists l, peer_log w' = peer_log w ++ l /\ one_of message (c_auth_req user pass) l ms) /\
    (forall x, r = Ok (list message) x -> (x = reply_of ms \/ x = deny_of ms) /\ exists l, peer_log w' = peer_log w ++ l ++ [ms]) /\
    (forall x, r = Err (list message) x ->
       (connection w' = None /\ (x = EIO \/ x = EProto)) \/ x = EValidate \/ (x = EAuth /\ authed s' = false)).
  Proof. exact (C08Proofs.C08_call_spec key Bk user pass Bu Bp Hlen crc conn_to send_to recv_to to_pos rbuf rbuf_pos reply_of deny_of reply_okm deny_okm reply_nonempty deny_nonempty auth_grants auth_denies). Qed.

  (* recovery: whenever the client is not authenticated - closed after a timeout, a broken connection, a protocol error or
     Disconnect, or refused - and the peer answers the next two requests, the call reconnects where necessary, authenticates
     again and returns the reply to this very request; the peer receives exactly the authentication request and the request *)
  Theorem C08_recovery : forall fuel s (w : W) ms s' w' r,
    cSync s w -> authed s = false -> (maxlen < fuel)%nat -> c_valid ms = true -> okm ms ->
    healthy message 2 (est message (pstate message) w) ->
    csend_multiple fuel s w ms = (s', w', r) ->
    r = Ok (list message) (reply_of ms) /\ peer_log w' = peer_log w ++ [c_auth_req user pass; ms] /\ cSync s' w' /\ authed s' = true.
  Proof. exact (C08Proofs.C08_recovery key Bk user pass Bu Bp Hlen crc conn_to send_to recv_to to_pos rbuf rbuf_pos reply_of deny_of reply_okm deny_okm reply_nonempty deny_nonempty auth_grants auth_denies). Qed.

  (* an authenticated client whose peer answers the next request gets exactly that answer and nothing else is sent *)
  Theorem C08_steady : forall fuel s (w : W) ms s' w' r,
    cSync s w -> authed s = true -> (maxlen < fuel)%nat -> c_valid ms = true -> okm ms ->
    healthy message 1 (est message (pstate message) w) ->
    csend_multiple fuel s w ms = (s', w', r) ->
    r = Ok (list message) (reply_of ms) /\ peer_log w' = peer_log w ++ [ms] /\ cSync s' w' /\ authed s' = true.
  Proof. exact (C08Proofs.C08_steady key Bk user pass Bu Bp Hlen crc conn_to send_to recv_to to_pos rbuf rbuf_pos reply_of deny_of reply_okm deny_okm reply_nonempty deny_nonempty auth_grants auth_denies). Qed.

  (* Disconnect closes, tells the peer nothing, and leaves the client ready for C08_recovery *)
  Theorem C08_disconnect : forall s (w : W) s' w', cSync s w -> cdisconnect s w = (s', w') ->
    cSync s' w' /\ connection w' = None /\ authed s' = false /\ peer_log w' = peer_log w /\ peer_script w' = peer_script w.
  Proof. exact (C08Proofs.C08_disconnect key Bk user pass Bu Bp Hlen crc conn_to send_to recv_to to_pos rbuf rbuf_pos reply_of deny_of reply_okm deny_okm reply_nonempty deny_nonempty auth_grants auth_denies). Qed.
End C08.

(* a successful call always carries a reply: for EVERY environment (any peer, honest or not, any segmentation and timing),
   cipher, encoder and configuration, a call of the client model with the RSCP decode step that returns Ok returns at least
   one message - so Client.Send's "first message of the reply" always exists *)
Theorem C08_reply_nonempty : forall (E : Type) (m : envsm E) encode enc dec iv0 valid auth_req auth_ok conn_to send_to recv_to rbuf
    fuel s w req s' w' ms,
  send_multiple message encode c_decode_step enc dec iv0 valid auth_req auth_ok conn_to send_to recv_to rbuf E m fuel s w req
    = (s', w', Ok (list message) ms) -> ms <> [].
Proof.
  intros E m encode enc dec iv0 valid auth_req auth_ok conn_to send_to recv_to rbuf fuel s w req s' w' ms H.
  exact (ClientNonEmpty.send_multiple_nonempty _ _ _ _ _ _ _ _ _ _ _ _ _ _ _ c_decode_nonempty _ _ _ _ _ _ _ H).
Qed.

(* rejected plaintexts the script may contain: 32 zero bytes (no magic), a checksummed frame with one checksum bit flipped,
   a frame whose payload is not a sequence of items *)
Theorem C08_bad_instances : PeerU.badg message c_verdict maxlen gp /\ PeerU.badg message c_verdict maxlen bad_crc_frame /\
                            PeerU.badg message c_verdict maxlen bad_payload_frame.
Proof. exact (conj badg_gp (conj badg_bad_crc badg_bad_payload)). Qed.

(* ... and, in general (from C04): every checksummed frame with zero padding whose timestamp, payload or checksum field is altered
   by a burst of at most 32 bits or by two bits anywhere *)
Theorem C08_bad_crc : forall sec nsec ms e_ts e_pay e_crc padding,
  alteration_ok sec nsec ms e_ts e_pay e_crc padding -> all_zero padding = true -> (length padding < 32)%nat ->
  (burst32 (altered_bits e_ts e_pay e_crc) \/ two_bits (altered_bits e_ts e_pay e_crc)) ->
  PeerU.badg message c_verdict maxlen (xor_bytes (valid_frame sec nsec ms padding) (alteration e_ts e_pay e_crc padding)).
Proof. exact C08Bad.badg_altered. Qed.

(* ... and every frame with a good header (with or without checksum, the checksum may even be right) whose payload is not a
   sequence of items *)
Theorem C08_bad_payload : forall (crc : bool) (ts payload trailer : list N),
  length ts = 12%nat -> N.of_nat (length payload) < 65536 -> length trailer = (if crc then 4 else 0)%nat ->
  dec_items (S (length payload)) payload = None ->
  PeerU.badg message c_verdict maxlen (malformed_frame crc ts payload trailer).
Proof. exact C08Bad.badg_malformed. Qed.

(* non-vacuity: the initial state with a script that uses every behaviour satisfies the invariant; encodable reply functions
   exist (grant level 10 / refuse with level 0); the configured authentication request is valid *)
Definition demo_script : list (behaviour) :=
  [Answer; Refuse; Silent; Late; CloseBefore; CloseInside 45; Bad gp (repeat 7 64); Bad bad_crc_frame []; Bad bad_payload_frame []; Answer; Answer].
Example C08_nonvacuous :
  cSync (init_state iv0)
        (init_world message (pstate message)
           {| p_enc := iv0; p_dec := iv0; inflight := []; delayed := []; closed := false; script := demo_script; plog := [] |} 4) /\
  okm [Msg 8388609 3 (GU8 10)] /\ c_auth_ok [Msg 8388609 3 (GU8 10)] = true /\
  okm [Msg 8388609 3 (GU8 0)] /\ c_auth_ok [Msg 8388609 3 (GU8 0)] = false /\
  c_valid (c_auth_req [117] [112]) = true.
Proof.
  split.
  - split; [|reflexivity]. cbn [est init_world script demo_script].
    repeat (apply Forall_cons; [first [exact I | exact badg_gp | exact badg_bad_crc | exact badg_bad_payload]|]). apply Forall_nil.
  - assert (O : forall n, n < 256 -> okm [Msg 8388609 3 (GU8 n)]).
    { intros n Hn. split; [repeat constructor; cbn; auto; lia|unfold WireProofs.fits; vm_compute; reflexivity]. }
    split; [apply O; lia|]. split; [reflexivity|]. split; [apply O; lia|]. split; reflexivity.
Qed.

Print Assumptions C08_history. Print Assumptions C08_call_spec. Print Assumptions C08_recovery. Print Assumptions C08_steady.
Print Assumptions C08_disconnect. Print Assumptions C08_bad_instances. Print Assumptions C08_bad_crc. Print Assumptions C08_bad_payload.
Print Assumptions C08_reply_nonempty.
