(* C12 - A JSON request is transmitted exactly as written, in every notation.
   The model (theories/JsonIn.v, JsonInst.v) works on JSON syntax trees: a number carries its exact integer value when
   the literal denotes an integer, whether the literal is a plain run of digits, and the bit patterns strconv produces for
   the two float targets (oracle: decimal -> binary rounding is strconv's job); a string carries the instant it denotes
   when it is RFC 3339 (oracle). JSON text syntax, key matching and duplicate keys of encoding/json are modelled, not
   verified. parse mirrors unmarshalJSONRequest(s) / UnmarshalJSONValue after the repairs; it is run against the real
   functions in package main of cmd/e3dc on every case. *)
From Coq Require Import List NArith ZArith Bool.
Import ListNotations.
Require Import Codec CodecProofs JsonIn JsonInProofs JsonInst Vocab.
Require Cli CliProofs.
Import Cli.
Local Open Scope N_scope.

(* the three notations are equivalent: a request tree written with ANY admissible choice of notation per node
   (bare tag, [tag, type?, value?] tuple, {Tag, DataType, Value} object; tag by name or number; data type explicit or
   inferred from the tag) parses to the message tree it denotes. wf_rt excludes exactly the forms the documented grammar
   cannot express (a bare tag with a value; the 2-tuple whose value is a string spelling a data type name). *)
Theorem C12_notations : forall tag_of_name dt_of_name infer, dt_of_name [] = None ->
  forall fuel t, (size t < fuel)%nat -> wf_rt tag_of_name dt_of_name infer t ->
  parse tag_of_name dt_of_name infer fuel (print t) = Ok _ (denote infer t).
Proof. intros tn dn inf _. exact (JsonInProofs.C12_notations tn dn inf). Qed.

(* every value representable in the target data type is carried exactly: converting the way it is written gives it back *)
Theorem C12_value_exact : forall dt g, wf_val dt g -> dt <> 14 -> dt <> 0 -> conv_scalar dt (pval g) = Some g.
Proof. exact JsonInProofs.conv_pval. Qed.

(* ... and a value is never silently replaced: whatever conv_scalar accepts for an integer type is the literal's exact
   integer value, within the range of the type *)
Theorem C12_int_exact : forall dt z p f g v, conv_scalar dt (JNum (Some z) p f g) = Some v ->
  In dt [2; 3; 4; 5; 6; 7; 8; 9; 12; 255] -> JsonInProofs.int_of v = Some z.
Proof. exact JsonInProofs.conv_scalar_int_exact. Qed.
Theorem C12_non_integral_rejected : forall dt p f g, In dt [2; 3; 4; 5; 6; 7; 8; 9; 12; 255] ->
  conv_scalar dt (JNum None p f g) = None.
Proof. exact JsonInProofs.conv_scalar_non_integral. Qed.

(* a request text that is not an array is rejected, and one bad element rejects the whole text (nothing is transmitted:
   the command exits before it contacts the device, see C15) *)
Theorem C12_not_array : forall j, (forall l, j <> JArr l) -> parse_requests j = Err _.
Proof. intros j H. destruct j; try reflexivity. exfalso. exact (H l eq_refl). Qed.

Example C12_nonvacuous :
  parse_requests (JArr [JArr [JStr [69;77;83;95;82;69;81;95;80;79;87;69;82;95;80;86] None];
                        JObj (Some (JNum (Some 16777221%Z) true None None)) (Some (JStr [85;73;110;116;49;54] None)) (Some (JNum (Some 7%Z) true None None))])
    = Ok _ [Msg 16777217 0 GNil; Msg 16777221 5 (GU16 7)] /\
  parse_requests (JArr [JArr [JNum (Some 16777221%Z) true None None; JStr [85;73;110;116;49;54] None; JNum (Some 70000%Z) true None None]]) = Err _.
Proof. vm_compute. split; reflexivity. Qed.

(* "... is rejected with an error and no request is transmitted": in the command model (theories/Cli.v - the whole request text
   is interpreted before the first call, with or without -splitrequests) a text the parser rejects ends the run with status 1,
   nothing on standard output, and not a single event on any connection - no dial, no authentication, no request - whatever the
   flags, the output format, the split option and the device's script *)
Theorem C12_rejected_nothing_sent : forall yneg i conns j,
  ci_help i = false -> ci_version i = false -> ci_request i = Some j -> parse_requests j = JsonIn.Err _ ->
  snd (cli_main yneg i conns) = [] /\ status (fst (cli_main yneg i conns)) = 1 /\ stdout_doc (fst (cli_main yneg i conns)) = None.
Proof.
  intros yneg i conns j Hh Hv Hr Hp. split.
  - apply CliProofs.C15_nothing_sent. do 8 right. exists j. split; assumption.
  - unfold cli_main. rewrite Hh, Hv. cbn [orb].
    destruct (ci_flag_error i); [split; reflexivity|].
    destruct (is_empty (ci_host i) || is_empty (ci_user i) || is_empty (ci_pass i) || is_empty (ci_key i)); [split; reflexivity|].
    rewrite Hr, Hp. split; reflexivity.
Qed.

Print Assumptions C12_notations. Print Assumptions C12_value_exact. Print Assumptions C12_int_exact.
Print Assumptions C12_non_integral_rejected. Print Assumptions C12_not_array.
Print Assumptions C12_rejected_nothing_sent.
