(* C01 - Encode then decode returns the same messages.
   model_write / model_read_step are the executable models of rscp.Write / rscp.Read (theories/Wire.v) that the
   correspondence check runs against the real code byte for byte; the cipher is the Gallina Rijndael-256 in CBC mode. *)
From Coq Require Import List NArith ZArith Bool.
Import ListNotations.
Require Import Codec Frame Reader Rijndael RijP1 Cipher Wire WireProofs FrameProofs5.
Local Open Scope N_scope.

(* plaintext level: the decoder accepts the padded frame the encoder produces, with exactly the messages encoded *)
Theorem C01_plain : forall sec nsec crc ms, Forall wf_msg ms -> fits ms ->
  decode_frame (pad32 (frame sec nsec crc ms)) = Accept ms.
Proof. exact FrameProofs5.C01_plain_roundtrip. Qed.

(* through the cipher: for every key string, chain value (position in a stream), checksum setting, timestamp and
   every list of well-formed messages that fits the 16 bit frame length *)
Theorem C01_roundtrip : forall key, bytes_ok key -> forall iv crc sec nsec ms,
  length iv = 32%nat -> Forall wf_msg ms -> fits ms ->
  let ks := key_schedule (key_pad key) in
  exists st', model_read_step ks rinit iv (fst (model_write ks iv crc sec nsec ms))
              = (st', snd (model_write ks iv crc sec nsec ms), Accept ms)
              /\ length (snd (model_write ks iv crc sec nsec ms)) = 32%nat.
Proof. exact WireProofs.C01_roundtrip. Qed.

(* every frame of a multi-frame stream written and read on one pair of chained cipher states *)
Theorem C01_stream : forall key, bytes_ok key -> forall fs iv, length iv = 32%nat -> Forall frame_ok fs ->
  let ks := key_schedule (key_pad key) in
  read_stream ks iv (fst (write_stream ks iv fs)) = (map (fun f => Accept (w_ms f)) fs, snd (write_stream ks iv fs)).
Proof. exact WireProofs.C01_stream. Qed.

(* non-vacuity: a depth-3 tree with value-less items, empty values, an unknown tag, a pre-1970 timestamp, NaN bits *)
Definition sample : list message :=
  [Msg 16777217 14 (GMsgs [Msg 4294967295 14 (GMsgs [Msg 5 0 GNil; Msg 6 13 (GStr []); Msg 7 14 (GMsgs [])]);
                           Msg 8 15 (GTime (-1)%Z 999999999%Z); Msg 9 10 (GF32 2143289344)]);
   Msg 10 16 (GBytes [0; 255]); Msg 11 255 (GErr 4294967295); Msg 12 2 (GI8 (-128)%Z); Msg 13 9 (GU64 18446744073709551615)].
Example C01_nonvacuous : Forall wf_msg sample /\ fits sample /\ bytes_ok [107] /\
  decode_frame (pad32 (frame 1700000000%Z 5%Z true sample)) = Accept sample.
Proof.
  assert (W : Forall wf_msg sample).
  { unfold sample. repeat constructor; cbn; repeat split; try reflexivity; try discriminate; try (apply N.ltb_lt; reflexivity);
      try (apply Z.leb_le; reflexivity); try (apply Z.ltb_lt; reflexivity); try (apply N.leb_le; reflexivity); repeat constructor;
      try (apply N.ltb_lt; reflexivity). }
  assert (F : fits sample) by (apply N.ltb_lt; vm_compute; reflexivity).
  split; [exact W|]. split; [exact F|]. split; [repeat constructor|].
  apply FrameProofs5.C01_plain_roundtrip; assumption.
Qed.

Print Assumptions C01_plain. Print Assumptions C01_roundtrip. Print Assumptions C01_stream.
