(* C15 - The e3dc command keeps its process contract.   (PARTIAL: see DESIGN.md 6/C15)
   cli_main (theories/Cli.v) composes the models of the request parser, the client over a scripted device and the output
   formats into the command: inputs are the classes main/checkFlags branch on plus the request text as a syntax tree;
   outputs are exit status, the document on standard output and whether anything is written to standard error. It is
   run against the real binary (built from the working tree, clean environment, scripted TCP device) on every case:
   status, exact stdout, stderr non-empty and the requests the device received must agree.
   Not modelled: jnovack/flag, os, the Go runtime's panic exit path ("never a panic trace" is established by the runs). *)
From Coq Require Import List NArith ZArith Bool String.
Import ListNotations.
Require Import Codec JsonIn JsonInst JsonDoc Client Session Cli CliProofs.
Local Open Scope N_scope.

Theorem C15_contract : forall yneg i conns, let o := fst (cli_main yneg i conns) in
  (status o = 0 /\ stdout_doc o = None /\ stderr_nonempty o = true /\ (ci_help i || ci_version i = true)) \/
  (status o = 0 /\ (exists d, stdout_doc o = Some d) /\ stderr_nonempty o = false /\ (ci_help i || ci_version i = false)) \/
  (status o = 1 /\ stdout_doc o = None /\ stderr_nonempty o = true /\ (ci_help i || ci_version i = false)).
Proof. exact CliProofs.C15_contract. Qed.

Theorem C15_nothing_sent : forall yneg i conns,
  ci_help i = true \/ ci_version i = true \/ ci_flag_error i = true \/
  ci_host i = [] \/ ci_user i = [] \/ ci_pass i = [] \/ ci_key i = [] \/ ci_request i = None \/
  (exists j, ci_request i = Some j /\ parse_requests j = JsonIn.Err _) ->
  snd (cli_main yneg i conns) = [].
Proof. exact CliProofs.C15_nothing_sent. Qed.

Theorem C15_unknown_output : forall yneg i conns, ci_output i <> 0 -> ci_output i <> 1 -> ci_output i <> 2 ->
  forall d, fst (cli_main yneg i conns) <> CDoc d.
Proof. exact CliProofs.C15_unknown_output. Qed.

Print Assumptions C15_contract. Print Assumptions C15_nothing_sent. Print Assumptions C15_unknown_output.
