(* C15 - The e3dc command keeps its process contract.   (PARTIAL: see DESIGN.md 6/C15)
   cli_main (theories/Cli.v) composes the models of the request parser, the client over a scripted device and the output
   formats into the command: inputs are the classes main/checkFlags branch on plus the request text as a syntax tree;
   outputs are exit status, the document on standard output and whether anything is written to standard error. It is
   run against the real binary (built from the working tree, clean environment, scripted TCP device) on every case:
   status, exact stdout, stderr non-empty and the requests the device received must agree.
   Not modelled: jnovack/flag, os, the Go runtime's panic exit path ("never a panic trace" is established by the runs). *)
From Coq Require Import List NArith ZArith Bool String.
Import ListNotations.
Require Import Codec JsonIn JsonInst JsonDoc Client Session Cli CliProofs.
Require Import RijP1 Cipher SCipher PeerU WireProofs C08Proofs CliSplit ClientNonEmpty.
Local Open Scope N_scope.

Theorem C15_contract : forall yneg i conns, let o := fst (cli_main yneg i conns) in
  (status o = 0 /\ stdout_doc o = None /\ stderr_nonempty o = true /\ (ci_help i || ci_version i = true)) \/
  (status o = 0 /\ (exists d, stdout_doc o = Some d) /\ stderr_nonempty o = false /\ (ci_help i || ci_version i = false)) \/
  (status o = 1 /\ stdout_doc o = None /\ stderr_nonempty o = true /\ (ci_help i || ci_version i = false)).
Proof. exact CliProofs.C15_contract. Qed.

Theorem C15_nothing_sent : forall yneg i conns,
  ci_help i = true \/ ci_version i = true \/ ci_flag_error i = true \/
  ci_host i = [] \/ ci_user i = [] \/ ci_pass i = [] \/ ci_key i = [] \/ ci_request i = None \/
  (exists j, ci_request i = Some j /\ parse_requests j = JsonIn.Err _) ->
  snd (cli_main yneg i conns) = [].
Proof. exact CliProofs.C15_nothing_sent. Qed.

Theorem C15_unknown_output : forall yneg i conns, ci_output i <> 0 -> ci_output i <> 1 -> ci_output i <> 2 ->
  forall d, fst (cli_main yneg i conns) <> CDoc d.
Proof. exact CliProofs.C15_unknown_output. Qed.

(* ---- second sentence of the property: -splitrequests ----
   The loop of run() over ANY send function is CliSplit.run_calls_g; the loop of the command model that is extracted and
   compared with the binary is its instance for the scripted environment: *)
Theorem C15_loop_generic : forall c ks split reqs s w rs0,
  run_calls c ks split (s, w, rs0) reqs =
  let '(st, r) := run_calls_g _ (ssend c ks) split (s, w) reqs in (fst st, snd st, r).
Proof. exact CliSplit.run_calls_generic. Qed.

(* ... and its instance over the honest RSCP peer of C08 (the same send_multiple, codec, cipher and validation; any key,
   account, checksum setting, positive timeouts, receive buffer; reply functions as in C08) satisfies the sentence: if the
   device answers the whole request list and every single request with one message per request (f), then from a fresh (or
   any unauthenticated, in-sync) client
   - the split run and the unsplit run collect the same replies, map f ms - so every output format prints the same document;
   - split: the device received the authentication request and then each top-level request in its own frame, in order;
   - unsplit: it received the authentication request and one frame holding all requests. *)
Section C15split.
  Variable key : list N.
  Hypothesis Bk : RijP1.bytes_ok key.
  Variables user pass : list N.
  Hypothesis Bu : Codec.bytes_ok user.
  Hypothesis Bp : Codec.bytes_ok pass.
  Hypothesis Hlen : N.of_nat (List.length user + List.length pass) <= 60000.
  Variable crc : bool.
  Variables conn_to send_to recv_to : Z.
  Hypothesis to_pos : (0 < conn_to /\ 0 < send_to /\ 0 < recv_to)%Z.
  Variable rbuf : nat.
  Hypothesis rbuf_pos : (0 < rbuf)%nat.
  Variables reply_of deny_of : list message -> list message.
  Hypothesis reply_okm : forall ms, okm (reply_of ms).
  Hypothesis deny_okm : forall ms, okm (deny_of ms).
  Hypothesis reply_nonempty : forall ms, reply_of ms <> [].
  Hypothesis deny_nonempty : forall ms, deny_of ms <> [].
  Hypothesis auth_grants : c_auth_ok (reply_of (c_auth_req user pass)) = true.
  Hypothesis auth_denies : c_auth_ok (deny_of (c_auth_req user pass)) = false.
  Variable f : message -> message.
  Variable fuel : nat.
  Hypothesis Hfuel : (maxlen < fuel)%nat.
  Notation psend := (psend key user pass crc conn_to send_to recv_to rbuf reply_of deny_of fuel).
  Notation W := (world message (pstate message)).
  Notation peer_log w := (plog message (est message (pstate message) w)).

  Theorem C15_split : forall ms s (w : W),
    cSync s w -> authed s = false -> ms <> [] -> c_valid ms = true -> okm ms ->
    reply_of ms = map f ms -> (forall m, In m ms -> reply_of [m] = [f m]) ->
    healthy message (S (List.length ms)) (est message (pstate message) w) ->
    forall st1 r1 st2 r2,
    run_calls_g _ psend true (s, w) (map (fun m => [m]) ms) = (st1, r1) ->
    run_calls_g _ psend false (s, w) [ms] = (st2, r2) ->
    r1 = Some (map f ms) /\ r2 = Some (map f ms) /\
    peer_log (snd st1) = peer_log w ++ c_auth_req user pass :: map (fun m => [m]) ms /\
    peer_log (snd st2) = peer_log w ++ [c_auth_req user pass; ms].
  Proof. exact (CliSplit.split_equals_unsplit key Bk user pass Bu Bp Hlen crc conn_to send_to recv_to to_pos rbuf rbuf_pos reply_of deny_of reply_okm deny_okm reply_nonempty deny_nonempty auth_grants auth_denies f fuel Hfuel). Qed.

  Theorem C15_split_document : forall ms s (w : W) (render : list message -> jdoc),
    cSync s w -> authed s = false -> ms <> [] -> c_valid ms = true -> okm ms ->
    reply_of ms = map f ms -> (forall m, In m ms -> reply_of [m] = [f m]) ->
    healthy message (S (List.length ms)) (est message (pstate message) w) ->
    option_map render (snd (run_calls_g _ psend true (s, w) (map (fun m => [m]) ms))) =
    option_map render (snd (run_calls_g _ psend false (s, w) [ms])).
  Proof. exact (CliSplit.split_same_document key Bk user pass Bu Bp Hlen crc conn_to send_to recv_to to_pos rbuf rbuf_pos reply_of deny_of reply_okm deny_okm reply_nonempty deny_nonempty auth_grants auth_denies f fuel Hfuel). Qed.
End C15split.

(* non-vacuity: a device function meeting every hypothesis for a two-request run from the fresh client, whose peer answers *)
Definition demo_f (m : message) : message := match m with Msg t _ _ => Msg (t + 8388608) 3 (GU8 10) end.
Definition demo_reply (q : list message) : list message :=
  match q with [a] => [demo_f a] | [a; b] => [demo_f a; demo_f b] | _ => [Msg 8388609 3 (GU8 10)] end.
Definition demo_ms : list message := [Msg 16777217 14 (GMsgs [Msg 5 5 (GU16 7); Msg 6 0 GNil]); Msg 17 13 (GStr [97])].
Example C15_split_nonvacuous :
  (forall q, demo_reply q <> []) /\ c_auth_ok (demo_reply (c_auth_req [117] [112])) = true /\
  demo_ms <> [] /\ c_valid demo_ms = true /\ demo_reply demo_ms = map demo_f demo_ms /\
  (forall m, In m demo_ms -> demo_reply [m] = [demo_f m]) /\
  cSync (init_state iv0)
        (init_world message (pstate message)
           {| p_enc := iv0; p_dec := iv0; inflight := []; delayed := []; closed := false; script := [Answer; Answer; Answer]; plog := [] |} 4) /\
  healthy message 3 {| p_enc := iv0; p_dec := iv0; inflight := []; delayed := []; closed := false; script := [Answer; Answer; Answer]; plog := [] |}.
Proof.
  split; [intros [|a [|b [|c q]]]; discriminate|]. split; [reflexivity|]. split; [discriminate|]. split; [vm_compute; reflexivity|].
  split; [reflexivity|]. split; [intros m Hm; reflexivity|]. split.
  - split; [|reflexivity]. cbn [est init_world script]. repeat (apply Forall_cons; [exact I|]). apply Forall_nil.
  - left. reflexivity.
Qed.

(* "never with a Go panic trace", the one index expression on the path: under -splitrequests run() calls Client.Send, which
   returns responses[0] of SendMultiple. In the command model - for every scripted device, every segmentation and timing - a
   successful call never yields an empty reply (a well-formed frame without messages means "go on reading"), so that index
   exists and the split loop keeps exactly one message per request. *)
Theorem C15_reply_nonempty : forall c ks st q st' ms,
  ssend c ks st q = (st', Client.Ok (list message) ms) -> ms <> [] /\ List.length (firstn 1 ms) = 1%nat.
Proof.
  intros c ks st q st' ms H. unfold ssend in H.
  match type of H with context [send_multiple ?a1 ?a2 ?a3 ?a4 ?a5 ?a6 ?a7 ?a8 ?a9 ?a10 ?a11 ?a12 ?a13 ?a14 ?a15 ?a16 ?a17 ?a18 q] =>
    destruct (send_multiple a1 a2 a3 a4 a5 a6 a7 a8 a9 a10 a11 a12 a13 a14 a15 a16 a17 a18 q) as [[s' w'] r] eqn:E end.
  injection H as _ Hr. subst r.
  assert (N0 : ms <> []) by (exact (ClientNonEmpty.send_multiple_nonempty _ _ _ _ _ _ _ _ _ _ _ _ _ _ _ c_decode_nonempty _ _ _ _ _ _ _ E)).
  split; [exact N0|]. destruct ms; [contradiction|reflexivity].
Qed.

Print Assumptions C15_contract. Print Assumptions C15_nothing_sent. Print Assumptions C15_unknown_output.
Print Assumptions C15_loop_generic. Print Assumptions C15_split. Print Assumptions C15_split_document.
Print Assumptions C15_reply_nonempty.
