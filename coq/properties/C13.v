(* C13 - The JSON output reports exactly what the device answered.
   merged (theories/JsonOut.v) is the grouping of NewJSONMergedMessages after the repair (per tag; containers win over a
   scalar under the same tag); render_json / render_simple / render_merged (theories/JsonDoc.v) build the documents the
   three formats print, compared text for text with the real tool on every case (leaf formatting of floats, strings,
   timestamps and error names comes from encoding/json, strconv and time: modelled, not verified).
   KNOWN FINDING (DESIGN.md section 7, D12): non-finite floats and timestamps outside the years 0..9999 make the tool fail. *)
From Coq Require Import List NArith ZArith Bool String.
Import ListNotations.
From Coq Require Import Sorting.Sorted Sorting.Permutation.
Require Import Codec Vocab JsonOut JsonOutProofs JsonDoc JsonKeys.
Local Open Scope N_scope.

(* jsonmerged: what a key holds - no container under the tag: the last scalar; exactly one: its merged object;
   several: the array of all of them in order of arrival *)
Theorem C13_merged_entry : forall l k, lookup k (merged l) = entry k l.
Proof. exact JsonOut.C13_merged_entry. Qed.
(* a key never holds data that arrived under another tag *)
Theorem C13_provenance : forall l k, lookup k (merged l) = entry k (filter (tagged k) l).
Proof. exact JsonOutProofs.C13_provenance. Qed.
(* no container occurrence is lost *)
Theorem C13_no_loss : forall l k c1 c2 cs, containers k l = c1 :: c2 :: cs ->
  lookup k (merged l) = Some (JA (map merged (c1 :: c2 :: cs))).
Proof. exact JsonOutProofs.C13_no_loss. Qed.
(* the keys are exactly the tags that occur *)
Theorem C13_keys : forall l k, lookup k (merged l) <> None <-> existsb (tagged k) l = true.
Proof. exact JsonOutProofs.C13_keys. Qed.

(* every object of the jsonmerged document is a JSON object in the strict sense: the keys of a grouped object are pairwise
   distinct (for every message list, hence at every nesting level: the value under a key is JO (merged c) or JA (map merged cs)),
   MarshalJSON prints the same members in ascending tag order, and the member NAMES (the strings written for the tags, unknown
   numeric tags included) are pairwise distinct as well *)
Theorem C13_keys_distinct : forall l, NoDup (map fst (merged l)).
Proof. exact JsonKeys.merged_keys_nodup. Qed.
Theorem C13_member_order : forall l,
  NoDup (map fst (sort_obj (merged l))) /\ Sorted (fun a b => fst a <= fst b) (sort_obj (merged l)) /\
  Permutation (sort_obj (merged l)) (merged l).
Proof. exact JsonKeys.printed_keys. Qed.
Theorem C13_member_names_distinct : forall l, Forall (fun m => match m with Msg t _ _ => t < 4294967296 end) l ->
  NoDup (map (fun kv => marshal_tag (fst kv)) (sort_obj (merged l))).
Proof. exact JsonKeys.printed_names_distinct. Qed.
(* ... and these are the member names of the document render_merged builds *)
Theorem C13_merged_document : forall yneg ms, exists members,
  render_merged yneg ms = DObj members /\ map fst members = map (fun kv => marshal_tag (fst kv)) (sort_obj (merged ms)).
Proof.
  intros yneg ms. unfold render_merged. cbn [Nat.mul Nat.add doc_of_jv].
  eexists. split; [reflexivity|]. rewrite map_map. reflexivity.
Qed.

(* jsonsimple is the ordered list of one-key objects; json lists every message with tag, type and value - in order *)
Theorem C13_simple : forall yneg ms, render_simple yneg ms = DArr (map (msg_simple yneg) ms).
Proof. reflexivity. Qed.
Theorem C13_json : forall ms, render_json ms = DArr (map msg_json ms).
Proof. reflexivity. Qed.

(* ... nested likewise: a container is its tag with the list of its children's documents, in order, at every depth *)
Theorem C13_simple_nested : forall yneg t d kids,
  msg_simple yneg (Msg t d (GMsgs kids)) = DObj [(marshal_tag t, DArr (map (msg_simple yneg) kids))].
Proof.
  intros yneg t d kids. cbn [msg_simple].
  assert (G : forall l, (fix go (l : list message) : list jdoc := match l with [] => [] | x :: r => msg_simple yneg x :: go r end) l = map (msg_simple yneg) l).
  { induction l as [|x r IH]; [reflexivity|]. cbn [map]. rewrite <- IH. reflexivity. }
  rewrite G. reflexivity.
Qed.
Theorem C13_json_nested : forall t d k kids,
  msg_json (Msg t d (GMsgs (k :: kids))) =
  DObj [("Tag"%string, DStr (marshal_tag t)); ("DataType"%string, DStr (dt_string d)); ("Value"%string, DArr (map msg_json (k :: kids)))].
Proof.
  intros t d k kids. cbn [msg_json].
  assert (G : forall l, (fix go (l : list message) : list jdoc := match l with [] => [] | x :: r => msg_json x :: go r end) l = map msg_json l).
  { induction l as [|x r IH]; [reflexivity|]. cbn [map]. rewrite <- IH. reflexivity. }
  cbn [map]. rewrite ?G. reflexivity.
Qed.

(* non-vacuity: A A B keeps both occurrences of A under A and B's own data under B; a scalar never displaces a container *)
Example C13_nonvacuous :
  merged [Msg 1 14 (GMsgs [Msg 9 5 (GU16 1)]); Msg 1 14 (GMsgs [Msg 9 5 (GU16 2)]); Msg 2 14 (GMsgs [Msg 9 5 (GU16 3)])]
    = [(1, JA [[(9, JS (GU16 1))]; [(9, JS (GU16 2))]]); (2, JO [(9, JS (GU16 3))])] /\
  merged [Msg 1 14 (GMsgs [Msg 9 5 (GU16 1)]); Msg 1 5 (GU16 7)] = [(1, JO [(9, JS (GU16 1))])].
Proof. vm_compute. split; reflexivity. Qed.

Print Assumptions C13_merged_entry. Print Assumptions C13_provenance. Print Assumptions C13_no_loss. Print Assumptions C13_keys.
Print Assumptions C13_simple. Print Assumptions C13_json.
Print Assumptions C13_keys_distinct. Print Assumptions C13_member_order. Print Assumptions C13_member_names_distinct. Print Assumptions C13_merged_document.
Print Assumptions C13_simple_nested. Print Assumptions C13_json_nested.
