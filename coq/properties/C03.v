(* C03 - Exactly the well-formed frames are accepted, with the tree the bytes encode.
   WellFormed (theories/Frame.v) is the declarative grammar of a frame, written from the format description and
   independent of the decoder's control structure; decode_frame / read_step / model_feed are the executable models
   of rscp.Read that the correspondence check runs against the real code. *)
From Coq Require Import List NArith ZArith Bool.
Import ListNotations.
Require Import Codec Frame FrameProofs FrameProofs4 Reader ReaderProofs Rijndael RijP1 Cipher Wire WireProofs.
Local Open Scope N_scope.

(* accepted exactly when well-formed, and then with exactly the items the bytes encode; anything else carries no messages *)
Theorem C03_accept_iff : forall p ms, bok p -> (decode_frame p = Accept ms <-> WellFormed p ms).
Proof. exact FrameProofs4.C03_accept_iff. Qed.

(* the bytes determine the tree *)
Theorem C03_functional : forall p ms1 ms2, bok p -> WellFormed p ms1 -> WellFormed p ms2 -> ms1 = ms2.
Proof. exact FrameProofs4.C03_functional. Qed.

(* each call of Read answers with the one-shot verdict of the plaintext received so far *)
Theorem C03_read_step : forall st P c, holds st P -> aligned c ->
  let '(st', v) := read_step st c in v = decode_frame (P ++ c) /\ (v = NeedMore -> holds st' (P ++ c)).
Proof. exact ReaderProofs.read_step_spec. Qed.

(* delivering one ciphertext in block-aligned pieces: 'incomplete' until the verdict of what has arrived is something
   else, and the pieces decrypt to the pieces of the whole plaintext *)
Theorem C03_chunks : forall key, bytes_ok key -> forall chunks iv, length iv = 32%nat -> Forall aligned chunks ->
  let ks := key_schedule (key_pad key) in
  fst (model_feed ks rinit iv chunks) = cut (map decode_frame (prefixes [] (dec_chunks key iv chunks)))
  /\ concat (dec_chunks key iv chunks) = fst (c_dec ks iv (concat chunks)).
Proof. exact WireProofs.C03_chunks. Qed.

(* non-vacuity: a well-formed 32 byte frame with one Bool item and CRC disabled is accepted; the same frame with the
   container-overrun defect of D4 (frame length 9 for an 8 byte item plus one more byte) is not *)
Example C03_nonvacuous :
  decode_frame ([227;220; 0;1; 0;0;0;0;0;0;0;0; 0;0;0;0; 8;0; 5;0;0;0; 1; 1;0; 1] ++ repeat 0 6) = Accept [Msg 5 1 (GBool true)] /\
  decode_frame ([227;220; 0;1; 0;0;0;0;0;0;0;0; 0;0;0;0; 9;0; 5;0;0;0; 1; 1;0; 1] ++ repeat 0 6) = Reject.
Proof. vm_compute. split; reflexivity. Qed.

Print Assumptions C03_accept_iff. Print Assumptions C03_functional. Print Assumptions C03_read_step. Print Assumptions C03_chunks.
