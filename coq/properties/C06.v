(* C06 - Every connection is encrypted the way an RSCP peer expects.
   trace_of c conns calls is the event trace of the client model for configuration c, peer script conns and caller
   calls (theories/SessionProofs.v); writes_on j are the ciphertexts written on connection j, frames_on j the message
   lists handed to send on connection j; plains pads and stamps them. *)
From Coq Require Import List NArith ZArith Bool.
Import ListNotations.
Require Import Codec Frame Rijndael RijP1 Cipher CBCInst SCipher Client ClientInv Session SessionProofs ConstantsAgree Constants.
Local Open Scope N_scope.

(* for every configuration, every behaviour of the peer and every sequence of calls - hence for the first frame, the
   hundredth, and the first after any reconnect: on every connection the ciphertexts are the CBC chain, started from
   the all-0xFF IV, of the padded plaintext frames of exactly the requests sent on that connection *)
Theorem C06_sessions : forall c conns calls j,
  let ks := key_schedule (key_pad (s_key c)) in
  exists tss, length tss = length (frames_on message j (trace_of c conns calls)) /\
    writes_on message j (trace_of c conns calls) =
    fst (chain (s_enc ks) iv0 (plains message (c_encode (s_crc c)) tss (frames_on message j (trace_of c conns calls)))).
Proof. exact SessionProofs.C06_sessions. Qed.

(* the same against EVERY transport/peer whatsoever (any environment state machine, any initial state, any log level), not
   only the scripted peers the check can run *)
Theorem C06_sessions_any : forall c (E : Type) (m : envsm E) calls e l j,
  let ks := key_schedule (key_pad (s_key c)) in
  let tr := out message E (snd (run message (c_encode (s_crc c)) c_decode_step (s_enc ks) (s_dec ks) iv0 c_valid
                                 (c_auth_req (s_user c) (s_pass c)) c_auth_ok (eff_to (s_conn_to c)) (eff_to (s_send_to c)) (eff_to (s_recv_to c))
                                 (32 * N.to_nat (eff_rbuf (s_rbuf c)))%nat E m (init_state iv0) (init_world message E e l) calls)) in
  exists tss, length tss = length (frames_on message j tr) /\
    writes_on message j tr = fst (chain (s_enc ks) iv0 (plains message (c_encode (s_crc c)) tss (frames_on message j tr))).
Proof. intros c E m calls e l j. apply ClientInv.C06_sessions. Qed.

(* ... and a peer that implements just that scheme (same key padding, CBC from the same IV) recovers the concatenation of
   those plaintext frames and ends on the same chain value as the client *)
Theorem C06_peer_decrypts : forall key, bytes_ok key -> forall ps iv, aligned_all ps ->
  let ks := key_schedule (key_pad key) in
  s_decP ks iv (concat (fst (chain (s_enc ks) iv ps))) = concat ps /\
  s_decI ks iv (concat (fst (chain (s_enc ks) iv ps))) = snd (chain (s_enc ks) iv ps) /\
  CBCInst.al (concat (fst (chain (s_enc ks) iv ps))).
Proof. exact SessionProofs.chain_decrypt. Qed.

(* the key: the configured string padded with 0xFF to 32 bytes, a longer one used by its first 32 bytes *)
Theorem C06_key : forall k, key_pad k = firstn 32 (k ++ repeat 255 32) /\ length (key_pad k) = 32%nat.
Proof. intro k. split; [reflexivity|apply CipherProofs.key_pad_len]. Qed.

Theorem C06_constants :
  RSCP_CRYPT_BLOCK_SIZE = 32 /\ RSCP_CRYPT_BLOCK_PADDING = 0 /\ RSCP_CRYPT_KEY_PADDING = 255 /\ RSCP_CRYPT_IV_PADDING = 255 /\
  keySize = 32 /\ iv_bytes = iv0 /\ key_of_empty = key_pad [] /\ key_of_abc = key_pad [97; 98; 99] /\
  key_of_40 = key_pad [48; 49; 50; 51; 52; 53; 54; 55; 56; 57; 97; 98; 99; 100; 101; 102; 103; 104; 105; 106; 107; 108; 109; 110; 111; 112;
                       113; 114; 115; 116; 117; 118; 119; 120; 121; 122; 65; 66; 67; 68].
Proof. exact ConstantsAgree.cipher_constants. Qed.

Print Assumptions C06_sessions. Print Assumptions C06_sessions_any. Print Assumptions C06_peer_decrypts. Print Assumptions C06_key. Print Assumptions C06_constants.
