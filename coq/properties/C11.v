(* C11 - The account password never reaches the log.   (PARTIAL: see DESIGN.md 6/C11)
   Every log call of the client, of Write and of Read is a symbolic record (level, kind) with kind Text (fixed wording),
   Tree ms (rendered with Message.String) or Dump bytes; a record is emitted iff its level is at most the logger's level,
   and authenticate lowers and restores that level exactly as client.go does. reveals_dump / reveals_tree say when a dump
   or a rendered tree gives the password away. The theorem holds for every environment, every log level below 99 and every
   sequence of calls whose own requests are innocent - under four premises that are visible in the statement:
     cipher_hides       the ciphertext does not contain the password          (an assumption about encryption)
     auth_tree_masked   the rendered authentication request does not show it  (the password travels under a secret tag)
     peer_no_echo(_tree) what the peer sends back does not contain it         (an assumption about the peer)
   fmt/logrus rendering itself is not modelled; the rendered log text of the real client is scanned on every run. *)
From Coq Require Import List NArith ZArith Bool.
Import ListNotations.
Require Import Client ClientLog.

Definition C11_no_secret := @ClientLog.C11_no_secret.
Check C11_no_secret.
Print Assumptions C11_no_secret.
