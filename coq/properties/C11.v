(* C11 - The account password never reaches the log.   (PARTIAL: see DESIGN.md 6/C11)
   Every log call of the client, of Write and of Read is a symbolic record (level, kind) with kind Text (fixed wording),
   Tree ms (rendered with Message.String) or Dump bytes; a record is emitted iff its level is at most the logger's level,
   and authenticate lowers and restores that level exactly as client.go does. For the password pw a dump reveals it when pw
   is a contiguous sublist of the bytes; a rendered tree reveals it when pw occurs in a string or byte-array leaf that is
   shown, i.e. not under a secret tag (theories/C11Proofs.v).
   C11_no_secret holds for every environment, every log level below 99 and every sequence of calls whose own requests are
   innocent - under premises that are visible in the statement and cannot be theorems:
     cipher_hides        the ciphertext does not contain the password           (an assumption about encryption)
     peer_no_echo(_tree)  what the peer sends back does not contain it           (an assumption about the peer)
   The third premise, auth_tree_masked, is proved (C11_auth_tree_masked) as long as the user name does not contain the
   password. fmt/logrus rendering itself is not modelled; the rendered log of the real client is scanned on every run. *)
From Coq Require Import List NArith ZArith Bool.
Import ListNotations.
Require Import Codec Vocab Client ClientLog Session C11Proofs.
Local Open Scope N_scope.

Definition C11_no_secret := @ClientLog.C11_no_secret.
Check C11_no_secret.

(* secret-tagged values are masked at every nesting depth: wrapped in any number of containers, a value under a secret
   tag is never shown *)
Theorem C11_mask_depth : forall pw t d v wrap, is_secret t = true ->
  let nest := fold_right (fun tg inner => [Msg tg 14 (GMsgs inner)]) [Msg t d v] wrap in
  ~ reveals_tree pw nest.
Proof. exact C11Proofs.C11_mask_depth. Qed.

Theorem C11_auth_tree_masked : forall user pw, ~ sublist pw user -> ~ reveals_tree pw (c_auth_req user pw).
Proof. exact C11Proofs.C11_auth_tree_masked. Qed.

Print Assumptions C11_no_secret. Print Assumptions C11_mask_depth. Print Assumptions C11_auth_tree_masked.
