(* C11 - The account password never reaches the log.   (PARTIAL: see DESIGN.md 6/C11)
   Every log call of the client, of Write and of Read is a symbolic record (level, kind) with kind Text (fixed wording),
   Tree ms (rendered with Message.String) or Dump bytes; a record is emitted iff its level is at most the logger's level,
   and authenticate lowers and restores that level exactly as client.go does. For the password pw a dump reveals it when pw
   is a contiguous sublist of the bytes; a rendered tree reveals it when pw occurs in a string or byte-array leaf that is
   shown, i.e. not under a secret tag (theories/C11Proofs.v).
   C11_quiet_levels: at every log level up to Debug (0..5, all of logrus' named levels below Trace), for every environment and
   every sequence of calls whose own requests do not show the password, no record reveals it and the level is restored -
   with NO assumption about encryption or about the bytes on the wire (C11_no_dumps_at_quiet_levels: no byte dump is
   written at those levels at all). The only premise left is that the peer does not send the password back in an unmasked
   field of a reply (peer_no_echo_tree); the premise about the authentication request is proved (C11_auth_tree_masked).
   C11_no_secret: the same for every level L below 99 (Trace and the unnamed levels 7..98 included) - there the byte dumps of
   ciphertext and of received plaintext are logged, and two premises that cannot be theorems are needed and visible in the
   statement (guarded by Trace <= L):
     cipher_hides   the ciphertext does not contain the password      (an assumption about encryption)
     peer_no_echo   what the peer sends back does not contain it      (an assumption about the peer)
   fmt/logrus rendering itself is not modelled; the rendered log of the real client is scanned on every run. *)
From Coq Require Import List NArith ZArith Bool.
Import ListNotations.
Require Import Codec Vocab Client ClientLog Session C11Proofs.
Local Open Scope N_scope.

Definition C11_no_secret := @ClientLog.C11_no_secret.
Check C11_no_secret.

(* secret-tagged values are masked at every nesting depth: wrapped in any number of containers, a value under a secret
   tag is never shown *)
Theorem C11_mask_depth : forall pw t d v wrap, is_secret t = true ->
  let nest := fold_right (fun tg inner => [Msg tg 14 (GMsgs inner)]) [Msg t d v] wrap in
  ~ reveals_tree pw nest.
Proof. exact C11Proofs.C11_mask_depth. Qed.

Theorem C11_auth_tree_masked : forall user pw, ~ sublist pw user -> ~ reveals_tree pw (c_auth_req user pw).
Proof. exact C11Proofs.C11_auth_tree_masked. Qed.

(* levels 0..5: no assumption about ciphertext or received bytes; rdump is ANY notion of a revealing dump *)
Theorem C11_quiet_levels : forall msg encode decode_step enc dec iv0 valid_req auth_req auth_ok conn_to send_to recv_to rbuf E (m : envsm E)
    (rdump : list N -> Prop) (rtree : list msg -> Prop),
  ~ rtree auth_req -> (forall buf pt ms b, decode_step buf pt = (Some (Some ms), b) -> ~ rtree ms) ->
  forall calls e l, l <= 5 ->
  Forall (fun c => match c with CSend _ _ ms => ~ rtree ms | CDisconnect _ => True end) calls ->
  let w := snd (run msg encode decode_step enc dec iv0 valid_req auth_req auth_ok conn_to send_to recv_to rbuf E m
                  (init_state iv0) (init_world msg E e l) calls) in
  clean msg rdump rtree (out msg E w) /\ level msg E w = l.
Proof. exact C11Proofs.C11_quiet_levels. Qed.

Theorem C11_no_dumps_at_quiet_levels : forall msg encode decode_step enc dec iv0 valid_req auth_req auth_ok conn_to send_to recv_to rbuf E (m : envsm E) calls e l,
  l <= 5 ->
  let w := snd (run msg encode decode_step enc dec iv0 valid_req auth_req auth_ok conn_to send_to recv_to rbuf E m
                  (init_state iv0) (init_world msg E e l) calls) in
  forall lv b, ~ In (EvLog msg lv (LDump msg b)) (out msg E w).
Proof. exact C11Proofs.C11_no_dumps_at_quiet_levels. Qed.

Print Assumptions C11_no_secret. Print Assumptions C11_quiet_levels. Print Assumptions C11_no_dumps_at_quiet_levels. Print Assumptions C11_mask_depth. Print Assumptions C11_auth_tree_masked.
