(* C04 - A checksummed frame that was altered is rejected.
   valid_frame is a frame as rscp.Write produces it with the checksum enabled (any timestamp, any well-formed messages,
   any padding); alteration is an error pattern that leaves magic, control word and length field alone and touches only
   timestamp, payload and CRC field; altered_bits is that pattern read as one little-endian number, so "32 consecutive
   bits" is meant in the bit order in which this reflected CRC consumes the bytes (LSB first within each byte) - this
   includes every alteration confined to 4 consecutive bytes. *)
From Coq Require Import List NArith ZArith Bool.
Import ListNotations.
Require Import Codec CRC Frame CRCFrame C04Proofs.
Local Open Scope N_scope.

Theorem C04_burst : forall sec nsec ms e_ts e_pay e_crc padding,
  alteration_ok sec nsec ms e_ts e_pay e_crc padding -> burst32 (altered_bits e_ts e_pay e_crc) ->
  forall ms', decode_frame (xor_bytes (valid_frame sec nsec ms padding) (alteration e_ts e_pay e_crc padding)) <> Accept ms'.
Proof. exact C04Proofs.C04_burst. Qed.

Theorem C04_two_bits : forall sec nsec ms e_ts e_pay e_crc padding,
  alteration_ok sec nsec ms e_ts e_pay e_crc padding -> two_bits (altered_bits e_ts e_pay e_crc) ->
  forall ms', decode_frame (xor_bytes (valid_frame sec nsec ms padding) (alteration e_ts e_pay e_crc padding)) <> Accept ms'.
Proof. exact C04Proofs.C04_two_bits. Qed.

Theorem C04_one_bit : forall sec nsec ms e_ts e_pay e_crc padding,
  alteration_ok sec nsec ms e_ts e_pay e_crc padding -> one_bit (altered_bits e_ts e_pay e_crc) ->
  forall ms', decode_frame (xor_bytes (valid_frame sec nsec ms padding) (alteration e_ts e_pay e_crc padding)) <> Accept ms'.
Proof. exact C04Proofs.C04_one_bit. Qed.

(* the checksum position: an unaltered checksummed frame is accepted exactly when the trailer is the CRC-32 of everything before it
   (this is part of WellFormed, C03_accept_iff); here: the Gallina CRC on the standard check value *)
Example C04_crc_check_value : crc32 [49;50;51;52;53;54;55;56;57] = 3421780262.
Proof. vm_compute. reflexivity. Qed.

Print Assumptions C04_burst. Print Assumptions C04_two_bits. Print Assumptions C04_one_bit.
