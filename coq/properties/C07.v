(* C07 - Replies are reassembled whatever way the stream is segmented.
   c_recv_loop is the receive loop of the client model with Rijndael-256/CBC, the RSCP frame verdict and the reactive
   scripted peer; rview is the queue of pieces the peer has sent and the client has not read; e1 and e2 are ANY two lists
   of non-empty pieces with the same concatenation S, where S is one reply (every block-aligned proper prefix decodes to
   'incomplete', the whole does not); rbuf is ANY receive buffer size of at least one byte. *)
From Coq Require Import List NArith ZArith Bool Lia.
Import ListNotations.
Require Import Codec Frame Rijndael RijP1 Cipher SCipher Client ClientReasm Session C07Proofs C08Proofs C07Reply Config.
Local Open Scope N_scope.

Theorem C07_reassembly : forall key, bytes_ok key -> forall rbuf, (0 < rbuf)%nat ->
  let ks := key_schedule (key_pad key) in
  forall s iv S (e1 e2 : list (list N)) (w1 w2 : world message renv) j1 j2 deadline1 deadline2 fuel1 fuel2,
  div s = iv -> one_reply message (s_decP ks) c_verdict iv S -> S <> [] ->
  concat e1 = S -> nonempty e1 -> concat e2 = S -> nonempty e2 ->
  cur message renv w1 = Some j1 -> rview (est message renv w1) = e1 -> (clock message renv w1 <= deadline1)%Z -> (length S < fuel1)%nat ->
  cur message renv w2 = Some j2 -> rview (est message renv w2) = e2 -> (clock message renv w2 <= deadline2)%Z -> (length S < fuel2)%nat ->
  let '(s1, _, r1) := c_recv_loop key rbuf fuel1 deadline1 [] [] s w1 in
  let '(s2, _, r2) := c_recv_loop key rbuf fuel2 deadline2 [] [] s w2 in
  (s1, r1) = (s2, r2).
Proof. intros key _ rbuf Hr. exact (C07Proofs.C07_reassembly key rbuf Hr). Qed.

(* closed form, no premise about the stream left: EVERY encodable non-empty reply (okm: well-formed messages that fit one
   frame), encrypted on the connection's chain with or without checksum, cut into ANY non-empty pieces (followed by
   whatever else the peer sent), read through ANY receive buffer of at least one byte, is returned as exactly those
   messages; the client's decrypting chain ends where the peer's encrypting chain ended; the rest stays queued *)
Theorem C07_reply_any_segmentation : forall key, bytes_ok key -> forall rbuf, (0 < rbuf)%nat ->
  let ks := key_schedule (key_pad key) in
  forall crc ts ms s (e erest : list (list N)) (w : world message renv) j deadline fuel s' w' r,
  okm ms -> ms <> [] ->
  let c := fst (s_enc ks (div s) (c_encode crc ts ms)) in
  concat e = c -> nonempty e ->
  cur message renv w = Some j -> rview (est message renv w) = e ++ erest -> (clock message renv w <= deadline)%Z -> (length c < fuel)%nat ->
  c_recv_loop key rbuf fuel deadline [] [] s w = (s', w', r) ->
  r = Ok (list message) ms /\ div s' = snd (s_enc ks (div s) (c_encode crc ts ms)) /\ eiv s' = eiv s /\ authed s' = authed s /\
  cur message renv w' = Some j /\ rview (est message renv w') = erest.
Proof. intros key Bk rbuf Hr. exact (C07Reply.C07_reply_any_segmentation key Bk rbuf Hr). Qed.

(* out-of-range receive buffer settings behave as one block (so every configured size is at least 32 bytes) *)
Theorem C07_buffer_norm : forall b, (1 <= eff_rbuf b <= 2049)%N /\ ((b = 0 \/ 2049 < b)%N -> eff_rbuf b = 1%N).
Proof.
  intro b. unfold eff_rbuf, Config.max_blocks. destruct (N.eqb_spec b 0); destruct (N.ltb_spec 2049 b); cbn [orb]; split; try lia; intros [?|?]; lia.
Qed.

Print Assumptions C07_reassembly. Print Assumptions C07_reply_any_segmentation. Print Assumptions C07_buffer_norm.
