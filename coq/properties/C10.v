(* C10 - Every call returns within the configured timeouts.   (PARTIAL: see DESIGN.md 6/C10)
   In the client model every dial/write/read answer of the environment carries the time it takes, and an armed deadline
   cuts an operation off at the deadline (the stated assumption about net.Conn). The theorem holds for EVERY environment
   (every peer: silent, trickling, streaming for ever) and EVERY fuel, i.e. for every prefix of every execution: the
   model clock never passes start + budget. Wall-clock time, the scheduler and the kernel are outside the model. *)
From Coq Require Import List NArith ZArith Bool Lia.
Import ListNotations.
Require Import Codec Cipher SCipher Rijndael Client ClientTime ClientTerm Session SessionProofs Config ConstantsAgree Constants.
Local Open Scope Z_scope.

Theorem C10_budget : forall c fuel s w ms s' w' r,
  csend_multiple c fuel s w ms = (s', w', r) ->
  clock message renv w <= clock message renv w' <=
  clock message renv w + budget message (eff_to (s_conn_to c)) (eff_to (s_send_to c)) (eff_to (s_recv_to c)) renv s w.
Proof. exact SessionProofs.C10_budget. Qed.

(* the same for EVERY transport/peer whatsoever: any environment state machine (its state type E, its reactions to dial,
   write, read, close and its clock are arbitrary), not only the scripted peers the check can run *)
Section AnyEnvironment.
  Variable c : scfg.
  Variable E : Type.
  Variable m : envsm E.
  Let ks := key_schedule (key_pad (s_key c)).
  Notation any_send_multiple := (send_multiple message (c_encode (s_crc c)) c_decode_step (s_enc ks) (s_dec ks) iv0 c_valid
       (c_auth_req (s_user c) (s_pass c)) c_auth_ok (eff_to (s_conn_to c)) (eff_to (s_send_to c)) (eff_to (s_recv_to c))
       (32 * N.to_nat (eff_rbuf (s_rbuf c)))%nat E m).

  Theorem C10_budget_any : forall fuel s w ms s' w' r,
    any_send_multiple fuel s w ms = (s', w', r) ->
    clock message E w <= clock message E w' <=
    clock message E w + budget message (eff_to (s_conn_to c)) (eff_to (s_send_to c)) (eff_to (s_recv_to c)) E s w.
  Proof.
    apply ClientTime.C10_budget. repeat split; apply eff_to_pos; exact c.
  Qed.

  (* no spinning: if every Read takes at least delta > 0 of model time (waiting plus handling), the receive loop runs at most
     receive-timeout / delta + 1 times whatever the peer sends - with that much fuel a call never ends in the model's
     out-of-fuel value: it returns. (Without such a delta the model, like the code, can be fed empty reads for ever within
     zero model time; net.Conn does not do that.) *)
  Theorem C10_returns : forall delta fuel, 0 < delta -> (forall e n, delta <= snd (on_read E m e n)) ->
    eff_to (s_recv_to c) < delta * Z.of_nat fuel ->
    forall s w ms s' w' r, any_send_multiple fuel s w ms = (s', w', r) -> r <> Err (list message) ERunning.
  Proof.
    intros delta fuel Hd Hs Hf s w ms s' w' r H.
    apply (ClientTerm.C10_returns message (c_encode (s_crc c)) c_decode_step (s_enc ks) (s_dec ks) iv0 c_valid
             (c_auth_req (s_user c) (s_pass c)) c_auth_ok (eff_to (s_conn_to c)) (eff_to (s_send_to c)) (eff_to (s_recv_to c))
             (32 * N.to_nat (eff_rbuf (s_rbuf c)))%nat E m delta Hd Hs fuel ltac:(pose proof (eff_to_pos c (s_recv_to c)); lia) Hf s w ms s' w' r H).
  Qed.
End AnyEnvironment.

(* the budget is a sum of configured timeouts only: connect (if not connected) + authentication exchange (if not
   authenticated) + the user exchange *)
Theorem C10_budget_bound : forall c s (w : world message renv),
  budget message (eff_to (s_conn_to c)) (eff_to (s_send_to c)) (eff_to (s_recv_to c)) renv s w <=
  eff_to (s_conn_to c) + 2 * (eff_to (s_send_to c) + eff_to (s_recv_to c)).
Proof.
  intros c s w. pose proof (eff_to_pos c (s_conn_to c)). pose proof (eff_to_pos c (s_send_to c)). pose proof (eff_to_pos c (s_recv_to c)).
  unfold budget. destruct (cur message renv w); [destruct (authed s)|]; lia.
Qed.

(* zero and negative timeouts fall back to the 3 second default, so no call is ever without a deadline *)
Theorem C10_defaults : forall t, 0 < eff_to t /\ (t <= 0 -> eff_to t = 3 * second) /\ (0 < t -> eff_to t = t).
Proof. intro t. unfold eff_to, second. destruct (Z.leb_spec t 0); repeat split; lia. Qed.

Theorem C10_constants :
  default_port = 5033%N /\ default_connection_timeout_ns = 3 * second /\ default_send_timeout_ns = 3 * second /\
  default_receive_timeout_ns = 3 * second /\ default_heartbeat_ns = 10 * second /\
  default_receive_buffer_blocks = 1%N /\ default_use_checksum = 1%N /\ RSCP_FRAME_MAX_BLOCK_SIZE = max_blocks.
Proof. exact ConstantsAgree.config_constants. Qed.

Print Assumptions C10_budget. Print Assumptions C10_budget_any. Print Assumptions C10_returns. Print Assumptions C10_budget_bound. Print Assumptions C10_defaults. Print Assumptions C10_constants.
