(* C10 - Every call returns within the configured timeouts.   (PARTIAL: see DESIGN.md 6/C10)
   In the client model every dial/write/read answer of the environment carries the time it takes, and an armed deadline
   cuts an operation off at the deadline (the stated assumption about net.Conn). The theorem holds for EVERY environment
   (every peer: silent, trickling, streaming for ever) and EVERY fuel, i.e. for every prefix of every execution: the
   model clock never passes start + budget. Wall-clock time, the scheduler and the kernel are outside the model. *)
From Coq Require Import List NArith ZArith Bool Lia.
Import ListNotations.
Require Import Codec Client ClientTime Session SessionProofs Config ConstantsAgree Constants.
Local Open Scope Z_scope.

Theorem C10_budget : forall c fuel s w ms s' w' r,
  csend_multiple c fuel s w ms = (s', w', r) ->
  clock message renv w <= clock message renv w' <=
  clock message renv w + budget message (eff_to (s_conn_to c)) (eff_to (s_send_to c)) (eff_to (s_recv_to c)) renv s w.
Proof. exact SessionProofs.C10_budget. Qed.

(* the budget is a sum of configured timeouts only: connect (if not connected) + authentication exchange (if not
   authenticated) + the user exchange *)
Theorem C10_budget_bound : forall c s (w : world message renv),
  budget message (eff_to (s_conn_to c)) (eff_to (s_send_to c)) (eff_to (s_recv_to c)) renv s w <=
  eff_to (s_conn_to c) + 2 * (eff_to (s_send_to c) + eff_to (s_recv_to c)).
Proof.
  intros c s w. pose proof (eff_to_pos c (s_conn_to c)). pose proof (eff_to_pos c (s_send_to c)). pose proof (eff_to_pos c (s_recv_to c)).
  unfold budget. destruct (cur message renv w); [destruct (authed s)|]; lia.
Qed.

(* zero and negative timeouts fall back to the 3 second default, so no call is ever without a deadline *)
Theorem C10_defaults : forall t, 0 < eff_to t /\ (t <= 0 -> eff_to t = 3 * second) /\ (0 < t -> eff_to t = t).
Proof. intro t. unfold eff_to, second. destruct (Z.leb_spec t 0); repeat split; lia. Qed.

Theorem C10_constants :
  default_port = 5033%N /\ default_connection_timeout_ns = 3 * second /\ default_send_timeout_ns = 3 * second /\
  default_receive_timeout_ns = 3 * second /\ default_heartbeat_ns = 10 * second /\
  default_receive_buffer_blocks = 1%N /\ default_use_checksum = 1%N /\ RSCP_FRAME_MAX_BLOCK_SIZE = max_blocks.
Proof. exact ConstantsAgree.config_constants. Qed.

Print Assumptions C10_budget. Print Assumptions C10_budget_bound. Print Assumptions C10_defaults. Print Assumptions C10_constants.
