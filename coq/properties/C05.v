(* C05 - What the client transmits is one well-formed frame, or nothing.
   send is the client model's send (theories/Client.v) instantiated with the RSCP frame encoder, Rijndael-256/CBC and
   the model of validateRequests (theories/Session.v); it is what the correspondence check runs against rscp.Client.
   `new` are the events the call adds to the trace; attempts_of counts Write calls on the connection (successful or
   failing), writes_of lists the ciphertexts that went out. *)
From Coq Require Import List NArith ZArith Bool.
Import ListNotations.
Require Import Codec Frame Rijndael RijP1 Cipher SCipher Validate Vocab Config Client ClientSend Session C05Proofs ConstantsAgree Constants.
Local Open Scope N_scope.

(* validateRequests accepts exactly the acceptable request lists: request tags at top level, defined data types and
   matching values at every depth, every value within 65528 bytes, the whole list within the 16 bit frame length *)
Theorem C05_valid_iff : forall ms, Forall repr_msg ms -> (c_valid ms = true <-> acceptable ms).
Proof. exact C05Proofs.C05_valid_iff. Qed.

Theorem C05_send : forall c, bytes_ok (s_key c) -> forall s w ms s' w' r, Forall repr_msg ms ->
  let ks := key_schedule (key_pad (s_key c)) in
  send message (c_encode (s_crc c)) (s_enc ks) c_valid (eff_to (s_send_to c)) renv reactive s w ms = (s', w', r) ->
  exists new, out message renv w' = new ++ out message renv w /\
    match r with
    | Err _ _ => writes_of message new = [] /\ (attempts_of message new <= 1)%nat /\ (~ acceptable ms -> new = [])
    | Ok _ _ => acceptable ms /\ attempts_of message new = 1%nat /\
        exists ct ts, writes_of message new = [ct] /\ snd (on_now renv reactive (est message renv w)) = ts /\
          (length ct mod 32 = 0)%nat /\ (32 <= length ct)%nat /\
          let p := s_decP ks (eiv s) ct in
          p = pad32 (frame (fst ts) (snd ts) (s_crc c) ms) /\ decode_frame p = Accept ms /\ WellFormed p ms /\
          eiv s' = s_decI ks (eiv s) ct
    end.
Proof. exact C05Proofs.C05_send. Qed.

Theorem C05_constants :
  RSCP_DATA_TAG_SIZE = 4 /\ RSCP_DATA_DATATYPE_SIZE = 1 /\ RSCP_DATA_LENGTH_SIZE = 2 /\ RSCP_DATA_HEADER_SIZE = 7 /\
  RSCP_DATA_MAX_DATA_SIZE = max_data /\ map fst data_types = [0;1;2;3;4;5;6;7;8;9;10;11;12;13;14;15;16;255].
Proof. exact ConstantsAgree.item_constants. Qed.

(* non-vacuity: a nested request is acceptable; a 65529 byte value, a response tag and a foreign value are not *)
Example C05_nonvacuous :
  c_valid [Msg 16777217 14 (GMsgs [Msg 5 5 (GU16 7); Msg 6 0 GNil]); Msg 17 13 (GStr [97])] = true /\
  c_valid [Msg 17 16 (GBytes (repeat 0 65529))] = false /\ c_valid [Msg 8388609 3 (GU8 1)] = false /\
  c_valid [Msg 17 5 (GOther 1)] = false /\ c_valid [Msg 17 17 (GU8 1)] = false.
Proof. vm_compute. repeat split. Qed.

Print Assumptions C05_valid_iff. Print Assumptions C05_send. Print Assumptions C05_constants.
