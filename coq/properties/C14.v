(* C14 - Tag and data-type vocabularies are coherent.
   Statements only; each closed by `exact` of a lemma from theories/VocabProofs.v. The tables are
   gen/Tables.v and gen/Constants.v, regenerated from /repo's source on every run. *)
From Coq Require Import List NArith ZArith String Bool.
Import ListNotations.
Require Import Constants Tables Published Dec Codec Vocab VocabProofs.
Local Open Scope N_scope.

(* every known tag has a unique name that parses back to the same number *)
Theorem C14_name_roundtrip : forall t n, In (t, n) tag_names -> tag_of_name n = Some t.
Proof. exact VocabProofs.C14_name_roundtrip. Qed.
Theorem C14_names_unique : forall t1 t2 n, In (t1, n) tag_names -> In (t2, n) tag_names -> t1 = t2.
Proof. exact VocabProofs.C14_names_unique. Qed.
Theorem C14_value_roundtrip : forall n t, In (n, t) name_values -> name_of_tag t = Some n.
Proof. exact VocabProofs.C14_value_roundtrip. Qed.
Theorem C14_values_agree :
  tag_values = map fst tag_names /\ map snd name_values = map fst tag_names /\ NoDup tag_values.
Proof. exact VocabProofs.C14_values_agree. Qed.
(* names, numbers and declared data types of published tags never change *)
Theorem C14_published : forall t n d, In (t, n, d) published ->
  name_of_tag t = Some n /\ tag_of_name n = Some t /\ tag_datatype t = d.
Proof. exact VocabProofs.C14_published. Qed.
(* a tag or data type written to JSON reads back as itself, unknown numeric tags included (all 2^32 tags) *)
Theorem C14_json_tag : forall t, t < 4294967296 -> unmarshal_tag (marshal_tag t) = Some t.
Proof. exact VocabProofs.C14_json_tag. Qed.
Theorem C14_json_dt : forall d, defined_dt d = true -> unmarshal_dt (marshal_dt d) = Some d.
Proof. exact VocabProofs.C14_json_dt. Qed.
(* every tag's declared data type is one of the defined data types *)
Theorem C14_types_defined : forall t d, In (t, d) tag_types -> defined_dt d = true /\ is_a_tag t = true.
Proof. exact VocabProofs.C14_types_defined. Qed.
(* per data type: decoder target, constructor, validator and wire length agree with the model's single representation *)
Theorem C14_kinds : forall r, In r dt_rows -> row_ok r = true.
Proof. exact VocabProofs.C14_kinds. Qed.
Theorem C14_kinds_complete : map (fun r => fst (fst (fst (fst (fst r))))) dt_rows = map N.of_nat (seq 0 256).
Proof. exact VocabProofs.C14_kinds_complete. Qed.
(* a value built for a data type is encoded in the declared number of bytes and decodes to an equal value *)
Theorem C14_value : forall t d v, wf_msg (Msg t d v) ->
  dec_items (S (List.length (enc_msg (Msg t d v)))) (enc_msg (Msg t d v)) = Some [Msg t d v] /\
  match fixed_len d with Some k => N.of_nat (List.length (enc_val v)) = k | None => True end.
Proof. exact VocabProofs.C14_value. Qed.
(* request/response classification is bit 23 of the number alone *)
Theorem C14_request_bit : forall t, is_request t = negb (N.testbit t 23) /\ is_response t = N.testbit t 23.
Proof. exact VocabProofs.C14_request_bit. Qed.

(* non-vacuity: the tables are inhabited and the value clause has a non-trivial instance *)
Example C14_nonvacuous : In (1, "RSCP_REQ_AUTHENTICATION"%string) tag_names /\ In (8388609, 3) tag_types /\
  wf_msg (Msg 16777217 14 (GMsgs [Msg 5 13 (GStr [97; 98]); Msg 7 15 (GTime (-1)%Z 999999999%Z)])).
Proof.
  split; [apply assocN_in; vm_compute; reflexivity|]. split; [apply assocN_in; vm_compute; reflexivity|].
  vm_compute. repeat split; try discriminate; repeat constructor.
Qed.

Print Assumptions C14_name_roundtrip. Print Assumptions C14_names_unique. Print Assumptions C14_value_roundtrip.
Print Assumptions C14_values_agree. Print Assumptions C14_published. Print Assumptions C14_json_tag.
Print Assumptions C14_json_dt. Print Assumptions C14_types_defined. Print Assumptions C14_kinds.
Print Assumptions C14_kinds_complete. Print Assumptions C14_value. Print Assumptions C14_request_bit.
