(* C17 - Independent clients and codec calls do not interfere.   (PARTIAL: see DESIGN.md 6/C17)
   In the model a client call is a function of its own state, its own connections' environment and the logger's level;
   codec calls are functions of their arguments. The level is the only datum clients share. R a b: the worlds a and b are
   equal up to the level and the log records. Data races in the sense of the Go memory model and the claim that package
   rscp has no other shared mutable state are not expressible in Gallina: the first is observed with the race detector on
   k concurrent sessions/codec loops, the second is checked by a footprint scan of the package's source on every run. *)
From Coq Require Import List NArith ZArith Bool.
Import ListNotations.
Require Import Client ClientLevel.

(* one call: whatever level the logger has, the call returns the same result and the same client state, and leaves a
   world that differs at most in level and log records - for every environment *)
Definition C17_level_irrelevant := @ClientLevel.call_level_irrelevant.
(* k clients whose calls are interleaved in ANY order, each call starting at whatever level the previous call of any
   client left: client i ends in the state, with the results and (up to log records) the world of running alone *)
Definition C17_interleave := @ClientLevel.C17_interleave.
Check C17_level_irrelevant.
Check C17_interleave.
Print Assumptions C17_level_irrelevant. Print Assumptions C17_interleave.
