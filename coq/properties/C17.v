(* C17 - Independent clients and codec calls do not interfere.   (PARTIAL: see DESIGN.md 6/C17)
   In the model a client call is a function of its own state, its own connections' environment and the logger's level;
   codec calls are functions of their arguments. The level is the only datum clients share. R a b: the worlds a and b are
   equal up to the level and the log records. Data races in the sense of the Go memory model and the claim that package
   rscp has no other shared mutable state are not expressible in Gallina: the first is observed with the race detector on
   k concurrent sessions/codec loops, the second is checked by a footprint scan of the package's source on every run. *)
From Coq Require Import List NArith ZArith Bool.
Import ListNotations.
Require Import Client ClientLevel Codec Frame Reader Wire Interleave.

(* one call: whatever level the logger has, the call returns the same result and the same client state, and leaves a
   world that differs at most in level and log records - for every environment *)
Definition C17_level_irrelevant := @ClientLevel.call_level_irrelevant.
(* k clients whose calls are interleaved in ANY order, each call starting at whatever level the previous call of any
   client left: client i ends in the state, with the results and (up to log records) the world of running alone *)
Definition C17_interleave := @ClientLevel.C17_interleave.
(* codec calls (rscp.Write / rscp.Read) of k callers, each on its own key schedule, cipher chains and reader buffer,
   interleaved in ANY order: caller i ends in the state and with exactly the outputs (ciphertexts, verdicts with their
   message trees) of running alone; a caller that makes no call keeps its state *)
Theorem C17_codec_interleave : forall sched (f : states codec_state) i,
  let '(f', rs) := run_merged _ _ _ codec_step sched f in
  let '(s1, rs1) := run_alone _ _ _ codec_step i sched (f i) in
  f' i = s1 /\ outs_of _ i rs = rs1.
Proof. exact Interleave.codec_interleave. Qed.
Theorem C17_codec_untouched : forall sched (f : states codec_state) i,
  (forall o, ~ In (i, o) sched) -> fst (run_merged _ _ _ codec_step sched f) i = f i.
Proof. exact (Interleave.untouched codec_state codec_op codec_out codec_step). Qed.
(* non-vacuity: two callers with different keys, writes and reads interleaved; the second caller's ciphertext is what it
   produces alone *)
Example C17_nonvacuous :
  let s0 k := {| cs_ks := Rijndael.key_schedule (Cipher.key_pad [k]); cs_enc := Cipher.iv0; cs_dec := Cipher.iv0; cs_rst := rinit |} in
  let sched := [(0%nat, OWrite true 1%Z 2%Z [Msg 17 0 GNil]); (1%nat, OWrite false 3%Z 4%Z [Msg 18 0 GNil]); (0%nat, ORead (repeat 0%N 32))] in
  outs_of _ 1%nat (snd (run_merged _ _ _ codec_step sched (fun i => s0 (N.of_nat i)))) =
  snd (run_alone _ _ _ codec_step 1%nat sched (s0 1%N)) /\ length (outs_of _ 1%nat (snd (run_merged _ _ _ codec_step sched (fun i => s0 (N.of_nat i))))) = 1%nat.
Proof. vm_compute. split; reflexivity. Qed.
Check C17_level_irrelevant.
Check C17_interleave.
Print Assumptions C17_level_irrelevant. Print Assumptions C17_interleave.
Print Assumptions C17_codec_interleave. Print Assumptions C17_codec_untouched.
