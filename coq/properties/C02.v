(* C02 - Decoding arbitrary bytes never panics or hangs.   (PARTIAL: see DESIGN.md 6/C02)
   What a Gallina model can carry: the decoder's recursion terminates on every byte string within a fuel that is
   linear in the input and more fuel never changes the answer; accepted inputs cost linear work and nesting depth;
   the streaming reader buffers only what it is given and an accepted header announces at most 65557 bytes.
   Absence of Go panics (nil funcs, nil interfaces, slice bounds) is carried by the correspondence check: the model
   predicts a verdict for every generated input and a recovered panic or a timeout is a mismatch. *)
From Coq Require Import List NArith ZArith Bool.
Import ListNotations.
Require Import Codec Frame FrameProofs Reader Fuel C02Proofs.
Local Open Scope N_scope.

Theorem C02_fuel : forall bs k, dec_items (S (length bs) + k) bs = dec_items (S (length bs)) bs.
Proof. exact Fuel.fuel_enough. Qed.

Theorem C02_decoder : forall bs, bok bs ->
  (forall k, dec_items (S (length bs) + k) bs = dec_items (S (length bs)) bs) /\
  (forall ms, dec_items (S (length bs)) bs = Some ms ->
     (7 * count_items ms <= length bs)%nat /\ (7 * depth_items ms <= length bs)%nat).
Proof. exact C02Proofs.C02_decoder. Qed.

Theorem C02_buffer : forall st c, length (rbuf (fst (read_step st c))) = length (rbuf st) \/
                                  length (rbuf (fst (read_step st c))) = (length (rbuf st) + length c)%nat.
Proof. exact C02Proofs.C02_buffer. Qed.

Theorem C02_frame_size : forall p crc fs ds, bok p -> read_header p = HOk crc fs ds ->
  N.of_nat fs <= 65557 /\ N.of_nat ds <= 65535.
Proof. exact C02Proofs.C02_frame_size. Qed.

(* non-vacuity: a nested input that is accepted with 3 items at depth 2, and a hostile one (length 65535, undefined type) that is rejected *)
Example C02_nonvacuous :
  dec_items 30 [1;0;0;0; 14; 15;0; 2;0;0;0; 1; 1;0; 1; 3;0;0;0; 0; 0;0] = Some [Msg 1 14 (GMsgs [Msg 2 1 (GBool true); Msg 3 0 GNil])] /\
  count_items [Msg 1 14 (GMsgs [Msg 2 1 (GBool true); Msg 3 0 GNil])] = 3%nat /\
  depth_items [Msg 1 14 (GMsgs [Msg 2 1 (GBool true); Msg 3 0 GNil])] = 2%nat /\
  dec_items 30 [1;0;0;0; 17; 255;255; 0] = None.
Proof. vm_compute. repeat split. Qed.

Print Assumptions C02_fuel. Print Assumptions C02_decoder. Print Assumptions C02_buffer. Print Assumptions C02_frame_size.
