(* C09 - User requests travel only over an authenticated connection.
   gate tr: every frame event in the trace is the authentication request or is preceded (earlier in the trace) by a
   grant on the same connection; first_ok j tr: the first frame of connection j is the authentication request. EvGranted j
   is emitted exactly when c_auth_ok holds of the reply read on connection j (first message tagged RSCP_AUTHENTICATION
   with a non-zero UChar8 or Int32 value). *)
From Coq Require Import List NArith ZArith Bool.
Import ListNotations.
Require Import Codec Frame Vocab Rijndael Cipher SCipher Client ClientInv Session SessionProofs ConstantsAgree Constants.
Local Open Scope N_scope.

Theorem C09_gate : forall c conns calls,
  gate message (c_auth_req (s_user c) (s_pass c)) (trace_of c conns calls) /\
  forall j, first_ok message (c_auth_req (s_user c) (s_pass c)) j (trace_of c conns calls).
Proof. exact SessionProofs.C09_gate. Qed.

(* the same against EVERY transport/peer whatsoever (any environment state machine, any initial state, any log level) *)
Theorem C09_gate_any : forall c (E : Type) (m : envsm E) calls e l,
  let ks := Rijndael.key_schedule (Cipher.key_pad (s_key c)) in
  let tr := out message E (snd (run message (c_encode (s_crc c)) c_decode_step (SCipher.s_enc ks) (SCipher.s_dec ks) Cipher.iv0 c_valid
                                 (c_auth_req (s_user c) (s_pass c)) c_auth_ok (eff_to (s_conn_to c)) (eff_to (s_send_to c)) (eff_to (s_recv_to c))
                                 (32 * N.to_nat (eff_rbuf (s_rbuf c)))%nat E m (init_state Cipher.iv0) (init_world message E e l) calls)) in
  gate message (c_auth_req (s_user c) (s_pass c)) tr /\ forall j, first_ok message (c_auth_req (s_user c) (s_pass c)) j tr.
Proof. intros c E m calls e l. apply ClientInv.C09_gate. Qed.

(* the verdict is total: every conceivable reply either grants (a non-zero level) or does not; nothing else can happen *)
Theorem C09_total : forall reply, c_auth_ok reply = true \/ c_auth_ok reply = false.
Proof. intro r. destruct (c_auth_ok r); auto. Qed.

(* the authentication request carries exactly the configured user name and password *)
Theorem C09_auth_request : forall u p, c_auth_req u p = [Msg 1 14 (GMsgs [Msg 2 13 (GStr u); Msg 3 13 (GStr p)])].
Proof. reflexivity. Qed.

Theorem C09_constants :
  TAG_RSCP_REQ_AUTHENTICATION = 1 /\ TAG_RSCP_AUTHENTICATION_USER = 2 /\ TAG_RSCP_AUTHENTICATION_PASSWORD = 3 /\
  TAG_RSCP_AUTHENTICATION = 8388609 /\ AUTH_LEVEL_NO_AUTH = 0 /\ RequiredAuthLogLevel = 99 /\
  tag_datatype 1 = 14 /\ tag_datatype 2 = 13 /\ tag_datatype 3 = 13 /\ secret_tags = [3; 5] /\ TypeFlagBit = 23.
Proof. exact ConstantsAgree.auth_constants. Qed.

Example C09_nonvacuous :
  c_auth_ok [Msg 8388609 3 (GU8 10)] = true /\ c_auth_ok [Msg 8388609 6 (GI32 10%Z)] = true /\
  c_auth_ok [Msg 8388609 3 (GU8 0)] = false /\ c_auth_ok [Msg 8388609 5 (GU16 10)] = false /\
  c_auth_ok [Msg 8388612 3 (GU8 10); Msg 8388609 3 (GU8 10)] = false /\ c_auth_ok [] = false.
Proof. vm_compute. repeat split. Qed.

Print Assumptions C09_gate. Print Assumptions C09_gate_any. Print Assumptions C09_total. Print Assumptions C09_auth_request. Print Assumptions C09_constants.
