(* Extraction of the executable model for the correspondence check. ExtrOcamlBasic only: bool, option, list, prod,
   unit, sumbool map to OCaml's; nat, N, Z, positive, string, ascii stay Coq data types. No Extract Constant. *)
From Coq Require Import Extraction ExtrOcamlBasic.
Require Import Codec CRC Frame Reader Rijndael Cipher Wire Vocab Builder BuilderInst Config Validate Client Session JsonIn JsonInst JsonOut JsonDoc Cli.
Extraction "model.ml"
  model_write model_plain model_read_step model_feed rinit key_schedule key_pad iv0 c_enc c_dec crc32
  decode_frame dec_items enc_items
  name_of_tag is_a_tag tag_of_name tag_datatype is_request is_response is_secret marshal_tag unmarshal_tag
  unmarshal_tag_num tag_string name_of_dt is_a_datatype dt_of_name marshal_dt unmarshal_dt dt_string dt_length
  model_kind
  b_create_request b_create_requests
  Config.check Config.key_of
  session send_one_result c_valid c_auth_req c_auth_ok c_verdict validb
  parse_requests j_parse render_json render_simple render_merged cli_main.
