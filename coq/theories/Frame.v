From Coq Require Import List NArith ZArith Lia Bool.
Import ListNotations.
Require Import Codec CRC.
Local Open Scope N_scope.

Definition magic : N := 56547.          (* 0xDCE3 *)
Definition ctrl_mask : N := 7936.       (* 0x1F00 : crc bit 12 + version bits 8..11 *)
Definition ver_mask : N := 3840.        (* 0x0F00 *)
Definition crc_bit : N := 4096.         (* 0x1000 *)
Definition ver1 : N := 256.             (* 0x0100 *)
Definition hdr : nat := 18.

Inductive verdict := Accept (ms : list message) | NeedMore | Reject.

Definition ctrl_word (crc : bool) : N := ver1 + (if crc then crc_bit else 0).

(* ts = (sec, nsec) *)
Definition frame (sec nsec : Z) (crc : bool) (ms : list message) : list N :=
  let body := enc_items ms in
  let pre := le 2 magic ++ le 2 (ctrl_word crc) ++ le 8 (twos 64 sec) ++ le 4 (twos 32 nsec)
             ++ le 2 (N.of_nat (length body)) ++ body in
  if crc then pre ++ le 4 (crc32 pre) else pre.

Definition pad32 (p : list N) : list N :=
  let r := (length p mod 32)%nat in
  if (r =? 0)%nat then p else p ++ repeat 0 (32 - r).

Definition all_zero (l : list N) : bool := forallb (fun b => b =? 0) l.

(* the decoder on a whole plaintext (what Read does once the frame is complete) *)
Definition decode_frame (p : list N) : verdict :=
  if (length p <? 32)%nat || negb (length p mod 32 =? 0)%nat then Reject else
  let c := unle (firstn 2 (skipn 2 p)) in
  if negb (unle (firstn 2 p) =? magic) then Reject else
  if negb (N.lor c ctrl_mask =? ctrl_mask) then Reject else
  if negb (N.land c ver_mask =? ver1) then Reject else
  let crc := negb (N.land c crc_bit =? 0) in
  let dsize := N.to_nat (unle (firstn 2 (skipn 16 p))) in
  let fsize := (hdr + dsize + (if crc then 4 else 0))%nat in
  if (length p <? fsize)%nat then NeedMore else
  if negb (all_zero (skipn fsize p)) then Reject else
  match dec_items (S dsize) (firstn dsize (skipn hdr p)) with
  | None => Reject
  | Some ms =>
    if crc then
      if unle (firstn 4 (skipn (hdr + dsize) p)) =? crc32 (firstn (hdr + dsize) p) then Accept ms else Reject
    else Accept ms
  end.

(* ---------------- specification: what a well-formed frame is ---------------- *)
Inductive items_rel : list N -> list message -> Prop :=
| ir_nil : items_rel [] []
| ir_cons tag dt raw v rest ms :
    tag < 2 ^ 32 -> defined_dt dt = true ->
    N.of_nat (length raw) <= max_data ->
    (forall k, fixed_len dt = Some k -> k = N.of_nat (length raw)) ->
    val_rel dt raw v ->
    items_rel rest ms ->
    items_rel (le 4 tag ++ [dt] ++ le 2 (N.of_nat (length raw)) ++ raw ++ rest) (Msg tag dt v :: ms)
with val_rel : N -> list N -> gval -> Prop :=
| vr_container raw ms : items_rel raw ms -> val_rel 14 raw (GMsgs ms)
| vr_scalar dt raw v : dt <> 14 -> dec_scalar dt raw = Some v -> val_rel dt raw v.

Definition WellFormed (p : list N) (ms : list message) : Prop :=
  exists c ts payload trailer padding,
    p = le 2 magic ++ le 2 c ++ ts ++ le 2 (N.of_nat (length payload)) ++ payload ++ trailer ++ padding /\
    c < 65536 /\ N.lor c ctrl_mask = ctrl_mask /\ N.land c ver_mask = ver1 /\
    length ts = 12%nat /\ N.of_nat (length payload) < 65536 /\
    items_rel payload ms /\
    (if N.land c crc_bit =? 0 then trailer = []
     else trailer = le 4 (crc32 (le 2 magic ++ le 2 c ++ ts ++ le 2 (N.of_nat (length payload)) ++ payload))) /\
    all_zero padding = true /\
    (32 <= length p)%nat /\ (length p mod 32 = 0)%nat.
