(* C15: the e3dc command as a function from its inputs (flags by class, request text as a syntax tree, the device's
   script) to exit status, standard output and the frames sent - composed from the models of the request parser (JsonInst),
   the client (Session) and the output formats (JsonDoc). Mirrors cmd/e3dc/e3dc.go:main/run and e3dc_help.go:checkFlags.
   Modelled, not verified: jnovack/flag (flag syntax, environment, config file), os (files, stdin), process exit. *)
From Coq Require Import List NArith ZArith Bool String.
Import ListNotations.
Require Import Codec JsonIn JsonInst JsonDoc Client Session Config.
Local Open Scope N_scope.

Record cli_in := {
  ci_help : bool; ci_version : bool;
  ci_flag_error : bool;                 (* the flag library refused the command line (unknown flag, bad value, unreadable explicit config file) *)
  ci_host : list N; ci_port : N; ci_user : list N; ci_pass : list N; ci_key : list N;   (* empty = not given *)
  ci_request : option json;             (* None: no request text at all (no argument, no file, nothing on stdin), or an unreadable -file *)
  ci_output : N;                        (* 0 json, 1 jsonsimple, 2 jsonmerged, anything else: unknown *)
  ci_split : bool;
  ci_time : Z * Z }.

Inductive cli_out := CHelp | CFail | CDoc (d : jdoc).
(* exit status, standard output, "something on standard error" *)
Definition status (o : cli_out) : N := match o with CFail => 1 | _ => 0 end.
Definition stdout_doc (o : cli_out) : option jdoc := match o with CDoc d => Some d | _ => None end.
Definition stderr_nonempty (o : cli_out) : bool := match o with CDoc _ => false | _ => true end.

Definition is_empty (s : list N) : bool := match s with [] => true | _ => false end.

(* the calls run() makes, stopping at the first error; in split mode only the first message of each reply is kept *)
Fixpoint run_calls (c : scfg) (ks : list N) (split : bool) (acc : cstate * world message renv * list (res (list message)))
                   (reqs : list (list message)) : cstate * world message renv * option (list message) :=
  match reqs with
  | [] => (fst (fst acc), snd (fst acc), Some [])
  | q :: rest =>
    let '(s', w', rs) := sstep c ks (fst (fst acc), snd (fst acc), []) (SSend q) in
    match rs with
    | [Client.Ok _ ms] =>
      let '(s2, w2, r2) := run_calls c ks split (s', w', []) rest in
      (s2, w2, match r2 with
               | Some more => Some ((if split then firstn 1 ms else ms) ++ more)
               | None => None end)
    | _ => (s', w', None)
    end
  end.

Definition cli_main (yneg : Z -> Z -> bool) (i : cli_in) (conns : list (list reaction)) : cli_out * list (event message) :=
  if ci_help i || ci_version i then (CHelp, []) else
  if ci_flag_error i then (CFail, []) else
  if is_empty (ci_host i) || is_empty (ci_user i) || is_empty (ci_pass i) || is_empty (ci_key i) then (CFail, []) else
  match ci_request i with
  | None => (CFail, [])
  | Some j =>
    match parse_requests j with
    | JsonIn.Err _ => (CFail, [])
    | JsonIn.Ok _ ms =>
      let c := {| s_key := ci_key i; s_user := ci_user i; s_pass := ci_pass i; s_crc := true;
                  s_conn_to := 0; s_send_to := 0; s_recv_to := 0; s_rbuf := 0; s_level := 0; s_time := ci_time i; s_attached := false |} in
      let ks := Rijndael.key_schedule (Cipher.key_pad (ci_key i)) in
      let e0 := {| r_conns := conns; r_script := []; r_inflight := []; r_now := ci_time i |} in
      let w0 := init_world message renv e0 0 in
      let reqs := if ci_split i then map (fun m => [m]) ms else [ms] in
      let '(s1, w1, r) := run_calls c ks (ci_split i) (init_state Cipher.iv0, w0, []) reqs in
      let '(_, w2) := disconnect message renv reactive s1 w1 in          (* the deferred Disconnect *)
      let evs := rev (out message renv w2) in
      match r with
      | None => (CFail, evs)
      | Some rs =>
        if ci_output i =? 0 then (CDoc (render_json rs), evs)
        else if ci_output i =? 1 then (CDoc (render_simple yneg rs), evs)
        else if ci_output i =? 2 then (CDoc (render_merged yneg rs), evs)
        else (CFail, evs)
      end
    end
  end.
