(* C17: the only datum the client model shares between clients is the logger's level. Nothing a call returns, sends or
   does to its connection depends on it: two worlds that differ only in level and in log records stay related, and the
   call returns the same result and client state. Hence k clients whose calls are interleaved in any order - each seeing
   whatever level the others left - behave exactly as when each runs alone. *)
From Coq Require Import List Arith NArith ZArith Lia Bool.
Import ListNotations.
Require Import Client.
Local Open Scope N_scope.

Section Level.
  Variable msg : Type.
  Variable encode : Z * Z -> list msg -> list N.
  Variable decode_step : list N -> list N -> option (option (list msg)) * list N.
  Variable enc : list N -> list N -> list N * list N.
  Variable dec : list N -> list N -> list N * list N.
  Variable iv0 : list N.
  Variable valid_req : list msg -> bool.
  Variable auth_req : list msg.
  Variable auth_ok : list msg -> bool.
  Variables conn_to send_to recv_to : Z.
  Variable rbuf : nat.
  Variable E : Type.
  Variable m : envsm E.

  Notation world := (world msg E).
  Notation log := (log msg E).
  Notation disconnect := (disconnect msg E m).
  Notation connect := (connect msg iv0 conn_to E m).
  Notation send := (send msg encode enc valid_req send_to E m).
  Notation recv_loop := (recv_loop msg decode_step dec rbuf E m).
  Notation receive := (receive msg decode_step dec recv_to rbuf E m).
  Notation authenticate := (authenticate msg encode decode_step enc dec valid_req auth_req auth_ok send_to recv_to rbuf E m).
  Notation send_multiple := (send_multiple msg encode decode_step enc dec iv0 valid_req auth_req auth_ok conn_to send_to recv_to rbuf E m).

  Definition is_log (x : event msg) : bool := match x with EvLog _ _ _ => true | _ => false end.
  Definition nolog (tr : list (event msg)) : list (event msg) := filter (fun x => negb (is_log x)) tr.

  (* the same world up to the logger's level and the log records *)
  Definition R (a b : world) : Prop :=
    cur msg E a = cur msg E b /\ next msg E a = next msg E b /\ est msg E a = est msg E b /\
    clock msg E a = clock msg E b /\ nolog (out msg E a) = nolog (out msg E b).

  Lemma R_refl a : R a a. Proof. repeat split. Qed.
  Lemma R_log a b l k l' k' : R a b -> R (log l k a) (log l' k' b).
  Proof.
    intros (A & B & C & D & F). unfold Client.log.
    destruct (l <=? level msg E a), (l' <=? level msg E b); repeat split; cbn [cur next est clock out Client.emit Client.upd app nolog filter is_log negb]; assumption.
  Qed.
  Lemma R_log_l a b l k : R a b -> R (log l k a) b.
  Proof.
    intros (A & B & C & D & F). unfold Client.log.
    destruct (l <=? level msg E a); repeat split; cbn [cur next est clock out Client.emit Client.upd app nolog filter is_log negb]; assumption.
  Qed.
  Lemma R_sym a b : R a b -> R b a. Proof. intros (A & B & C & D & F). repeat split; symmetry; assumption. Qed.
  Lemma R_trans a b c : R a b -> R b c -> R a c.
  Proof. intros (A & B & C & D & F) (A' & B' & C' & D' & F'). repeat split; etransitivity; eassumption. Qed.
  Lemma R_log_r a b l k : R a b -> R a (log l k b).
  Proof. intro H. apply R_sym, R_log_l, R_sym, H. Qed.
  Lemma R_set_level a b l l' : R a b -> R (set_level msg E l a) (set_level msg E l' b).
  Proof. intros (A & B & C & D & F). repeat split; assumption. Qed.
  Lemma R_upd a b c n e t evs : R a b -> (forall x, In x evs -> is_log x = false) ->
    R (upd msg E a c n e t evs) (upd msg E b c n e t evs).
  Proof.
    intros (A & B & C & D & F) H. repeat split. cbn [out Client.upd]. unfold nolog in *. rewrite !filter_app, F. reflexivity.
  Qed.
  Lemma R_emit a b x : R a b -> is_log x = false -> R (emit msg E x a) (emit msg E x b).
  Proof.
    intros (A & B & C & D & F) H. unfold Client.emit. rewrite A, B, C, D. apply R_upd; [repeat split; assumption|].
    intros y [<-|[]]. exact H.
  Qed.

  Lemma disconnect_R s a b : R a b -> fst (disconnect s a) = fst (disconnect s b) /\ R (snd (disconnect s a)) (snd (disconnect s b)).
  Proof.
    intros H. pose proof H as (A & B & C & D & F). unfold Client.disconnect. rewrite <- A.
    destruct (cur msg E a) as [j|]; cbn [fst snd]; [|split; [reflexivity|exact H]].
    split; [reflexivity|]. apply R_log. rewrite <- B, <- C, <- D. apply R_upd; [exact H|]. intros x [<-|[]]. reflexivity.
  Qed.

  Lemma connect_R s a b : R a b ->
    let '(s1, a1, r1) := connect s a in let '(s2, b1, r2) := connect s b in s1 = s2 /\ r1 = r2 /\ R a1 b1.
  Proof.
    intro H. unfold Client.connect.
    assert (H0 : R (log lInfo (LText msg 1) a) (log lInfo (LText msg 1) b)) by (apply R_log; exact H).
    set (a0 := log lInfo (LText msg 1) a) in *. set (b0 := log lInfo (LText msg 1) b) in *.
    pose proof H0 as (A & B & C & D & F). rewrite <- C.
    destruct (on_dial E m (est msg E a0)) as [[e' ok] d].
    destruct ((dur d <=? conn_to)%Z && ok).
    - split; [reflexivity|]. split; [reflexivity|]. apply R_log. rewrite <- B, <- D. apply R_upd; [exact H0|]. intros x [<-|[]]. reflexivity.
    - split; [reflexivity|]. split; [reflexivity|]. rewrite <- B, <- D. apply R_upd; [exact H0|]. intros x [<-|[]]. reflexivity.
  Qed.

  Lemma send_R s a b ms : R a b ->
    let '(s1, a1, r1) := send s a ms in let '(s2, b1, r2) := send s b ms in s1 = s2 /\ r1 = r2 /\ R a1 b1.
  Proof.
    intro H. unfold Client.send.
    destruct (negb (valid_req ms)); [split; [reflexivity|split; [reflexivity|exact H]]|].
    pose proof H as (A & _). rewrite <- A.
    destruct (cur msg E a) as [j|] eqn:Ec; [|split; [reflexivity|split; [reflexivity|exact H]]].
    assert (H1 : R (log lDebug (LTree msg ms) a) (log lDebug (LTree msg ms) b)) by (apply R_log; exact H).
    set (a1 := log lDebug (LTree msg ms) a) in *. set (b1 := log lDebug (LTree msg ms) b) in *.
    pose proof H1 as (_ & _ & C1 & _). rewrite <- C1.
    destruct (on_now E m (est msg E a1)) as [e1 ts].
    assert (H2 : R (log lTrace (LDump msg (encode ts ms)) a1) (log lTrace (LDump msg (encode ts ms)) b1)) by (apply R_log; exact H1).
    set (a2 := log lTrace (LDump msg (encode ts ms)) a1) in *. set (b2 := log lTrace (LDump msg (encode ts ms)) b1) in *.
    destruct (enc (eiv s) (encode ts ms)) as [ct iv'].
    assert (H3 : R (log lTrace (LDump msg ct) a2) (log lTrace (LDump msg ct) b2)) by (apply R_log; exact H2).
    set (a3 := log lTrace (LDump msg ct) a2) in *. set (b3 := log lTrace (LDump msg ct) b2) in *.
    assert (H4 : R (emit msg E (EvSetWD msg j send_to) a3) (emit msg E (EvSetWD msg j send_to) b3)) by (apply R_emit; [exact H3|reflexivity]).
    set (a4 := emit msg E (EvSetWD msg j send_to) a3) in *. set (b4 := emit msg E (EvSetWD msg j send_to) b3) in *.
    pose proof H4 as (_ & B4 & _ & D4 & _).
    destruct (on_write E m e1 ct) as [[e' ok] d].
    destruct ((dur d <=? send_to)%Z && ok).
    - split; [reflexivity|]. split; [reflexivity|]. rewrite <- B4, <- D4. apply R_upd; [exact H4|]. intros x [<-|[<-|[]]]; reflexivity.
    - rewrite <- B4, <- D4.
      set (af := upd msg E a4 (Some j) (next msg E a4) e' (clock msg E a4 + Z.min (dur d) send_to)%Z [EvWriteFail msg j]).
      set (bf := upd msg E b4 (Some j) (next msg E a4) e' (clock msg E a4 + Z.min (dur d) send_to)%Z [EvWriteFail msg j]).
      assert (Hf : R af bf) by (apply R_upd; [exact H4|]; intros x [<-|[]]; reflexivity).
      destruct (disconnect_R {| authed := authed s; eiv := iv'; div := div s |} af bf Hf) as [Es Rw].
      destruct (disconnect _ af) as [s2 w2]. destruct (disconnect _ bf) as [s3 w3]. cbn [fst snd] in *.
      split; [exact Es|]. split; [reflexivity|exact Rw].
  Qed.

  Lemma recv_loop_R : forall fuel deadline buf pend s a b, R a b ->
    let '(s1, a1, r1) := recv_loop fuel deadline buf pend s a in
    let '(s2, b1, r2) := recv_loop fuel deadline buf pend s b in s1 = s2 /\ r1 = r2 /\ R a1 b1.
  Proof.
    induction fuel as [|f IH]; intros deadline buf pend s a b H; [split; [reflexivity|split; [reflexivity|exact H]]|].
    cbn [Client.recv_loop]. pose proof H as (A & B & C & D & F). rewrite <- A.
    destruct (cur msg E a) as [j|]; [|split; [reflexivity|split; [reflexivity|exact H]]].
    rewrite <- C. destruct (on_read E m (est msg E a) rbuf) as [[e' r] d]. rewrite <- D.
    destruct (deadline <? clock msg E a + dur d)%Z.
    - rewrite <- B.
      assert (Hf : R (upd msg E a (Some j) (next msg E a) e' deadline [EvRead msg j (RTimeout)])
                     (upd msg E b (Some j) (next msg E a) e' deadline [EvRead msg j (RTimeout)]))
        by (apply R_upd; [exact H|]; intros x [<-|[]]; reflexivity).
      destruct (disconnect_R s _ _ Hf) as [Es Rw].
      destruct (disconnect s (upd msg E a _ _ _ _ _)) as [s2 w2]. destruct (disconnect s (upd msg E b _ _ _ _ _)) as [s3 w3]. cbn [fst snd] in *.
      split; [exact Es|]. split; [reflexivity|exact Rw].
    - rewrite <- B.
      assert (H1 : R (upd msg E a (Some j) (next msg E a) e' (clock msg E a + dur d)%Z [EvRead msg j r])
                     (upd msg E b (Some j) (next msg E a) e' (clock msg E a + dur d)%Z [EvRead msg j r]))
        by (apply R_upd; [exact H|]; intros x [<-|[]]; reflexivity).
      set (a1 := upd msg E a (Some j) (next msg E a) e' (clock msg E a + dur d)%Z [EvRead msg j r]) in *.
      set (b1 := upd msg E b (Some j) (next msg E a) e' (clock msg E a + dur d)%Z [EvRead msg j r]) in *.
      destruct r as [bs| |].
      + destruct (length bs =? 0)%nat; [split; [reflexivity|]; split; [reflexivity|exact H1]|].
        destruct ((32 * (length (pend ++ bs) / 32)) =? 0)%nat; [apply IH; exact H1|].
        destruct (dec (div s) (firstn (32 * (length (pend ++ bs) / 32)) (pend ++ bs))) as [pt iv'].
        destruct (decode_step buf pt) as [[[ms|]|] buf'].
        * split; [reflexivity|]. split; [reflexivity|]. apply R_log, R_log. exact H1.
        * apply IH. exact H1.
        * destruct (disconnect_R {| authed := authed s; eiv := eiv s; div := iv' |} a1 b1 H1) as [Es Rw].
          destruct (disconnect _ a1) as [s2 w2]. destruct (disconnect _ b1) as [s3 w3]. cbn [fst snd] in *.
          split; [exact Es|]. split; [reflexivity|exact Rw].
      + destruct (disconnect_R s a1 b1 H1) as [Es Rw].
        destruct (disconnect s a1) as [s2 w2]. destruct (disconnect s b1) as [s3 w3]. cbn [fst snd] in *.
        split; [exact Es|]. split; [reflexivity|exact Rw].
      + destruct (disconnect_R s a1 b1 H1) as [Es Rw].
        destruct (disconnect s a1) as [s2 w2]. destruct (disconnect s b1) as [s3 w3]. cbn [fst snd] in *.
        split; [exact Es|]. split; [reflexivity|exact Rw].
  Qed.

  Lemma receive_R fuel s a b : R a b ->
    let '(s1, a1, r1) := receive fuel s a in let '(s2, b1, r2) := receive fuel s b in s1 = s2 /\ r1 = r2 /\ R a1 b1.
  Proof.
    intro H. unfold Client.receive. pose proof H as (A & _ & _ & D & _). rewrite <- A, <- D.
    destruct (cur msg E a) as [j|]; [|split; [reflexivity|split; [reflexivity|exact H]]].
    apply recv_loop_R. apply R_emit; [exact H|reflexivity].
  Qed.

  Lemma authenticate_R fuel s a b : R a b ->
    let '(s1, a1, r1) := authenticate fuel s a in let '(s2, b1, r2) := authenticate fuel s b in s1 = s2 /\ r1 = r2 /\ R a1 b1.
  Proof.
    intro H. unfold Client.authenticate.
    set (a0 := if level msg E a <? auth_level then _ else a). set (b0 := if level msg E b <? auth_level then _ else b).
    assert (H0 : R a0 b0).
    { assert (SL : forall l w, R (set_level msg E l w) w) by (intros l w; repeat split).
      unfold a0, b0. destruct (level msg E a <? auth_level); destruct (level msg E b <? auth_level).
      + apply R_set_level. apply R_log. exact H.
      + apply R_trans with (b := log lInfo (LText msg 4) a); [apply SL|]. apply R_log_l. exact H.
      + apply R_sym. apply R_trans with (b := log lInfo (LText msg 4) b); [apply SL|]. apply R_log_l. apply R_sym. exact H.
      + exact H. }
    pose proof (send_R s a0 b0 auth_req H0) as HS.
    destruct (send s a0 auth_req) as [[s1 a1] r1]. destruct (send s b0 auth_req) as [[s2 b1] r2].
    destruct HS as (<- & <- & H1).
    set (a1' := if level msg E a <? auth_level then set_level msg E (level msg E a) a1 else a1).
    set (b1' := if level msg E b <? auth_level then set_level msg E (level msg E b) b1 else b1).
    assert (H1' : R a1' b1').
    { unfold a1', b1'. destruct (level msg E a <? auth_level); destruct (level msg E b <? auth_level);
        destruct H1 as (A1 & B1 & C1 & D1 & F1); repeat split; assumption. }
    destruct r1 as [u|x]; [|split; [reflexivity|split; [reflexivity|exact H1']]].
    pose proof (receive_R fuel s1 a1' b1' H1') as HR.
    destruct (receive fuel s1 a1') as [[s3 a3] r3]. destruct (receive fuel s1 b1') as [[s4 b3] r4].
    destruct HR as (<- & <- & H3).
    destruct r3 as [ms|x]; [|split; [reflexivity|split; [reflexivity|exact H3]]].
    destruct (auth_ok ms); [|split; [reflexivity|split; [reflexivity|exact H3]]].
    split; [reflexivity|]. split; [reflexivity|]. apply R_log.
    pose proof H3 as (A3 & _). rewrite <- A3. destruct (cur msg E a3); [apply R_emit; [exact H3|reflexivity]|exact H3].
  Qed.

  (* one call: same client state, same result, related worlds - whatever the level *)
  Theorem call_level_irrelevant fuel s a b ms : R a b ->
    let '(s1, a1, r1) := send_multiple fuel s a ms in let '(s2, b1, r2) := send_multiple fuel s b ms in
    s1 = s2 /\ r1 = r2 /\ R a1 b1.
  Proof.
    intro H. unfold Client.send_multiple. pose proof H as (A & _). rewrite <- A.
    assert (H0 : let '(s1, a1, r1) := (match cur msg E a with None => connect s a | Some _ => (s, a, Ok unit tt) end) in
                 let '(s2, b1, r2) := (match cur msg E a with None => connect s b | Some _ => (s, b, Ok unit tt) end) in
                 s1 = s2 /\ r1 = r2 /\ R a1 b1).
    { destruct (cur msg E a); [split; [reflexivity|split; [reflexivity|exact H]]|apply connect_R, H]. }
    destruct (match cur msg E a with None => connect s a | Some _ => (s, a, Ok unit tt) end) as [[s0 a0] r0].
    destruct (match cur msg E a with None => connect s b | Some _ => (s, b, Ok unit tt) end) as [[s0' b0] r0'].
    destruct H0 as (<- & <- & H0).
    destruct r0 as [u|x]; [|split; [reflexivity|split; [reflexivity|exact H0]]].
    assert (H1 : let '(s1, a1, r1) := (if authed s0 then (s0, a0, Ok unit tt) else authenticate fuel s0 a0) in
                 let '(s2, b1, r2) := (if authed s0 then (s0, b0, Ok unit tt) else authenticate fuel s0 b0) in
                 s1 = s2 /\ r1 = r2 /\ R a1 b1).
    { destruct (authed s0); [split; [reflexivity|split; [reflexivity|exact H0]]|apply authenticate_R, H0]. }
    destruct (if authed s0 then (s0, a0, Ok unit tt) else authenticate fuel s0 a0) as [[s1 a1] r1].
    destruct (if authed s0 then (s0, b0, Ok unit tt) else authenticate fuel s0 b0) as [[s1' b1] r1'].
    destruct H1 as (<- & <- & H1).
    destruct r1 as [u1|x]; [|split; [reflexivity|split; [reflexivity|exact H1]]].
    pose proof (send_R s1 a1 b1 ms H1) as HS.
    destruct (send s1 a1 ms) as [[s2 a2] r2]. destruct (send s1 b1 ms) as [[s2' b2] r2'].
    destruct HS as (<- & <- & H2).
    destruct r2 as [u2|x]; [|split; [reflexivity|split; [reflexivity|exact H2]]].
    apply receive_R, H2.
  Qed.

  (* ---- k clients interleaved in any order, sharing only the logger's level ---- *)
  Definition clients := nat -> cstate * world.
  Definition set_client (f : clients) (i : nat) (v : cstate * world) : clients := fun j => if Nat.eqb j i then v else f j.
  Definition job : Type := nat * nat * list msg.          (* which client, fuel, requests *)

  (* the merged run: a call of client i starts at whatever level the previous call (of any client) left *)
  Fixpoint run_merged (sched : list job) (f : clients) (lvl : N) : clients * N * list (nat * res (list msg)) :=
    match sched with
    | [] => (f, lvl, [])
    | (i, fuel, ms) :: rest =>
      let '(s, w) := f i in
      let '(s', w', r) := send_multiple fuel s (set_level msg E lvl w) ms in
      let '(f', lvl', rs) := run_merged rest (set_client f i (s', w')) (level msg E w') in
      (f', lvl', (i, r) :: rs)
    end.
  (* client i alone, on its own calls *)
  Fixpoint run_alone (i : nat) (sched : list job) (s : cstate) (w : world) : cstate * world * list (res (list msg)) :=
    match sched with
    | [] => (s, w, [])
    | (j, fuel, ms) :: rest =>
      if Nat.eqb j i then
        let '(s', w', r) := send_multiple fuel s w ms in
        let '(s2, w2, rs) := run_alone i rest s' w' in (s2, w2, r :: rs)
      else run_alone i rest s w
    end.
  Fixpoint results_of (i : nat) (rs : list (nat * res (list msg))) : list (res (list msg)) :=
    match rs with [] => [] | (j, r) :: t => if Nat.eqb j i then r :: results_of i t else results_of i t end.

  Theorem C17_interleave : forall sched (f : clients) lvl i s0 w0,
    fst (f i) = s0 -> R (snd (f i)) w0 ->
    let '(f', _, rs) := run_merged sched f lvl in
    let '(s1, w1, rs1) := run_alone i sched s0 w0 in
    fst (f' i) = s1 /\ R (snd (f' i)) w1 /\ results_of i rs = rs1.
  Proof.
    induction sched as [|[[j fuel] ms] rest IH]; intros f lvl i s0 w0 Hs Hw.
    - cbn. split; [exact Hs|split; [exact Hw|reflexivity]].
    - cbn [run_merged run_alone].
      destruct (f j) as [sj wj] eqn:Efj.
      destruct (send_multiple fuel sj (set_level msg E lvl wj) ms) as [[sj' wj'] rj] eqn:Ecall.
      destruct (Nat.eqb_spec j i) as [->|Hne].
      + (* client i's own call *)
        rewrite Efj in Hs, Hw. cbn [fst snd] in Hs, Hw. subst sj.
        assert (HR : R (set_level msg E lvl wj) w0) by (destruct Hw as (A & B & C & D & F); repeat split; assumption).
        pose proof (call_level_irrelevant fuel s0 (set_level msg E lvl wj) w0 ms HR) as HC.
        rewrite Ecall in HC.
        destruct (send_multiple fuel s0 w0 ms) as [[s0' w0'] r0]. destruct HC as (<- & <- & HR').
        specialize (IH (set_client f i (sj', wj')) (level msg E wj') i sj' w0').
        unfold set_client at 1 2 in IH. rewrite Nat.eqb_refl in IH. specialize (IH eq_refl HR').
        destruct (run_merged rest (set_client f i (sj', wj')) (level msg E wj')) as [[f' l'] rs].
        destruct (run_alone i rest sj' w0') as [[s2 w2] rs2].
        destruct IH as (I1 & I2 & I3). cbn [results_of]. rewrite Nat.eqb_refl, I3. split; [exact I1|split; [exact I2|reflexivity]].
      + (* another client's call leaves client i alone *)
        specialize (IH (set_client f j (sj', wj')) (level msg E wj') i s0 w0).
        unfold set_client at 1 2 in IH. destruct (Nat.eqb_spec i j) as [Eij|_]; [subst; contradiction|]. specialize (IH Hs Hw).
        destruct (run_merged rest (set_client f j (sj', wj')) (level msg E wj')) as [[f' l'] rs].
        destruct (run_alone i rest s0 w0) as [[s2 w2] rs2].
        cbn [results_of]. destruct (Nat.eqb_spec j i) as [Eji|_]; [contradiction|]. exact IH.
  Qed.
End Level.
Print Assumptions call_level_irrelevant. Print Assumptions C17_interleave.
