From Coq Require Import List NArith Lia Bool.
Import ListNotations.
Require Import Rijndael.
Local Open Scope N_scope.

Definition byte (b : N) := b < 256.
Definition bytes_ok (s : list N) := Forall byte s.

(* ---- finite sweeps over bytes ---- *)
Definition all_bytes : list N := map N.of_nat (seq 0 256).

Lemma in_all_bytes b : byte b -> In b all_bytes.
Proof.
  intro H. unfold all_bytes. apply in_map_iff. exists (N.to_nat b). split.
  - apply N2Nat.id.
  - apply in_seq. unfold byte in H. lia.
Qed.

Lemma sweep (P : N -> bool) : forallb P all_bytes = true -> forall b, byte b -> P b = true.
Proof. intros H b Hb. rewrite forallb_forall in H. apply H, in_all_bytes, Hb. Qed.

Lemma sweep2 (P : N -> N -> bool) :
  forallb (fun a => forallb (P a) all_bytes) all_bytes = true -> forall a b, byte a -> byte b -> P a b = true.
Proof.
  intros H a b Ha Hb. rewrite forallb_forall in H. specialize (H a (in_all_bytes a Ha)).
  rewrite forallb_forall in H. apply H, in_all_bytes, Hb.
Qed.

Lemma isbox_sbox b : byte b -> isbox (sbox b) = b.
Proof.
  intro H. apply N.eqb_eq. revert b H. apply sweep. vm_compute. reflexivity.
Qed.

Lemma sbox_byte b : byte b -> byte (sbox b).
Proof. intro H. apply N.ltb_lt. revert b H. apply sweep. vm_compute. reflexivity. Qed.

Lemma xtime_byte b : byte b -> byte (xtime b).
Proof. intro H. apply N.ltb_lt. revert b H. apply sweep. vm_compute. reflexivity. Qed.

Lemma xtime_lxor a b : byte a -> byte b -> xtime (N.lxor a b) = N.lxor (xtime a) (xtime b).
Proof.
  intros Ha Hb. apply N.eqb_eq. revert a b Ha Hb. apply sweep2. vm_compute. reflexivity.
Qed.

Ltac xor_solve :=
  apply N.bits_inj; let i := fresh "i" in intro i; rewrite ?N.lxor_spec;
  repeat match goal with |- context [N.testbit ?x ?j] => destruct (N.testbit x j) end; reflexivity.

Lemma x4_split a b c d e f g h :
  x4 (N.lxor a b) (N.lxor c d) (N.lxor e f) (N.lxor g h) = N.lxor (x4 a c e g) (x4 b d f h).
Proof. unfold x4. xor_solve. Qed.

Lemma x4_transpose p1 p2 p3 p4 p5 p6 p7 p8 p9 p10 p11 p12 p13 p14 p15 p16 :
  x4 (x4 p1 p2 p3 p4) (x4 p5 p6 p7 p8) (x4 p9 p10 p11 p12) (x4 p13 p14 p15 p16) =
  x4 (x4 p1 p5 p9 p13) (x4 p2 p6 p10 p14) (x4 p3 p7 p11 p15) (x4 p4 p8 p12 p16).
Proof.
  unfold x4 at 2 3 4 5. rewrite x4_split. rewrite !x4_split. reflexivity.
Qed.

Lemma lxor_byte a b : byte a -> byte b -> byte (N.lxor a b).
Proof.
  intros Ha Hb. apply N.ltb_lt. revert a b Ha Hb. apply sweep2. vm_compute. reflexivity.
Qed.

Lemma x4_byte a b c d : byte a -> byte b -> byte c -> byte d -> byte (x4 a b c d).
Proof. intros. unfold x4. repeat apply lxor_byte; assumption. Qed.

(* linearity of the constant multiplications, by sweeps *)
Ltac lin_sweep := intros a b Ha Hb; apply N.eqb_eq; revert a b Ha Hb; apply sweep2; vm_compute; reflexivity.
Lemma m2_lin  : forall a b, byte a -> byte b -> m2  (N.lxor a b) = N.lxor (m2 a)  (m2 b).  Proof. lin_sweep. Qed.
Lemma m3_lin  : forall a b, byte a -> byte b -> m3  (N.lxor a b) = N.lxor (m3 a)  (m3 b).  Proof. lin_sweep. Qed.
Lemma m9_lin  : forall a b, byte a -> byte b -> m9  (N.lxor a b) = N.lxor (m9 a)  (m9 b).  Proof. lin_sweep. Qed.
Lemma m11_lin : forall a b, byte a -> byte b -> m11 (N.lxor a b) = N.lxor (m11 a) (m11 b). Proof. lin_sweep. Qed.
Lemma m13_lin : forall a b, byte a -> byte b -> m13 (N.lxor a b) = N.lxor (m13 a) (m13 b). Proof. lin_sweep. Qed.
Lemma m14_lin : forall a b, byte a -> byte b -> m14 (N.lxor a b) = N.lxor (m14 a) (m14 b). Proof. lin_sweep. Qed.

Ltac byte_sweep := intros a Ha; apply N.ltb_lt; revert a Ha; apply sweep; vm_compute; reflexivity.
Lemma m2_byte : forall a, byte a -> byte (m2 a). Proof. byte_sweep. Qed.
Lemma m3_byte : forall a, byte a -> byte (m3 a). Proof. byte_sweep. Qed.

Lemma lin_x4 (f : N -> N) :
  (forall a b, byte a -> byte b -> f (N.lxor a b) = N.lxor (f a) (f b)) ->
  forall a b c d, byte a -> byte b -> byte c -> byte d -> f (x4 a b c d) = x4 (f a) (f b) (f c) (f d).
Proof.
  intros L a b c d Ha Hb Hc Hd. unfold x4.
  rewrite L by (apply lxor_byte; assumption). rewrite !L by assumption. reflexivity.
Qed.

(* coefficient identities of InvMixColumns * MixColumns = I *)
Ltac id_sweep := intros a Ha; apply N.eqb_eq; revert a Ha; apply sweep; vm_compute; reflexivity.
Lemma row0_a : forall a, byte a -> x4 (m14 (m2 a)) (m11 a) (m13 a) (m9 (m3 a)) = a. Proof. id_sweep. Qed.
Lemma row0_b : forall a, byte a -> x4 (m14 (m3 a)) (m11 (m2 a)) (m13 a) (m9 a) = 0. Proof. id_sweep. Qed.
Lemma row0_c : forall a, byte a -> x4 (m14 a) (m11 (m3 a)) (m13 (m2 a)) (m9 a) = 0. Proof. id_sweep. Qed.
Lemma row0_d : forall a, byte a -> x4 (m14 a) (m11 a) (m13 (m3 a)) (m9 (m2 a)) = 0. Proof. id_sweep. Qed.

Lemma row1_a : forall a, byte a -> x4 (m9 (m2 a)) (m14 a) (m11 a) (m13 (m3 a)) = 0. Proof. id_sweep. Qed.
Lemma row1_b : forall a, byte a -> x4 (m9 (m3 a)) (m14 (m2 a)) (m11 a) (m13 a) = a. Proof. id_sweep. Qed.
Lemma row1_c : forall a, byte a -> x4 (m9 a) (m14 (m3 a)) (m11 (m2 a)) (m13 a) = 0. Proof. id_sweep. Qed.
Lemma row1_d : forall a, byte a -> x4 (m9 a) (m14 a) (m11 (m3 a)) (m13 (m2 a)) = 0. Proof. id_sweep. Qed.

Lemma row2_a : forall a, byte a -> x4 (m13 (m2 a)) (m9 a) (m14 a) (m11 (m3 a)) = 0. Proof. id_sweep. Qed.
Lemma row2_b : forall a, byte a -> x4 (m13 (m3 a)) (m9 (m2 a)) (m14 a) (m11 a) = 0. Proof. id_sweep. Qed.
Lemma row2_c : forall a, byte a -> x4 (m13 a) (m9 (m3 a)) (m14 (m2 a)) (m11 a) = a. Proof. id_sweep. Qed.
Lemma row2_d : forall a, byte a -> x4 (m13 a) (m9 a) (m14 (m3 a)) (m11 (m2 a)) = 0. Proof. id_sweep. Qed.

Lemma row3_a : forall a, byte a -> x4 (m11 (m2 a)) (m13 a) (m9 a) (m14 (m3 a)) = 0. Proof. id_sweep. Qed.
Lemma row3_b : forall a, byte a -> x4 (m11 (m3 a)) (m13 (m2 a)) (m9 a) (m14 a) = 0. Proof. id_sweep. Qed.
Lemma row3_c : forall a, byte a -> x4 (m11 a) (m13 (m3 a)) (m9 (m2 a)) (m14 a) = 0. Proof. id_sweep. Qed.
Lemma row3_d : forall a, byte a -> x4 (m11 a) (m13 a) (m9 (m3 a)) (m14 (m2 a)) = a. Proof. id_sweep. Qed.

Lemma x4_a000 a : x4 a 0 0 0 = a. Proof. unfold x4. rewrite N.lxor_0_r, N.lxor_0_r. reflexivity. Qed.
Lemma x4_0b00 a : x4 0 a 0 0 = a. Proof. unfold x4. rewrite N.lxor_0_l, N.lxor_0_r. reflexivity. Qed.
Lemma x4_00c0 a : x4 0 0 a 0 = a. Proof. unfold x4. cbn. rewrite N.lxor_0_r. reflexivity. Qed.
Lemma x4_000d a : x4 0 0 0 a = a. Proof. unfold x4. cbn. reflexivity. Qed.

