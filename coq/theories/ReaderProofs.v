From Coq Require Import List Arith NArith ZArith Lia Bool.
Import ListNotations.
Require Import Codec CRC Frame Reader.
Local Open Scope N_scope.

Definition aligned (c : list N) := (32 <= length c)%nat /\ (length c mod 32 = 0)%nat.

Lemma decode_frame_alt p : aligned p ->
  decode_frame p = match read_header p with
                   | HBad => Reject
                   | HOk crc fs ds => if (length p <? fs)%nat then NeedMore else finish p crc fs ds
                   end.
Proof.
  intros [H1 H2]. unfold decode_frame, read_header, finish.
  destruct (Nat.ltb_spec (length p) 32) as [|_]; [lia|]. rewrite H2. cbn [Nat.eqb negb orb].
  destruct (negb (unle (firstn 2 p) =? magic)); [reflexivity|].
  destruct (negb (N.lor (unle (firstn 2 (skipn 2 p))) ctrl_mask =? ctrl_mask)); [reflexivity|].
  destruct (negb (N.land (unle (firstn 2 (skipn 2 p))) ver_mask =? ver1)); [reflexivity|].
  reflexivity.
Qed.

Lemma aligned_app a b : aligned a -> aligned b -> aligned (a ++ b).
Proof.
  intros [A1 A2] [B1 B2]. split; rewrite app_length; [lia|].
  rewrite Nat.add_mod, A2, B2 by discriminate. reflexivity.
Qed.

(* the header only looks at the first 18 bytes *)
Lemma read_header_app a b : (18 <= length a)%nat -> read_header (a ++ b) = read_header a.
Proof.
  intro H. unfold read_header.
  assert (F : forall k n, (k + n <= 18)%nat -> firstn n (skipn k (a ++ b)) = firstn n (skipn k a)).
  { intros k n Hk. rewrite skipn_app, firstn_app, skipn_length.
    replace (n - (length a - k))%nat with 0%nat by lia. rewrite firstn_O, app_nil_r. reflexivity. }
  rewrite (F 2 2)%nat, (F 16 2)%nat by lia.
  change (firstn 2 (a ++ b)) with (firstn 2 (skipn 0 (a ++ b))). rewrite (F 0 2)%nat by lia. reflexivity.
Qed.

(* invariant: after feeding chunks with cumulative plaintext P (non-empty, header ok, all NeedMore so far),
   the state holds P and the header fields of P *)
Definition holds (st : rstate) (P : list N) : Prop :=
  match P with
  | [] => rbuf st = []
  | _ => rbuf st = P /\ aligned P /\ read_header P = HOk (rcrc st) (rfsize st) (rdsize st) /\ (length P < rfsize st)%nat
  end.

Theorem read_step_spec st P c : holds st P -> aligned c ->
  let '(st', v) := read_step st c in
  v = decode_frame (P ++ c) /\ (v = NeedMore -> holds st' (P ++ c)).
Proof.
  intros Hh Hc. pose proof Hc as [Hc1 Hc2]. unfold read_step.
  destruct (Nat.ltb_spec (length c) 32) as [|_]; [lia|]. rewrite Hc2. cbn [Nat.eqb negb orb].
  destruct P as [|p0 P'] eqn:EP.
  - (* first chunk *)
    cbn [holds] in Hh. rewrite Hh. cbn [app].
    rewrite (decode_frame_alt c Hc).
    destruct (read_header c) as [|crc fs ds] eqn:Eh.
    + split; [reflexivity|discriminate].
    + cbn [rbuf rcrc rfsize rdsize app].
      destruct (Nat.leb_spec fs (length c)) as [Hle|Hgt].
      * destruct (Nat.ltb_spec (length c) fs); [lia|]. split; [reflexivity|].
        intro Hv. (* finish may not be NeedMore *) 
        unfold finish in Hv. destruct (negb _); [discriminate|]. destruct (dec_items _ _); [|discriminate].
        destruct crc; [destruct (_ =? _)|]; discriminate.
      * destruct (Nat.ltb_spec (length c) fs); [|lia]. split; [reflexivity|]. intros _.
        destruct c as [|c0 c']; [cbn in Hc1; lia|]. cbn [holds rbuf rcrc rfsize rdsize].
        repeat split; try assumption; try lia.
  - rewrite <- EP in *. assert (HPne : P <> []) by (rewrite EP; discriminate).
    assert (Hh' : rbuf st = P /\ aligned P /\ read_header P = HOk (rcrc st) (rfsize st) (rdsize st) /\ (length P < rfsize st)%nat).
    { rewrite EP in *. exact Hh. }
    destruct Hh' as (Hb & Ha & Hhd & Hlt).
    destruct (rbuf st) as [|b0 b'] eqn:Eb; [congruence|]. rewrite <- Eb in *. rewrite Hb.
    assert (Hal : aligned (P ++ c)) by (apply aligned_app; assumption).
    rewrite (decode_frame_alt (P ++ c) Hal).
    rewrite read_header_app by (destruct Ha; lia). rewrite Hhd.
    cbn [rbuf rcrc rfsize rdsize].
    destruct (Nat.leb_spec (rfsize st) (length (P ++ c))) as [Hle|Hgt].
    + destruct (Nat.ltb_spec (length (P ++ c)) (rfsize st)); [lia|]. split; [reflexivity|].
      intro Hv. unfold finish in Hv. destruct (negb _); [discriminate|]. destruct (dec_items _ _); [|discriminate].
      destruct (rcrc st); [destruct (_ =? _)|]; discriminate.
    + destruct (Nat.ltb_spec (length (P ++ c)) (rfsize st)); [|lia]. split; [reflexivity|]. intros _.
      destruct (P ++ c) as [|q0 q'] eqn:Eq; [destruct P; [congruence|discriminate]|]. rewrite <- Eq in *.
      unfold holds. rewrite Eq. rewrite <- Eq. cbn [rbuf rcrc rfsize rdsize].
      rewrite read_header_app by (destruct Ha; lia).
      repeat split; try assumption; try (destruct Hal; assumption).
Qed.

Print Assumptions read_step_spec.

Fixpoint prefixes (P : list N) (chunks : list (list N)) : list (list N) :=
  match chunks with [] => [] | c :: r => (P ++ c) :: prefixes (P ++ c) r end.

Fixpoint cut (vs : list verdict) : list verdict :=
  match vs with [] => [] | NeedMore :: r => NeedMore :: cut r | v :: _ => [v] end.

Theorem feed_spec : forall chunks st P, holds st P -> Forall aligned chunks ->
  feed st chunks = cut (map decode_frame (prefixes P chunks)).
Proof.
  induction chunks as [|c r IH]; intros st P Hh Hal; [reflexivity|].
  inversion Hal as [|? ? Hc Hr]; subst.
  cbn [feed prefixes map cut].
  pose proof (read_step_spec st P c Hh Hc) as Hs.
  destruct (read_step st c) as [st' v]. destruct Hs as [Hv Hn].
  rewrite <- Hv. destruct v; try reflexivity.
  f_equal. apply IH; [apply Hn; reflexivity|exact Hr].
Qed.

(* C03, last sentence: a block-aligned split of one ciphertext (here: plaintext) yields NeedMore
   until enough has arrived and then the verdict of the data received so far *)
Corollary chunks_from_empty chunks : Forall aligned chunks ->
  feed rinit chunks = cut (map decode_frame (prefixes [] chunks)).
Proof. intro H. apply feed_spec; [reflexivity|exact H]. Qed.
Print Assumptions chunks_from_empty.
