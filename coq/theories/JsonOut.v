(* C13: model of the merged JSON output (repaired grouping: per tag; containers win over scalars) *)
From Coq Require Import List Arith NArith ZArith Lia Bool.
Import ListNotations.
Require Import Codec.
Local Open Scope N_scope.

Inductive jv := JS (v : gval) | JO (o : list (N * jv)) | JA (l : list (list (N * jv))).
Definition obj := list (N * jv).

Fixpoint lookup (k : N) (o : obj) : option jv :=
  match o with [] => None | (k', v) :: r => if k' =? k then Some v else lookup k r end.
Fixpoint set (k : N) (v : jv) (o : obj) : obj :=
  match o with
  | [] => [(k, v)]
  | (k', v') :: r => if k' =? k then (k, v) :: r else (k', v') :: set k v r
  end.

Definition ins_cont (k : N) (sub : obj) (o : obj) : obj :=
  match lookup k o with
  | None | Some (JS _) => set k (JO sub) o
  | Some (JO x) => set k (JA [x; sub]) o
  | Some (JA l) => set k (JA (l ++ [sub])) o
  end.
Definition ins_scalar (k : N) (v : gval) (o : obj) : obj :=
  match lookup k o with
  | Some (JO _) | Some (JA _) => o
  | _ => set k (JS v) o
  end.

Fixpoint into (m : message) (o : obj) : obj :=
  match m with
  | Msg k _ (GMsgs kids) =>
      ins_cont k ((fix go (l : list message) (acc : obj) : obj :=
                     match l with [] => acc | x :: r => go r (into x acc) end) kids []) o
  | Msg k _ v => ins_scalar k v o
  end.
Definition merged_from (l : list message) (acc : obj) : obj := fold_left (fun a x => into x a) l acc.
Definition merged (l : list message) : obj := merged_from l [].

Lemma into_cont k d kids o : into (Msg k d (GMsgs kids)) o = ins_cont k (merged kids) o.
Proof.
  assert (G : forall acc, (fix go (l : list message) (acc : obj) : obj :=
                     match l with [] => acc | x :: r => go r (into x acc) end) kids acc = merged_from kids acc).
  { induction kids as [|x r IH]; intro acc; [reflexivity|]. cbn [merged_from fold_left]. apply IH. }
  cbn [into]. rewrite G. reflexivity.
Qed.

(* ---- specification side ---- *)
Definition is_cont (m : message) : option (list message) := match m with Msg _ _ (GMsgs kids) => Some kids | _ => None end.
Fixpoint containers (k : N) (l : list message) : list (list message) :=
  match l with
  | [] => []
  | Msg k' _ (GMsgs kids) :: r => if k' =? k then kids :: containers k r else containers k r
  | _ :: r => containers k r
  end.
Fixpoint last_scalar (k : N) (l : list message) (d : option gval) : option gval :=
  match l with
  | [] => d
  | Msg k' _ (GMsgs _) :: r => last_scalar k r d
  | Msg k' _ v :: r => if k' =? k then last_scalar k r (Some v) else last_scalar k r d
  end.

Definition entry (k : N) (l : list message) : option jv :=
  match containers k l with
  | [] => match last_scalar k l None with Some v => Some (JS v) | None => None end
  | [c] => Some (JO (merged c))
  | cs => Some (JA (map merged cs))
  end.

(* ---- assoc list facts ---- *)
Lemma lookup_set_same k v o : lookup k (set k v o) = Some v.
Proof.
  induction o as [|[k' v'] r IH]; cbn; [rewrite N.eqb_refl; reflexivity|].
  destruct (N.eqb_spec k' k); cbn; [rewrite N.eqb_refl; reflexivity|].
  destruct (N.eqb_spec k' k); [contradiction|exact IH].
Qed.
Lemma lookup_set_other k k2 v o : k <> k2 -> lookup k2 (set k v o) = lookup k2 o.
Proof.
  intro H. induction o as [|[k' v'] r IH]; cbn.
  - destruct (N.eqb_spec k k2); [contradiction|reflexivity].
  - destruct (N.eqb_spec k' k) as [->|Hn]; cbn.
    + destruct (N.eqb_spec k k2); [contradiction|reflexivity].
    + destruct (N.eqb_spec k' k2); [reflexivity|exact IH].
Qed.

Lemma containers_app k a b : containers k (a ++ b) = containers k a ++ containers k b.
Proof.
  induction a as [|[k' d v] r IH]; [reflexivity|]. cbn [app containers].
  destruct v; try exact IH; [].
  destruct (k' =? k); [cbn [app]; rewrite IH; reflexivity|exact IH].
Qed.
Lemma last_scalar_app k a b d : last_scalar k (a ++ b) d = last_scalar k b (last_scalar k a d).
Proof.
  revert d; induction a as [|[k' d' v] r IH]; intro d; [reflexivity|]. cbn [app last_scalar].
  destruct v; try (destruct (k' =? k)); apply IH.
Qed.

Definition is_scalar (v : gval) : bool := match v with GMsgs _ => false | _ => true end.

Lemma entry_snoc_cont k k' d kids P :
  entry k (P ++ [Msg k' d (GMsgs kids)]) =
  if k' =? k then
    match containers k P with
    | [] => Some (JO (merged kids))
    | cs => Some (JA (map merged (cs ++ [kids])))
    end
  else entry k P.
Proof.
  unfold entry. rewrite containers_app, last_scalar_app. cbn [containers last_scalar].
  destruct (k' =? k).
  - destruct (containers k P) as [|c [|c2 cs]]; cbn [app]; try reflexivity.
  - rewrite app_nil_r. reflexivity.
Qed.

Lemma entry_snoc_scalar k k' d v P : is_scalar v = true ->
  entry k (P ++ [Msg k' d v]) =
  if k' =? k then match containers k P with [] => Some (JS v) | _ => entry k P end else entry k P.
Proof.
  intro Hs. unfold entry. rewrite containers_app, last_scalar_app.
  assert (E1 : containers k [Msg k' d v] = []) by (destruct v; try reflexivity; discriminate).
  assert (E2 : forall x, last_scalar k [Msg k' d v] x = if k' =? k then Some v else x).
  { intro x. destruct v; try reflexivity; discriminate. }
  rewrite E1, E2, app_nil_r. destruct (k' =? k); [|reflexivity].
  destruct (containers k P) as [|c [|c2 cs]]; reflexivity.
Qed.

Theorem merged_from_spec : forall l acc P,
  (forall k, lookup k acc = entry k P) -> forall k, lookup k (merged_from l acc) = entry k (P ++ l).
Proof.
  induction l as [|x r IH]; intros acc P H k; [rewrite app_nil_r; apply H|].
  cbn [merged_from fold_left]. change (fold_left (fun a x0 => into x0 a) r (into x acc)) with (merged_from r (into x acc)).
  replace (P ++ x :: r) with ((P ++ [x]) ++ r) by (rewrite <- app_assoc; reflexivity).
  apply IH. clear k. intro k.
  destruct x as [k' d v]. destruct (is_scalar v) eqn:Es.
  - (* scalar *)
    assert (Ei : into (Msg k' d v) acc = ins_scalar k' v acc) by (destruct v; try reflexivity; discriminate).
    rewrite Ei, entry_snoc_scalar by exact Es. unfold ins_scalar.
    destruct (N.eqb_spec k' k) as [->|Hne].
    + pose proof (H k) as Hk. unfold entry in Hk.
      destruct (containers k P) as [|c [|c2 cs]] eqn:Ec.
      * rewrite Hk. destruct (last_scalar k P None); rewrite lookup_set_same; reflexivity.
      * rewrite Hk. rewrite Hk. unfold entry. rewrite Ec. reflexivity.
      * rewrite Hk. rewrite Hk. unfold entry. rewrite Ec. reflexivity.
    + rewrite (H k'). destruct (entry k' P) as [[?|?|?]|]; try apply H; rewrite lookup_set_other by exact Hne; apply H.
  - destruct v; try discriminate. rewrite into_cont, entry_snoc_cont. unfold ins_cont.
    destruct (N.eqb_spec k' k) as [->|Hne].
    + rewrite (H k). unfold entry. destruct (containers k P) as [|c [|c2 cs]].
      * destruct (last_scalar k P None); rewrite lookup_set_same; reflexivity.
      * rewrite lookup_set_same. reflexivity.
      * rewrite lookup_set_same. rewrite map_app. reflexivity.
    + rewrite (H k'). destruct (entry k' P) as [[?|?|?]|]; rewrite lookup_set_other by exact Hne; apply H.
Qed.

(* C13 (merged format): under every key the output holds exactly what the messages with that tag determine:
   one container -> its merged object; several -> the array of all of them, in order; none -> the last scalar *)
Theorem C13_merged_entry l k : lookup k (merged l) = entry k l.
Proof. apply (merged_from_spec l [] []). intro k0. reflexivity. Qed.

Corollary C13_no_loss l k c1 c2 cs : containers k l = c1 :: c2 :: cs ->
  lookup k (merged l) = Some (JA (map merged (c1 :: c2 :: cs))).
Proof. intro H. rewrite C13_merged_entry. unfold entry. rewrite H. reflexivity. Qed.

Print Assumptions C13_merged_entry.
