(* A successful call never returns an empty reply - for EVERY environment (any peer, any segmentation, any timing).
   Client.Send narrows the result of SendMultiple to responses[0]; that index is safe because receive only returns a reply
   that holds at least one message: a well-formed frame without messages means "go on reading" (c_verdict: Accept [] => Some None,
   the D13 behaviour recorded in DESIGN.md). Generic part: any decode_step that never reports a complete empty reply;
   concrete part: the RSCP instance c_decode_step is such a function. *)
From Coq Require Import List Arith NArith ZArith Lia Bool.
Import ListNotations.
Require Import Codec Frame Client Session.
Local Open Scope N_scope.

Section NonEmpty.
  Variable msg : Type.
  Variable encode : Z * Z -> list msg -> list N.
  Variable decode_step : list N -> list N -> option (option (list msg)) * list N.
  Variable enc dec : list N -> list N -> list N * list N.
  Variable iv0 : list N.
  Variable valid_req : list msg -> bool.
  Variable auth_req : list msg.
  Variable auth_ok : list msg -> bool.
  Variables conn_to send_to recv_to : Z.
  Variable rbuf : nat.
  Variable E : Type.
  Variable m : envsm E.
  Hypothesis decode_nonempty : forall buf pt ms buf', decode_step buf pt = (Some (Some ms), buf') -> ms <> [].

  Notation recv_loop := (recv_loop msg decode_step dec rbuf E m).
  Notation receive := (receive msg decode_step dec recv_to rbuf E m).
  Notation send_multiple := (send_multiple msg encode decode_step enc dec iv0 valid_req auth_req auth_ok conn_to send_to recv_to rbuf E m).

  Lemma recv_loop_nonempty : forall fuel deadline buf pend s w s' w' ms,
    recv_loop fuel deadline buf pend s w = (s', w', Ok (list msg) ms) -> ms <> [].
  Proof.
    induction fuel as [|f IH]; intros deadline buf pend s w s' w' ms; cbn [Client.recv_loop]; [discriminate|].
    destruct (cur msg E w) as [j|]; [|discriminate].
    destruct (on_read E m (est msg E w) rbuf) as [[e' r] d].
    destruct (deadline <? clock msg E w + dur d)%Z.
    { destruct (disconnect msg E m s _) as [s2 w2]. discriminate. }
    destruct r as [b| |]; try (destruct (disconnect msg E m s _) as [s2 w2]; discriminate).
    destruct (length b =? 0)%nat; [discriminate|].
    destruct (32 * (length (pend ++ b) / 32) =? 0)%nat; [apply IH|].
    destruct (dec (div s) _) as [pt iv'].
    destruct (decode_step buf pt) as [[[ms0|]|] buf'] eqn:Ed.
    - intros [= _ _ <-]. exact (decode_nonempty _ _ _ _ Ed).
    - apply IH.
    - destruct (disconnect msg E m _ _) as [s2 w2]. discriminate.
  Qed.

  Lemma receive_nonempty fuel s w s' w' ms : receive fuel s w = (s', w', Ok (list msg) ms) -> ms <> [].
  Proof. unfold Client.receive. destruct (cur msg E w); [apply recv_loop_nonempty|discriminate]. Qed.

  Theorem send_multiple_nonempty fuel s w req s' w' ms : send_multiple fuel s w req = (s', w', Ok (list msg) ms) -> ms <> [].
  Proof.
    unfold Client.send_multiple.
    match goal with |- context [match cur msg E w with None => ?a | Some _ => ?b end] =>
      destruct (match cur msg E w with None => a | Some _ => b end) as [[s0 w0] [u|x]] end; [|discriminate].
    match goal with |- context [if authed s0 then ?a else ?b] =>
      destruct (if authed s0 then a else b) as [[s1 w1] [u1|x1]] end; [|discriminate].
    match goal with |- context [Client.send ?a1 ?a2 ?a3 ?a4 ?a5 ?a6 ?a7 s1 w1 req] =>
      destruct (Client.send a1 a2 a3 a4 a5 a6 a7 s1 w1 req) as [[s2 w2] [u2|x2]] end; [apply receive_nonempty|discriminate].
  Qed.
End NonEmpty.

(* the RSCP instance: a frame without messages is never a complete reply *)
Lemma c_decode_nonempty : forall buf pt ms buf', c_decode_step buf pt = (Some (Some ms), buf') -> ms <> [].
Proof.
  intros buf pt ms buf'. unfold c_decode_step. intros [= H _]. revert H. unfold c_verdict.
  destruct (buf ++ pt) as [|x l]; [discriminate|].
  destruct (decode_frame (x :: l)) as [[|m0 r]| |]; try discriminate.
  - intros [= <-]. discriminate.
  - destruct (header_ok (x :: l)); [|discriminate]. destruct (_ && _); discriminate.
Qed.
Print Assumptions send_multiple_nonempty. Print Assumptions c_decode_nonempty.
