(* C05 at the level of the client model: one call of send either refuses the requests and writes nothing,
   or writes exactly one ciphertext: the encryption, on the current chain, of the encoding of exactly those requests
   stamped with the current time. For every environment. *)
From Coq Require Import List Arith NArith ZArith Lia Bool.
Import ListNotations.
Require Import Client.
Local Open Scope N_scope.

Section Send.
  Variable msg : Type.
  Variable encode : Z * Z -> list msg -> list N.
  Variable enc : list N -> list N -> list N * list N.
  Variable valid_req : list msg -> bool.
  Variable send_to : Z.
  Variable E : Type.
  Variable m : envsm E.
  Notation send := (send msg encode enc valid_req send_to E m).

  Fixpoint writes_of (evs : list (event msg)) : list (list N) :=
    match evs with
    | [] => []
    | EvWrite _ _ ct :: r => writes_of r ++ [ct]
    | _ :: r => writes_of r
    end.
  Fixpoint attempts_of (evs : list (event msg)) : nat :=
    match evs with
    | [] => O
    | EvWrite _ _ _ :: r => S (attempts_of r)
    | EvWriteFail _ _ :: r => S (attempts_of r)
    | _ :: r => attempts_of r
    end.

  Lemma log_out w l k : exists pre, out msg E (log msg E l k w) = pre ++ out msg E w /\ writes_of pre = [] /\ attempts_of pre = O /\
                                    cur msg E (log msg E l k w) = cur msg E w /\ est msg E (log msg E l k w) = est msg E w.
  Proof.
    unfold log. destruct (l <=? level msg E w).
    - exists [EvLog msg l k]. repeat split.
    - exists []. repeat split.
  Qed.

  Lemma writes_app a b : writes_of (a ++ b) = writes_of b ++ writes_of a.
  Proof. induction a as [|x a IH]; cbn [app writes_of]; [rewrite app_nil_r; reflexivity|]. destruct x; try exact IH. rewrite IH, app_assoc. reflexivity. Qed.
  Lemma attempts_app a b : attempts_of (a ++ b) = (attempts_of a + attempts_of b)%nat.
  Proof. induction a as [|x a IH]; cbn [app attempts_of]; [reflexivity|]. destruct x; try exact IH; rewrite IH; reflexivity. Qed.

  Lemma disconnect_out s w : exists pre, out msg E (snd (disconnect msg E m s w)) = pre ++ out msg E w /\ writes_of pre = [] /\ attempts_of pre = O.
  Proof.
    unfold disconnect. destruct (cur msg E w) as [j|]; cbn [snd]; [|exists []; repeat split].
    set (w1 := upd msg E w None (next msg E w) (on_close E m (est msg E w)) (clock msg E w) [EvClose msg j]).
    destruct (log_out w1 lInfo (LText msg 3)) as (pre & A & B & C & _).
    exists (pre ++ [EvClose msg j]). rewrite A. cbn [w1 out upd]. rewrite <- app_assoc. split; [reflexivity|]. split.
    - rewrite writes_app, B. reflexivity.
    - rewrite attempts_app, C. reflexivity.
  Qed.

  Theorem send_spec s w ms s' w' r : send s w ms = (s', w', r) ->
    exists new, out msg E w' = new ++ out msg E w /\
      match r with
      | Err _ _ => writes_of new = [] /\ (valid_req ms = false -> new = []) /\ (attempts_of new <= 1)%nat
      | Ok _ _ => valid_req ms = true /\ attempts_of new = 1%nat /\
                  exists j e1 ts, cur msg E w = Some j /\ on_now E m (est msg E w) = (e1, ts) /\
                    writes_of new = [fst (enc (eiv s) (encode ts ms))] /\ eiv s' = snd (enc (eiv s) (encode ts ms))
      end.
  Proof.
    unfold Client.send.
    destruct (valid_req ms) eqn:Ev; cbn [negb]; [|intros [= <- <- <-]; exists []; repeat split; auto].
    destruct (cur msg E w) as [j|] eqn:Ec; [|intros [= <- <- <-]; exists []; repeat split; auto; discriminate].
    destruct (log_out w lDebug (LTree msg ms)) as (p1 & A1 & B1 & C1 & D1 & F1).
    set (w1 := log msg E lDebug (LTree msg ms) w) in *.
    rewrite F1.
    destruct (on_now E m (est msg E w)) as [e1 ts] eqn:En.
    destruct (log_out w1 lTrace (LDump msg (encode ts ms))) as (p2 & A2 & B2 & C2 & D2 & F2).
    set (w2 := log msg E lTrace (LDump msg (encode ts ms)) w1) in *.
    destruct (enc (eiv s) (encode ts ms)) as [ct iv'] eqn:Ee.
    destruct (log_out w2 lTrace (LDump msg ct)) as (p3 & A3 & B3 & C3 & D3 & F3).
    set (w3 := log msg E lTrace (LDump msg ct) w2) in *.
    set (w4 := emit msg E (EvSetWD msg j send_to) w3).
    assert (A4 : out msg E w4 = (EvSetWD msg j send_to :: p3 ++ p2 ++ p1) ++ out msg E w).
    { unfold w4. cbn [emit upd out app]. rewrite A3, A2, A1, <- !app_assoc. reflexivity. }
    assert (W4 : writes_of (EvSetWD msg j send_to :: p3 ++ p2 ++ p1) = []).
    { cbn [writes_of]. rewrite !writes_app, B1, B2, B3. reflexivity. }
    assert (T4 : attempts_of (EvSetWD msg j send_to :: p3 ++ p2 ++ p1) = O).
    { cbn [attempts_of]. rewrite !attempts_app, C1, C2, C3. reflexivity. }
    destruct (on_write E m e1 ct) as [[e' ok] d].
    destruct ((dur d <=? send_to)%Z && ok).
    - intros [= <- <- <-].
      exists (EvWrite msg j ct :: EvFrame msg j ms :: EvSetWD msg j send_to :: p3 ++ p2 ++ p1).
      cbn [out upd]. rewrite A4. split; [cbn [app]; reflexivity|]. split; [reflexivity|]. split.
      + cbn [attempts_of]. cbn [attempts_of] in T4. rewrite T4. reflexivity.
      + exists j, e1, ts. rewrite Ee. cbn [fst snd eiv]. repeat split. cbn [writes_of]. cbn [writes_of] in W4. rewrite W4. reflexivity.
    - set (wf := upd msg E w4 (Some j) (next msg E w4) e' (clock msg E w4 + Z.min (dur d) send_to)%Z [EvWriteFail msg j]).
      destruct (disconnect_out {| authed := authed s; eiv := iv'; div := div s |} wf) as (pd & Ad & Bd & Cd).
      destruct (disconnect msg E m _ wf) as [s2 w2'] eqn:Ed. cbn [snd] in *. intros [= <- <- <-].
      exists (pd ++ EvWriteFail msg j :: EvSetWD msg j send_to :: p3 ++ p2 ++ p1).
      rewrite Ad. cbn [wf out upd]. rewrite A4. split; [rewrite <- !app_assoc; cbn [app]; reflexivity|]. split; [|split; [discriminate|]].
      + rewrite writes_app. cbn [writes_of]. cbn [writes_of] in W4. rewrite W4, Bd. reflexivity.
      + rewrite attempts_app. cbn [attempts_of]. cbn [attempts_of] in T4. rewrite T4, Cd. lia.
  Qed.
End Send.

Print Assumptions send_spec.
