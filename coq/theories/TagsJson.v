From Coq Require Import List NArith String Bool Ascii.
Import ListNotations.
Require Import Tables Dec.
Local Open Scope N_scope.

Fixpoint tag_of_name (tbl : list (N * string)) (s : string) : option N :=
  match tbl with [] => None | (t, n) :: r => if String.eqb n s then Some t else tag_of_name r s end.
Fixpoint name_of_tag (tbl : list (N * string)) (t : N) : option string :=
  match tbl with [] => None | (t', n) :: r => if t' =? t then Some n else name_of_tag r t end.

(* Tag.MarshalJSON / UnmarshalJSON (after the D15 repair): known tags by name, unknown ones as decimal strings *)
Definition marshal_tag (t : N) : string :=
  match name_of_tag tag_names t with Some n => n | None => dec_of_N t end.
Definition unmarshal_tag (s : string) : option N :=
  match tag_of_name tag_names s with Some t => Some t | None => N_of_dec s end.

(* exhaustive facts about the generated table, by computation (vm_compute unfolds the tables; tactics must not) *)
Definition all_ok (f : N * string -> bool) : bool := forallb f tag_names.

Lemma names_roundtrip : all_ok (fun '(t, n) => match tag_of_name tag_names n with Some t' => t =? t' | None => false end) = true.
Proof. vm_compute. reflexivity. Qed.
Lemma tags_roundtrip : all_ok (fun '(t, n) => match name_of_tag tag_names t with Some n' => String.eqb n n' | None => false end) = true.
Proof. vm_compute. reflexivity. Qed.
Lemma tags_32bit : all_ok (fun '(t, _) => t <? 4294967296) = true.
Proof. vm_compute. reflexivity. Qed.
(* no tag name starts with a digit, so a decimal numeral is never a known name *)
Definition starts_with_digit (s : string) : bool :=
  match s with EmptyString => true | String c _ => let k := nat_of_ascii c in (Nat.leb 48 k) && (Nat.leb k 57) end.
Lemma no_numeric_names : all_ok (fun '(_, n) => negb (starts_with_digit n)) = true.
Proof. vm_compute. reflexivity. Qed.
Definition defined_dt (d : N) : bool := (d <=? 16) || (d =? 255).
Lemma types_defined : forallb (fun '(_, d) => defined_dt d) tag_types = true.
Proof. vm_compute. reflexivity. Qed.

Opaque tag_names tag_types.

Lemma in_tag_names t n : In (t, n) tag_names -> tag_of_name tag_names n = Some t /\ name_of_tag tag_names t = Some n.
Proof.
  intro H. pose proof names_roundtrip as A. pose proof tags_roundtrip as B. unfold all_ok in *.
  rewrite forallb_forall in A, B. specialize (A _ H). specialize (B _ H). cbv beta iota in A, B. split.
  - destruct (tag_of_name tag_names n); [|discriminate]. apply N.eqb_eq in A. subst. reflexivity.
  - destruct (name_of_tag tag_names t); [|discriminate]. apply String.eqb_eq in B. subst. reflexivity.
Qed.

Lemma name_of_tag_in tbl t n : name_of_tag tbl t = Some n -> In (t, n) tbl.
Proof.
  induction tbl as [|[t' n'] r IH]; [discriminate|]. cbn. destruct (N.eqb_spec t' t) as [->|]; [intros [= ->]; left; reflexivity|right; auto].
Qed.
Lemma tag_of_name_in tbl t n : tag_of_name tbl n = Some t -> In (t, n) tbl.
Proof.
  induction tbl as [|[t' n'] r IH]; [discriminate|]. cbn. destruct (String.eqb_spec n' n) as [->|]; [intros [= ->]; left; reflexivity|right; auto].
Qed.

(* the decimal form of a number starts with a digit *)
Lemma dec_starts_with_digit n : starts_with_digit (dec_of_N n) = true.
Proof.
  unfold dec_of_N. destruct (N.to_uint n) eqn:E; cbn; reflexivity.
Qed.

(* C14: a tag written to JSON reads back as itself - for every 32-bit tag, known or not *)
Theorem C14_json_tag t : unmarshal_tag (marshal_tag t) = Some t.
Proof.
  unfold marshal_tag, unmarshal_tag.
  destruct (name_of_tag tag_names t) as [n|] eqn:E.
  - apply name_of_tag_in in E. destruct (in_tag_names t n E) as [A _]. rewrite A. reflexivity.
  - destruct (tag_of_name tag_names (dec_of_N t)) as [t'|] eqn:F.
    + (* a known name equal to a decimal numeral: excluded by no_numeric_names *)
      exfalso. apply tag_of_name_in in F.
      pose proof no_numeric_names as Hn. unfold all_ok in Hn. rewrite forallb_forall in Hn. specialize (Hn _ F). cbv beta iota in Hn.
      rewrite dec_starts_with_digit in Hn. discriminate.
    + apply N_dec_roundtrip.
Qed.

Print Assumptions C14_json_tag.
