(* The JSON request parser instantiated with the generated vocabulary *)
From Coq Require Import List NArith ZArith String Ascii Bool.
Import ListNotations.
Require Import Codec Vocab JsonIn.
Local Open Scope N_scope.

Fixpoint string_of_bytes (s : list N) : string :=
  match s with [] => EmptyString | b :: r => String (ascii_of_N b) (string_of_bytes r) end.

(* Tag.UnmarshalJSON on a JSON string: a known name, or a decimal uint32 *)
Definition j_tag_of_name (s : list N) : option N := unmarshal_tag (string_of_bytes s).
Definition j_dt_of_name (s : list N) : option N := unmarshal_dt (string_of_bytes s).

Fixpoint jsize (j : json) : nat :=
  match j with
  | JArr l => S ((fix go (l : list json) : nat := match l with [] => O | x :: r => (jsize x + go r)%nat end) l)
  | JObj t d v => S ((match t with Some x => jsize x | None => O end) + (match d with Some x => jsize x | None => O end) +
                     (match v with Some x => jsize x | None => O end))
  | _ => 1%nat
  end.

Definition j_parse (j : json) : JsonIn.res message := parse j_tag_of_name j_dt_of_name tag_datatype (S (jsize j)) j.

(* unmarshalJSONRequests: the request text has to be an array; every element is one request *)
Fixpoint parse_all (l : list json) : JsonIn.res (list message) :=
  match l with
  | [] => JsonIn.Ok _ []
  | x :: r => match j_parse x, parse_all r with
              | JsonIn.Ok _ m, JsonIn.Ok _ ms => JsonIn.Ok _ (m :: ms)
              | _, _ => JsonIn.Err _
              end
  end.
Definition parse_requests (j : json) : JsonIn.res (list message) :=
  match j with JArr l => parse_all l | _ => JsonIn.Err _ end.
