(* The totalised block functions of Cipher.v are mutually inverse on every 32-element list, hence the generic
   CBC theorem applies without side conditions on the data. *)
From Coq Require Import List Arith NArith Lia Bool.
Import ListNotations.
Require Import Bytes CBC CBCInst Rijndael RijP1 RijP2 RijP3 RijP4 Cipher.
Local Open Scope N_scope.

Lemma bytesb_spec b : bytesb b = true <-> bytes_ok b.
Proof.
  unfold bytesb, bytes_ok, byte. rewrite forallb_forall, Forall_forall.
  split; intros H x Hx; specialize (H x Hx); [apply N.ltb_lt|apply N.ltb_lt]; exact H.
Qed.

Lemma encrypt_block_good ks b : good_ks ks -> good b -> good (encrypt_block ks b).
Proof.
  intros G [Lb Bb]. unfold encrypt_block.
  pose proof (round_key_good ks 0 G ltac:(lia)) as [L0 B0].
  pose proof (round_key_good ks 14 G ltac:(lia)) as [L14 B14].
  set (s0 := xor_bytes b (round_key ks 0)).
  assert (G0 : good s0) by (split; [unfold s0; rewrite xor_bytes_len; lia|apply xor_bytes_ok; assumption]).
  destruct (rounds_inv ks G 13 s0 ltac:(lia) G0) as [[L13 B13] _].
  set (s13 := enc_rounds ks 13 1 s0) in *.
  assert (L1 : length (map sbox s13) = 32%nat) by (rewrite map_length; exact L13).
  pose proof (shift_rows_bytes _ L1 (bytes_map_sbox s13 B13)) as B2.
  pose proof (shift_rows_length (map sbox s13)) as L2.
  split; [rewrite xor_bytes_len; lia|apply xor_bytes_ok; assumption].
Qed.

Section Key.
  Variable key : list N.
  Hypothesis Lk : length key = 32%nat.
  Hypothesis Bk : bytes_ok key.
  Let ks := key_schedule key.

  Lemma D_E b : length b = 32%nat -> D ks (E ks b) = b.
  Proof.
    intro Lb. unfold E, D. destruct (bytesb b) eqn:Hb.
    - apply bytesb_spec in Hb.
      destruct (encrypt_block_good ks b (key_schedule_good key Lk Bk) (conj Lb Hb)) as [_ Be].
      apply bytesb_spec in Be. rewrite Be.
      apply decrypt_encrypt_block; [apply key_schedule_good; assumption|split; assumption].
    - rewrite Hb. reflexivity.
  Qed.
  Lemma E_len b : length b = 32%nat -> length (E ks b) = 32%nat.
  Proof.
    intro Lb. unfold E. destruct (bytesb b) eqn:Hb; [|exact Lb].
    apply bytesb_spec in Hb. exact (proj1 (encrypt_block_good ks b (key_schedule_good key Lk Bk) (conj Lb Hb))).
  Qed.

  Definition al (c : list N) := (length c mod 32 = 0)%nat.
  Lemma al_len c : al c -> length c = (32 * (length c / 32))%nat.
  Proof. unfold al. intro H. pose proof (Nat.div_mod (length c) 32 ltac:(discriminate)). lia. Qed.

  (* decrypting what was encrypted returns the plaintext, and both chains end on the same block *)
  Theorem c_dec_enc iv p : length iv = 32%nat -> al p ->
    c_dec ks iv (fst (c_enc ks iv p)) = (p, snd (c_enc ks iv p)) /\
    length (fst (c_enc ks iv p)) = length p /\ length (snd (c_enc ks iv p)) = 32%nat.
  Proof.
    intros Liv Ha. unfold c_dec, c_enc.
    destruct (cbc_dec_enc (E ks) (D ks) D_E E_len (length p / 32) iv p Liv (al_len p Ha)) as (A & B & C).
    rewrite B. rewrite <- (al_len p Ha).
    rewrite A. auto.
  Qed.
  Lemma inv_shift_rows_length s : length (inv_shift_rows s) = 32%nat.
  Proof. unfold inv_shift_rows. rewrite map_length, seq_length. reflexivity. Qed.
  Lemma dec_rounds_len : forall n s, length s = 32%nat -> length (dec_rounds ks n s) = 32%nat.
  Proof.
    induction n as [|n IH]; intros s Ls; [exact Ls|]. cbn [dec_rounds]. apply IH.
    rewrite map_length. apply inv_shift_rows_length.
  Qed.
  Lemma D_len b : length b = 32%nat -> length (D ks b) = 32%nat.
  Proof.
    intro Lb. unfold D. destruct (bytesb b); [|exact Lb]. unfold decrypt_block.
    pose proof (round_key_good ks 0 (key_schedule_good key Lk Bk) ltac:(lia)) as [L0 _].
    rewrite xor_bytes_len; [|rewrite L0]; apply dec_rounds_len; rewrite map_length; apply inv_shift_rows_length.
  Qed.

  Lemma cbc_dec_len : forall n iv c, length iv = 32%nat -> length c = (32 * n)%nat ->
    length (fst (cbc_dec (D ks) n iv c)) = (32 * n)%nat.
  Proof.
    induction n as [|n IH]; intros iv c Liv Lc; [reflexivity|].
    cbn [cbc_dec].
    assert (Lf : length (firstn 32 c) = 32%nat) by (rewrite firstn_length; lia).
    specialize (IH (firstn 32 c) (skipn 32 c) Lf ltac:(rewrite skipn_length; lia)).
    destruct (cbc_dec (D ks) n (firstn 32 c) (skipn 32 c)) as [rest iv']. cbn [fst] in *.
    rewrite app_length, xor_bytes_len, IH; rewrite D_len; lia.
  Qed.
  Lemma c_dec_len iv c : length iv = 32%nat -> al c -> length (fst (c_dec ks iv c)) = length c /\ length (snd (c_dec ks iv c)) = 32%nat.
  Proof.
    intros Liv Ha. unfold c_dec. split.
    - rewrite cbc_dec_len; [symmetry; apply al_len, Ha|exact Liv|apply al_len, Ha].
    - apply CBCInst.cbc_dec_iv_len; [exact Liv|apply al_len, Ha].
  Qed.
  (* decrypting chunk by chunk, each chained from the last cipher block of the one before, is decrypting the whole *)
  Lemma c_dec_app iv a b : length iv = 32%nat -> al a -> al b ->
    c_dec ks iv (a ++ b) = (fst (c_dec ks iv a) ++ fst (c_dec ks (snd (c_dec ks iv a)) b), snd (c_dec ks (snd (c_dec ks iv a)) b)).
  Proof.
    intros Liv Ha Hb. unfold c_dec.
    assert (E : (length (a ++ b) / 32 = length a / 32 + length b / 32)%nat).
    { rewrite app_length, (al_len a Ha) at 1. rewrite (Nat.mul_comm 32), Nat.div_add_l by discriminate. reflexivity. }
    rewrite E. apply CBCInst.cbc_dec_app; [exact Liv|apply al_len, Ha].
  Qed.
End Key.

Lemma key_pad_len k : length (key_pad k) = 32%nat.
Proof. unfold key_pad. rewrite firstn_length, app_length, repeat_length. lia. Qed.
Lemma key_pad_bytes k : bytes_ok k -> bytes_ok (key_pad k).
Proof.
  intro H. unfold key_pad, bytes_ok in *. apply Forall_forall. intros x Hx.
  assert (Hin : In x (k ++ repeat 255 32)).
  { clear H. revert Hx. generalize (k ++ repeat 255 32). generalize 32%nat.
    induction n as [|n IH]; intros l Hx; [destruct Hx|]. destruct l; [destruct Hx|].
    destruct Hx as [->|Hx]; [left; reflexivity|right; apply IH; exact Hx]. }
  apply in_app_or in Hin. destruct Hin as [Hin|Hin]; [exact (proj1 (Forall_forall _ _) H x Hin)|].
  apply repeat_spec in Hin. subst. unfold byte. lia.
Qed.
Lemma iv0_len : length iv0 = 32%nat. Proof. reflexivity. Qed.
