(* C05: model of Message.validate (after the D5/D16 repairs) and its equivalence with wf_msg *)
From Coq Require Import List Arith NArith ZArith Lia Bool.
Import ListNotations.
Require Import Codec CodecProofs.
Local Open Scope N_scope.

(* nested induction principle for message trees *)
Section MsgInd.
  Variable P : message -> Prop.
  Variable Q : gval -> Prop.
  Hypothesis HM : forall t d v, Q v -> P (Msg t d v).
  Hypothesis HMsgs : forall ms, Forall P ms -> Q (GMsgs ms).
  Hypothesis HOther : forall v, (forall ms, v <> GMsgs ms) -> Q v.

  Fixpoint msg_ind' (m : message) : P m :=
    match m with
    | Msg t d v => HM t d v (val_ind' v)
    end
  with val_ind' (v : gval) : Q v :=
    match v as v0 return Q v0 with
    | GMsgs ms => HMsgs ms ((fix go (l : list message) : Forall P l :=
                               match l with [] => Forall_nil P | x :: r => Forall_cons x (msg_ind' x) (go r) end) ms)
    | v0 => HOther v0 ltac:(intros ms E; discriminate E)
    end.
End MsgInd.

(* what the Go type system guarantees about a value, whatever its data type field says *)
Fixpoint repr_val (v : gval) : Prop :=
  match v with
  | GI8 z => in_s 8 z | GU8 n => n < 256 | GI16 z => in_s 16 z | GU16 n => n < 65536
  | GI32 z => in_s 32 z | GU32 n => n < 2 ^ 32 | GI64 z => in_s 64 z | GU64 n => n < 2 ^ 64
  | GF32 b => b < 2 ^ 32 | GF64 b => b < 2 ^ 64
  | GStr s => bytes_ok s | GBytes s => bytes_ok s
  | GTime s ns => in_s 64 s /\ (0 <= ns < 1000000000)%Z
  | GErr n => n < 2 ^ 32
  | GMsgs ms => (fix all (l : list message) : Prop :=
                   match l with [] => True | Msg t d v :: r => (t < 2 ^ 32 /\ repr_val v) /\ all r end) ms
  | _ => True
  end.
Definition repr_msg (m : message) : Prop := match m with Msg t d v => t < 2 ^ 32 /\ repr_val v end.

(* isValidValue: the Go kind of the value is the one the data type expects *)
Definition kind_ok (dt : N) (v : gval) : bool :=
  match v with
  | GNil => dt =? 0 | GBool _ => dt =? 1 | GI8 _ => dt =? 2 | GU8 _ => (dt =? 3) || (dt =? 12)
  | GI16 _ => dt =? 4 | GU16 _ => dt =? 5 | GI32 _ => dt =? 6 | GU32 _ => dt =? 7
  | GI64 _ => dt =? 8 | GU64 _ => dt =? 9 | GF32 _ => dt =? 10 | GF64 _ => dt =? 11
  | GStr _ => dt =? 13 | GMsgs _ => dt =? 14 | GTime _ _ => dt =? 15 | GBytes _ => dt =? 16
  | GErr _ => dt =? 255 | GOther _ => false
  end.

Fixpoint validb (m : message) : bool :=
  match m with
  | Msg t d v =>
    kind_ok d v && (N.of_nat (length (enc_val v)) <=? max_data) &&
    match v with
    | GMsgs ms => (fix all (l : list message) : bool := match l with [] => true | x :: r => validb x && all r end) ms
    | _ => true
    end
  end.

Lemma forall_fix_b (ms : list message) :
  (fix all (l : list message) : bool := match l with [] => true | x :: r => validb x && all r end) ms = forallb validb ms.
Proof. induction ms as [|x r IH]; [reflexivity|]. cbn. rewrite IH. reflexivity. Qed.

Lemma repr_all_iff ms :
  (fix all (l : list message) : Prop :=
     match l with [] => True | Msg t d v :: r => (t < 2 ^ 32 /\ repr_val v) /\ all r end) ms <-> Forall repr_msg ms.
Proof.
  induction ms as [|[t d v] r IH]; [split; constructor|]. split.
  - intros [H1 H2]. constructor; [exact H1|apply IH, H2].
  - intro H. inversion H; subst. split; [assumption|apply IH; assumption].
Qed.

Theorem validb_wf : forall m, repr_msg m -> (validb m = true <-> wf_msg m).
Proof.
  apply (msg_ind' (fun m => repr_msg m -> (validb m = true <-> wf_msg m))
                  (fun v => forall t d, repr_msg (Msg t d v) -> (validb (Msg t d v) = true <-> wf_msg (Msg t d v)))).
  - intros t d v H. apply H.
  - intros ms IH t d [Ht Hr]. cbn [repr_val] in Hr. apply repr_all_iff in Hr.
    cbn [validb wf_msg wf_val kind_ok]. rewrite forall_fix_b.
    assert (E : forallb validb ms = true <-> Forall wf_msg ms).
    { rewrite forallb_forall, Forall_forall. rewrite Forall_forall in IH, Hr.
      split; intros H x Hx; [apply (IH x Hx (Hr x Hx)), H, Hx|apply (IH x Hx (Hr x Hx)), H, Hx]. }
    rewrite !andb_true_iff, N.eqb_eq, N.leb_le, E, <- wf_all_iff. cbn [enc_val]. tauto.
  - intros v Hn t d [Ht Hr].
    destruct v; try (exfalso; eapply Hn; reflexivity); cbn [validb wf_msg wf_val kind_ok repr_val enc_val] in *;
      rewrite ?andb_true_iff, ?orb_true_iff, ?N.eqb_eq, ?N.leb_le, ?app_length, ?le_length; cbn [length];
      unfold max_data; intuition (try lia; try discriminate).
Qed.

Print Assumptions validb_wf.
