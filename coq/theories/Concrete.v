(* Concrete instance of the unified client model: RSCP frames, CRC, Rijndael-256/CBC, request validation *)
From Coq Require Import List NArith ZArith Bool.
Import ListNotations.
Require Import Codec CRC Frame Rijndael Cipher Validate Client.
Local Open Scope N_scope.


Definition c_encode (crc : bool) (ts : Z * Z) (ms : list message) : list N := pad32 (frame (fst ts) (snd ts) crc ms).

(* what Client.receive does with the result of rscp.Read on the plaintext received so far *)
Definition header_ok (p : list N) : bool :=
  let c := unle (firstn 2 (skipn 2 p)) in
  (unle (firstn 2 p) =? magic) && (N.lor c ctrl_mask =? ctrl_mask) && (N.land c ver_mask =? ver1).
Definition c_verdict (b : list N) : option (option (list message)) :=
  match decode_frame b with
  | Accept [] => Some None                      (* m == nil: the loop goes on *)
  | Accept ms => Some (Some ms)
  | NeedMore => Some None
  | Reject =>
    if header_ok b then
      let c := unle (firstn 2 (skipn 2 b)) in
      let crc := negb (N.land c crc_bit =? 0) in
      let fsize := (hdr + N.to_nat (unle (firstn 2 (skipn 16 b))) + (if crc then 4 else 0))%nat in
      if (fsize <=? length b)%nat && negb (all_zero (skipn fsize b)) then Some None   (* "unexpected data after the frame" *)
      else None
    else None
  end.
Definition c_decode_step (buf pt : list N) := (c_verdict (buf ++ pt), buf ++ pt).

Definition is_request (tag : N) : bool := negb (N.testbit tag 23).
Definition c_valid (ms : list message) : bool :=
  forallb (fun m => match m with Msg t _ _ => is_request t && validb m end) ms &&
  (N.of_nat (length (enc_items ms)) <=? 65535).

Definition c_auth_req (user pass : list N) : list message :=
  [Msg 1 14 (GMsgs [Msg 2 13 (GStr user); Msg 3 13 (GStr pass)])].
Definition c_auth_ok (ms : list message) : bool :=
  match ms with
  | Msg tag _ v :: _ => (tag =? 8388609) && match v with GU8 n => negb (n =? 0) | GI32 z => negb (z =? 0)%Z | _ => false end
  | [] => false
  end.

(* a scripted transport: dial and writes succeed, reads come from a list, time stands still *)
Record senv := { s_reads : list (rres); s_now : Z * Z }.
Definition s_read (e : senv) (n : nat) : senv * rres * Z :=
  match s_reads e with
  | [] => (e, RTimeout, 0%Z)
  | r :: rest => ({| s_reads := rest; s_now := s_now e |}, r, 0%Z)
  end.
Definition scripted : envsm senv :=
  {| on_dial := fun e => (e, true, 0%Z); on_write := fun e _ => (e, true, 0%Z); on_read := s_read;
     on_close := fun e => e; on_now := fun e => (e, s_now e) |}.

Definition session (key user pass : list N) (crc : bool) (now : Z * Z) (reads : list (list N)) (level : N)
                   (reqs : list (list message)) : list (event message) :=
  let ks := key_schedule (key_pad key) in
  let w0 := init_world message senv {| s_reads := map RData reads; s_now := now |} level in
  let calls := map (fun ms => CSend message 100000 ms) reqs in
  let '(_, w) := run message (c_encode crc) c_decode_step (c_enc ks) (c_dec ks) iv0 c_valid (c_auth_req user pass) c_auth_ok
                     3000000000 3000000000 3000000000 32 senv scripted (init_state iv0) w0 calls in
  rev (out message senv w).
