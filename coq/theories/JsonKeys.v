(* C13: every object of the jsonmerged document has pairwise distinct keys, printed in ascending tag order - so "a key
   holds ..." is unambiguous and the document is a JSON object in the strict sense (no duplicate member names).
   Every object of the document is `merged` of some message list (C13_merged_entry: the value under a key is JO (merged c) or
   JA (map merged cs)), so the statement for `merged l`, for all l, covers every nesting level. *)
From Coq Require Import List Arith NArith ZArith Lia Bool Sorting.Sorted Sorting.Permutation.
Import ListNotations.
Require Import Codec Vocab VocabProofs JsonOut JsonOutProofs JsonDoc.
Local Open Scope N_scope.

Lemma set_keys k v o : In k (map fst o) -> map fst (set k v o) = map fst o.
Proof.
  induction o as [|[k' v'] r IH]; intro H; [contradiction|]. cbn [set].
  destruct (N.eqb_spec k' k) as [->|Hne]; [reflexivity|]. cbn [map fst]. f_equal. apply IH.
  destruct H as [H|H]; [cbn in H; congruence|exact H].
Qed.
Lemma set_keys_new k v o : ~ In k (map fst o) -> map fst (set k v o) = map fst o ++ [k].
Proof.
  induction o as [|[k' v'] r IH]; intro H; [reflexivity|]. cbn [set].
  destruct (N.eqb_spec k' k) as [->|Hne]; [exfalso; apply H; left; reflexivity|]. cbn [map fst app]. f_equal. apply IH.
  intro Hin. apply H. right. exact Hin.
Qed.
Lemma nodup_snoc (l : list N) k : NoDup l -> ~ In k l -> NoDup (l ++ [k]).
Proof.
  intros H Hk. apply (Permutation_NoDup (l := k :: l)); [|constructor; assumption].
  change (k :: l) with ([k] ++ l). apply Permutation_app_comm.
Qed.
Lemma set_nodup k v o : NoDup (map fst o) -> NoDup (map fst (set k v o)).
Proof.
  intro H. destruct (in_dec N.eq_dec k (map fst o)) as [Hin|Hni].
  - rewrite set_keys by exact Hin. exact H.
  - rewrite set_keys_new by exact Hni. apply nodup_snoc; assumption.
Qed.
Lemma ins_cont_nodup k sub o : NoDup (map fst o) -> NoDup (map fst (ins_cont k sub o)).
Proof. intro H. unfold ins_cont. destruct (lookup k o) as [[v|x|l]|]; apply set_nodup; exact H. Qed.
Lemma ins_scalar_nodup k v o : NoDup (map fst o) -> NoDup (map fst (ins_scalar k v o)).
Proof. intro H. unfold ins_scalar. destruct (lookup k o) as [[v'|x|l]|]; try exact H; apply set_nodup; exact H. Qed.
Lemma into_nodup m o : NoDup (map fst o) -> NoDup (map fst (into m o)).
Proof.
  intro H. destruct m as [k d v]. destruct v; try (cbn [into]; apply ins_scalar_nodup; exact H).
  rewrite into_cont. apply ins_cont_nodup. exact H.
Qed.
Lemma merged_from_nodup l : forall acc, NoDup (map fst acc) -> NoDup (map fst (merged_from l acc)).
Proof.
  unfold merged_from. induction l as [|x r IH]; intros acc H; [exact H|]. cbn [fold_left]. apply IH. apply into_nodup. exact H.
Qed.
(* every object built by the grouping has pairwise distinct keys *)
Theorem merged_keys_nodup l : NoDup (map fst (merged l)).
Proof. apply merged_from_nodup. constructor. Qed.

(* the order in which MarshalJSON prints the members: ascending tag number, the same members *)
Lemma insert_sorted_perm k v o : Permutation (insert_sorted k v o) ((k, v) :: o).
Proof.
  induction o as [|[k' v'] r IH]; [reflexivity|]. cbn [insert_sorted]. destruct (k <=? k'); [reflexivity|].
  rewrite IH. apply perm_swap.
Qed.
Theorem sort_obj_perm o : Permutation (sort_obj o) o.
Proof.
  unfold sort_obj. induction o as [|[k v] r IH]; [reflexivity|]. cbn [fold_right fst snd].
  rewrite insert_sorted_perm. constructor. exact IH.
Qed.
Lemma insert_sorted_sorted k v o : Sorted (fun a b => fst a <= fst b) o -> Sorted (fun a b => fst a <= fst b) (insert_sorted k v o).
Proof.
  induction o as [|[k' v'] r IH]; intro H; [repeat constructor|]. cbn [insert_sorted].
  destruct (N.leb_spec k k') as [Hle|Hgt].
  - constructor; [exact H|]. constructor. exact Hle.
  - inversion H as [|a l Hs Hh]; subst. constructor; [apply IH; exact Hs|].
    destruct r as [|[k2 v2] r2]; cbn [insert_sorted].
    + constructor. cbn. lia.
    + destruct (k <=? k2); constructor; cbn; [lia|]. inversion Hh; subst. assumption.
Qed.
Theorem sort_obj_sorted o : Sorted (fun a b => fst a <= fst b) (sort_obj o).
Proof.
  unfold sort_obj. induction o as [|[k v] r IH]; [constructor|]. cbn [fold_right fst snd]. apply insert_sorted_sorted. exact IH.
Qed.
(* ... so the printed object has the members of the grouped object, pairwise distinct keys, ascending *)
Theorem printed_keys l :
  NoDup (map fst (sort_obj (merged l))) /\ Sorted (fun a b => fst a <= fst b) (sort_obj (merged l)) /\
  Permutation (sort_obj (merged l)) (merged l).
Proof.
  split; [|split; [apply sort_obj_sorted|apply sort_obj_perm]].
  apply (Permutation_NoDup (l := map fst (merged l))); [|apply merged_keys_nodup].
  apply Permutation_map. symmetry. apply sort_obj_perm.
Qed.

(* ---- the member NAMES (the strings MarshalJSON prints for the tags) are pairwise distinct too ---- *)
Lemma marshal_tag_inj t1 t2 : t1 < 4294967296 -> t2 < 4294967296 -> marshal_tag t1 = marshal_tag t2 -> t1 = t2.
Proof.
  intros H1 H2 E. pose proof (C14_json_tag t1 H1) as A. pose proof (C14_json_tag t2 H2) as B. rewrite E in A. congruence.
Qed.
Lemma in_keys_lookup k o : In k (map fst o) -> lookup k o <> None.
Proof.
  induction o as [|[k' v] r IH]; intro H; [contradiction|]. cbn [lookup].
  destruct (N.eqb_spec k' k) as [->|Hne]; [discriminate|]. apply IH. destruct H as [H|H]; [cbn in H; congruence|exact H].
Qed.
Lemma merged_keys_are_tags l k : In k (map fst (merged l)) -> exists d v, In (Msg k d v) l.
Proof.
  intro H. apply in_keys_lookup in H. apply C13_keys in H. apply existsb_exists in H. destruct H as [[k' d v] [Hin Ht]].
  cbn [tagged] in Ht. apply N.eqb_eq in Ht. subst k'. exists d, v. exact Hin.
Qed.
Lemma nodup_map_inj (f : N -> String.string) (l : list N) :
  (forall a b, In a l -> In b l -> f a = f b -> a = b) -> NoDup l -> NoDup (map f l).
Proof.
  induction l as [|a r IH]; intros Hinj H; [constructor|]. inversion H as [|x y Hni Hr]; subst. cbn [map]. constructor.
  - intro Hin. apply in_map_iff in Hin. destruct Hin as [b [Hb Hbin]]. apply Hni.
    rewrite (Hinj a b (or_introl eq_refl) (or_intror Hbin) (eq_sym Hb)). exact Hbin.
  - apply IH; [|exact Hr]. intros x y Hx Hy. apply Hinj; right; assumption.
Qed.
Theorem printed_names_distinct l : Forall (fun m => match m with Msg t _ _ => t < 4294967296 end) l ->
  NoDup (map (fun kv => marshal_tag (fst kv)) (sort_obj (merged l))).
Proof.
  intro Hl. rewrite <- (map_map fst marshal_tag). apply nodup_map_inj; [|apply printed_keys].
  assert (B : forall k, In k (map fst (sort_obj (merged l))) -> k < 4294967296).
  { intros k Hk. assert (Hk' : In k (map fst (merged l))).
    { revert Hk. apply Permutation_in. apply Permutation_map. apply sort_obj_perm. }
    destruct (merged_keys_are_tags l k Hk') as (d & v & Hin). rewrite Forall_forall in Hl. exact (Hl _ Hin). }
  intros a b Ha Hb. apply marshal_tag_inj; auto.
Qed.
Print Assumptions printed_keys. Print Assumptions printed_names_distinct.
