(* C17, codec half: separate encode/decode calls on separate cipher states, interleaved in any order, give each caller
   exactly the results it would get running alone. Generic over any step function that depends on nothing but its own
   state and its argument (that the real Write/Read are such functions - no package state - is what the footprint scan and
   the concurrent correspondence runs check); instantiated with the model of rscp.Write / rscp.Read on caller-owned
   cipher states and reader buffers (Wire.model_write, Wire.model_read_step). *)
From Coq Require Import List NArith ZArith Bool Arith.
Import ListNotations.
Require Import Codec Frame Reader Wire.

Section Interleave.
  Variables (St Op Out : Type) (step : St -> Op -> St * Out).
  Definition states := nat -> St.
  Definition set_state (f : states) (i : nat) (v : St) : states := fun j => if Nat.eqb j i then v else f j.

  (* the merged run: the calls of all callers in schedule order *)
  Fixpoint run_merged (sched : list (nat * Op)) (f : states) : states * list (nat * Out) :=
    match sched with
    | [] => (f, [])
    | (i, o) :: rest =>
      let '(s', r) := step (f i) o in
      let '(f', rs) := run_merged rest (set_state f i s') in (f', (i, r) :: rs)
    end.
  (* caller i alone, on its own calls *)
  Fixpoint run_alone (i : nat) (sched : list (nat * Op)) (s : St) : St * list Out :=
    match sched with
    | [] => (s, [])
    | (j, o) :: rest =>
      if Nat.eqb j i then let '(s', r) := step s o in let '(s2, rs) := run_alone i rest s' in (s2, r :: rs)
      else run_alone i rest s
    end.
  Fixpoint outs_of (i : nat) (rs : list (nat * Out)) : list Out :=
    match rs with [] => [] | (j, r) :: t => if Nat.eqb j i then r :: outs_of i t else outs_of i t end.

  Theorem interleave : forall sched (f : states) i,
    let '(f', rs) := run_merged sched f in
    let '(s1, rs1) := run_alone i sched (f i) in
    f' i = s1 /\ outs_of i rs = rs1.
  Proof.
    induction sched as [|[j o] rest IH]; intros f i; [cbn; auto|].
    cbn [run_merged run_alone].
    destruct (step (f j) o) as [s' r] eqn:Es.
    specialize (IH (set_state f j s') i).
    destruct (run_merged rest (set_state f j s')) as [f' rs].
    cbn [outs_of]. unfold set_state in IH.
    destruct (Nat.eqb_spec j i) as [->|Hne].
    - rewrite Nat.eqb_refl in IH. rewrite Es.
      destruct (run_alone i rest s') as [s2 rs2]. destruct IH as [H1 H2]. split; [exact H1|]. rewrite H2. reflexivity.
    - assert (E : Nat.eqb i j = false) by (apply Nat.eqb_neq; auto). rewrite E in IH.
      destruct (run_alone i rest (f i)) as [s2 rs2]. destruct IH as [H1 H2]. auto.
  Qed.

  (* ... and a caller that is not scheduled at all keeps its state *)
  Theorem untouched : forall sched (f : states) i, (forall o, ~ In (i, o) sched) -> fst (run_merged sched f) i = f i.
  Proof.
    induction sched as [|[j o] rest IH]; intros f i H; [reflexivity|]. cbn [run_merged].
    destruct (step (f j) o) as [s' r]. specialize (IH (set_state f j s') i).
    destruct (run_merged rest (set_state f j s')) as [f' rs]. cbn [fst] in *.
    rewrite IH; [|intros o' Hin; apply (H o'); right; exact Hin].
    unfold set_state. destruct (Nat.eqb_spec i j) as [->|]; [exfalso; apply (H o); left; reflexivity|reflexivity].
  Qed.
End Interleave.

(* ---- the codec instance: one caller = one key schedule, its two cipher chains and its reader buffer ---- *)
Record codec_state := { cs_ks : list N; cs_enc : list N; cs_dec : list N; cs_rst : rstate }.
Inductive codec_op := OWrite (crc : bool) (sec nsec : Z) (ms : list message) | ORead (chunk : list N).
Inductive codec_out := OutBytes (c : list N) | OutVerdict (v : verdict).
Definition codec_step (s : codec_state) (o : codec_op) : codec_state * codec_out :=
  match o with
  | OWrite crc sec nsec ms =>
    let '(c, iv') := model_write (cs_ks s) (cs_enc s) crc sec nsec ms in
    ({| cs_ks := cs_ks s; cs_enc := iv'; cs_dec := cs_dec s; cs_rst := cs_rst s |}, OutBytes c)
  | ORead chunk =>
    let '(st', iv', v) := model_read_step (cs_ks s) (cs_rst s) (cs_dec s) chunk in
    ({| cs_ks := cs_ks s; cs_enc := cs_enc s; cs_dec := iv'; cs_rst := st' |}, OutVerdict v)
  end.

Theorem codec_interleave : forall sched (f : states codec_state) i,
  let '(f', rs) := run_merged _ _ _ codec_step sched f in
  let '(s1, rs1) := run_alone _ _ _ codec_step i sched (f i) in
  f' i = s1 /\ outs_of _ i rs = rs1.
Proof. exact (interleave codec_state codec_op codec_out codec_step). Qed.
Print Assumptions codec_interleave.
