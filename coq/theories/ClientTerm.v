(* C10, no spinning: if every Read of the transport takes at least delta > 0 of (model) time - the time it waits for data plus
   the time the client needs to handle what it got - the receive loop runs at most recv_to / delta + 1 times, whatever the peer
   sends: with that much fuel a call never ends in the model's out-of-fuel value, i.e. it returns. *)
From Coq Require Import List Arith NArith ZArith Lia Bool.
Import ListNotations.
Require Import Client.
Local Open Scope Z_scope.

Section Term.
  Variable msg : Type.
  Variable encode : Z * Z -> list msg -> list N.
  Variable decode_step : list N -> list N -> option (option (list msg)) * list N.
  Variable enc : list N -> list N -> list N * list N.
  Variable dec : list N -> list N -> list N * list N.
  Variable iv0 : list N.
  Variable valid_req : list msg -> bool.
  Variable auth_req : list msg.
  Variable auth_ok : list msg -> bool.
  Variables conn_to send_to recv_to : Z.
  Variable rbuf : nat.
  Variable E : Type.
  Variable m : envsm E.
  Variable delta : Z.
  Hypothesis delta_pos : 0 < delta.
  Hypothesis slow_reads : forall e n, delta <= snd (on_read E m e n).

  Notation world := (world msg E).
  Notation recv_loop := (recv_loop msg decode_step dec rbuf E m).
  Notation receive := (receive msg decode_step dec recv_to rbuf E m).
  Notation send := (send msg encode enc valid_req send_to E m).
  Notation authenticate := (authenticate msg encode decode_step enc dec valid_req auth_req auth_ok send_to recv_to rbuf E m).
  Notation send_multiple := (send_multiple msg encode decode_step enc dec iv0 valid_req auth_req auth_ok conn_to send_to recv_to rbuf E m).
  Notation disconnect := (disconnect msg E m).
  Notation connect := (connect msg iv0 conn_to E m).

  Definition running (r : res (list msg)) : Prop := r = Err _ ERunning.

  Lemma recv_fuel : forall fuel deadline buf pend s w s' w' r,
    clock msg E w <= deadline -> deadline - clock msg E w < delta * Z.of_nat fuel ->
    recv_loop fuel deadline buf pend s w = (s', w', r) -> ~ running r.
  Proof.
    induction fuel as [|f IH]; intros deadline buf pend s w s' w' r Hd Hf; cbn [Client.recv_loop].
    - cbn in Hf. lia.
    - destruct (cur msg E w) as [j|]; [|intros [= <- <- <-]; discriminate].
      pose proof (slow_reads (est msg E w) rbuf) as Hs.
      destruct (on_read E m (est msg E w) rbuf) as [[e' rr] d]. cbn [snd] in Hs.
      assert (Hdur : dur d = d) by (unfold dur; lia).
      destruct (Z.ltb_spec deadline (clock msg E w + dur d)) as [Hlt|Hge].
      + destruct (disconnect _ _) as [s2 w2]. intros [= <- <- <-]. discriminate.
      + set (w1 := upd msg E w (Some j) (next msg E w) e' (clock msg E w + dur d) [EvRead msg j rr]).
        assert (H1 : clock msg E w1 <= deadline /\ deadline - clock msg E w1 < delta * Z.of_nat f).
        { cbn [clock w1 Client.upd]. rewrite Hdur in *. rewrite Nat2Z.inj_succ in Hf. nia. }
        destruct H1 as [H1 H2].
        destruct rr as [b| |]; [|destruct (disconnect _ _) as [s2 w2]; intros [= <- <- <-]; discriminate|destruct (disconnect _ _) as [s2 w2]; intros [= <- <- <-]; discriminate].
        destruct (length b =? 0)%nat; [intros [= <- <- <-]; discriminate|].
        destruct ((32 * (length (pend ++ b) / 32)) =? 0)%nat.
        * apply IH; assumption.
        * destruct (dec (div s) _) as [pt iv'].
          destruct (decode_step buf pt) as [[[rms|]|] buf'].
          -- intros [= <- <- <-]. discriminate.
          -- apply IH; assumption.
          -- destruct (disconnect _ _) as [s2 w2]. intros [= <- <- <-]. discriminate.
  Qed.

  Variable fuel : nat.
  Hypothesis recv_pos : 0 <= recv_to.
  Hypothesis fuel_enough : recv_to < delta * Z.of_nat fuel.

  Lemma receive_returns s w s' w' r : receive fuel s w = (s', w', r) -> ~ running r.
  Proof.
    unfold Client.receive. destruct (cur msg E w); [|intros [= <- <- <-]; discriminate].
    apply recv_fuel; cbn [clock Client.emit Client.upd]; lia.
  Qed.

  Lemma send_returns s w ms s' w' (r : res unit) : send s w ms = (s', w', r) -> r <> Err _ ERunning.
  Proof.
    unfold Client.send. destruct (negb (valid_req ms)); [intros [= <- <- <-]; discriminate|].
    destruct (cur msg E w); [|intros [= <- <- <-]; discriminate].
    destruct (on_now _ _ _) as [e1 ts]. destruct (enc _ _) as [ct iv']. destruct (on_write _ _ _ _) as [[e' ok] d].
    destruct (_ && _); [intros [= <- <- <-]; discriminate|].
    destruct (disconnect _ _) as [s2 w2]. intros [= <- <- <-]. discriminate.
  Qed.

  Lemma authenticate_returns s w s' w' (r : res unit) : authenticate fuel s w = (s', w', r) -> r <> Err _ ERunning.
  Proof.
    unfold Client.authenticate.
    destruct (send s _ auth_req) as [[s1 w1] r1] eqn:Es. apply send_returns in Es.
    destruct r1 as [u|x]; [|intros [= <- <- <-]; congruence].
    destruct (receive fuel s1 _) as [[s2 w2] [ms|x]] eqn:Er; apply receive_returns in Er.
    - destruct (auth_ok ms); intros [= <- <- <-]; discriminate.
    - intros [= <- <- <-]. intro H. apply Er. unfold running. congruence.
  Qed.

  (* C10 (termination): with slow reads and fuel > recv_to / delta, a call never runs out of fuel *)
  Theorem C10_returns s w ms s' w' r : send_multiple fuel s w ms = (s', w', r) -> ~ running r.
  Proof.
    unfold Client.send_multiple.
    assert (Hc : forall s0 w0 r0, (match cur msg E w with None => connect s w | Some _ => (s, w, Ok _ tt) end) = (s0, w0, r0) -> r0 <> Err _ ERunning).
    { intros s0 w0 r0. destruct (cur msg E w); [intros [= <- <- <-]; discriminate|].
      unfold Client.connect. destruct (on_dial _ _ _) as [[e' ok] d]. destruct (_ && _); intros [= <- <- <-]; discriminate. }
    destruct (match cur msg E w with None => connect s w | Some _ => (s, w, Ok _ tt) end) as [[s0 w0] r0] eqn:E0.
    specialize (Hc _ _ _ eq_refl).
    destruct r0 as [u0|x0]; [|intros [= <- <- <-]; unfold running; congruence].
    destruct (if authed s0 then (s0, w0, Ok _ tt) else authenticate fuel s0 w0) as [[s1 w1] r1] eqn:E1.
    assert (H1 : r1 <> Err _ ERunning).
    { destruct (authed s0); [injection E1 as <- <- <-; discriminate|eapply authenticate_returns; exact E1]. }
    destruct r1 as [u1|x1]; [|intros [= <- <- <-]; unfold running; congruence].
    destruct (send s1 w1 ms) as [[s2 w2] [u|x]] eqn:Es; pose proof (send_returns _ _ _ _ _ _ Es) as H2.
    - apply receive_returns.
    - intros [= <- <- <-]. unfold running. congruence.
  Qed.
End Term.

Print Assumptions C10_returns.
