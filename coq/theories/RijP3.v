From Coq Require Import List Arith NArith Lia Bool.
Import ListNotations.
Require Import Rijndael RijP1 RijP2.
Local Open Scope N_scope.

Lemma map_isbox_sbox s : bytes_ok s -> map isbox (map sbox s) = s.
Proof. induction 1 as [|b r Hb _ IH]; [reflexivity|]. cbn [map]. rewrite isbox_sbox by exact Hb. rewrite IH. reflexivity. Qed.

Lemma bytes_map_sbox s : bytes_ok s -> bytes_ok (map sbox s).
Proof. induction 1; cbn [map]; constructor; [apply sbox_byte; assumption|assumption]. Qed.

Lemma length32 (s : list N) : length s = 32%nat ->
  exists a0 a1 a2 a3 a4 a5 a6 a7 a8 a9 a10 a11 a12 a13 a14 a15 a16 a17 a18 a19 a20 a21 a22 a23 a24 a25 a26 a27 a28 a29 a30 a31,
    s = [a0;a1;a2;a3;a4;a5;a6;a7;a8;a9;a10;a11;a12;a13;a14;a15;a16;a17;a18;a19;a20;a21;a22;a23;a24;a25;a26;a27;a28;a29;a30;a31].
Proof.
  intro H. do 32 (destruct s as [|? s]; [discriminate|]). destruct s; [|discriminate].
  repeat eexists.
Qed.

Lemma inv_shift_shift s : length s = 32%nat -> inv_shift_rows (shift_rows s) = s.
Proof.
  intro H. destruct (length32 s H) as (a0&a1&a2&a3&a4&a5&a6&a7&a8&a9&a10&a11&a12&a13&a14&a15&a16&a17&a18&a19&a20&a21&a22&a23&a24&a25&a26&a27&a28&a29&a30&a31&->).
  reflexivity.
Qed.

Lemma shift_rows_length s : length (shift_rows s) = 32%nat.
Proof. unfold shift_rows. rewrite map_length, seq_length. reflexivity. Qed.

Lemma shift_rows_bytes s : length s = 32%nat -> bytes_ok s -> bytes_ok (shift_rows s).
Proof.
  intros H Hb. unfold shift_rows. apply Forall_forall. intros x Hx. apply in_map_iff in Hx as (i & <- & Hi).
  apply in_seq in Hi.
  apply (proj1 (Forall_forall _ _) Hb). apply nth_In. rewrite H.
  pose proof (Nat.mod_upper_bound i 4 ltac:(discriminate)).
  pose proof (Nat.mod_upper_bound (i / 4 + shift_off (i mod 4)) 8 ltac:(discriminate)). lia.
Qed.

Lemma x4_byte' a b c d : byte a -> byte b -> byte c -> byte d -> byte (x4 a b c d).
Proof. intros. unfold x4. repeat apply lxor_byte; assumption. Qed.

Lemma mix_bytes_len : forall n s, length s = (4 * n)%nat -> bytes_ok s ->
  length (mix_columns s) = (4 * n)%nat /\ bytes_ok (mix_columns s) /\ inv_mix_columns (mix_columns s) = s.
Proof.
  induction n as [|n IH]; intros s Hl Hb.
  - destruct s; [cbn; repeat split; constructor|discriminate].
  - do 4 (destruct s as [|? s]; [cbn in Hl; lia|]).
    inversion Hb as [|? ? B0 Hb1]; subst. inversion Hb1 as [|? ? B1 Hb2]; subst.
    inversion Hb2 as [|? ? B2 Hb3]; subst. inversion Hb3 as [|? ? B3 Hb4]; subst.
    destruct (IH s ltac:(cbn in Hl; lia) Hb4) as (L & Bm & Inv).
    pose proof (inv_mix_column n0 n1 n2 n3 B0 B1 B2 B3) as Col.
    cbn [mix_columns] in *. cbn [inv_mix_columns] in *.
    injection Col as C0 C1 C2 C3.
    repeat split.
    + cbn [length]. rewrite L. lia.
    + pose proof (m2_byte _ B0). pose proof (m2_byte _ B1). pose proof (m2_byte _ B2). pose proof (m2_byte _ B3).
      pose proof (m3_byte _ B0). pose proof (m3_byte _ B1). pose proof (m3_byte _ B2). pose proof (m3_byte _ B3).
      repeat constructor; try apply x4_byte'; assumption.
    + rewrite C0, C1, C2, C3, Inv. reflexivity.
Qed.

(* ---- AddRoundKey ---- *)
Lemma xor_bytes_len a b : length a = length b -> length (xor_bytes a b) = length a.
Proof. revert b; induction a as [|x a IH]; intros [|y b] H; cbn in *; try lia. rewrite IH; lia. Qed.
Lemma xor_bytes_ok a b : bytes_ok a -> bytes_ok b -> bytes_ok (xor_bytes a b).
Proof.
  intros Ha. revert b. induction Ha as [|x a Hx Ha IH]; intros b Hb; [constructor|].
  destruct b as [|y b]; [constructor|]. inversion Hb; subst. cbn. constructor; [apply lxor_byte; assumption|apply IH; assumption].
Qed.
Lemma xor_bytes_inv a b : length a = length b -> xor_bytes (xor_bytes a b) b = a.
Proof.
  revert b; induction a as [|x a IH]; intros [|y b] H; cbn in *; try lia; [reflexivity|].
  rewrite IH by lia. f_equal. rewrite N.lxor_assoc, N.lxor_nilpotent, N.lxor_0_r. reflexivity.
Qed.

Definition good (s : list N) := length s = 32%nat /\ bytes_ok s.
Definition good_ks (ks : list N) := length ks = 480%nat /\ bytes_ok ks.

Lemma round_key_good ks r : good_ks ks -> (r <= 14)%nat -> good (round_key ks r).
Proof.
  intros [L B] Hr. unfold round_key, good. split.
  - rewrite firstn_length, skipn_length. lia.
  - apply Forall_forall. intros x Hx. apply (proj1 (Forall_forall _ _) B).
    assert (forall n (l : list N) y, In y (firstn n l) -> In y l) as FI.
    { induction n; intros l y Hy; [destruct Hy|]. destruct l; [destruct Hy|]. destruct Hy as [->|Hy]; [left; reflexivity|right; apply IHn; exact Hy]. }
    assert (forall n (l : list N) y, In y (skipn n l) -> In y l) as SI.
    { induction n; intros l y Hy; [exact Hy|]. destruct l; [exact Hy|]. right. apply IHn. exact Hy. }
    eapply SI. eapply FI. exact Hx.
Qed.

Definition round (k s : list N) := xor_bytes (mix_columns (shift_rows (map sbox s))) k.
Definition inv_round (k s : list N) := map isbox (inv_shift_rows (inv_mix_columns (xor_bytes s k))).

Lemma round_good k s : good k -> good s -> good (round k s) /\ inv_round k (round k s) = s.
Proof.
  intros [Lk Bk] [Ls Bs]. unfold round, inv_round.
  pose proof (bytes_map_sbox s Bs) as B1.
  assert (L1 : length (map sbox s) = 32%nat) by (rewrite map_length; exact Ls).
  pose proof (shift_rows_bytes _ L1 B1) as B2. pose proof (shift_rows_length (map sbox s)) as L2.
  destruct (mix_bytes_len 8 (shift_rows (map sbox s)) L2 B2) as (L3 & B3 & I3).
  split.
  - split; [rewrite xor_bytes_len; lia|apply xor_bytes_ok; assumption].
  - rewrite xor_bytes_inv by lia. rewrite I3, inv_shift_shift by exact L1. apply map_isbox_sbox. exact Bs.
Qed.

(* enc_rounds / dec_rounds of Rijndael.v in terms of round / inv_round *)
Lemma enc_rounds_snoc ks : forall n r s, enc_rounds ks (S n) r s = round (round_key ks (r + n)) (enc_rounds ks n r s).
Proof.
  induction n as [|n IH]; intros r s.
  - cbn [enc_rounds]. rewrite Nat.add_0_r. reflexivity.
  - change (enc_rounds ks (S (S n)) r s) with (enc_rounds ks (S n) (S r) (round (round_key ks r) s)).
    rewrite IH. cbn [enc_rounds]. fold (round (round_key ks r) s). replace (S r + n)%nat with (r + S n)%nat by lia. reflexivity.
Qed.

Lemma rounds_inv ks : good_ks ks -> forall n s, (n <= 13)%nat -> good s ->
  good (enc_rounds ks n 1 s) /\ dec_rounds ks n (enc_rounds ks n 1 s) = s.
Proof.
  intros G. induction n as [|n IH]; intros s Hn Hs; [split; [exact Hs|reflexivity]|].
  destruct (IH s ltac:(lia) Hs) as [G1 I1].
  rewrite enc_rounds_snoc. replace (1 + n)%nat with (S n) by lia.
  destruct (round_good (round_key ks (S n)) (enc_rounds ks n 1 s) (round_key_good ks (S n) G ltac:(lia)) G1) as [G2 I2].
  split; [exact G2|].
  cbn [dec_rounds]. fold (inv_round (round_key ks (S n)) (round (round_key ks (S n)) (enc_rounds ks n 1 s))).
  rewrite I2. exact I1.
Qed.

Theorem decrypt_encrypt_block ks b : good_ks ks -> good b -> decrypt_block ks (encrypt_block ks b) = b.
Proof.
  intros G Hb. unfold encrypt_block, decrypt_block.
  pose proof (round_key_good ks 0 G ltac:(lia)) as [L0 B0].
  pose proof (round_key_good ks 14 G ltac:(lia)) as [L14 B14].
  destruct Hb as [Lb Bb].
  set (s0 := xor_bytes b (round_key ks 0)).
  assert (G0 : good s0) by (split; [unfold s0; rewrite xor_bytes_len; lia|apply xor_bytes_ok; assumption]).
  destruct (rounds_inv ks G 13 s0 ltac:(lia) G0) as [[L13 B13] I13].
  set (s13 := enc_rounds ks 13 1 s0) in *.
  assert (Ls : length (shift_rows (map sbox s13)) = 32%nat) by apply shift_rows_length.
  rewrite xor_bytes_inv by lia.
  rewrite inv_shift_shift by (rewrite map_length; exact L13).
  rewrite map_isbox_sbox by exact B13.
  rewrite I13. unfold s0. apply xor_bytes_inv. lia.
Qed.

Print Assumptions decrypt_encrypt_block.
