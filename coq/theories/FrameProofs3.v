From Coq Require Import List NArith ZArith Lia Bool ZifyN ZifyNat.
Import ListNotations.
Require Import Codec CodecProofs CRC Frame FrameProofs FrameProofs2.
Local Open Scope N_scope.

Lemma skipn_add {A} (a b : nat) (l : list A) : skipn (a + b) l = skipn b (skipn a l).
Proof.
  revert l; induction a as [|a IH]; intro l; [reflexivity|].
  destruct l; [cbn; rewrite skipn_nil; reflexivity|]. cbn. apply IH.
Qed.

Lemma firstn_split {A} (a b : nat) (l : list A) : firstn (a + b) l = firstn a l ++ firstn b (skipn a l).
Proof.
  revert l; induction a as [|a IH]; intro l; [reflexivity|].
  destruct l; [cbn; rewrite firstn_nil; reflexivity|]. cbn. f_equal. apply IH.
Qed.

Lemma firstn_le_unle k l : bok l -> (k <= length l)%nat -> le k (unle (firstn k l)) = firstn k l.
Proof.
  intros Hb Hk. pose proof (le_unle (firstn k l) (bok_firstn k l Hb)) as E.
  rewrite firstn_length, Nat.min_l in E by exact Hk. exact E.
Qed.

Lemma unle_firstn_lt k l : bok l -> (k <= length l)%nat -> unle (firstn k l) < 256 ^ N.of_nat k.
Proof.
  intros Hb Hk. pose proof (unle_lt (firstn k l) (bok_firstn k l Hb)) as E.
  rewrite firstn_length, Nat.min_l in E by exact Hk. exact E.
Qed.

Theorem decode_frame_sound p ms : bok p -> decode_frame p = Accept ms -> WellFormed p ms.
Proof.
  intros Hb H. unfold decode_frame in H.
  destruct ((length p <? 32)%nat || negb (length p mod 32 =? 0)%nat) eqn:E0; [discriminate|].
  apply orb_false_iff in E0 as [E0a E0b].
  apply Nat.ltb_ge in E0a. apply negb_false_iff, Nat.eqb_eq in E0b.
  set (c := unle (firstn 2 (skipn 2 p))) in *.
  destruct (N.eqb_spec (unle (firstn 2 p)) magic) as [Em|]; [|discriminate]. cbn [negb] in H.
  destruct (N.eqb_spec (N.lor c ctrl_mask) ctrl_mask) as [Ec|]; [|discriminate]. cbn [negb] in H.
  destruct (N.eqb_spec (N.land c ver_mask) ver1) as [Ev|]; [|discriminate]. cbn [negb] in H.
  set (crc := negb (N.land c crc_bit =? 0)) in *.
  set (dsize := N.to_nat (unle (firstn 2 (skipn 16 p)))) in *.
  set (fsize := (hdr + dsize + (if crc then 4 else 0))%nat) in *.
  destruct (Nat.ltb_spec (length p) fsize) as [|Hfs]; [discriminate|].
  destruct (all_zero (skipn fsize p)) eqn:Ez; [|discriminate]. cbn [negb] in H.
  destruct (dec_items (S dsize) (firstn dsize (skipn hdr p))) as [ms'|] eqn:Ed; [|discriminate].
  assert (Hms : ms' = ms /\ (crc = true -> unle (firstn 4 (skipn (hdr + dsize) p)) = crc32 (firstn (hdr + dsize) p))).
  { destruct crc.
    - destruct (N.eqb_spec (unle (firstn 4 (skipn (hdr + dsize) p))) (crc32 (firstn (hdr + dsize) p))); [|discriminate].
      injection H as <-. auto.
    - injection H as <-. split; [reflexivity|discriminate]. }
  destruct Hms as [-> Hcrc]. clear H.
  set (payload := firstn dsize (skipn hdr p)) in *.
  assert (Hplen : length payload = dsize).
  { unfold payload. rewrite firstn_length, skipn_length. unfold fsize, hdr in *. lia. }
  set (pre := firstn (hdr + dsize) p).
  exists c, (firstn 12 (skipn 4 p)), payload,
         (if crc then firstn 4 (skipn (hdr + dsize) p) else []), (skipn fsize p).
  assert (Hds : N.of_nat dsize = unle (firstn 2 (skipn 16 p))) by (unfold dsize; apply N2Nat.id).
  assert (Hb2 : bok (skipn 2 p)) by (apply bok_skipn; assumption).
  assert (Hb16 : bok (skipn 16 p)) by (apply bok_skipn; assumption).
  assert (Hpre : pre = le 2 magic ++ le 2 c ++ firstn 12 (skipn 4 p) ++ le 2 (N.of_nat (length payload)) ++ payload).
  { unfold pre, hdr. rewrite Hplen, Hds, <- Em. unfold c.
    rewrite (firstn_le_unle 2 p) by (assumption || lia).
    rewrite (firstn_le_unle 2 (skipn 2 p)) by (assumption || rewrite skipn_length; lia).
    rewrite (firstn_le_unle 2 (skipn 16 p)) by (assumption || rewrite skipn_length; lia).
    unfold payload, hdr.
    change (18 + dsize)%nat with (2 + (2 + (12 + (2 + dsize))))%nat.
    rewrite (firstn_split 2). f_equal.
    rewrite (firstn_split 2). f_equal.
    rewrite <- skipn_add. change (2 + 2)%nat with 4%nat.
    rewrite (firstn_split 12). f_equal.
    rewrite <- skipn_add. change (4 + 12)%nat with 16%nat.
    rewrite (firstn_split 2). f_equal.
    rewrite <- skipn_add. reflexivity. }
  repeat split.
  - (* decomposition of p *)
    rewrite <- (firstn_skipn (hdr + dsize) p) at 1. fold pre. rewrite Hpre.
    rewrite <- !app_assoc. do 5 f_equal.
    unfold fsize. destruct crc.
    + rewrite (skipn_add (hdr + dsize) 4). symmetry. apply firstn_skipn.
    + rewrite Nat.add_0_r. reflexivity.
  - unfold c. apply (unle_firstn_lt 2 (skipn 2 p)); [assumption|rewrite skipn_length; lia].
  - exact Ec.
  - exact Ev.
  - rewrite firstn_length, skipn_length. lia.
  - rewrite Hplen, Hds. apply (unle_firstn_lt 2 (skipn 16 p)); [assumption|rewrite skipn_length; lia].
  - apply (dec_items_sound (S dsize)); [|exact Ed]. unfold payload. apply bok_firstn, bok_skipn. assumption.
  - rewrite <- Hpre. unfold crc in *.
    destruct (N.land c crc_bit =? 0); cbn [negb] in *; [reflexivity|].
    unfold pre. rewrite <- (Hcrc eq_refl). symmetry.
    apply (firstn_le_unle 4 (skipn (hdr + dsize) p)).
    * apply bok_skipn; assumption.
    * rewrite skipn_length. unfold fsize in Hfs. lia.
  - exact Ez.
  - exact E0a.
  - exact E0b.
Qed.

Print Assumptions decode_frame_sound.
