(* C07 on the unified model: the result of receive does not depend on how the transport cuts the reply *)
From Coq Require Import List Arith NArith ZArith Lia Bool.
Import ListNotations.
Require Import Client.
Local Open Scope N_scope.

Lemma skipn_add {A} (a b : nat) (l : list A) : skipn (a + b) l = skipn b (skipn a l).
Proof.
  revert l; induction a as [|a IH]; intro l; [reflexivity|].
  destruct l; [cbn; rewrite skipn_nil; reflexivity|]. cbn. apply IH.
Qed.
Lemma firstn_split {A} (a b : nat) (l : list A) : firstn (a + b) l = firstn a l ++ firstn b (skipn a l).
Proof.
  revert l; induction a as [|a IH]; intro l; [reflexivity|].
  destruct l; [cbn; rewrite firstn_nil; reflexivity|]. cbn. f_equal. apply IH.
Qed.

Section Reasm.
  Variable msg : Type.
  Variable decP : list N -> list N -> list N.
  Variable decI : list N -> list N -> list N.
  Definition dec iv c := (decP iv c, decI iv c).
  Definition al (c : list N) := (length c mod 32 = 0)%nat.
  Hypothesis decP_app : forall iv a b, al a -> decP iv (a ++ b) = decP iv a ++ decP (decI iv a) b.
  Hypothesis decI_app : forall iv a b, al a -> decI iv (a ++ b) = decI (decI iv a) b.
  Hypothesis decP_nil : forall iv, decP iv [] = [].
  Hypothesis decI_nil : forall iv, decI iv [] = iv.
  Variable V : list N -> option (option (list msg)).
  Definition decode_step (buf pt : list N) := (V (buf ++ pt), buf ++ pt).
  Variable rbuf : nat.
  Hypothesis rbuf_pos : (0 < rbuf)%nat.

  (* the transport: any environment whose reads behave like a queue of non-empty pieces (a view of its state):
     a Read returns, immediately, at most rbuf bytes of the first piece *)
  Variable E : Type.
  Variable scripted : envsm E.
  Variable qview : E -> list (list N).
  (* Rel: whatever else about the environment state that reads and closing leave alone *)
  Variable Rel : E -> E -> Prop.
  Hypothesis Rel_refl : forall e, Rel e e.
  Hypothesis Rel_trans : forall a b c, Rel a b -> Rel b c -> Rel a c.
  Hypothesis Rel_close : forall e, Rel e (on_close E scripted e).
  Hypothesis read_view : forall e n, match qview e with
    | [] => True
    | p :: r => exists e', on_read E scripted e n =
                  (e', RData (if (length p <=? n)%nat then p else firstn n p), 0%Z) /\
                qview e' = (if (length p <=? n)%nat then r else skipn n p :: r) /\ Rel e e'
    end.

  Notation world := (world msg E).
  Notation recv_loop := (recv_loop msg decode_step dec rbuf E scripted).

  Definition fl (k : nat) : nat := (32 * (k / 32))%nat.
  Lemma fl_le k : (fl k <= k)%nat.
  Proof. unfold fl. pose proof (Nat.div_mod k 32 ltac:(discriminate)). lia. Qed.
  Lemma fl_mod k : (fl k mod 32 = 0)%nat.
  Proof. unfold fl. rewrite Nat.mul_comm. apply Nat.mod_mul. discriminate. Qed.
  Lemma fl_add a k : (a mod 32 = 0)%nat -> fl (a + k) = (a + fl k)%nat.
  Proof.
    intro H. unfold fl. pose proof (Nat.div_mod a 32 ltac:(discriminate)) as D. rewrite H in D.
    replace (a + k)%nat with (k + (a / 32) * 32)%nat by lia. rewrite Nat.div_add by discriminate. lia.
  Qed.

  Definition one_reply (iv S : list N) : Prop :=
    al S /\ (forall n, (n < length S)%nat -> (n mod 32 = 0)%nat -> V (decP iv (firstn n S)) = Some None) /\
    V (decP iv S) <> Some None.

  Definition nonempty (e : list (list N)) := Forall (fun p : list N => p <> []) e.

  (* what the call returns, whatever the segmentation *)
  Definition final (s : cstate) (iv S : list N) : cstate * res (list msg) :=
    let s1 := {| authed := authed s; eiv := eiv s; div := decI iv S |} in
    match V (decP iv S) with
    | Some (Some ms) => (s1, Ok _ ms)
    | _ => (unauth s1, Err _ EProto)
    end.

  Definition post (j : nat) (erest : list (list N)) (e0 : E) (r : res (list msg)) (w' : world) : Prop :=
    Rel e0 (est msg E w') /\
    match r with
    | Ok _ _ => cur msg E w' = Some j /\ qview (est msg E w') = erest
    | Err _ _ => cur msg E w' = None
    end.

  Lemma log_keeps w l k : cur msg E (Client.log msg E l k w) = cur msg E w /\ est msg E (Client.log msg E l k w) = est msg E w.
  Proof. unfold Client.log. destruct (N.leb l (level msg E w)); cbn; auto. Qed.

  Lemma loop_inv : forall n fuel (e erest : list (list N)) R s iv S buf pend (w : world) deadline j,
    (length (concat e) <= n)%nat -> (n < fuel)%nat ->
    R ++ concat e = S -> nonempty e -> e <> [] -> one_reply iv S ->
    cur msg E w = Some j -> qview (est msg E w) = e ++ erest -> (clock msg E w <= deadline)%Z ->
    forall e0, Rel e0 (est msg E w) ->
    pend = skipn (fl (length R)) R -> buf = decP iv (firstn (fl (length R)) R) ->
    div s = decI iv (firstn (fl (length R)) R) -> (length R < length S)%nat ->
    let '(s', w', r) := recv_loop fuel deadline buf pend s w in (s', r) = final s iv S /\ post j erest e0 r w'.
  Proof.
    induction n as [|n IH]; intros fuel e erest R s iv S buf pend w deadline j Hn Hfuel HS Hne Hnn Hone Hcur Hest Hdl e0 Hrel Hpend Hbuf Hdiv Hlt.
    - (* no bytes left but e <> [] and pieces non-empty: impossible *)
      destruct e as [|p r]; [congruence|]. inversion Hne; subst. cbn [concat] in Hn. rewrite app_length in Hn. destruct p; [congruence|cbn in Hn; lia].
    - destruct fuel as [|f]; [lia|]. cbn [Client.recv_loop]. rewrite Hcur.
      destruct e as [|p r]; [congruence|].
      assert (Hp : p <> []) by (inversion Hne; assumption).
      assert (Hr : nonempty r) by (inversion Hne; assumption).
      pose proof (read_view (est msg E w) rbuf) as RV. rewrite Hest in RV. cbn [app] in RV. destruct RV as (e' & Hrd & Hq0 & Hrel').
      assert (Hrel1 : Rel e0 e') by (eapply Rel_trans; eassumption).
      rewrite Hrd.
      assert (Hq' : qview e' = (if (length p <=? rbuf)%nat then r else skipn rbuf p :: r) ++ erest).
      { rewrite Hq0. destruct (length p <=? rbuf)%nat; reflexivity. }
      clear Hq0.
      set (c := if (length p <=? rbuf)%nat then p else firstn rbuf p) in *.
      set (q' := if (length p <=? rbuf)%nat then r else skipn rbuf p :: r) in *.
      assert (Hce : c ++ concat q' = concat (p :: r) /\ c <> [] /\ nonempty q').
      { unfold c, q'. destruct (Nat.leb_spec (length p) rbuf) as [Hle|Hgt].
        - cbn [concat]. auto.
        - cbn [concat]. rewrite app_assoc, firstn_skipn. repeat split.
          + destruct p; [congruence|]. destruct rbuf; [lia|]. discriminate.
          + constructor; [|exact Hr]. intro E0. apply (f_equal (@length N)) in E0. rewrite skipn_length in E0. change (length (@nil N)) with 0%nat in E0. lia. }
      destruct Hce as (Hce & Hc & Hne').
      clearbody c q'.
      replace (dur 0%Z) with 0%Z by reflexivity. rewrite !Z.add_0_r.
      destruct (Z.ltb_spec deadline (clock msg E w)) as [|_]; [lia|].
      assert (Hlc : (length c =? 0)%nat = false) by (destruct c; [congruence|reflexivity]). rewrite Hlc.
      set (w1 := upd msg E w (Some j) (next msg E w) e' (clock msg E w) [EvRead msg j (RData c)]).
      set (a := fl (length R)) in *. set (R' := R ++ c).
      assert (Ha : (a <= length R)%nat) by apply fl_le.
      assert (Hall : pend ++ c = skipn a R').
      { unfold R'. rewrite skipn_app. replace (a - length R)%nat with 0%nat by lia. rewrite Hpend. reflexivity. }
      rewrite Hall.
      assert (Hlen : length (skipn a R') = (length R' - a)%nat) by apply skipn_length.
      assert (Hfl : fl (length R') = (a + fl (length R' - a))%nat).
      { replace (length R') with (a + (length R' - a))%nat at 1 by (unfold R'; rewrite app_length; lia). apply fl_add, fl_mod. }
      rewrite Hlen. fold (fl (length R' - a)). set (k := fl (length R' - a)) in *.
      assert (HS' : R' ++ concat q' = S) by (unfold R'; rewrite <- app_assoc, Hce; exact HS).
      assert (Hfa : firstn a R' = firstn a R).
      { unfold R'. rewrite firstn_app. replace (a - length R)%nat with 0%nat by lia. rewrite firstn_O, app_nil_r. reflexivity. }
      assert (Hn' : (length (concat q') <= n)%nat).
      { apply (f_equal (@length N)) in Hce. rewrite app_length in Hce. destruct c; [congruence|cbn [length] in Hce; lia]. }
      destruct (Nat.eqb_spec k 0) as [Hk0|Hk0].
      + (* less than a block more: keep pending *)
        destruct q' as [|p2 r2] eqn:Ee'.
        * exfalso. cbn [concat] in HS'. rewrite app_nil_r in HS'. destruct Hone as [HalS _]. unfold al in HalS.
          assert (fl (length R') = length R'). { unfold fl. rewrite HS'. pose proof (Nat.div_mod (length S) 32 ltac:(discriminate)). lia. }
          assert (length R' = a) by lia. unfold R' in *. rewrite app_length in *. destruct c; [congruence|cbn in *; lia].
        * rewrite <- Ee' in *.
          apply (IH f q' erest R' s iv S buf (skipn a R') w1 deadline j); auto; try lia.
          -- rewrite Ee'. discriminate.
          -- rewrite Hfl, Hk0, Nat.add_0_r. reflexivity.
          -- rewrite Hfl, Hk0, Nat.add_0_r, Hfa. exact Hbuf.
          -- rewrite Hfl, Hk0, Nat.add_0_r, Hfa. exact Hdiv.
          -- rewrite <- HS'. rewrite app_length. rewrite Ee'. cbn [concat]. rewrite app_length.
             assert (p2 <> []) by (rewrite Ee' in Hne'; inversion Hne'; assumption). destruct p2; [congruence|cbn; lia].
      + set (chunk := firstn k (skipn a R')).
        assert (Hchunk : firstn (a + k) R' = firstn a R ++ chunk) by (rewrite firstn_split, Hfa; reflexivity).
        assert (Hala : al (firstn a R)) by (unfold al; rewrite firstn_length, Nat.min_l by exact Ha; apply fl_mod).
        unfold dec at 1. rewrite Hdiv. fold a.
        unfold decode_step at 1. rewrite Hbuf. fold a.
        rewrite <- decP_app, <- Hchunk, <- Hfl by exact Hala.
        assert (Hfl_le : (fl (length R') <= length R')%nat) by apply fl_le.
        destruct q' as [|p2 r2] eqn:Ee'.
        * (* all bytes consumed: R' = S *)
          cbn [concat] in HS'. rewrite app_nil_r in HS'.
          assert (HflS : fl (length R') = length R').
          { destruct Hone as [HalS _]. unfold al in HalS. unfold fl. rewrite HS'. pose proof (Nat.div_mod (length S) 32 ltac:(discriminate)). lia. }
          rewrite HflS, firstn_all, HS'.
          unfold final. destruct Hone as (_ & _ & Hdec).
          assert (HI : decI (decI iv (firstn a R)) chunk = decI iv S).
          { rewrite <- decI_app by exact Hala. rewrite <- Hchunk, <- Hfl, HflS, firstn_all, HS'. reflexivity. }
          destruct (V (decP iv S)) as [[ms|]|] eqn:EV; [| congruence |].
          -- rewrite HI. split; [reflexivity|]. unfold post.
             rewrite !(proj1 (log_keeps _ _ _)), !(proj2 (log_keeps _ _ _)). cbn [cur est w1 Client.upd].
             split; [exact Hrel1|]. split; [reflexivity|]. rewrite Hq'. reflexivity.
          -- unfold Client.disconnect. cbn [cur w1 Client.upd unauth authed eiv div]. rewrite HI. split; [reflexivity|].
             unfold post. rewrite (proj1 (log_keeps _ _ _)), (proj2 (log_keeps _ _ _)). cbn [cur est Client.upd].
             split; [eapply Rel_trans; [exact Hrel1|apply Rel_close]|reflexivity].
        * rewrite <- Ee' in *.
          assert (HltS : (length R' < length S)%nat).
          { rewrite <- HS'. rewrite app_length. rewrite Ee'. cbn [concat]. rewrite app_length.
            assert (p2 <> []) by (rewrite Ee' in Hne'; inversion Hne'; assumption). destruct p2; [congruence|cbn; lia]. }
          assert (Hpre : firstn (fl (length R')) R' = firstn (fl (length R')) S).
          { rewrite <- HS'. rewrite firstn_app. replace (fl (length R') - length R')%nat with 0%nat by lia. rewrite firstn_O, app_nil_r. reflexivity. }
          destruct Hone as (HalS & Hmore & Hdec).
          rewrite Hpre, (Hmore (fl (length R'))) by (try apply fl_mod; lia).
          rewrite <- Hpre.
          set (s1 := {| authed := authed s; eiv := eiv s; div := decI (decI iv (firstn a R)) chunk |}).
          replace (final s iv S) with (final s1 iv S) by reflexivity.
          apply (IH f q' erest R' s1 iv S _ _ w1 deadline j); auto; try lia.
          -- rewrite Ee'. discriminate.
          -- split; [exact HalS|split; assumption].
          -- rewrite Hfl. unfold chunk. rewrite skipn_add. reflexivity.
          -- cbn [div s1]. rewrite <- decI_app by exact Hala. rewrite <- Hchunk, <- Hfl. reflexivity.
  Qed.

  (* C07: any two segmentations of the same one-reply stream give the same result and client state *)
  Theorem C07_reassembly s iv S (e1 e2 : list (list N)) w1 w2 j1 j2 deadline1 deadline2 fuel1 fuel2 :
    div s = iv -> one_reply iv S -> S <> [] ->
    concat e1 = S -> nonempty e1 -> concat e2 = S -> nonempty e2 ->
    cur msg E w1 = Some j1 -> qview (est msg E w1) = e1 -> (clock msg E w1 <= deadline1)%Z -> (length S < fuel1)%nat ->
    cur msg E w2 = Some j2 -> qview (est msg E w2) = e2 -> (clock msg E w2 <= deadline2)%Z -> (length S < fuel2)%nat ->
    let '(s1, _, r1) := recv_loop fuel1 deadline1 [] [] s w1 in
    let '(s2, _, r2) := recv_loop fuel2 deadline2 [] [] s w2 in
    (s1, r1) = (s2, r2).
  Proof.
    intros Hd Hone HS Hc1 Hn1 Hc2 Hn2 Hcur1 He1 Hd1 Hf1 Hcur2 He2 Hd2 Hf2.
    assert (Hpos : (0 < length S)%nat) by (destruct S; [congruence|cbn; lia]).
    assert (Hd0 : div s = decI iv (firstn (fl (length (@nil N))) [])) by (cbn; rewrite decI_nil; exact Hd).
    assert (Hb0 : @nil N = decP iv (firstn (fl (length (@nil N))) [])) by (cbn; rewrite decP_nil; reflexivity).
    assert (E1 : e1 <> []) by (intro X; rewrite X in Hc1; cbn in Hc1; congruence).
    assert (E2 : e2 <> []) by (intro X; rewrite X in Hc2; cbn in Hc2; congruence).
    pose proof (loop_inv (length S) fuel1 e1 [] [] s iv S [] [] w1 deadline1 j1 ltac:(rewrite Hc1; lia) Hf1 Hc1 Hn1 E1 Hone Hcur1 ltac:(rewrite app_nil_r; exact He1) Hd1 (est msg E w1) (Rel_refl _) eq_refl Hb0 Hd0 Hpos) as L1.
    pose proof (loop_inv (length S) fuel2 e2 [] [] s iv S [] [] w2 deadline2 j2 ltac:(rewrite Hc2; lia) Hf2 Hc2 Hn2 E2 Hone Hcur2 ltac:(rewrite app_nil_r; exact He2) Hd2 (est msg E w2) (Rel_refl _) eq_refl Hb0 Hd0 Hpos) as L2.
    destruct (recv_loop fuel1 deadline1 [] [] s w1) as [[s1 w1'] r1].
    destruct (recv_loop fuel2 deadline2 [] [] s w2) as [[s2 w2'] r2].
    cbv beta iota zeta in L1, L2. destruct L1 as [L1 _]. destruct L2 as [L2 _]. congruence.
  Qed.
End Reasm.

Print Assumptions C07_reassembly.
