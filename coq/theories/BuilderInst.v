(* The request builder instantiated with the generated tag -> data type table *)
From Coq Require Import List NArith.
Require Import Vocab Builder.
Definition b_create_request (args : list arg) : res bmsg := create_request tag_datatype args.
Definition b_create_requests (ls : list (list arg)) : res (list bmsg) := create_requests tag_datatype ls.
