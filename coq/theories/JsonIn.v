(* C12: model of the three JSON request notations (after the D10/D17/D19 repairs) *)
From Coq Require Import List Arith NArith ZArith Lia Bool.
Import ListNotations.
Require Import Codec.
Local Open Scope N_scope.

Definition str := list N.

(* JSON abstract syntax. A number carries its exact integer value when the literal denotes an integer,
   and the float bit patterns strconv.ParseFloat produced (oracle, None = out of range).
   A string carries the result of parsing it as RFC 3339 (oracle). *)
Inductive json :=
| JNull | JBool (b : bool)
| JNum (iz : option Z) (plain : bool) (f32 f64 : option N)   (* plain: the literal is a plain run of digits (what a uint32 tag accepts) *)
| JStr (s : str) (t : option (Z * Z))
| JArr (l : list json)
| JObj (tag : option json) (dt : option json) (v : option json).   (* the three recognised keys *)

Section JsonIn.
  Variable tag_of_name : str -> option N.
  Variable dt_of_name : str -> option N.       (* the 18 data-type names *)
  Variable infer : N -> N.                     (* dataTypeMap lookup, 0 when absent *)

  Definition in_u (bits : Z) (z : Z) : bool := ((0 <=? z) && (z <? 2 ^ bits))%Z.
  Definition in_sb (bits : Z) (z : Z) : bool := ((- 2 ^ (bits - 1) <=? z) && (z <? 2 ^ (bits - 1)))%Z.

  Definition conv_u (bits : Z) (mk : N -> gval) (j : json) : option gval :=
    match j with JNum (Some z) _ _ _ => if in_u bits z then Some (mk (Z.to_N z)) else None | _ => None end.
  Definition conv_s (bits : Z) (mk : Z -> gval) (j : json) : option gval :=
    match j with JNum (Some z) _ _ _ => if in_sb bits z then Some (mk z) else None | _ => None end.

  Fixpoint conv_bytes (l : list json) : option (list N) :=
    match l with
    | [] => Some []
    | JNum (Some z) _ _ _ :: r => if in_u 8 z then option_map (cons (Z.to_N z)) (conv_bytes r) else None
    | _ => None
    end.

  Inductive perr := EBad.
  Inductive res (A : Type) := Ok (a : A) | Err.
  Arguments Ok {A}. Arguments Err {A}.

  Definition tag_of (j : json) : option N :=
    match j with
    | JStr s _ => tag_of_name s
    | JNum (Some z) true _ _ => if in_u 32 z then Some (Z.to_N z) else None
    | _ => None
    end.
  Definition dt_of (j : json) : option N := match j with JStr s _ => dt_of_name s | _ => None end.

  (* value conversion for every data type except Container *)
  Definition conv_scalar (dt : N) (j : json) : option gval :=
    if dt =? 0 then Some GNil else
    if dt =? 1 then match j with JBool b => Some (GBool b) | JNum (Some 0%Z) _ _ _ => Some (GBool false)
                               | JNum (Some 1%Z) _ _ _ => Some (GBool true) | _ => None end else
    if dt =? 2 then conv_s 8 GI8 j else if dt =? 3 then conv_u 8 GU8 j else
    if dt =? 4 then conv_s 16 GI16 j else if dt =? 5 then conv_u 16 GU16 j else
    if dt =? 6 then conv_s 32 GI32 j else if dt =? 7 then conv_u 32 GU32 j else
    if dt =? 8 then conv_s 64 GI64 j else if dt =? 9 then conv_u 64 GU64 j else
    if dt =? 10 then match j with JNum _ _ (Some b) _ => Some (GF32 b) | _ => None end else
    if dt =? 11 then match j with JNum _ _ _ (Some b) => Some (GF64 b) | _ => None end else
    if dt =? 12 then conv_u 8 GU8 j else
    if dt =? 13 then match j with JStr s _ => Some (GStr s) | _ => None end else
    if dt =? 15 then match j with JStr _ (Some (s, ns)) => Some (GTime s ns) | _ => None end else
    if dt =? 16 then match j with JArr l => option_map GBytes (conv_bytes l) | _ => None end else
    if dt =? 255 then conv_u 32 GErr j else None.

  Fixpoint parse (fuel : nat) (j : json) : res message :=
    match fuel with
    | O => Err
    | S f =>
      let value (dt : N) (jv : json) : res gval :=
        if dt =? 14 then
          match jv with
          | JArr l => (fix all (l : list json) : res gval :=
                         match l with
                         | [] => Ok (GMsgs [])
                         | x :: r => match parse f x, all r with
                                     | Ok m, Ok (GMsgs ms) => Ok (GMsgs (m :: ms))
                                     | _, _ => Err
                                     end
                         end) l
          | _ => Err
          end
        else match conv_scalar dt jv with Some v => Ok v | None => Err end in
      match j with
      | JStr _ _ | JNum _ _ _ _ =>
          match tag_of j with Some t => Ok (Msg t (infer t) GNil) | None => Err end
      | JArr [jt] => match tag_of jt with Some t => Ok (Msg t (infer t) GNil) | None => Err end
      | JArr [jt; j2] =>
          match tag_of jt with
          | None => Err
          | Some t => match dt_of j2 with
                      | Some d => Ok (Msg t d GNil)
                      | None => match value (infer t) j2 with Ok v => Ok (Msg t (infer t) v) | Err => Err end
                      end
          end
      | JArr [jt; jd; jv] =>
          match tag_of jt, dt_of jd with
          | Some t, Some d => match value d jv with Ok v => Ok (Msg t d v) | Err => Err end
          | _, _ => Err
          end
      | JObj (Some jt) od ov =>
          match tag_of jt with
          | None => Err
          | Some t =>
            match (match od with None => Some (infer t) | Some jd => dt_of jd end) with
            | None => Err
            | Some d => match ov with
                        | None => Ok (Msg t d GNil)
                        | Some jv => match value d jv with Ok v => Ok (Msg t d v) | Err => Err end
                        end
            end
          end
      | _ => Err
      end
    end.
End JsonIn.
