(* C13: consequences of C13_merged_entry - provenance, no loss, keys *)
From Coq Require Import List Arith NArith ZArith Lia Bool.
Import ListNotations.
Require Import Codec JsonOut.
Local Open Scope N_scope.

Definition tagged (k : N) (m : message) : bool := match m with Msg k' _ _ => k' =? k end.

Lemma containers_filter k l : containers k (filter (tagged k) l) = containers k l.
Proof.
  induction l as [|[k' d v] r IH]; [reflexivity|]. cbn [filter tagged].
  destruct (N.eqb_spec k' k) as [->|Hne].
  - destruct v; cbn [containers]; rewrite ?N.eqb_refl, ?IH; reflexivity.
  - destruct v; cbn [containers]; try exact IH. destruct (N.eqb_spec k' k); [contradiction|exact IH].
Qed.
Lemma last_scalar_filter k l : forall d, last_scalar k (filter (tagged k) l) d = last_scalar k l d.
Proof.
  induction l as [|[k' dt v] r IH]; intro d; [reflexivity|]. cbn [filter tagged].
  destruct (N.eqb_spec k' k) as [->|Hne].
  - destruct v; cbn [last_scalar]; rewrite ?N.eqb_refl; apply IH.
  - destruct v; cbn [last_scalar]; try (destruct (N.eqb_spec k' k); [contradiction|]); apply IH.
Qed.

(* provenance: what ends up under key k is computed from the messages tagged k alone *)
Theorem C13_provenance l k : lookup k (merged l) = entry k (filter (tagged k) l).
Proof. rewrite C13_merged_entry. unfold entry. rewrite containers_filter, last_scalar_filter. reflexivity. Qed.

(* no loss: when several containers arrive under one tag the key holds all of them, in order of arrival *)
Theorem C13_no_loss l k c1 c2 cs : containers k l = c1 :: c2 :: cs ->
  lookup k (merged l) = Some (JA (map merged (c1 :: c2 :: cs))).
Proof. intro H. rewrite C13_merged_entry. unfold entry. rewrite H. reflexivity. Qed.
Theorem C13_single l k c : containers k l = [c] -> lookup k (merged l) = Some (JO (merged c)).
Proof. intro H. rewrite C13_merged_entry. unfold entry. rewrite H. reflexivity. Qed.

(* a key exists exactly for the tags that occur *)
Theorem C13_keys l k : lookup k (merged l) <> None <-> existsb (tagged k) l = true.
Proof.
  rewrite C13_merged_entry. unfold entry.
  assert (G : forall l, (containers k l <> [] \/ forall d, last_scalar k l d <> d \/ True) -> True) by auto.
  induction l as [|[k' dt v] r IH] using rev_ind.
  - cbn. split; [intro H; contradiction H; reflexivity|discriminate].
  - rewrite existsb_app, containers_app, last_scalar_app. cbn [existsb tagged orb].
    destruct (N.eqb_spec k' k) as [->|Hne].
    + rewrite orb_true_r. split; [reflexivity|intros _].
      destruct v; cbn [containers last_scalar]; rewrite ?N.eqb_refl, ?app_nil_r;
        try (destruct (containers k r) as [|c0 [|c1 cs]]; cbn [app]; discriminate).
    + rewrite orb_false_r.
      assert (E1 : containers k [Msg k' dt v] = []) by (destruct v; cbn [containers]; try reflexivity; destruct (N.eqb_spec k' k); [contradiction|reflexivity]).
      assert (E2 : forall d, last_scalar k [Msg k' dt v] d = d) by (intro d; destruct v; cbn [last_scalar]; try reflexivity; destruct (N.eqb_spec k' k); try contradiction; reflexivity).
      rewrite E1, app_nil_r, E2. exact IH.
Qed.
Print Assumptions C13_provenance. Print Assumptions C13_keys.
