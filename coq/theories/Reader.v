(* plaintext-level streaming reader: mirrors reader.go:132-174 after decryption *)
From Coq Require Import List Arith NArith ZArith Lia Bool.
Import ListNotations.
Require Import Codec CRC Frame.
Local Open Scope N_scope.

Record rstate := { rbuf : list N; rcrc : bool; rfsize : nat; rdsize : nat }.
Definition rinit : rstate := {| rbuf := []; rcrc := false; rfsize := 0; rdsize := 0 |}.

Inductive hdr_res := HBad | HOk (crc : bool) (fsize dsize : nat).

Definition read_header (p : list N) : hdr_res :=
  let c := unle (firstn 2 (skipn 2 p)) in
  if negb (unle (firstn 2 p) =? magic) then HBad else
  if negb (N.lor c ctrl_mask =? ctrl_mask) then HBad else
  if negb (N.land c ver_mask =? ver1) then HBad else
  let crc := negb (N.land c crc_bit =? 0) in
  let dsize := N.to_nat (unle (firstn 2 (skipn 16 p))) in
  HOk crc (hdr + dsize + (if crc then 4 else 0))%nat dsize.

(* what Read does once len(buf) >= frameSize *)
Definition finish (buf : list N) (crc : bool) (fsize dsize : nat) : verdict :=
  if negb (all_zero (skipn fsize buf)) then Reject else
  match dec_items (S dsize) (firstn dsize (skipn hdr buf)) with
  | None => Reject
  | Some ms =>
    if crc then
      if unle (firstn 4 (skipn (hdr + dsize) buf)) =? crc32 (firstn (hdr + dsize) buf) then Accept ms else Reject
    else Accept ms
  end.

(* one call of Read on an already decrypted chunk *)
Definition read_step (st : rstate) (plain : list N) : rstate * verdict :=
  if (length plain <? 32)%nat || negb (length plain mod 32 =? 0)%nat then (st, NeedMore) else
  let st1 :=
    match rbuf st with
    | [] => match read_header plain with
            | HBad => None
            | HOk crc fs ds => Some {| rbuf := []; rcrc := crc; rfsize := fs; rdsize := ds |}
            end
    | _ => Some st
    end in
  match st1 with
  | None => (st, Reject)
  | Some s =>
    let buf := rbuf s ++ plain in
    let s' := {| rbuf := buf; rcrc := rcrc s; rfsize := rfsize s; rdsize := rdsize s |} in
    if (rfsize s <=? length buf)%nat then (s', finish buf (rcrc s) (rfsize s) (rdsize s))
    else (s', NeedMore)
  end.

Fixpoint feed (st : rstate) (chunks : list (list N)) : list verdict :=
  match chunks with
  | [] => []
  | c :: r => let '(st', v) := read_step st c in
              match v with NeedMore => v :: feed st' r | _ => [v] end
  end.
