From Coq Require Import List NArith ZArith Lia Bool ZifyN ZifyNat.
Import ListNotations.
Require Import Codec CodecProofs CRC Frame.
Local Open Scope N_scope.

Definition bok (s : list N) := Forall (fun b => b < 256) s.

Lemma le_unle l : bok l -> le (length l) (unle l) = l.
Proof.
  induction 1 as [|b r Hb Hr IH]; [reflexivity|].
  cbn [length le unle].
  assert (E1 : (b + 256 * unle r) mod 256 = b).
  { rewrite (N.mul_comm 256), N.mod_add by discriminate. apply N.mod_small. exact Hb. }
  assert (E2 : (b + 256 * unle r) / 256 = unle r).
  { rewrite (N.mul_comm 256), N.div_add by discriminate. rewrite N.div_small by exact Hb. reflexivity. }
  rewrite E1, E2.
  rewrite IH. reflexivity.
Qed.

Lemma unle_lt l : bok l -> unle l < 256 ^ N.of_nat (length l).
Proof.
  induction 1 as [|b r Hb _ IH]; [cbn; lia|].
  cbn [unle length]. rewrite Nat2N.inj_succ, N.pow_succ_r'. lia.
Qed.


Lemma bok_firstn n l : bok l -> bok (firstn n l).
Proof.
  revert l; induction n as [|n IH]; intros l H; [constructor|].
  destruct l as [|x l]; [constructor|]. inversion H; subst. cbn [firstn]. constructor; [assumption|]. apply IH. assumption.
Qed.
Lemma bok_skipn n l : bok l -> bok (skipn n l).
Proof.
  revert l; induction n as [|n IH]; intros l H; [exact H|].
  destruct l as [|x l]; [constructor|]. inversion H; subst. cbn [skipn]. apply IH. assumption.
Qed.

(* split a byte list with at least 7 bytes into its TLV header parts *)
Lemma split7 bs : (7 <= length bs)%nat -> bok bs ->
  bs = le 4 (unle (firstn 4 bs)) ++ [nth 4 bs 0] ++ le 2 (unle (firstn 2 (skipn 5 bs))) ++ skipn 7 bs.
Proof.
  intros Hl Hb.
  do 7 (destruct bs as [|? bs]; [cbn in Hl; lia|]).
  unfold bok in *.
  repeat match goal with H : Forall _ (_ :: _) |- _ => inversion H; clear H; subst end.
  change (firstn 4 (n :: n0 :: n1 :: n2 :: n3 :: n4 :: n5 :: bs)) with [n; n0; n1; n2].
  change (firstn 2 (skipn 5 (n :: n0 :: n1 :: n2 :: n3 :: n4 :: n5 :: bs))) with [n4; n5].
  change (skipn 7 (n :: n0 :: n1 :: n2 :: n3 :: n4 :: n5 :: bs)) with bs.
  change (nth 4 (n :: n0 :: n1 :: n2 :: n3 :: n4 :: n5 :: bs) 0) with n3.
  assert (E4 : le 4 (unle [n; n0; n1; n2]) = [n; n0; n1; n2]) by (apply (le_unle [n; n0; n1; n2]); repeat constructor; assumption).
  assert (E2 : le 2 (unle [n4; n5]) = [n4; n5]) by (apply (le_unle [n4; n5]); repeat constructor; assumption).
  rewrite E4, E2. reflexivity.
Qed.

Theorem dec_items_sound : forall fuel bs ms, bok bs -> dec_items fuel bs = Some ms -> items_rel bs ms.
Proof.
  induction fuel as [|f IH]; intros bs ms Hb H; [discriminate|].
  cbn [dec_items] in H.
  destruct bs as [|b0 bs0] eqn:Ebs; [injection H as <-; constructor|]. rewrite <- Ebs in *.
  destruct (Nat.ltb_spec (length bs) 7) as [|Hlen]; [discriminate|].
  set (tag := unle (firstn 4 bs)) in *. set (dt := nth 4 bs 0) in *.
  set (l := unle (firstn 2 (skipn 5 bs))) in *. set (rest := skipn 7 bs) in *.
  destruct (defined_dt dt) eqn:Hdef; [|discriminate]. cbn [negb] in H.
  destruct (N.ltb_spec max_data l) as [|Hmax]; [discriminate|].
  destruct (match fixed_len dt with Some k => negb (k =? l) | None => false end) eqn:Hfix; [discriminate|].
  destruct (N.ltb_spec (N.of_nat (length rest)) l) as [|Hrl]; [discriminate|].
  set (raw := firstn (N.to_nat l) rest) in *. set (rest' := skipn (N.to_nat l) rest) in *.
  assert (Hraw : N.of_nat (length raw) = l).
  { unfold raw. rewrite firstn_length, Nat.min_l by lia. apply N2Nat.id. }
  assert (Hbrest : bok rest) by (apply bok_skipn; exact Hb).
  assert (Hbraw : bok raw) by (apply bok_firstn; exact Hbrest).
  assert (Hbrest' : bok rest') by (apply bok_skipn; exact Hbrest).
  destruct (if dt =? 14 then match dec_items f raw with Some ms0 => Some (GMsgs ms0) | None => None end
            else dec_scalar dt raw) as [v|] eqn:Hov; [|discriminate].
  destruct (dec_items f rest') as [ms'|] eqn:Hrest; [|discriminate].
  injection H as <-.
  rewrite (split7 bs Hlen Hb). fold tag dt l rest.
  replace rest with (raw ++ rest') by (apply firstn_skipn).
  rewrite <- Hraw.
  constructor.
  - unfold tag. pose proof (unle_lt (firstn 4 bs) (bok_firstn 4 bs Hb)) as HT.
    rewrite firstn_length, Nat.min_l in HT by lia. exact HT.
  - exact Hdef.
  - rewrite Hraw. exact Hmax.
  - intros k Hk. rewrite Hk in Hfix. apply negb_false_iff, N.eqb_eq in Hfix. rewrite Hraw. exact Hfix.
  - destruct (N.eqb_spec dt 14) as [->|Hne].
    + destruct (dec_items f raw) as [ms0|] eqn:Hc; [|discriminate]. injection Hov as <-.
      constructor. apply IH; assumption.
    + constructor; assumption.
  - apply IH; assumption.
Qed.

Print Assumptions dec_items_sound.
