(* The cipher as the rest of the model uses it: Rijndael-256 block functions made total on arbitrary lists of N
   (the identity on anything that is not a list of bytes - Go's []byte can never hold such a thing, so on every
   value the real code can reach these are exactly encrypt_block / decrypt_block), and CBC over them. *)
From Coq Require Import List Arith NArith Lia Bool.
Import ListNotations.
Require Import Bytes CBC Rijndael.
Local Open Scope N_scope.

Definition bytesb (b : list N) : bool := forallb (fun x => x <? 256) b.
Definition E (ks b : list N) : list N := if bytesb b then encrypt_block ks b else b.
Definition D (ks b : list N) : list N := if bytesb b then decrypt_block ks b else b.

Definition iv0 : list N := repeat 255 32.
Definition key_pad (k : list N) : list N := firstn 32 (k ++ repeat 255 32).

(* CBC on block-aligned data: the chain value is the last ciphertext block *)
Definition c_enc (ks iv p : list N) : list N * list N := cbc_enc (E ks) (length p / 32) iv p.
Definition c_dec (ks iv c : list N) : list N * list N := cbc_dec (D ks) (length c / 32) iv c.
