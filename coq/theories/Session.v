(* Concrete instance of the unified client model (Client.v): RSCP frames, CRC, Rijndael-256/CBC, request validation,
   the authentication request and verdict of client.go, and a reactive scripted peer as environment. `session` is what
   the correspondence check runs against the real rscp.Client. *)
From Coq Require Import List NArith ZArith Bool.
Import ListNotations.
Require Import Codec CRC Frame Rijndael Cipher SCipher Validate Vocab Config Client.
Local Open Scope N_scope.

Definition c_encode (crc : bool) (ts : Z * Z) (ms : list message) : list N := pad32 (frame (fst ts) (snd ts) crc ms).

(* what Client.receive does with the result of rscp.Read on the plaintext received so far:
   None = protocol error (abort), Some None = go on reading, Some (Some ms) = reply complete *)
Definition header_ok (p : list N) : bool :=
  let c := unle (firstn 2 (skipn 2 p)) in
  (unle (firstn 2 p) =? magic) && (N.lor c ctrl_mask =? ctrl_mask) && (N.land c ver_mask =? ver1).
Definition c_verdict (b : list N) : option (option (list message)) :=
  match b with [] => Some None | _ =>       (* nothing received yet: go on reading (Read is never called with nothing) *)
  match decode_frame b with
  | Accept [] => Some None                      (* m == nil: the loop goes on *)
  | Accept ms => Some (Some ms)
  | NeedMore => Some None
  | Reject =>
    if header_ok b then
      let c := unle (firstn 2 (skipn 2 b)) in
      let crc := negb (N.land c crc_bit =? 0) in
      let fsize := (hdr + N.to_nat (unle (firstn 2 (skipn 16 b))) + (if crc then 4 else 0))%nat in
      if (fsize <=? length b)%nat && negb (all_zero (skipn fsize b)) then Some None   (* "unexpected data after the frame" carries the incomplete sentinel *)
      else None
    else None
  end end.
Definition c_decode_step (buf pt : list N) := (c_verdict (buf ++ pt), buf ++ pt).

(* validateRequests: request tags at top level, every message valid, and the whole list fits one frame *)
Definition c_valid (ms : list message) : bool :=
  forallb (fun m => match m with Msg t _ _ => is_request t && validb m end) ms &&
  (N.of_nat (length (enc_items ms)) <=? 65535).

(* CreateRequest(RSCP_REQ_AUTHENTICATION, RSCP_AUTHENTICATION_USER, user, RSCP_AUTHENTICATION_PASSWORD, password) *)
Definition c_auth_req (user pass : list N) : list message :=
  [Msg 1 14 (GMsgs [Msg 2 13 (GStr user); Msg 3 13 (GStr pass)])].
(* client.go:authenticate on the first message of the reply *)
Definition c_auth_ok (ms : list message) : bool :=
  match ms with
  | Msg tag _ v :: _ => (tag =? 8388609) && match v with GU8 n => negb (n =? 0) | GI32 z => negb (z =? 0)%Z | _ => false end
  | [] => false
  end.

(* ---- a reactive scripted peer: every Write of the client triggers the next reaction of the current connection ---- *)
Inductive reaction :=
| RAnswer (pieces : list (list N * Z)) (then_eof : bool)   (* the peer sends these pieces (each after a delay), then optionally closes *)
| RWriteFail.                                              (* the write itself fails *)
Record renv := { r_conns : list (list reaction);           (* scripts of the connections not yet dialled *)
                 r_script : list reaction;                  (* remaining reactions of the current connection *)
                 r_inflight : list (rres * Z);              (* sent by the peer, not yet read by the client *)
                 r_now : Z * Z }.
Definition forever : Z := 4611686018427387904%Z.            (* 2^62 ns: longer than any deadline *)
Definition r_dial (e : renv) : renv * bool * Z :=
  match r_conns e with
  | [] => (e, false, 0%Z)
  | s :: r => ({| r_conns := r; r_script := s; r_inflight := []; r_now := r_now e |}, true, 0%Z)
  end.
Definition r_write (e : renv) (ct : list N) : renv * bool * Z :=
  match r_script e with
  | [] => (e, true, 0%Z)                                    (* nothing scripted: the peer stays silent *)
  | RWriteFail :: r => ({| r_conns := r_conns e; r_script := r; r_inflight := r_inflight e; r_now := r_now e |}, false, 0%Z)
  | RAnswer ps eof :: r =>
    ({| r_conns := r_conns e; r_script := (if eof then [] else r);    (* a peer that closed reacts to nothing any more *)
        r_inflight := r_inflight e ++ map (fun pd => (RData (fst pd), snd pd)) ps ++ (if eof then [(REOF, 0%Z)] else []);
        r_now := r_now e |}, true, 0%Z)
  end.
Definition r_read (e : renv) (n : nat) : renv * rres * Z :=
  match r_inflight e with
  | [] => (e, RTimeout, forever)
  | (RData b, d) :: q =>
    if (length b <=? n)%nat
    then ({| r_conns := r_conns e; r_script := r_script e; r_inflight := q; r_now := r_now e |}, RData b, d)
    else ({| r_conns := r_conns e; r_script := r_script e; r_inflight := (RData (skipn n b), 0%Z) :: q; r_now := r_now e |}, RData (firstn n b), d)
  | (r, d) :: q => ({| r_conns := r_conns e; r_script := r_script e; r_inflight := q; r_now := r_now e |}, r, d)
  end.
Definition r_close (e : renv) : renv := {| r_conns := r_conns e; r_script := []; r_inflight := []; r_now := r_now e |}.
Definition reactive : envsm renv :=
  {| on_dial := r_dial; on_write := r_write; on_read := r_read; on_close := r_close; on_now := fun e => (e, r_now e) |}.

Inductive scall := SSend (ms : list message) | SDisc.

Record scfg := { s_key : list N; s_user : list N; s_pass : list N; s_crc : bool;
                 s_conn_to : Z; s_send_to : Z; s_recv_to : Z; s_rbuf : N; s_level : N; s_time : Z * Z;
                 s_attached : bool }.             (* attached: the harness installed connection 0 before the first call *)

(* Client.Send (one request): SendMultiple with the one-element list, the result narrowed to the first message of the reply *)
Definition send_one_result (r : res (list message)) : res (list message) :=
  match r with Ok _ (m :: _) => Ok _ [m] | _ => r end.

Definition fuel_per_call : nat := N.to_nat 200000.

(* the defaults ClientConfig.check applies (the same rules as Config.check, proved there) *)
Definition eff_to (t : Z) : Z := if (t <=? 0)%Z then (3 * Config.second)%Z else t.
Definition eff_rbuf (b : N) : N := if (b =? 0) || (Config.max_blocks <? b) then 1 else b.

(* one call of the caller: SendMultiple or Disconnect; the results are collected for the correspondence check *)
Definition sstep (c : scfg) (ks : list N) (acc : cstate * world message renv * list (res (list message))) (cl : scall)
  : cstate * world message renv * list (res (list message)) :=
  let '(s, w, rs) := acc in
  match cl with
  | SSend ms =>
    let '(s', w', r) := send_multiple message (c_encode (s_crc c)) c_decode_step (s_enc ks) (s_dec ks) iv0 c_valid
                          (c_auth_req (s_user c) (s_pass c)) c_auth_ok (eff_to (s_conn_to c)) (eff_to (s_send_to c)) (eff_to (s_recv_to c))
                          (32 * N.to_nat (eff_rbuf (s_rbuf c))) renv reactive fuel_per_call s w ms in
    (s', w', rs ++ [r])
  | SDisc => let '(s', w') := disconnect message renv reactive s w in (s', w', rs ++ [Ok (list message) []])
  end.

Definition session (c : scfg) (conns : list (list reaction)) (calls : list scall) : list (event message) * list (res (list message)) :=
  let ks := key_schedule (key_pad (s_key c)) in
  let e0 := {| r_conns := conns; r_script := []; r_inflight := []; r_now := s_time c |} in
  let w0 := init_world message renv e0 (s_level c) in
  (* an attached connection: the harness dialled for the client (no connect(), hence no log and no event) *)
  let w0 := if s_attached c
            then match conns with
                 | sc :: rest => Build_world message renv (Some O) 1%nat
                                    {| r_conns := rest; r_script := sc; r_inflight := []; r_now := s_time c |}
                                    0%Z (s_level c) []
                 | [] => w0 end
            else w0 in
  let '(_, w, rs) := fold_left (sstep c ks) calls (init_state iv0, w0, []) in
  (rev (out message renv w), rs).
