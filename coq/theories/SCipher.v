(* The cipher interface of the client model (Client.v takes enc/dec as parameters), instantiated with Rijndael-256/CBC:
   chains are normalised to 32 bytes (the identity on every chain a run can reach: IV and cipher blocks are 32 bytes). *)
From Coq Require Import List Arith NArith Lia Bool.
Import ListNotations.
Require Import Bytes CBC CBCInst Rijndael Cipher.
Local Open Scope N_scope.

Definition s_enc (ks : list N) (iv p : list N) : list N * list N := match p with [] => ([], iv) | _ => CBCInst.enc (E ks) iv p end.
Definition s_decP (ks : list N) (iv c : list N) : list N := CBCInst.decP (D ks) iv c.
Definition s_decI (ks : list N) (iv c : list N) : list N := match c with [] => iv | _ => CBCInst.decI (D ks) iv c end.
Definition s_dec (ks : list N) (iv c : list N) : list N * list N := (s_decP ks iv c, s_decI ks iv c).
