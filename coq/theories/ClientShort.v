(* The receive loop on a reply that is cut short: whatever the segmentation, when only a proper prefix of a reply arrives and the
   transport then reports end-of-stream or a timeout, the call fails with an I/O error and the connection is closed. *)
From Coq Require Import List Arith NArith ZArith Lia Bool.
Import ListNotations.
Require Import Client ClientReasm.
Local Open Scope N_scope.

Lemma fl_le' k : (ClientReasm.fl k <= k)%nat.
Proof. unfold ClientReasm.fl. pose proof (Nat.div_mod k 32 ltac:(discriminate)). lia. Qed.
Lemma fl_add' a k : (a mod 32 = 0)%nat -> ClientReasm.fl (a + k) = (a + ClientReasm.fl k)%nat.
Proof.
  intro H. unfold ClientReasm.fl. pose proof (Nat.div_mod a 32 ltac:(discriminate)) as D. rewrite H in D.
  replace (a + k)%nat with (k + (a / 32) * 32)%nat by lia. rewrite Nat.div_add by discriminate. lia.
Qed.

Section Short.
  Variable msg : Type.
  Variable decP : list N -> list N -> list N.
  Variable decI : list N -> list N -> list N.
  Notation dec := (ClientReasm.dec decP decI).
  Notation al := ClientReasm.al.
  Hypothesis decP_app : forall iv a b, al a -> decP iv (a ++ b) = decP iv a ++ decP (decI iv a) b.
  Hypothesis decI_app : forall iv a b, al a -> decI iv (a ++ b) = decI (decI iv a) b.
  Variable V : list N -> option (option (list msg)).
  Notation decode_step := (ClientReasm.decode_step msg V).
  Variable rbuf : nat.
  Hypothesis rbuf_pos : (0 < rbuf)%nat.
  Variable E : Type.
  Variable scripted : envsm E.
  Variable qview : E -> list (list N).
  Variable Rel : E -> E -> Prop.
  Hypothesis Rel_trans : forall a b c, Rel a b -> Rel b c -> Rel a c.
  Hypothesis Rel_close : forall e, Rel e (on_close E scripted e).
  Hypothesis read_view : forall e n, match qview e with
    | [] => True
    | p :: r => exists e', on_read E scripted e n =
                  (e', RData (if (length p <=? n)%nat then p else firstn n p), 0%Z) /\
                qview e' = (if (length p <=? n)%nat then r else skipn n p :: r) /\ Rel e e'
    end.
  (* with nothing queued a Read reports, at once, end-of-stream or a timeout *)
  Hypothesis read_empty : forall e n, qview e = [] ->
    exists e' r, on_read E scripted e n = (e', r, 0%Z) /\ (r = REOF \/ r = RTimeout) /\ Rel e e'.

  Notation world := (world msg E).
  Notation recv_loop := (recv_loop msg decode_step dec rbuf E scripted).
  Notation fl := ClientReasm.fl.
  Notation nonempty := ClientReasm.nonempty.

  Lemma loop_short : forall n fuel (e : list (list N)) R P s iv S buf pend (w : world) deadline j,
    (length (concat e) <= n)%nat -> (n < fuel)%nat ->
    one_reply msg decP V iv S -> R ++ concat e = P -> P = firstn (length P) S -> (length P < length S)%nat -> nonempty e ->
    cur msg E w = Some j -> qview (est msg E w) = e -> (clock msg E w <= deadline)%Z ->
    forall e0, Rel e0 (est msg E w) ->
    pend = skipn (fl (length R)) R -> buf = decP iv (firstn (fl (length R)) R) ->
    div s = decI iv (firstn (fl (length R)) R) ->
    let '(s', w', r) := recv_loop fuel deadline buf pend s w in
    r = Err _ EIO /\ cur msg E w' = None /\ Rel e0 (est msg E w') /\ authed s' = false.
  Proof.
    induction n as [n IH] using lt_wf_ind.
    intros fuel e R P s iv S buf pend w deadline j Hn Hfuel Hone HP HPS HltS Hne Hcur Hest Hdl e0 Hrel Hpend Hbuf Hdiv.
    destruct fuel as [|f]; [lia|]. cbn [Client.recv_loop]. rewrite Hcur.
    destruct e as [|p r].
    - (* nothing more arrives *)
      destruct (read_empty (est msg E w) rbuf Hest) as (e' & rr & Hrd & Hrr & Hrel'). rewrite Hrd.
      replace (dur 0%Z) with 0%Z by reflexivity. rewrite !Z.add_0_r.
      destruct (Z.ltb_spec deadline (clock msg E w)) as [|_]; [lia|].
      assert (Hrel1 : Rel e0 (on_close E scripted e')) by (eapply Rel_trans; [eapply Rel_trans; eassumption|apply Rel_close]).
      destruct Hrr as [-> | ->]; unfold Client.disconnect; cbn [cur Client.upd];
        rewrite (proj1 (log_keeps msg E _ _ _)), (proj2 (log_keeps msg E _ _ _)); cbn [cur est Client.upd unauth authed]; auto.
    - assert (Hp : p <> []) by (inversion Hne; assumption).
      assert (Hr : nonempty r) by (inversion Hne; assumption).
      pose proof (read_view (est msg E w) rbuf) as RV. rewrite Hest in RV. destruct RV as (e' & Hrd & Hq' & Hrel').
      assert (Hrel1 : Rel e0 e') by (eapply Rel_trans; eassumption).
      rewrite Hrd.
      set (c := if (length p <=? rbuf)%nat then p else firstn rbuf p) in *.
      set (q' := if (length p <=? rbuf)%nat then r else skipn rbuf p :: r) in *.
      assert (Hce : c ++ concat q' = concat (p :: r) /\ c <> [] /\ nonempty q').
      { unfold c, q'. destruct (Nat.leb_spec (length p) rbuf) as [Hle|Hgt].
        - cbn [concat]. auto.
        - cbn [concat]. rewrite app_assoc, firstn_skipn. repeat split.
          + destruct p; [congruence|]. destruct rbuf; [lia|]. discriminate.
          + constructor; [|exact Hr]. intro E0. apply (f_equal (@length N)) in E0. rewrite skipn_length in E0. change (length (@nil N)) with 0%nat in E0. lia. }
      destruct Hce as (Hce & Hc & Hne').
      clearbody c q'.
      replace (dur 0%Z) with 0%Z by reflexivity. rewrite !Z.add_0_r.
      destruct (Z.ltb_spec deadline (clock msg E w)) as [|_]; [lia|].
      assert (Hlc : (length c =? 0)%nat = false) by (destruct c; [congruence|reflexivity]). rewrite Hlc.
      set (w1 := upd msg E w (Some j) (next msg E w) e' (clock msg E w) [EvRead msg j (RData c)]).
      set (a := fl (length R)) in *. set (R' := R ++ c).
      assert (Ha : (a <= length R)%nat) by apply fl_le'.
      assert (Hall : pend ++ c = skipn a R').
      { unfold R'. rewrite skipn_app. replace (a - length R)%nat with 0%nat by lia. rewrite Hpend. reflexivity. }
      rewrite Hall.
      assert (Hlen : length (skipn a R') = (length R' - a)%nat) by apply skipn_length.
      assert (Hfl : fl (length R') = (a + fl (length R' - a))%nat).
      { replace (length R') with (a + (length R' - a))%nat at 1 by (unfold R'; rewrite app_length; lia). apply fl_add', fl_mod. }
      rewrite Hlen. fold (fl (length R' - a)). set (k := fl (length R' - a)) in *.
      assert (HP' : R' ++ concat q' = P) by (unfold R'; rewrite <- app_assoc, Hce; exact HP).
      assert (Hfa : firstn a R' = firstn a R).
      { unfold R'. rewrite firstn_app. replace (a - length R)%nat with 0%nat by lia. rewrite firstn_O, app_nil_r. reflexivity. }
      assert (Hn' : (length (concat q') < n)%nat).
      { apply (f_equal (@length N)) in Hce. rewrite app_length in Hce. destruct c; [congruence|cbn [length] in Hce; lia]. }
      assert (Hw1 : cur msg E w1 = Some j /\ est msg E w1 = e' /\ clock msg E w1 = clock msg E w) by (repeat split).
      destruct Hw1 as (Hc1 & He1 & Hk1).
      destruct (Nat.eqb_spec k 0) as [Hk0|Hk0].
      + apply (IH (length (concat q')) Hn' f q' R' P s iv S buf (skipn a R') w1 deadline j); auto; try lia.
        * rewrite Hfl, Hk0, Nat.add_0_r. reflexivity.
        * rewrite Hfl, Hk0, Nat.add_0_r, Hfa. exact Hbuf.
        * rewrite Hfl, Hk0, Nat.add_0_r, Hfa. exact Hdiv.
      + set (chunk := firstn k (skipn a R')).
        assert (Hchunk : firstn (a + k) R' = firstn a R ++ chunk) by (rewrite firstn_split, Hfa; reflexivity).
        assert (Hala : al (firstn a R)) by (unfold ClientReasm.al; rewrite firstn_length, Nat.min_l by exact Ha; apply fl_mod).
        unfold ClientReasm.dec at 1. rewrite Hdiv. fold a.
        unfold ClientReasm.decode_step at 1. rewrite Hbuf. fold a.
        rewrite <- decP_app, <- Hchunk, <- Hfl by exact Hala.
        assert (Hfl_le : (fl (length R') <= length R')%nat) by apply fl_le'.
        assert (HR'P : (length R' <= length P)%nat) by (rewrite <- HP', app_length; lia).
        assert (Hpre : firstn (fl (length R')) R' = firstn (fl (length R')) S).
        { transitivity (firstn (fl (length R')) P).
          - rewrite <- HP'. rewrite firstn_app. replace (fl (length R') - length R')%nat with 0%nat by lia. rewrite firstn_O, app_nil_r. reflexivity.
          - rewrite HPS at 1. rewrite firstn_firstn, Nat.min_l by lia. reflexivity. }
        destruct Hone as (HalS & Hmore & Hdec).
        rewrite Hpre, (Hmore (fl (length R'))) by (try apply fl_mod; lia).
        rewrite <- Hpre.
        set (s1 := {| authed := authed s; eiv := eiv s; div := decI (decI iv (firstn a R)) chunk |}).
        apply (IH (length (concat q')) Hn' f q' R' P s1 iv S _ _ w1 deadline j); auto; try lia.
        * split; [exact HalS|split; assumption].
        * rewrite Hfl. unfold chunk. rewrite skipn_add. reflexivity.
        * cbn [div s1]. rewrite <- decI_app by exact Hala. rewrite <- Hchunk, <- Hfl. reflexivity.
  Qed.
End Short.
