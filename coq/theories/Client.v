(* Unified client model: environment state machine, trace with ghost and log events, clock, log level.
   Codec, cipher, validation and the auth verdict are parameters (instantiated by Frame/CBC/Validate). *)
From Coq Require Import List Arith NArith ZArith Lia Bool.
Import ListNotations.
Local Open Scope N_scope.

Section Client.
  Variable msg : Type.
  Variable encode : Z * Z -> list msg -> list N.        (* timestamp -> messages -> padded plaintext frame *)
  Variable decode_step : list N -> list N -> option (option (list msg)) * list N.
  Variable enc : list N -> list N -> list N * list N.
  Variable dec : list N -> list N -> list N * list N.
  Variable iv0 : list N.
  Variable valid_req : list msg -> bool.
  Variable auth_req : list msg.
  Variable auth_ok : list msg -> bool.
  Variables conn_to send_to recv_to : Z.
  Variable rbuf : nat.                                    (* receive buffer size in bytes *)

  Inductive rres := RData (b : list N) | REOF | RTimeout.
  Inductive lkind := LText (id : N) | LTree (ms : list msg) | LDump (b : list N).
  Inductive event :=
  | EvDial (j : nat) | EvDialFail | EvSetWD (j : nat) (d : Z) | EvWrite (j : nat) (ct : list N) | EvWriteFail (j : nat)
  | EvSetRD (j : nat) (d : Z) | EvRead (j : nat) (r : rres) | EvClose (j : nat)
  | EvLog (lvl : N) (k : lkind)
  | EvFrame (j : nat) (ms : list msg) | EvGranted (j : nat).

  Variable E : Type.
  Record envsm := { on_dial : E -> E * bool * Z; on_write : E -> list N -> E * bool * Z;
                    on_read : E -> nat -> E * rres * Z; on_close : E -> E; on_now : E -> E * (Z * Z) }.
  Variable m : envsm.

  Record world := { cur : option nat; next : nat; est : E; clock : Z; level : N; out : list event }.
  Record cstate := { authed : bool; eiv : list N; div : list N }.

  Inductive err := EValidate | EIO | EProto | EAuth | EDial | ERunning.
  Inductive res (A : Type) := Ok (a : A) | Err (x : err).
  Arguments Ok {A}. Arguments Err {A}.

  Definition dur (d : Z) : Z := Z.max 0 d.
  Definition upd (w : world) (c : option nat) (n : nat) (e : E) (t : Z) (evs : list event) : world :=
    {| cur := c; next := n; est := e; clock := t; level := level w; out := evs ++ out w |}.
  Definition emit (x : event) (w : world) : world := upd w (cur w) (next w) (est w) (clock w) [x].
  (* logrus: a record is written iff its level is at most the logger's level *)
  Definition log (lvl : N) (k : lkind) (w : world) : world := if lvl <=? level w then emit (EvLog lvl k) w else w.
  Definition set_level (l : N) (w : world) : world :=
    {| cur := cur w; next := next w; est := est w; clock := clock w; level := l; out := out w |}.
  Definition unauth (s : cstate) : cstate := {| authed := false; eiv := eiv s; div := div s |}.

  Definition lInfo := 4. Definition lDebug := 5. Definition lTrace := 6.

  Definition disconnect (s : cstate) (w : world) : cstate * world :=
    (unauth s, match cur w with
               | Some j => log lInfo (LText 3) (upd w None (next w) (on_close m (est w)) (clock w) [EvClose j])
               | None => w end).

  Definition connect (s : cstate) (w : world) : cstate * world * res unit :=
    let w := log lInfo (LText 1) w in
    let '(e', ok, d) := on_dial m (est w) in
    if (dur d <=? conn_to)%Z && ok
    then ({| authed := authed s; eiv := iv0; div := iv0 |},
          log lInfo (LText 2) (upd w (Some (next w)) (S (next w)) e' (clock w + dur d)%Z [EvDial (next w)]), Ok tt)
    else (s, upd w None (next w) e' (clock w + Z.min (dur d) conn_to)%Z [EvDialFail], Err EDial).

  Definition send (s : cstate) (w : world) (ms : list msg) : cstate * world * res unit :=
    if negb (valid_req ms) then (s, w, Err EValidate) else
    match cur w with
    | None => (s, w, Err EIO)
    | Some j =>
      let w := log lDebug (LTree ms) w in
      let '(e1, ts) := on_now m (est w) in
      let plain := encode ts ms in
      let w := log lTrace (LDump plain) w in
      let '(ct, iv') := enc (eiv s) plain in
      let w := log lTrace (LDump ct) w in
      let s' := {| authed := authed s; eiv := iv'; div := div s |} in
      let w := emit (EvSetWD j send_to) w in
      let '(e', ok, d) := on_write m e1 ct in
      if (dur d <=? send_to)%Z && ok
      then (s', upd w (Some j) (next w) e' (clock w + dur d)%Z [EvWrite j ct; EvFrame j ms], Ok tt)
      else let '(s2, w2) := disconnect s' (upd w (Some j) (next w) e' (clock w + Z.min (dur d) send_to)%Z [EvWriteFail j]) in
           (s2, w2, Err EIO)
    end.

  Fixpoint recv_loop (fuel : nat) (deadline : Z) (buf pend : list N) (s : cstate) (w : world) : cstate * world * res (list msg) :=
    match fuel with
    | O => (s, w, Err ERunning)
    | S f =>
      match cur w with
      | None => (s, w, Err EIO)
      | Some j =>
        let '(e', r, d) := on_read m (est w) rbuf in
        if (deadline <? clock w + dur d)%Z then
          let '(s2, w2) := disconnect s (upd w (Some j) (next w) e' deadline [EvRead j RTimeout]) in (s2, w2, Err EIO)
        else
        let w1 := upd w (Some j) (next w) e' (clock w + dur d)%Z [EvRead j r] in
        match r with
        | RData b =>
          (* conn.Read returned (0, nil): receive returns ErrRscpInvalidFrameLength and leaves the connection open *)
          if (length b =? 0)%nat then (s, w1, Err EProto) else
          let all := pend ++ b in
          let n := (32 * (length all / 32))%nat in
          if (n =? 0)%nat then recv_loop f deadline buf all s w1 else
          let '(pt, iv') := dec (div s) (firstn n all) in
          let s1 := {| authed := authed s; eiv := eiv s; div := iv' |} in
          match decode_step buf pt with
          | (None, _) => let '(s2, w2) := disconnect s1 w1 in (s2, w2, Err EProto)
          | (Some None, buf') => recv_loop f deadline buf' (skipn n all) s1 w1
          | (Some (Some ms), _) => (s1, log lTrace (LTree ms) (log lTrace (LDump pt) w1), Ok ms)
          end
        | _ => let '(s2, w2) := disconnect s w1 in (s2, w2, Err EIO)
        end
      end
    end.

  Definition receive (fuel : nat) (s : cstate) (w : world) : cstate * world * res (list msg) :=
    match cur w with
    | None => (s, w, Err EIO)
    | Some j => recv_loop fuel (clock w + recv_to)%Z [] [] s (emit (EvSetRD j recv_to) w)
    end.

  Definition auth_level := 99.

  Definition authenticate (fuel : nat) (s : cstate) (w : world) : cstate * world * res unit :=
    let org := level w in
    let w := if org <? auth_level then set_level (N.min org lInfo) (log lInfo (LText 4) w) else w in
    let '(s1, w1, r1) := send s w auth_req in
    let w1 := if org <? auth_level then set_level org w1 else w1 in
    match r1 with
    | Err x => (s1, w1, Err x)
    | Ok _ =>
      match receive fuel s1 w1 with
      | (s2, w2, Err x) => (s2, w2, Err x)
      | (s2, w2, Ok ms) =>
        if auth_ok ms
        then ({| authed := true; eiv := eiv s2; div := div s2 |},
              log lInfo (LText 5) (match cur w2 with Some j => emit (EvGranted j) w2 | None => w2 end), Ok tt)
        else (unauth s2, w2, Err EAuth)
      end
    end.

  Definition send_multiple (fuel : nat) (s : cstate) (w : world) (ms : list msg) : cstate * world * res (list msg) :=
    let '(s0, w0, r0) := match cur w with None => connect s w | Some _ => (s, w, Ok tt) end in
    match r0 with Err x => (s0, w0, Err x) | Ok _ =>
    let '(s1, w1, r1) := if authed s0 then (s0, w0, Ok tt) else authenticate fuel s0 w0 in
    match r1 with Err x => (s1, w1, Err x) | Ok _ =>
    match send s1 w1 ms with
    | (s2, w2, Err x) => (s2, w2, Err x)
    | (s2, w2, Ok _) => receive fuel s2 w2
    end end end.

  Inductive call := CSend (fuel : nat) (ms : list msg) | CDisconnect.
  Definition do_call (s : cstate) (w : world) (c : call) : cstate * world :=
    match c with
    | CSend fuel ms => let '(s', w', _) := send_multiple fuel s w ms in (s', w')
    | CDisconnect => disconnect s w
    end.
  Fixpoint run (s : cstate) (w : world) (cs : list call) : cstate * world :=
    match cs with [] => (s, w) | c :: r => let '(s', w') := do_call s w c in run s' w' r end.

  Definition init_world (e : E) (lvl : N) : world := {| cur := None; next := 0; est := e; clock := 0; level := lvl; out := [] |}.
  Definition init_state : cstate := {| authed := false; eiv := iv0; div := iv0 |}.
End Client.
