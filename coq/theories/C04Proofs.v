From Coq Require Import List NArith ZArith Lia Bool ZifyN ZifyNat.
Import ListNotations.
Require Import Codec CodecProofs CRC Frame FrameProofs FrameProofs2 FrameProofs3 FrameProofs4 FrameProofs5 CRCFrame.
Local Open Scope N_scope.

(* decode_frame computed on a plaintext given by its parts *)
Lemma decode_frame_shape c ts payload trailer padding :
  c < 65536 -> N.lor c ctrl_mask = ctrl_mask -> N.land c ver_mask = ver1 -> (N.land c crc_bit =? 0) = false ->
  length ts = 12%nat -> N.of_nat (length payload) < 65536 -> length trailer = 4%nat ->
  let pre := le 2 magic ++ le 2 c ++ ts ++ le 2 (N.of_nat (length payload)) ++ payload in
  let p := pre ++ trailer ++ padding in
  (32 <= length p)%nat -> (length p mod 32 = 0)%nat ->
  decode_frame p =
    if negb (all_zero padding) then Reject else
    match dec_items (S (length payload)) payload with
    | None => Reject
    | Some ms => if unle trailer =? crc32 pre then Accept ms else Reject
    end.
Proof.
  intros Hc Hmask Hver Hcrc Hts Hpl Htr pre p Hlen Hmod.
  set (L := N.of_nat (length payload)) in *.
  assert (Hp : p = le 2 magic ++ le 2 c ++ ts ++ le 2 L ++ payload ++ trailer ++ padding).
  { unfold p, pre. rewrite <- !app_assoc. reflexivity. }
  unfold decode_frame.
  destruct (Nat.ltb_spec (length p) 32) as [|_]; [lia|].
  rewrite Hmod. cbn [Nat.eqb negb orb].
  assert (E2 : firstn 2 p = le 2 magic) by (rewrite Hp; apply firstn_app_exact, le_length).
  assert (S2 : skipn 2 p = le 2 c ++ ts ++ le 2 L ++ payload ++ trailer ++ padding)
    by (rewrite Hp; apply skipn_app_exact, le_length).
  assert (S4 : skipn 4 p = ts ++ le 2 L ++ payload ++ trailer ++ padding).
  { change 4%nat with (2 + 2)%nat. rewrite skipn_add, S2. apply skipn_app_exact, le_length. }
  assert (S16 : skipn 16 p = le 2 L ++ payload ++ trailer ++ padding).
  { change 16%nat with (4 + 12)%nat. rewrite skipn_add, S4. apply skipn_app_exact, Hts. }
  assert (S18 : skipn hdr p = payload ++ trailer ++ padding).
  { unfold hdr. change 18%nat with (16 + 2)%nat. rewrite skipn_add, S16. apply skipn_app_exact, le_length. }
  rewrite E2, S2, S16.
  rewrite (firstn_app_exact (le 2 c)) by apply le_length.
  rewrite (firstn_app_exact (le 2 L)) by apply le_length.
  rewrite !unle_le by (change (256 ^ N.of_nat 2) with 65536; first [assumption | reflexivity]).
  rewrite N.eqb_refl. cbn [negb].
  rewrite Hmask, Hver, !N.eqb_refl, Hcrc. cbn [negb].
  replace (N.to_nat L) with (length payload) by (unfold L; rewrite Nat2N.id; reflexivity).
  assert (Hplen : length p = (hdr + length payload + 4 + length padding)%nat).
  { rewrite Hp. rewrite !app_length, !le_length, Hts, Htr. unfold hdr. lia. }
  destruct (Nat.ltb_spec (length p) (hdr + length payload + 4)) as [|_]; [lia|].
  assert (Spad : skipn (hdr + length payload + 4) p = padding).
  { rewrite !skipn_add, S18. rewrite skipn_app_exact by reflexivity. apply skipn_app_exact. exact Htr. }
  rewrite Spad. destruct (all_zero padding); cbn [negb]; [|reflexivity].
  rewrite S18. rewrite (firstn_app_exact payload) by reflexivity.
  destruct (dec_items (S (length payload)) payload) as [ms|]; [|reflexivity].
  rewrite skipn_add, S18, (skipn_app_exact payload) by reflexivity.
  rewrite (firstn_app_exact trailer) by exact Htr.
  assert (Epre : firstn (hdr + length payload) p = pre).
  { unfold p. apply firstn_app_exact. unfold pre. rewrite !app_length, !le_length, Hts. unfold hdr. lia. }
  rewrite Epre. reflexivity.
Qed.

(* xor of byte lists distributes over append when the left parts have equal length *)
Lemma xor_app a1 a2 b1 b2 : length a1 = length b1 -> xor_bytes (a1 ++ a2) (b1 ++ b2) = xor_bytes a1 b1 ++ xor_bytes a2 b2.
Proof.
  revert b1; induction a1 as [|x a1 IH]; intros [|y b1] H; cbn in *; try lia; [reflexivity|].
  rewrite IH by lia. reflexivity.
Qed.
Lemma xor_zeros a : xor_bytes a (repeat 0 (length a)) = a.
Proof. induction a as [|x a IH]; [reflexivity|]. cbn. rewrite IH, N.lxor_0_r. reflexivity. Qed.
Lemma xor_length a b : length a = length b -> length (xor_bytes a b) = length a.
Proof. revert b; induction a as [|x a IH]; intros [|y b] H; cbn in *; try lia. rewrite IH; lia. Qed.

Lemma val_eq_unle l : val l = unle l.
Proof. induction l as [|b r IH]; [reflexivity|]. cbn. rewrite IH. reflexivity. Qed.

(* C04: a valid checksummed frame altered (timestamp, payload, CRC field) by a burst of at most 32 bits
   (or any pattern burst32 covers) is never accepted *)
Lemma C04_reduce sec nsec ms e_ts e_pay e_crc :
  Forall wf_msg ms -> N.of_nat (length (enc_items ms)) < 65536 ->
  let payload := enc_items ms in
  let ts := le 8 (twos 64 sec) ++ le 4 (twos 32 nsec) in
  let pre := le 2 magic ++ le 2 (ctrl_word true) ++ ts ++ le 2 (N.of_nat (length payload)) ++ payload in
  length e_ts = 12%nat -> length e_pay = length payload -> length e_crc = 4%nat ->
  bytes_ok e_ts -> bytes_ok e_pay -> bytes_ok e_crc ->
  let e_pre := repeat 0 4 ++ e_ts ++ repeat 0 2 ++ e_pay in
  forall padding, (32 <= length (pre ++ le 4 (crc32 pre) ++ padding))%nat ->
                  (length (pre ++ le 4 (crc32 pre) ++ padding) mod 32 = 0)%nat ->
  forall ms', decode_frame (xor_bytes (pre ++ le 4 (crc32 pre) ++ padding)
                                      (e_pre ++ e_crc ++ repeat 0 (length padding))) = Accept ms' ->
  bytes_ok pre /\ bytes_ok e_pre /\ length e_pre = length pre /\
  (N.of_nat (length pre) <= 65553) /\
  N.lxor (crc32 pre) (val e_crc) = crc32 (xor_bytes pre e_pre).
Proof.
  intros Hwf Hsz payload ts pre Hl1 Hl2 Hl3 Hb1 Hb2 Hb3 e_pre padding Hlen Hmod ms' Hacc.
  assert (Hbpay : bok payload) by (unfold payload; apply (bok_enc (S (length (enc_items ms)))); [lia|exact Hwf]).
  assert (Hbts : bok ts) by (unfold ts; apply bok_app; apply bok_le).
  assert (Hbpre : bok pre).
  { unfold pre. repeat apply bok_app; try apply bok_le; assumption. }
  assert (Hlpre : length e_pre = length pre).
  { unfold e_pre, pre, ts. rewrite !app_length, !repeat_length, !le_length. lia. }
  (* shape of the altered frame *)
  assert (Hx : xor_bytes (pre ++ le 4 (crc32 pre) ++ padding) (e_pre ++ e_crc ++ repeat 0 (length padding)) =
               (le 2 magic ++ le 2 (ctrl_word true) ++ xor_bytes ts e_ts ++ le 2 (N.of_nat (length (xor_bytes payload e_pay))) ++ xor_bytes payload e_pay)
               ++ xor_bytes (le 4 (crc32 pre)) e_crc ++ padding).
  { rewrite xor_app by (symmetry; exact Hlpre).
    rewrite xor_app by (rewrite le_length; lia). rewrite xor_zeros.
    f_equal. unfold pre, e_pre.
    change (repeat 0 4) with (repeat 0 2 ++ repeat 0 2).
    rewrite <- !app_assoc.
    rewrite (xor_app (le 2 magic)) by (rewrite le_length; reflexivity).
    rewrite (xor_app (le 2 (ctrl_word true))) by (rewrite le_length; reflexivity).
    rewrite (xor_app ts) by (unfold ts; rewrite app_length, !le_length; lia).
    rewrite (xor_app (le 2 _)) by (rewrite le_length; reflexivity).
    rewrite xor_length by (symmetry; exact Hl2).
    pose proof (xor_zeros (le 2 magic)) as Z1. rewrite le_length in Z1. rewrite Z1.
    pose proof (xor_zeros (le 2 (ctrl_word true))) as Z2. rewrite le_length in Z2. rewrite Z2.
    pose proof (xor_zeros (le 2 (N.of_nat (length payload)))) as Z3. rewrite le_length in Z3. rewrite Z3.
    reflexivity. }
  assert (HL : length (xor_bytes (pre ++ le 4 (crc32 pre) ++ padding) (e_pre ++ e_crc ++ repeat 0 (length padding)))
               = length (pre ++ le 4 (crc32 pre) ++ padding)).
  { apply xor_length. rewrite !app_length, repeat_length, le_length, Hlpre, Hl3. reflexivity. }
  rewrite Hx in Hacc, HL. rewrite <- HL in Hlen, Hmod.
  assert (Hlt : length (xor_bytes ts e_ts) = 12%nat).
  { rewrite xor_length by (unfold ts; rewrite app_length, !le_length; lia). unfold ts. rewrite app_length, !le_length. reflexivity. }
  assert (Hlp : length (xor_bytes payload e_pay) = length payload) by (apply xor_length; symmetry; exact Hl2).
  assert (Hlc : length (xor_bytes (le 4 (crc32 pre)) e_crc) = 4%nat) by (rewrite xor_length by (rewrite le_length; lia); apply le_length).
  assert (Hshape := decode_frame_shape (ctrl_word true) (xor_bytes ts e_ts) (xor_bytes payload e_pay)
                      (xor_bytes (le 4 (crc32 pre)) e_crc) padding
                      eq_refl eq_refl eq_refl eq_refl Hlt ltac:(rewrite Hlp; exact Hsz) Hlc).
  cbv zeta in Hshape. specialize (Hshape Hlen Hmod). rewrite Hshape in Hacc. clear Hshape.
  destruct (negb (all_zero padding)); [discriminate|].
  destruct (dec_items _ _) as [ms2|]; [|discriminate].
  destruct (N.eqb_spec (unle (xor_bytes (le 4 (crc32 pre)) e_crc))
                       (crc32 (le 2 magic ++ le 2 (ctrl_word true) ++ xor_bytes ts e_ts ++
                               le 2 (N.of_nat (length (xor_bytes payload e_pay))) ++ xor_bytes payload e_pay))) as [E|]; [|discriminate].
  split; [exact Hbpre|]. split; [|split; [exact Hlpre|split]].
  - assert (Z : forall n, bytes_ok (repeat 0 n)) by (intro n; apply Forall_forall; intros x Hx'; apply repeat_spec in Hx'; subst; reflexivity).
    unfold e_pre. apply Forall_app; split; [apply Z|]. apply Forall_app; split; [assumption|]. apply Forall_app; split; [apply Z|assumption].
  - unfold pre, ts. rewrite !app_length, !le_length. unfold payload in *. rewrite !Nat2N.inj_add. cbn [N.of_nat Pos.of_succ_nat Pos.succ]. lia.
  - rewrite <- (val_eq_unle (xor_bytes _ _)) in E.
    destruct (val_xor (le 4 (crc32 pre)) e_crc) as [Hv _]; [apply bok_le|assumption|rewrite le_length; lia|].
    rewrite Hv in E. rewrite val_eq_unle, unle_le in E by (change (256 ^ N.of_nat 4) with W; apply crc32_bound; exact Hbpre).
    rewrite E. f_equal.
    unfold pre, e_pre. change (repeat 0 4) with (repeat 0 2 ++ repeat 0 2). rewrite <- !app_assoc.
    rewrite (xor_app (le 2 magic)) by (rewrite le_length; reflexivity).
    rewrite (xor_app (le 2 (ctrl_word true))) by (rewrite le_length; reflexivity).
    rewrite (xor_app ts) by (unfold ts; rewrite app_length, !le_length; lia).
    rewrite (xor_app (le 2 _)) by (rewrite le_length; reflexivity).
    rewrite Hlp.
    pose proof (xor_zeros (le 2 magic)) as Z1. rewrite le_length in Z1. rewrite Z1.
    pose proof (xor_zeros (le 2 (ctrl_word true))) as Z2. rewrite le_length in Z2. rewrite Z2.
    pose proof (xor_zeros (le 2 (N.of_nat (length payload)))) as Z3. rewrite le_length in Z3. rewrite Z3.
    reflexivity.
Qed.


(* the shape of a valid checksummed frame and of an alteration that leaves magic, control word and length alone *)
Section Altered.
  Variables (sec nsec : Z) (ms : list message) (e_ts e_pay e_crc padding : list N).
  Let payload := enc_items ms.
  Let ts := le 8 (twos 64 sec) ++ le 4 (twos 32 nsec).
  Let pre := le 2 magic ++ le 2 (ctrl_word true) ++ ts ++ le 2 (N.of_nat (length payload)) ++ payload.
  Let e_pre := repeat 0 4 ++ e_ts ++ repeat 0 2 ++ e_pay.
  Definition valid_frame : list N := pre ++ le 4 (crc32 pre) ++ padding.
  Definition alteration : list N := e_pre ++ e_crc ++ repeat 0 (length padding).
  Definition altered_bits : list N := e_pre ++ e_crc.
  Definition alteration_ok : Prop :=
    Forall wf_msg ms /\ N.of_nat (length (enc_items ms)) < 65536 /\
    length e_ts = 12%nat /\ length e_pay = length payload /\ length e_crc = 4%nat /\
    bytes_ok e_ts /\ bytes_ok e_pay /\ bytes_ok e_crc /\
    (32 <= length valid_frame)%nat /\ (length valid_frame mod 32 = 0)%nat.

  (* an alteration confined to 32 consecutive bits (LSB-first bit order, the order in which this CRC consumes them) *)
  Theorem C04_burst : alteration_ok -> burst32 altered_bits ->
    forall ms', decode_frame (xor_bytes valid_frame alteration) <> Accept ms'.
  Proof.
    intros (Hwf & Hsz & L1 & L2 & L3 & B1 & B2 & B3 & A1 & A2) Hb ms' Hacc.
    destruct (C04_reduce sec nsec ms e_ts e_pay e_crc Hwf Hsz L1 L2 L3 B1 B2 B3 padding A1 A2 ms' Hacc) as (P1 & P2 & P3 & _ & P4).
    revert P4. apply burst_never_accepted; assumption.
  Qed.

  (* one or two flipped bits anywhere in timestamp, payload or CRC field *)
  Definition two_bits (e : list N) : Prop := exists i j, i < j /\ val e = N.lxor (2 ^ i) (2 ^ j).
  Definition one_bit (e : list N) : Prop := exists i, val e = 2 ^ i.

  Theorem C04_two_bits : alteration_ok -> two_bits altered_bits ->
    forall ms', decode_frame (xor_bytes valid_frame alteration) <> Accept ms'.
  Proof.
    intros (Hwf & Hsz & L1 & L2 & L3 & B1 & B2 & B3 & A1 & A2) (i & j & Hij & Hv) ms' Hacc.
    destruct (C04_reduce sec nsec ms e_ts e_pay e_crc Hwf Hsz L1 L2 L3 B1 B2 B3 padding A1 A2 ms' Hacc) as (P1 & P2 & P3 & P5 & P4).
    pose proof (accept_forces_zero _ _ _ P1 P2 B3 P3 L3 P4) as Z0.
    assert (Z1 : Tn (8 * N.of_nat (length pre) + 32) (N.lxor (2 ^ i) (2 ^ j)) = 0) by (rewrite <- Hv; exact Z0).
    assert (P5' : N.of_nat (length pre) <= 65553) by exact P5.
    assert (P3' : length e_pre = length pre) by exact P3.
    assert (P2' : bytes_ok e_pre) by exact P2.
    assert (Hv' : val (e_pre ++ e_crc) = N.lxor (2 ^ i) (2 ^ j)) by exact Hv.
    clear Z0 P1 P2 P3 P4 P5 Hv.
    revert Z1. apply two_bit_detected; [unfold max_bits; lia|exact Hij|].
    (* 2^j <= val < 2^(8n+32) *)
    assert (Hlt : val (e_pre ++ e_crc) < 256 ^ N.of_nat (length (e_pre ++ e_crc))).
    { apply val_lt. apply Forall_app; split; assumption. }
    rewrite app_length, P3', L3, Nat2N.inj_add, pow256 in Hlt. rewrite Hv' in Hlt.
    destruct (N.lt_ge_cases j (8 * N.of_nat (length pre) + 32)) as [|Hge]; [assumption|exfalso].
    assert (H2 : 2 ^ (8 * (N.of_nat (length pre) + N.of_nat 4)) <= 2 ^ j) by (apply N.pow_le_mono_r; lia).
    assert (H3 : 2 ^ j <= N.lxor (2 ^ i) (2 ^ j)).
    { assert (N.testbit (N.lxor (2 ^ i) (2 ^ j)) j = true).
      { rewrite N.lxor_spec, N.pow2_bits_eqb, N.pow2_bits_eqb. replace (i =? j) with false by (symmetry; apply N.eqb_neq; lia).
        rewrite N.eqb_refl. reflexivity. }
      apply N.testbit_true in H.
      destruct (N.lt_ge_cases (N.lxor (2 ^ i) (2 ^ j)) (2 ^ j)) as [Hc|]; [|assumption].
      rewrite N.div_small in H by exact Hc. discriminate. }
    lia.
  Qed.

  Theorem C04_one_bit : alteration_ok -> one_bit altered_bits ->
    forall ms', decode_frame (xor_bytes valid_frame alteration) <> Accept ms'.
  Proof.
    intros Hok (i & Hv). apply C04_burst; [exact Hok|]. exists i, 1. rewrite Hv. unfold W. lia.
  Qed.
End Altered.

Print Assumptions C04_burst. Print Assumptions C04_two_bits.
