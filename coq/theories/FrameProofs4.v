From Coq Require Import List NArith ZArith Lia Bool ZifyN ZifyNat.
Import ListNotations.
Require Import Codec CodecProofs CRC Frame FrameProofs FrameProofs2 FrameProofs3.
Local Open Scope N_scope.

Lemma firstn_app_exact {A} (a b : list A) n : length a = n -> firstn n (a ++ b) = a.
Proof. intros <-. rewrite firstn_app, Nat.sub_diag, firstn_all, firstn_O, app_nil_r. reflexivity. Qed.
Lemma skipn_app_exact {A} (a b : list A) n : length a = n -> skipn n (a ++ b) = b.
Proof. intros <-. rewrite skipn_app, Nat.sub_diag, skipn_all. reflexivity. Qed.

Lemma raw_bound d : bok d -> forall s, s < W -> raw s d < W.
Proof.
  induction 1 as [|b r Hb _ IH]; intros s Hs; [exact Hs|].
  cbn [raw fold_left]. fold (raw (step_byte s b) r). apply IH.
  unfold step_byte. apply Tn_bound. apply lxor_bound; [exact Hs|]. unfold W. lia.
Qed.

Lemma crc32_bound d : bok d -> crc32 d < W.
Proof. intro H. unfold crc32. apply lxor_bound; [apply raw_bound; [exact H|reflexivity]|reflexivity]. Qed.

Theorem decode_frame_complete p ms : bok p -> WellFormed p ms -> decode_frame p = Accept ms.
Proof.
  intros Hbok (c & ts & payload & trailer & padding & Hp & Hc & Hmask & Hver & Hts & Hpl & Hitems & Htr & Hz & Hlen & Hmod).
  set (L := N.of_nat (length payload)) in *.
  assert (Htrlen : length trailer = if N.land c crc_bit =? 0 then 0%nat else 4%nat).
  { destruct (N.land c crc_bit =? 0); subst trailer; [reflexivity|apply le_length]. }
  unfold decode_frame.
  destruct (Nat.ltb_spec (length p) 32) as [|_]; [lia|].
  rewrite Hmod. cbn [Nat.eqb negb orb].
  (* header fields *)
  assert (E2 : firstn 2 p = le 2 magic) by (rewrite Hp; apply firstn_app_exact, le_length).
  assert (S2 : skipn 2 p = le 2 c ++ ts ++ le 2 L ++ payload ++ trailer ++ padding)
    by (rewrite Hp; apply skipn_app_exact, le_length).
  assert (S4 : skipn 4 p = ts ++ le 2 L ++ payload ++ trailer ++ padding).
  { change 4%nat with (2 + 2)%nat. rewrite skipn_add, S2. apply skipn_app_exact, le_length. }
  assert (S16 : skipn 16 p = le 2 L ++ payload ++ trailer ++ padding).
  { change 16%nat with (4 + 12)%nat. rewrite skipn_add, S4. apply skipn_app_exact, Hts. }
  assert (S18 : skipn hdr p = payload ++ trailer ++ padding).
  { unfold hdr. change 18%nat with (16 + 2)%nat. rewrite skipn_add, S16. apply skipn_app_exact, le_length. }
  rewrite E2, S2, S16.
  rewrite (firstn_app_exact (le 2 c)) by apply le_length.
  rewrite (firstn_app_exact (le 2 L)) by apply le_length.
  rewrite !unle_le by (change (256 ^ N.of_nat 2) with 65536; first [assumption | reflexivity]).
  rewrite N.eqb_refl. cbn [negb].
  rewrite Hmask, Hver, !N.eqb_refl. cbn [negb].
  replace (N.to_nat L) with (length payload) by (unfold L; rewrite Nat2N.id; reflexivity).
  set (crc := negb (N.land c crc_bit =? 0)) in *.
  assert (Hfs : (hdr + length payload + (if crc then 4 else 0))%nat = (hdr + length payload + length trailer)%nat).
  { rewrite Htrlen. unfold crc. destruct (N.land c crc_bit =? 0); reflexivity. }
  assert (Hplen : length p = (hdr + length payload + length trailer + length padding)%nat).
  { rewrite Hp. rewrite !app_length, !le_length, Hts. unfold hdr. lia. }
  rewrite Hfs.
  destruct (Nat.ltb_spec (length p) (hdr + length payload + length trailer)) as [|_]; [lia|].
  assert (Spad : skipn (hdr + length payload + length trailer) p = padding).
  { rewrite !skipn_add, S18. rewrite skipn_app_exact by reflexivity. apply skipn_app_exact. reflexivity. }
  rewrite Spad, Hz. cbn [negb].
  rewrite S18. rewrite (firstn_app_exact payload) by reflexivity.
  rewrite (dec_items_complete payload ms Hitems) by lia.
  unfold crc in *. destruct (N.land c crc_bit =? 0) eqn:Ecrc; cbn [negb]; [reflexivity|].
  rewrite skipn_add, S18, (skipn_app_exact payload) by reflexivity.
  rewrite (firstn_app_exact trailer) by (rewrite Htrlen; reflexivity).
  assert (Epre : firstn (hdr + length payload) p = le 2 magic ++ le 2 c ++ ts ++ le 2 L ++ payload).
  { rewrite Hp. rewrite !app_assoc. rewrite <- (app_assoc _ trailer padding).
    apply firstn_app_exact. rewrite !app_length, !le_length, Hts. unfold hdr. lia. }
  rewrite Epre, Htr. rewrite unle_le.
  - rewrite N.eqb_refl. reflexivity.
  - change (256 ^ N.of_nat 4) with W. apply crc32_bound. rewrite <- Epre. apply bok_firstn. exact Hbok.
Qed.

Theorem C03_accept_iff p ms : bok p -> (decode_frame p = Accept ms <-> WellFormed p ms).
Proof. intro H. split; [apply decode_frame_sound | apply decode_frame_complete]; exact H. Qed.

Theorem C03_functional p ms1 ms2 : bok p -> WellFormed p ms1 -> WellFormed p ms2 -> ms1 = ms2.
Proof.
  intros H H1 H2. apply (decode_frame_complete p ms1 H) in H1. apply (decode_frame_complete p ms2 H) in H2. congruence.
Qed.

Print Assumptions C03_accept_iff.
