From Coq Require Import List Arith NArith ZArith Lia Bool.
Import ListNotations.
Require Import Client.
Local Open Scope Z_scope.

Section Time.
  Variable msg : Type.
  Variable encode : Z * Z -> list msg -> list N.
  Variable decode_step : list N -> list N -> option (option (list msg)) * list N.
  Variable enc : list N -> list N -> list N * list N.
  Variable dec : list N -> list N -> list N * list N.
  Variable iv0 : list N.
  Variable valid_req : list msg -> bool.
  Variable auth_req : list msg.
  Variable auth_ok : list msg -> bool.
  Variables conn_to send_to recv_to : Z.
  Variable rbuf : nat.
  Variable E : Type.
  Variable m : envsm E.
  Hypothesis to_pos : 0 < conn_to /\ 0 < send_to /\ 0 < recv_to.

  Notation world := (world msg E).
  Notation log := (log msg E).
  Notation disconnect := (disconnect msg E m).
  Notation connect := (connect msg iv0 conn_to E m).
  Notation send := (send msg encode enc valid_req send_to E m).
  Notation recv_loop := (recv_loop msg decode_step dec rbuf E m).
  Notation receive := (receive msg decode_step dec recv_to rbuf E m).
  Notation authenticate := (authenticate msg encode decode_step enc dec valid_req auth_req auth_ok send_to recv_to rbuf E m).
  Notation send_multiple := (send_multiple msg encode decode_step enc dec iv0 valid_req auth_req auth_ok conn_to send_to recv_to rbuf E m).

  Lemma log_clock w l k : clock msg E (log l k w) = clock msg E w /\ cur msg E (log l k w) = cur msg E w.
  Proof. unfold Client.log. destruct (N.leb l (level msg E w)); cbn; auto. Qed.

  Lemma disconnect_clock s w : clock msg E (snd (disconnect s w)) = clock msg E w.
  Proof.
    unfold Client.disconnect. cbn [snd]. destruct (cur msg E w); [|reflexivity].
    rewrite (proj1 (log_clock _ _ _)). reflexivity.
  Qed.

  Lemma connect_clock s w s' w' r : connect s w = (s', w', r) -> clock msg E w <= clock msg E w' <= clock msg E w + conn_to.
  Proof.
    destruct to_pos as (Hc & _ & _). unfold Client.connect.
    set (w0 := log lInfo (LText msg 1) w). assert (Hw0 : clock msg E w0 = clock msg E w) by apply log_clock.
    destruct (on_dial E m (est msg E w0)) as [[e' ok] d].
    destruct (Z.leb_spec (dur d) conn_to); destruct ok; cbn [andb]; intros [= <- <- <-];
      rewrite ?(proj1 (log_clock _ _ _)); cbn [clock Client.upd]; unfold dur in *; lia.
  Qed.

  Lemma send_clock s w ms s' w' r : send s w ms = (s', w', r) -> clock msg E w <= clock msg E w' <= clock msg E w + send_to.
  Proof.
    destruct to_pos as (_ & Hs & _). unfold Client.send.
    destruct (negb (valid_req ms)); [intros [= <- <- <-]; lia|].
    destruct (cur msg E w) as [j|]; [|intros [= <- <- <-]; lia].
    set (w1 := log lDebug (LTree msg ms) w).
    destruct (on_now E m (est msg E w1)) as [e1 ts].
    set (w2 := log lTrace (LDump msg (encode ts ms)) w1).
    destruct (enc (eiv s) (encode ts ms)) as [ct iv'].
    set (w3 := log lTrace (LDump msg ct) w2).
    set (w4 := emit msg E (EvSetWD msg j send_to) w3).
    assert (Hw4 : clock msg E w4 = clock msg E w).
    { unfold w4, w3, w2, w1. cbn [clock Client.emit Client.upd]. rewrite !(proj1 (log_clock _ _ _)). reflexivity. }
    clearbody w4. clear w3 w2.
    destruct (on_write E m e1 ct) as [[e' ok] d].
    destruct (Z.leb_spec (dur d) send_to); destruct ok; cbn [andb].
    - intros [= <- <- <-]. cbn [clock Client.upd]. rewrite Hw4. unfold dur in *. lia.
    - match goal with |- context [disconnect ?a ?b] => pose proof (disconnect_clock a b) as Hd; destruct (disconnect a b) as [s2 w2'] end.
      intros [= <- <- <-]. cbn [snd] in Hd. rewrite Hd. cbn [clock Client.upd]. rewrite Hw4. unfold dur in *. lia.
    - match goal with |- context [disconnect ?a ?b] => pose proof (disconnect_clock a b) as Hd; destruct (disconnect a b) as [s2 w2'] end.
      intros [= <- <- <-]. cbn [snd] in Hd. rewrite Hd. cbn [clock Client.upd]. rewrite Hw4. unfold dur in *. lia.
    - match goal with |- context [disconnect ?a ?b] => pose proof (disconnect_clock a b) as Hd; destruct (disconnect a b) as [s2 w2'] end.
      intros [= <- <- <-]. cbn [snd] in Hd. rewrite Hd. cbn [clock Client.upd]. rewrite Hw4. unfold dur in *. lia.
  Qed.

  Lemma recv_clock : forall fuel deadline buf pend s w s' w' r,
    clock msg E w <= deadline -> recv_loop fuel deadline buf pend s w = (s', w', r) -> clock msg E w <= clock msg E w' <= deadline.
  Proof.
    induction fuel as [|f IH]; intros deadline buf pend s w s' w' r Hd; cbn [Client.recv_loop].
    - intros [= <- <- <-]. lia.
    - destruct (cur msg E w) as [j|]; [|intros [= <- <- <-]; lia].
      destruct (on_read E m (est msg E w) rbuf) as [[e' rr] d].
      destruct (Z.ltb_spec deadline (clock msg E w + dur d)) as [Hlt|Hge].
      + match goal with |- context [disconnect ?a ?b] => pose proof (disconnect_clock a b) as Hc; destruct (disconnect a b) as [s2 w2] end.
        intros [= <- <- <-]. cbn [snd] in Hc. rewrite Hc. cbn [clock Client.upd]. lia.
      + set (w1 := upd msg E w (Some j) (next msg E w) e' (clock msg E w + dur d) [EvRead msg j rr]).
        assert (Hw1 : clock msg E w <= clock msg E w1 <= deadline) by (cbn [clock w1 Client.upd]; unfold dur in *; lia).
        assert (Hclose : forall s0 s2 w2 x, (let '(a, b) := disconnect s0 w1 in (a, b, x)) = (s2, w2, r) -> clock msg E w <= clock msg E w2 <= deadline).
        { intros s0 s2 w2 x. pose proof (disconnect_clock s0 w1) as Hc. destruct (disconnect s0 w1) as [a b].
          intros [= <- <- _]. cbn [snd] in Hc. rewrite Hc. exact Hw1. }
        destruct rr as [b| |]; [|apply Hclose|apply Hclose].
        destruct (length b =? 0)%nat; [intros [= <- <- <-]; exact Hw1|].
        destruct ((32 * (length (pend ++ b) / 32)) =? 0)%nat.
        * intro H. destruct (IH _ _ _ _ _ _ _ _ (proj2 Hw1) H). lia.
        * destruct (dec (div s) _) as [pt iv'].
          destruct (decode_step buf pt) as [[[rms|]|] buf'].
          -- intros [= <- <- <-]. rewrite !(proj1 (log_clock _ _ _)). exact Hw1.
          -- intro H. destruct (IH _ _ _ _ _ _ _ _ (proj2 Hw1) H). lia.
          -- apply Hclose.
  Qed.

  Lemma receive_clock fuel s w s' w' r : receive fuel s w = (s', w', r) -> clock msg E w <= clock msg E w' <= clock msg E w + recv_to.
  Proof.
    destruct to_pos as (_ & _ & Hr). unfold Client.receive. destruct (cur msg E w); [|intros [= <- <- <-]; lia].
    intro H. apply recv_clock in H; cbn [clock Client.emit Client.upd] in *; lia.
  Qed.

  Definition budget (s : cstate) (w : world) : Z :=
    (match cur msg E w with Some _ => 0 | None => conn_to end) +
    (match cur msg E w with Some _ => if authed s then 0 else send_to + recv_to | None => send_to + recv_to end) + send_to + recv_to.

  Lemma authenticate_clock fuel s w s' w' r : authenticate fuel s w = (s', w', r) ->
    clock msg E w <= clock msg E w' <= clock msg E w + send_to + recv_to.
  Proof.
    destruct to_pos as (_ & Hs & Hr). unfold Client.authenticate.
    set (w0 := if N.ltb (level msg E w) auth_level then _ else w).
    assert (Hw0 : clock msg E w0 = clock msg E w).
    { unfold w0. destruct (N.ltb _ _); [cbn [clock Client.set_level]; apply log_clock|reflexivity]. }
    destruct (send s w0 auth_req) as [[s1 w1] r1] eqn:Es. pose proof (send_clock _ _ _ _ _ _ Es) as B1.
    set (w1' := if N.ltb (level msg E w) auth_level then set_level msg E (level msg E w) w1 else w1).
    assert (Hw1 : clock msg E w1' = clock msg E w1) by (unfold w1'; destruct (N.ltb _ _); reflexivity).
    destruct r1 as [u|x]; [|intros [= <- <- <-]; lia].
    destruct (receive fuel s1 w1') as [[s2 w2] [ms|x]] eqn:Er; pose proof (receive_clock _ _ _ _ _ _ Er) as B2.
    - destruct (auth_ok ms); intros [= <- <- <-]; [rewrite (proj1 (log_clock _ _ _)); destruct (cur msg E w2); cbn [clock Client.emit Client.upd]|]; lia.
    - intros [= <- <- <-]. lia.
  Qed.

  (* C10: for every environment and every fuel, the clock at the end (or at the point reached) is within the budget *)
  Theorem C10_budget fuel s w ms s' w' r :
    send_multiple fuel s w ms = (s', w', r) -> clock msg E w <= clock msg E w' <= clock msg E w + budget s w.
  Proof.
    destruct to_pos as (Hc & Hs & Hr). unfold Client.send_multiple, budget.
    destruct (cur msg E w) as [j|] eqn:Ec.
    - destruct (authed s) eqn:Ea.
      + destruct (send s w ms) as [[s2 w2] [u|x]] eqn:Es; pose proof (send_clock _ _ _ _ _ _ Es).
        * intro HH. apply receive_clock in HH. lia.
        * intros [= <- <- <-]. lia.
      + destruct (authenticate fuel s w) as [[s1 w1] [u1|x1]] eqn:Ea1; pose proof (authenticate_clock _ _ _ _ _ _ Ea1).
        * destruct (send s1 w1 ms) as [[s2 w2] [u|x]] eqn:Es; pose proof (send_clock _ _ _ _ _ _ Es).
          -- intro HH. apply receive_clock in HH. lia.
          -- intros [= <- <- <-]. lia.
        * intros [= <- <- <-]. lia.
    - destruct (connect s w) as [[s0 w0] [u0|x0]] eqn:Ecn; pose proof (connect_clock _ _ _ _ _ Ecn) as B0.
      + destruct (authed s0).
        * destruct (send s0 w0 ms) as [[s2 w2] [u|x]] eqn:Es; pose proof (send_clock _ _ _ _ _ _ Es).
          -- intro HH. apply receive_clock in HH. lia.
          -- intros [= <- <- <-]. lia.
        * destruct (authenticate fuel s0 w0) as [[s1 w1] [u1|x1]] eqn:Ea1; pose proof (authenticate_clock _ _ _ _ _ _ Ea1).
          -- destruct (send s1 w1 ms) as [[s2 w2] [u|x]] eqn:Es; pose proof (send_clock _ _ _ _ _ _ Es).
             ++ intro HH. apply receive_clock in HH. lia.
             ++ intros [= <- <- <-]. lia.
          -- intros [= <- <- <-]. lia.
      + intros [= <- <- <-]. lia.
  Qed.
End Time.

Print Assumptions C10_budget.
