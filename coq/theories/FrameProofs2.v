From Coq Require Import List NArith ZArith Lia Bool ZifyN ZifyNat.
Import ListNotations.
Require Import Codec CodecProofs CRC Frame FrameProofs.
Local Open Scope N_scope.

(* mutual induction scheme for the grammar *)
Scheme items_rel_mind := Induction for items_rel Sort Prop
  with val_rel_mind := Induction for val_rel Sort Prop.

Lemma items_rel_length_pos bs ms : items_rel bs ms -> True. Proof. trivial. Qed.

Theorem dec_items_complete : forall bs ms, items_rel bs ms ->
  forall fuel, (length bs < fuel)%nat -> dec_items fuel bs = Some ms.
Proof.
  intros bs ms H.
  induction H using items_rel_mind with
    (P0 := fun dt raw v (_ : val_rel dt raw v) =>
             forall fuel, (length raw < fuel)%nat ->
               (if dt =? 14 then match dec_items fuel raw with Some ms0 => Some (GMsgs ms0) | None => None end
                else dec_scalar dt raw) = Some v).
  - intros [|f] Hf; [lia|reflexivity].
  - intros [|f] Hf; [lia|].
    set (bs := le 4 tag ++ [dt] ++ le 2 (N.of_nat (length raw)) ++ raw ++ rest) in *.
    destruct (hdr_parts tag dt (N.of_nat (length raw)) raw rest bs eq_refl) as (H1 & H2 & H3 & H4 & H5).
    cbn [dec_items].
    destruct bs as [|b0 bs'] eqn:Ebs; [cbn in H5; lia|]. rewrite <- Ebs in *. clear Ebs b0 bs'.
    destruct (Nat.ltb_spec (length bs) 7) as [Hc|_]; [lia|].
    rewrite H1, H2, H3, H4.
    rewrite !unle_le by (first [assumption | unfold max_data in *; cbn; lia]).
    rewrite e. cbn [negb].
    destruct (N.ltb_spec max_data (N.of_nat (length raw))) as [Hc|_]; [lia|].
    replace (match fixed_len dt with Some k => negb (k =? N.of_nat (length raw)) | None => false end) with false.
    2:{ destruct (fixed_len dt) as [k|] eqn:Ek; [|reflexivity]. rewrite (e0 k eq_refl), N.eqb_refl. reflexivity. }
    rewrite app_length.
    destruct (N.ltb_spec (N.of_nat (length raw + length rest)) (N.of_nat (length raw))) as [Hc|_]; [lia|].
    rewrite Nat2N.id.
    rewrite firstn_app, Nat.sub_diag, firstn_O, app_nil_r, firstn_all.
    rewrite skipn_app, Nat.sub_diag, skipn_all. cbn [app skipn].
    assert (Hl : (length raw < f)%nat /\ (length rest < f)%nat).
    { unfold bs in Hf. rewrite !app_length, !le_length in Hf. cbn [length] in Hf. lia. }
    destruct Hl as [Hl1 Hl2].
    rewrite (IHitems_rel f Hl1). rewrite (IHitems_rel0 f Hl2). reflexivity.
  - intros fuel Hf. cbn [N.eqb Pos.eqb]. rewrite (IHitems_rel fuel Hf). reflexivity.
  - intros fuel Hf. destruct (N.eqb_spec dt 14); [contradiction|]. assumption.
Qed.

Print Assumptions dec_items_complete.

(* functional: the bytes determine the tree *)
Corollary items_rel_functional bs ms1 ms2 : items_rel bs ms1 -> items_rel bs ms2 -> ms1 = ms2.
Proof.
  intros H1 H2.
  pose proof (dec_items_complete bs ms1 H1 (S (length bs)) (Nat.lt_succ_diag_r _)) as E1.
  pose proof (dec_items_complete bs ms2 H2 (S (length bs)) (Nat.lt_succ_diag_r _)) as E2.
  congruence.
Qed.
