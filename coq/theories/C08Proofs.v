(* C08 for the concrete RSCP instance: every premise of the pairing / recovery theorems of PeerU.v is proved here for
   RSCP frames (c_encode / c_verdict), Rijndael-256/CBC (SCipher) and the model of validateRequests, so that call_spec
   and recovery hold for the executable client model against ANY honest peer reply function. *)
From Coq Require Import List Arith NArith ZArith Lia Bool.
Import ListNotations.
Require Import Bytes CBC CBCInst Codec CodecProofs CRC Frame FrameProofs FrameProofs5 Reader ReaderProofs Rijndael RijP1
               Cipher CipherProofs SCipher SCipherProofs Validate Vocab Config Client ClientReasm PeerU Wire WireProofs Session C05Proofs.
Local Open Scope N_scope.

(* a list of messages that can be encoded and decoded back: well-formed and within the 16 bit frame length *)
Definition okm (ms : list message) : Prop := Forall wf_msg ms /\ fits ms.

Definition decodeP (p : list N) : list message := match decode_frame p with Accept ms => ms | _ => [] end.
Definition gp : list N := repeat 0 32.

Lemma decodeP_enc crc ts ms : okm ms -> decodeP (c_encode crc ts ms) = ms.
Proof. intros [W F]. unfold decodeP, c_encode. rewrite (C01_plain_roundtrip (fst ts) (snd ts) crc ms W F). reflexivity. Qed.

Lemma V_whole crc ts ms : okm ms -> ms <> [] -> c_verdict (c_encode crc ts ms) = Some (Some ms).
Proof.
  intros [W F] Hne. unfold c_verdict, c_encode.
  pose proof (plain_aligned crc (fst ts) (snd ts) ms) as [A1 _]. unfold model_plain in A1.
  destruct (pad32 (frame (fst ts) (snd ts) crc ms)) as [|b0 br] eqn:Ep; [cbn in A1; lia|]. rewrite <- Ep.
  rewrite (C01_plain_roundtrip (fst ts) (snd ts) crc ms W F). destruct ms; [contradiction|reflexivity].
Qed.

(* the header of a frame, read from any plaintext that starts with it *)
Lemma ctrl_word_ok crc : ctrl_word crc < 65536 /\ N.lor (ctrl_word crc) ctrl_mask = ctrl_mask /\ N.land (ctrl_word crc) ver_mask = ver1 /\
                         negb (N.land (ctrl_word crc) crc_bit =? 0) = crc.
Proof. destruct crc; vm_compute; repeat split; intro H; discriminate H. Qed.

Lemma read_header_frame sec nsec crc ms rest : fits ms ->
  read_header (frame sec nsec crc ms ++ rest) = HOk crc (length (frame sec nsec crc ms)) (length (enc_items ms)).
Proof.
  intro F. unfold fits in F.
  set (L := N.of_nat (length (enc_items ms))) in *.
  set (ts := le 8 (twos 64 sec) ++ le 4 (twos 32 nsec)).
  assert (Hts : length ts = 12%nat) by (unfold ts; rewrite app_length, !le_length; reflexivity).
  set (c := ctrl_word crc). destruct (ctrl_word_ok crc) as (Hc & Hmask & Hver & Hcrc). fold c in Hc, Hmask, Hver, Hcrc.
  assert (Hp : exists tail, frame sec nsec crc ms ++ rest = le 2 magic ++ le 2 c ++ ts ++ le 2 L ++ tail /\
                            length (frame sec nsec crc ms) = (hdr + length (enc_items ms) + (if crc then 4 else 0))%nat).
  { unfold frame. fold c L. destruct crc.
    - eexists. split; [rewrite <- !app_assoc; unfold ts; rewrite <- !app_assoc; reflexivity|].
      rewrite !app_length, !le_length. unfold hdr. lia.
    - eexists. split; [rewrite <- !app_assoc; unfold ts; rewrite <- !app_assoc; reflexivity|].
      rewrite !app_length, !le_length. unfold hdr. lia. }
  destruct Hp as (tail & Hp & Hlen). set (p := frame sec nsec crc ms ++ rest) in *.
  unfold read_header.
  assert (E2 : firstn 2 p = le 2 magic) by (rewrite Hp; apply FrameProofs4.firstn_app_exact, le_length).
  assert (S2 : skipn 2 p = le 2 c ++ ts ++ le 2 L ++ tail) by (rewrite Hp; apply FrameProofs4.skipn_app_exact, le_length).
  assert (S4 : skipn 4 p = ts ++ le 2 L ++ tail).
  { change 4%nat with (2 + 2)%nat. rewrite FrameProofs3.skipn_add, S2. apply FrameProofs4.skipn_app_exact, le_length. }
  assert (S16 : skipn 16 p = le 2 L ++ tail).
  { change 16%nat with (4 + 12)%nat. rewrite FrameProofs3.skipn_add, S4. apply FrameProofs4.skipn_app_exact, Hts. }
  rewrite E2, S2, S16.
  rewrite (FrameProofs4.firstn_app_exact (le 2 c)) by apply le_length.
  rewrite (FrameProofs4.firstn_app_exact (le 2 L)) by apply le_length.
  rewrite !unle_le by (change (256 ^ N.of_nat 2) with 65536; first [assumption | reflexivity]).
  rewrite N.eqb_refl. cbn [negb].
  rewrite Hmask, Hver, !N.eqb_refl, Hcrc. cbn [negb].
  unfold L. rewrite Nat2N.id, Hlen. reflexivity.
Qed.

(* every block-aligned proper prefix of a padded frame is "incomplete" *)
Lemma V_prefix crc ts ms n : okm ms -> (n < length (c_encode crc ts ms))%nat -> (n mod 32 = 0)%nat ->
  c_verdict (firstn n (c_encode crc ts ms)) = Some None.
Proof.
  intros [W F] Hn Hm. unfold c_encode in *. set (fr := frame (fst ts) (snd ts) crc ms) in *.
  destruct (pad32_spec fr (frame_nonempty _ _ _ _)) as (pd & Ep & _ & A1 & A2). rewrite Ep in *.
  destruct (Nat.eq_dec n 0) as [->|Hn0]; [reflexivity|].
  assert (Hn32 : (32 <= n)%nat) by (pose proof (Nat.div_mod n 32 ltac:(discriminate)); rewrite Hm in *; destruct (n / 32)%nat; lia).
  (* the padding is shorter than a block, so the prefix ends inside the frame *)
  assert (Hpd : (length pd < 32)%nat).
  { unfold pad32 in Ep. destruct (Nat.eqb_spec (length fr mod 32) 0).
    - assert (pd = []) by (apply (app_inv_head fr); rewrite app_nil_r; symmetry; exact Ep). subst. cbn. lia.
    - apply app_inv_head in Ep. subst pd. rewrite repeat_length. pose proof (Nat.mod_upper_bound (length fr) 32). lia. }
  assert (Hnf : (n < length fr)%nat).
  { rewrite app_length in Hn, A2.
    pose proof (Nat.div_mod n 32 ltac:(discriminate)) as D1. pose proof (Nat.div_mod (length fr + length pd) 32 ltac:(discriminate)) as D2.
    rewrite Hm in D1. rewrite A2 in D2. nia. }
  set (q := firstn n (fr ++ pd)).
  assert (Hq : fr ++ pd = q ++ skipn n (fr ++ pd)) by (unfold q; symmetry; apply firstn_skipn).
  assert (Lq : length q = n) by (unfold q; rewrite firstn_length; lia).
  assert (Aq : aligned q) by (split; rewrite Lq; assumption).
  assert (Hh : read_header q = HOk crc (length fr) (length (enc_items ms))).
  { rewrite <- (read_header_app q (skipn n (fr ++ pd))) by lia. rewrite <- Hq. apply read_header_frame. exact F. }
  unfold c_verdict. destruct q as [|q0 qr] eqn:Eq; [cbn in Lq; lia|]. rewrite <- Eq in *.
  rewrite (decode_frame_alt q Aq), Hh, Lq.
  destruct (Nat.ltb_spec n (length fr)) as [_|]; [reflexivity|lia].
Qed.

(* ---- the authentication request of a configured user is valid and can be encoded ---- *)
Section Auth.
  Variables user pass : list N.
  Hypothesis Bu : Codec.bytes_ok user.
  Hypothesis Bp : Codec.bytes_ok pass.
  Hypothesis Hlen : N.of_nat (length user + length pass) <= 60000.

  Lemma auth_items_len : length (enc_items (c_auth_req user pass)) = (7 + ((7 + length user) + (7 + length pass)))%nat.
  Proof.
    unfold c_auth_req, enc_items. cbn [flat_map enc_msg enc_val]. rewrite !app_nil_r.
    repeat (rewrite app_length || rewrite le_length || cbn [length]). lia.
  Qed.

  Lemma auth_wf : Forall wf_msg (c_auth_req user pass).
  Proof.
    constructor; [|constructor]. unfold wf_msg. split; [reflexivity|]. cbn [wf_val]. split; [reflexivity|]. split.
    - cbn [flat_map enc_msg enc_val]. rewrite !app_nil_r. repeat (rewrite app_length || rewrite le_length || cbn [length]). unfold max_data. lia.
    - repeat split; try reflexivity; try assumption; unfold max_data; lia.
  Qed.
  Lemma auth_okm : okm (c_auth_req user pass).
  Proof. split; [exact auth_wf|]. unfold fits. rewrite auth_items_len. lia. Qed.

  Lemma auth_repr : Forall repr_msg (c_auth_req user pass).
  Proof. constructor; [|constructor]. unfold repr_msg. split; [reflexivity|]. cbn [repr_val]. repeat split; try reflexivity; assumption. Qed.
  Lemma auth_valid : c_valid (c_auth_req user pass) = true.
  Proof.
    apply (C05_valid_iff _ auth_repr). split.
    - constructor; [|constructor]. split; [reflexivity|]. exact (Forall_inv auth_wf).
    - rewrite auth_items_len. lia.
  Qed.
End Auth.

(* ---- C08 for the concrete instance ---- *)
Definition maxlen : nat := N.to_nat 65600.

(* rejected plaintexts (PeerU.badg): a garbled header block, a frame with a wrong checksum, a frame with a malformed payload *)
Notation cbadg := (PeerU.badg message c_verdict maxlen).
Lemma badg_small g : length g = 32%nat \/ length g = 64%nat -> c_verdict [] = Some None ->
  (length g = 64%nat -> c_verdict (firstn 32 g) = Some None) -> c_verdict g = None -> cbadg g.
Proof.
  intros Hl H0 H32 Hv. unfold PeerU.badg, ClientReasm.al. split; [destruct Hl as [-> | ->]; reflexivity|].
  split; [intros ->; cbn in Hl; destruct Hl; discriminate|]. split; [unfold maxlen; lia|]. split; [|exact Hv].
  intros n Hn Hm. pose proof (Nat.div_mod n 32 ltac:(discriminate)) as D. rewrite Hm in D.
  assert (Hc : n = 0%nat \/ (n = 32%nat /\ length g = 64%nat)) by lia.
  destruct Hc as [-> | [-> Hl64]]; [exact H0|apply H32; exact Hl64].
Qed.

(* 32 zero bytes: no RSCP magic *)
Lemma badg_gp : cbadg gp.
Proof. apply badg_small; [left; reflexivity|reflexivity|intro H; discriminate H|vm_compute; reflexivity]. Qed.

(* a checksummed reply frame (one UChar8 message, 64 bytes) with one bit of its checksum flipped *)
Definition bad_crc_frame : list N :=
  let f := c_encode true (1700000000%Z, 5%Z) [Msg 8388609 3 (GU8 10)] in
  firstn 25 f ++ [N.lxor (nth 25 f 0) 1] ++ skipn 26 f.
Lemma badg_bad_crc : cbadg bad_crc_frame.
Proof. apply badg_small; [left; vm_compute; reflexivity|reflexivity|intro H; vm_compute in H; discriminate H|vm_compute; reflexivity]. Qed.

(* a frame whose header is fine but whose payload is not a sequence of items: the item claims 200 bytes of data, the frame holds 9 *)
Definition bad_payload_frame : list N :=
  pad32 (le 2 magic ++ le 2 (ctrl_word false) ++ le 8 (twos 64 1700000000) ++ le 4 (twos 32 5) ++ le 2 16 ++
         (le 4 8388609 ++ [3] ++ le 2 200 ++ [1;2;3;4;5;6;7;8;9])).
Lemma badg_bad_payload : cbadg bad_payload_frame.
Proof. apply badg_small; [right; vm_compute; reflexivity|reflexivity|intros _; vm_compute; reflexivity|vm_compute; reflexivity]. Qed.

Section Concrete.
  Variable key : list N.
  Hypothesis Bk : RijP1.bytes_ok key.
  Variables user pass : list N.
  Hypothesis Bu : Codec.bytes_ok user.
  Hypothesis Bp : Codec.bytes_ok pass.
  Hypothesis Hlen : N.of_nat (length user + length pass) <= 60000.
  Variable crc : bool.
  Variables conn_to send_to recv_to : Z.
  Hypothesis to_pos : (0 < conn_to /\ 0 < send_to /\ 0 < recv_to)%Z.
  Variable rbuf : nat.
  Hypothesis rbuf_pos : (0 < rbuf)%nat.
  (* the peer: ANY two functions from requests to replies that can be encoded and are never empty; reply_of grants the
     authentication, deny_of (used when the script says Refuse) does not *)
  Variables reply_of deny_of : list message -> list message.
  Hypothesis reply_okm : forall ms, okm (reply_of ms).
  Hypothesis deny_okm : forall ms, okm (deny_of ms).
  Hypothesis reply_nonempty : forall ms, reply_of ms <> [].
  Hypothesis deny_nonempty : forall ms, deny_of ms <> [].
  Hypothesis auth_grants : c_auth_ok (reply_of (c_auth_req user pass)) = true.
  Hypothesis auth_denies : c_auth_ok (deny_of (c_auth_req user pass)) = false.

  Let ks := key_schedule (key_pad key).
  Let kl := key_pad_len key.
  Let kb := key_pad_bytes key Bk.

  Lemma enc_al ts ms : ClientReasm.al (c_encode crc ts ms) /\ (32 <= length (c_encode crc ts ms))%nat.
  Proof. destruct (plain_aligned crc (fst ts) (snd ts) ms) as [A B]. split; assumption. Qed.

  Lemma enc_bound ts ms : okm ms -> (length (c_encode crc ts ms) <= maxlen)%nat.
  Proof.
    intros [_ F]. unfold c_encode. set (fr := frame (fst ts) (snd ts) crc ms).
    destruct (pad32_spec fr (frame_nonempty _ _ _ _)) as (pd & Ep & _ & A1 & A2). rewrite Ep.
    assert (Hpd : (length pd < 32)%nat).
    { unfold pad32 in Ep. destruct (Nat.eqb_spec (length fr mod 32) 0).
      - assert (pd = []) by (apply (app_inv_head fr); rewrite app_nil_r; symmetry; exact Ep). subst. cbn. lia.
      - apply app_inv_head in Ep. subst pd. rewrite repeat_length. pose proof (Nat.mod_upper_bound (length fr) 32). lia. }
    assert (Hfr : (length fr <= 18 + length (enc_items ms) + 4)%nat).
    { unfold fr, frame. destruct crc; rewrite !app_length, !le_length; lia. }
    unfold fits in F. rewrite app_length. unfold maxlen. lia.
  Qed.

  Definition cpeer := peer message (c_encode crc) (s_enc ks) (s_decP ks) (s_decI ks) iv0 decodeP reply_of deny_of.
  Definition csend_multiple := send_multiple message (c_encode crc) c_decode_step (s_enc ks) (s_dec ks) iv0 c_valid
                                (c_auth_req user pass) c_auth_ok conn_to send_to recv_to rbuf (pstate message) cpeer.
  Definition cdisconnect := disconnect message (pstate message) cpeer.
  Definition crun_res := run_res message (c_encode crc) (s_enc ks) (s_decP ks) (s_decI ks) c_verdict iv0 c_valid (c_auth_req user pass) c_auth_ok
                                conn_to send_to recv_to rbuf decodeP reply_of deny_of.
  Definition cSync := Sync message c_verdict maxlen.
  Definition cpaired := paired message (c_auth_req user pass) reply_of deny_of.
  Definition cokc := okc message c_valid okm maxlen.

  (* the interface of PeerU.v, discharged *)
  Ltac inst T :=
    apply (T message (c_encode crc) (s_enc ks) (s_decP ks) (s_decI ks) c_verdict iv0 c_valid (c_auth_req user pass) c_auth_ok
             conn_to send_to recv_to rbuf rbuf_pos to_pos decodeP reply_of deny_of
             (fun iv a b H => s_decP_app (key_pad key) iv a b H) (fun iv a b H => s_decI_app (key_pad key) iv a b H)
             (s_decP_nil (key_pad key)) (s_decI_nil (key_pad key))
             (fun iv c H => s_decP_len (key_pad key) kl kb iv c H) (fun iv p H => s_dec_enc (key_pad key) kl kb iv p H)
             (fun iv p H => s_enc_len (key_pad key) kl kb iv p H) enc_al
             okm (decodeP_enc crc) (V_whole crc) (V_prefix crc) reply_okm deny_okm (auth_okm user pass Bu Bp Hlen) reply_nonempty deny_nonempty
             auth_grants auth_denies (auth_valid user pass Bu Bp Hlen) maxlen enc_bound).

  (* pairing, at most once, in order - for one call of the executable client model against the honest peer *)
  Theorem C08_call_spec fuel s w ms s' w' r :
    cSync s w -> (maxlen < fuel)%nat -> (c_valid ms = true -> okm ms) ->
    csend_multiple fuel s w ms = (s', w', r) ->
    cSync s' w' /\
    (exists l, plog message (est message (pstate message) w') = plog message (est message (pstate message) w) ++ l /\
               one_of message (c_auth_req user pass) l ms) /\
    (forall x, r = Ok (list message) x -> (x = reply_of ms \/ x = deny_of ms) /\
       exists l, plog message (est message (pstate message) w') = plog message (est message (pstate message) w) ++ l ++ [ms]) /\
    (forall x, r = Err (list message) x ->
       (cur message (pstate message) w' = None /\ (x = EIO \/ x = EProto)) \/ x = EValidate \/ (x = EAuth /\ authed s' = false)).
  Proof. inst PeerU.call_spec. Qed.

  (* recovery: an unauthenticated client (closed after a timeout, a broken connection, a protocol error or Disconnect; or
     refused) whose peer answers the next two requests reconnects where necessary, authenticates and gets its reply *)
  Theorem C08_recovery fuel s w ms s' w' r :
    cSync s w -> authed s = false -> (maxlen < fuel)%nat -> c_valid ms = true -> okm ms ->
    healthy message 2 (est message (pstate message) w) ->
    csend_multiple fuel s w ms = (s', w', r) ->
    r = Ok (list message) (reply_of ms) /\
    plog message (est message (pstate message) w') = plog message (est message (pstate message) w) ++ [c_auth_req user pass; ms] /\
    cSync s' w' /\ authed s' = true.
  Proof. inst PeerU.recovery. Qed.

  Theorem C08_steady fuel s w ms s' w' r :
    cSync s w -> authed s = true -> (maxlen < fuel)%nat -> c_valid ms = true -> okm ms ->
    healthy message 1 (est message (pstate message) w) ->
    csend_multiple fuel s w ms = (s', w', r) ->
    r = Ok (list message) (reply_of ms) /\
    plog message (est message (pstate message) w') = plog message (est message (pstate message) w) ++ [ms] /\
    cSync s' w' /\ authed s' = true.
  Proof. inst PeerU.steady. Qed.

  Theorem C08_disconnect s w s' w' : cSync s w -> cdisconnect s w = (s', w') ->
    cSync s' w' /\ cur message (pstate message) w' = None /\ authed s' = false /\
    plog message (est message (pstate message) w') = plog message (est message (pstate message) w) /\
    script message (est message (pstate message) w') = script message (est message (pstate message) w).
  Proof. inst PeerU.disconnect_sync. Qed.

  (* exactly the answered exchanges are consumed from the peer's script (chaining calls: C15's split run) *)
  Theorem C08_recovery_script fuel s w ms s' w' r :
    cSync s w -> authed s = false -> (maxlen < fuel)%nat -> c_valid ms = true -> okm ms ->
    healthy message 2 (est message (pstate message) w) ->
    csend_multiple fuel s w ms = (s', w', r) ->
    script message (est message (pstate message) w') = tl (tl (script message (est message (pstate message) w))).
  Proof. inst PeerU.recovery_s. Qed.
  Theorem C08_steady_script fuel s w ms s' w' r :
    cSync s w -> authed s = true -> (maxlen < fuel)%nat -> c_valid ms = true -> okm ms ->
    csend_multiple fuel s w ms = (s', w', r) ->
    script message (est message (pstate message) w') = tl (script message (est message (pstate message) w)).
  Proof. inst PeerU.steady_s. Qed.

  (* every history of calls, every fault script *)
  Theorem C08_history cs s w : cSync s w -> Forall cokc cs ->
    let '(s', w', rs) := crun_res s w cs in
    cSync s' w' /\ exists ls, cpaired cs rs ls /\
      plog message (est message (pstate message) w') = plog message (est message (pstate message) w) ++ concat ls.
  Proof. inst PeerU.history. Qed.
End Concrete.
Print Assumptions C08_call_spec. Print Assumptions C08_recovery. Print Assumptions C08_steady. Print Assumptions C08_history.
