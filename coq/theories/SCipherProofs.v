(* The premises the client theorems put on the cipher (ClientReasm, PeerU), proved for Rijndael-256/CBC *)
From Coq Require Import List Arith NArith Lia Bool.
Import ListNotations.
Require Import Bytes CBC CBCInst Rijndael RijP1 Cipher CipherProofs SCipher.
Local Open Scope N_scope.

Section Key.
  Variable key : list N.
  Hypothesis Lk : length key = 32%nat.
  Hypothesis Bk : bytes_ok key.
  Let ks := key_schedule key.
  Let DE := D_E key Lk Bk.
  Let EL := E_len key Lk Bk.

  Lemma s_decP_nil iv : s_decP ks iv [] = []. Proof. reflexivity. Qed.
  Lemma s_decI_nil iv : s_decI ks iv [] = iv. Proof. reflexivity. Qed.

  Lemma fix_iv_idem iv : fix_iv (fix_iv iv) = fix_iv iv.
  Proof. apply fix_iv_id, fix_iv_len. Qed.

  Lemma decI_len iv c : CBCInst.al c -> length (CBCInst.decI (D ks) iv c) = 32%nat.
  Proof. intro Ha. unfold CBCInst.decI. apply cbc_dec_iv_len; [apply fix_iv_len|apply CBCInst.al_len, Ha]. Qed.

  Lemma decP_fix iv c : CBCInst.decP (D ks) (fix_iv iv) c = CBCInst.decP (D ks) iv c.
  Proof. unfold CBCInst.decP. rewrite fix_iv_idem. reflexivity. Qed.
  Lemma decI_fix iv c : CBCInst.decI (D ks) (fix_iv iv) c = CBCInst.decI (D ks) iv c.
  Proof. unfold CBCInst.decI. rewrite fix_iv_idem. reflexivity. Qed.

  Lemma s_decP_app iv a b : CBCInst.al a -> s_decP ks iv (a ++ b) = s_decP ks iv a ++ s_decP ks (s_decI ks iv a) b.
  Proof.
    intro Ha. unfold s_decP, s_decI. destruct a as [|x a']; [reflexivity|].
    apply CBCInst.decP_app. exact Ha.
  Qed.
  Lemma s_decI_app iv a b : CBCInst.al a -> s_decI ks iv (a ++ b) = s_decI ks (s_decI ks iv a) b.
  Proof.
    intro Ha. unfold s_decI. destruct a as [|x a']; [reflexivity|]. cbn [app].
    destruct b as [|y b'].
    - rewrite app_nil_r. reflexivity.
    - change (x :: a' ++ y :: b') with ((x :: a') ++ y :: b'). apply CBCInst.decI_app. exact Ha.
  Qed.

  Lemma s_dec_enc iv p : CBCInst.al p -> s_decP ks iv (fst (s_enc ks iv p)) = p /\ s_decI ks iv (fst (s_enc ks iv p)) = snd (s_enc ks iv p).
  Proof.
    intro Ha. unfold s_decP, s_decI, s_enc. destruct p as [|x p']; [split; reflexivity|].
    destruct (CBCInst.dec_enc (E ks) (D ks) DE EL iv (x :: p') Ha) as [A B]. split; [exact A|].
    destruct (fst (CBCInst.enc (E ks) iv (x :: p'))) eqn:Ec; [|exact B].
    pose proof (CBCInst.enc_len (E ks) (D ks) DE EL iv (x :: p') Ha) as L. rewrite Ec in L. discriminate L.
  Qed.

  Lemma s_enc_len iv p : CBCInst.al p -> length (fst (s_enc ks iv p)) = length p.
  Proof. intro Ha. unfold s_enc. destruct p; [reflexivity|]. apply (CBCInst.enc_len (E ks) (D ks) DE EL); exact Ha. Qed.

  Lemma s_decP_len iv c : CBCInst.al c -> length (s_decP ks iv c) = length c.
  Proof.
    intro Ha. unfold s_decP, CBCInst.decP.
    rewrite (cbc_dec_len key Lk Bk); [symmetry; apply CBCInst.al_len, Ha|apply fix_iv_len|apply CBCInst.al_len, Ha].
  Qed.
End Key.
