(* C05 for the concrete client: what send transmits is one well-formed frame that decodes to exactly the requests, or nothing *)
From Coq Require Import List Arith NArith ZArith Lia Bool.
Import ListNotations.
Require Import Bytes CBC Codec CodecProofs CRC Frame FrameProofs FrameProofs3 FrameProofs4 FrameProofs5 Rijndael RijP1 Cipher CipherProofs CBCInst SCipher SCipherProofs Validate Vocab Config
               Client ClientSend Wire WireProofs Session.
Local Open Scope N_scope.

Definition msg_tag (m : message) : N := match m with Msg t _ _ => t end.
(* what the property calls acceptable: request tags at top level, defined types and matching values at every depth,
   every value within the per-value limit, and the whole list within the 16 bit frame length *)
Definition acceptable (ms : list message) : Prop :=
  Forall (fun m => is_request (msg_tag m) = true /\ wf_msg m) ms /\ N.of_nat (length (enc_items ms)) <= 65535.

Theorem C05_valid_iff ms : Forall repr_msg ms -> (c_valid ms = true <-> acceptable ms).
Proof.
  intro Hr. unfold c_valid, acceptable. rewrite andb_true_iff, forallb_forall, N.leb_le, Forall_forall.
  split; intros [A B]; (split; [|exact B]); intros m Hm; specialize (A m Hm);
    pose proof (proj1 (Forall_forall _ _) Hr m Hm) as Rm; destruct m as [t d v]; cbn [msg_tag] in *.
  - apply andb_true_iff in A as [A1 A2]. split; [exact A1|apply (validb_wf (Msg t d v) Rm), A2].
  - destruct A as [A1 A2]. apply andb_true_iff. split; [exact A1|apply (validb_wf (Msg t d v) Rm), A2].
Qed.

Section Send.
  Variable c : scfg.
  Hypothesis Bk : bytes_ok (s_key c).
  Let ks := key_schedule (key_pad (s_key c)).
  Let crc := s_crc c.
  Notation csend := (send message (c_encode crc) (s_enc ks) c_valid (eff_to (s_send_to c)) renv reactive).

  Theorem C05_send s w ms s' w' r : Forall repr_msg ms ->
    csend s w ms = (s', w', r) ->
    exists new, out message renv w' = new ++ out message renv w /\
      match r with
      | Err _ _ => writes_of message new = [] /\ (attempts_of message new <= 1)%nat /\ (~ acceptable ms -> new = [])
      | Ok _ _ => acceptable ms /\ attempts_of message new = 1%nat /\
          exists ct ts, writes_of message new = [ct] /\ snd (on_now renv reactive (est message renv w)) = ts /\
            (length ct mod 32 = 0)%nat /\ (32 <= length ct)%nat /\
            let p := s_decP ks (eiv s) ct in
            p = pad32 (frame (fst ts) (snd ts) crc ms) /\ decode_frame p = Accept ms /\ WellFormed p ms /\
            eiv s' = s_decI ks (eiv s) ct
      end.
  Proof.
    intros Hr H. destruct (send_spec message (c_encode crc) (s_enc ks) c_valid _ renv reactive s w ms s' w' r H) as (new & A & B).
    exists new. split; [exact A|]. destruct r as [u|x].
    - destruct B as (V & T & j & e1 & ts & Hc & Hn & Hw & He).
      pose proof (proj1 (C05_valid_iff ms Hr) V) as Hacc. split; [exact Hacc|]. split; [exact T|].
      destruct Hacc as [Hall Hfit].
      assert (Hwf : Forall wf_msg ms) by (apply Forall_forall; intros m Hm; exact (proj2 (proj1 (Forall_forall _ _) Hall m Hm))).
      assert (Hfits : fits ms) by (unfold fits; lia).
      set (p := c_encode crc ts ms) in *.
      pose proof (plain_aligned crc (fst ts) (snd ts) ms) as [A1 A2]. unfold model_plain in A1, A2. fold (c_encode crc ts ms) in A1, A2. fold p in A1, A2.
      destruct (s_dec_enc (key_pad (s_key c)) (key_pad_len _) (key_pad_bytes _ Bk) (eiv s) p A2) as (DE & Li). fold ks in DE, Li.
      pose proof (s_enc_len (key_pad (s_key c)) (key_pad_len _) (key_pad_bytes _ Bk) (eiv s) p A2) as Lc. fold ks in Lc.
      exists (fst (s_enc ks (eiv s) p)), ts. split; [exact Hw|]. split; [rewrite Hn; reflexivity|].
      split; [rewrite Lc; exact A2|]. split; [rewrite Lc; exact A1|].
      cbv zeta. rewrite DE.
      assert (Hd : decode_frame p = Accept ms) by (apply C01_plain_roundtrip; assumption).
      split; [reflexivity|]. split; [exact Hd|]. split.
      + apply decode_frame_sound; [|exact Hd].
        unfold p, c_encode. (* the padded frame consists of bytes *)
        assert (Hb : bok (frame (fst ts) (snd ts) crc ms)).
        { unfold frame. assert (bok (enc_items ms)) by (apply (bok_enc (S (length (enc_items ms)))); [lia|exact Hwf]).
          destruct crc; repeat apply bok_app; try apply bok_le; assumption. }
        unfold pad32. destruct (length (frame (fst ts) (snd ts) crc ms) mod 32 =? 0)%nat; [exact Hb|apply bok_app; [exact Hb|apply bok_repeat0]].
      + rewrite He. symmetry. exact Li.
    - destruct B as (W & Vn & T). split; [exact W|]. split; [exact T|].
      intro Hna. apply Vn. destruct (c_valid ms) eqn:Ev; [|reflexivity]. exfalso. apply Hna, (C05_valid_iff ms Hr), Ev.
  Qed.
End Send.
Print Assumptions C05_send.
