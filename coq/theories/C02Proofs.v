(* C02: what the model can carry about "never panics, never loops":
   - fuel adequacy: S (length bytes) units of fuel always suffice, more fuel never changes the answer, so a None of
     dec_items always means "rejected" and the decoder's recursion terminates on every input;
   - linear work: the number of items decoded (at all depths) and the nesting depth are at most length/7;
   - bounded buffering: Read keeps at most what it was given, and an accepted header announces at most 65557 bytes. *)
From Coq Require Import List Arith NArith ZArith Lia Bool ZifyN ZifyNat.
Import ListNotations.
Require Import Codec CodecProofs CRC Frame FrameProofs FrameProofs2 Fuel Reader.
Local Open Scope N_scope.

Fixpoint count_val (v : gval) : nat :=
  match v with
  | GMsgs ms => (fix go (l : list message) : nat := match l with [] => O | Msg _ _ v' :: r => (S (count_val v') + go r)%nat end) ms
  | _ => O
  end.
Definition count_items (ms : list message) : nat := count_val (GMsgs ms).

(* nesting depth: 0 for the empty list, 1 for flat items, 1 + the depth of the deepest container otherwise *)
Fixpoint depth_val (v : gval) : nat :=
  match v with
  | GMsgs ms => (fix go (l : list message) : nat := match l with [] => O | Msg _ _ v' :: r => Nat.max (S (depth_val v')) (go r) end) ms
  | _ => O
  end.
Definition depth_items (ms : list message) : nat := depth_val (GMsgs ms).

Lemma count_cons t d v r : count_items (Msg t d v :: r) = (S (count_val v) + count_items r)%nat.
Proof. reflexivity. Qed.

Theorem items_work bs ms : items_rel bs ms -> (7 * count_items ms <= length bs)%nat.
Proof.
  intro H.
  induction H using items_rel_mind with
    (P0 := fun dt raw v (_ : val_rel dt raw v) => (7 * count_val v <= length raw)%nat).
  - cbn. lia.
  - rewrite count_cons. rewrite !app_length, !le_length. cbn [length]. lia.
  - exact IHitems_rel.
  - destruct v; try (cbn; lia).
    (* a scalar data type never yields a container value *)
    all: exfalso; unfold dec_scalar in e;
      repeat match type of e with (if ?c then _ else _) = _ => destruct c; try discriminate end;
      destruct (norm_time _ _); discriminate.
Qed.

Lemma depth_cons t d v r : depth_items (Msg t d v :: r) = Nat.max (S (depth_val v)) (depth_items r).
Proof. reflexivity. Qed.

Theorem items_depth bs ms : items_rel bs ms -> (7 * depth_items ms <= length bs)%nat.
Proof.
  intro H.
  induction H using items_rel_mind with
    (P0 := fun dt raw v (_ : val_rel dt raw v) => (7 * depth_val v <= length raw)%nat).
  - cbn. lia.
  - rewrite depth_cons. rewrite !app_length, !le_length. cbn [length].
    destruct (Nat.max_spec (S (depth_val v)) (depth_items ms)) as [[_ ->]|[_ ->]]; lia.
  - exact IHitems_rel.
  - destruct v; try (cbn; lia).
    all: exfalso; unfold dec_scalar in e;
      repeat match type of e with (if ?c then _ else _) = _ => destruct c; try discriminate end;
      destruct (norm_time _ _); discriminate.
Qed.

(* every byte string, every amount of fuel beyond its length: the same answer, with linear work when accepted *)
Theorem C02_decoder bs : bok bs ->
  (forall k, dec_items (S (length bs) + k) bs = dec_items (S (length bs)) bs) /\
  (forall ms, dec_items (S (length bs)) bs = Some ms ->
     (7 * count_items ms <= length bs)%nat /\ (7 * depth_items ms <= length bs)%nat).
Proof.
  intro Hb. split; [intro k; apply fuel_enough|].
  intros ms H. apply dec_items_sound in H; [|exact Hb]. split; [apply items_work|apply items_depth]; exact H.
Qed.

(* the streaming reader buffers exactly what it is given and announces at most the maximal frame size *)
Theorem C02_buffer st c : length (rbuf (fst (read_step st c))) = length (rbuf st) \/
                          length (rbuf (fst (read_step st c))) = (length (rbuf st) + length c)%nat.
Proof.
  unfold read_step.
  destruct ((length c <? 32)%nat || negb (length c mod 32 =? 0)%nat); [left; reflexivity|].
  destruct (rbuf st) eqn:E.
  - destruct (read_header c); [left; cbn; rewrite E; reflexivity|].
    cbn [rbuf]. destruct (_ <=? _)%nat; right; cbn [fst rbuf app]; reflexivity.
  - cbn [rbuf]. rewrite <- E. destruct (_ <=? _)%nat; right; cbn [fst rbuf]; rewrite app_length; reflexivity.
Qed.

Theorem C02_frame_size p crc fs ds : bok p -> read_header p = HOk crc fs ds -> N.of_nat fs <= 65557 /\ N.of_nat ds <= 65535.
Proof.
  intros Hb H. unfold read_header in H.
  assert (L : unle (firstn 2 (skipn 16 p)) < 65536).
  { pose proof (unle_lt (firstn 2 (skipn 16 p)) (bok_firstn 2 _ (bok_skipn 16 _ Hb))) as U.
    assert ((length (firstn 2 (skipn 16 p)) <= 2)%nat) by (rewrite firstn_length; lia).
    assert (256 ^ N.of_nat (length (firstn 2 (skipn 16 p))) <= 256 ^ 2) by (apply N.pow_le_mono_r; lia).
    change (256 ^ 2) with 65536 in *. lia. }
  set (x := unle (firstn 2 (skipn 16 p))) in *.
  repeat match type of H with (if ?c then _ else _) = _ => destruct c; try discriminate end.
  injection H as _ <- <-.
  unfold hdr. destruct (negb _); lia.
Qed.

Print Assumptions C02_decoder.
