(* Top-level executable wrappers used by the correspondence check: rscp.Write / rscp.Read on cipher states. *)
From Coq Require Import List NArith ZArith Bool.
Import ListNotations.
Require Import Codec CRC Frame Rijndael Cipher Reader.
Local Open Scope N_scope.


(* rscp.Write on the cipher chain [iv]: returns ciphertext and the new chain value *)
Definition model_write (ks : list N) (iv : list N) (crc : bool) (sec nsec : Z) (ms : list message) : list N * list N :=
  let p := pad32 (frame sec nsec crc ms) in c_enc ks iv p.

(* the plaintext rscp.Write produces, before encryption *)
Definition model_plain (crc : bool) (sec nsec : Z) (ms : list message) : list N := pad32 (frame sec nsec crc ms).

(* one call of rscp.Read: reader state + decrypt chain + ciphertext chunk.  A chunk that is not a positive multiple of
   the block size is refused before decryption (chain unchanged). *)
Definition model_read_step (ks : list N) (st : rstate) (iv : list N) (c : list N) : rstate * list N * verdict :=
  if (length c <? 32)%nat || negb (length c mod 32 =? 0)%nat then (st, iv, NeedMore) else
  let '(p, iv') := c_dec ks iv c in
  let '(st', v) := read_step st p in (st', iv', v).

(* feeding a list of chunks to Read, as a caller that stops at the first verdict other than "incomplete" *)
Fixpoint model_feed (ks : list N) (st : rstate) (iv : list N) (chunks : list (list N)) : list verdict * list N :=
  match chunks with
  | [] => ([], iv)
  | c :: r => let '(st', iv', v) := model_read_step ks st iv c in
              match v with
              | NeedMore => let '(vs, ivf) := model_feed ks st' iv' r in (v :: vs, ivf)
              | _ => ([v], iv')
              end
  end.

(* a stream of frames written and read on one pair of chained cipher states; every frame is read by a fresh
   reader state (as the client's receive does), each in one piece *)
Record wframe := { w_crc : bool; w_sec : Z; w_nsec : Z; w_ms : list message }.
Fixpoint write_stream (ks iv : list N) (fs : list wframe) : list (list N) * list N :=
  match fs with
  | [] => ([], iv)
  | f :: r => let '(c, iv1) := model_write ks iv (w_crc f) (w_sec f) (w_nsec f) (w_ms f) in
              let '(cs, iv2) := write_stream ks iv1 r in (c :: cs, iv2)
  end.
Fixpoint read_stream (ks iv : list N) (cs : list (list N)) : list verdict * list N :=
  match cs with
  | [] => ([], iv)
  | c :: r => let '(_, iv1, v) := model_read_step ks rinit iv c in
              let '(vs, iv2) := read_stream ks iv1 r in (v :: vs, iv2)
  end.
