From Coq Require Import List NArith String Decimal DecimalString DecimalN DecimalFacts.
Import ListNotations.
Local Open Scope N_scope.

Definition dec_of_N (n : N) : string := NilZero.string_of_uint (N.to_uint n).
Definition N_of_dec (s : string) : option N := option_map N.of_uint (NilZero.uint_of_string s).

Lemma N_dec_roundtrip n : N_of_dec (dec_of_N n) = Some n.
Proof.
  unfold N_of_dec, dec_of_N.
  destruct (NilZero.usu_gen (N.to_uint n)) as [H|H]; rewrite H; cbn [option_map].
  - rewrite DecimalN.Unsigned.of_to. reflexivity.
  - (* the printed numeral was Nil-like: only happens for zero *)
    destruct n as [|p]; [reflexivity|].
    exfalso. (* to_uint of a positive is never Nil *)
    pose proof (NilZero.usu (N.to_uint (N.pos p))) as U.
    assert (Hn : N.to_uint (N.pos p) <> Nil).
    { cbn. intro E. pose proof (DecimalPos.Unsigned.to_uint_nonnil p). contradiction. }
    rewrite (U Hn) in H. injection H as H.
    pose proof (DecimalN.Unsigned.of_to (N.pos p)) as R.
    change (N.to_uint (N.pos p)) with (Pos.to_uint p) in *. rewrite H in R. discriminate R.
Qed.
Print Assumptions N_dec_roundtrip.
