(* C15, second sentence: with -splitrequests each top-level request travels in its own frame, in order, and against a
   device that answers every request with one message the output equals that of the unsplit run.
   run_calls_g is the loop of cmd/e3dc/e3dc.go:run over ANY send function; Cli.run_calls (the loop of the command model that
   is extracted and run against the binary) is its instance for the scripted environment (run_calls_generic). The theorem is
   proved for its instance over the honest RSCP peer of PeerU.v / C08Proofs.v - the very send_multiple, codec and cipher of
   the session model - whose reply to a non-empty request list is one message per request (reply_of q = map f q). *)
From Coq Require Import List NArith ZArith Bool Lia.
Import ListNotations.
Require Import Codec Frame Rijndael RijP1 Cipher SCipher Client ClientReasm PeerU Session WireProofs C08Proofs Cli.
Local Open Scope N_scope.

Section Generic.
  Variable St : Type.
  Variable send : St -> list message -> St * res (list message).
  Fixpoint run_calls_g (split : bool) (st : St) (reqs : list (list message)) : St * option (list message) :=
    match reqs with
    | [] => (st, Some [])
    | q :: rest =>
      let '(st', r) := send st q in
      match r with
      | Client.Ok _ ms =>
        let '(st2, r2) := run_calls_g split st' rest in
        (st2, match r2 with Some more => Some ((if split then firstn 1 ms else ms) ++ more) | None => None end)
      | Client.Err _ _ => (st', None)
      end
    end.
End Generic.

(* the command model's loop is the generic loop over the session's SendMultiple *)
Definition ssend (c : scfg) (ks : list N) (st : cstate * world message renv) (q : list message) :=
  let '(s', w', r) := send_multiple message (c_encode (s_crc c)) c_decode_step (s_enc ks) (s_dec ks) iv0 c_valid
                        (c_auth_req (s_user c) (s_pass c)) c_auth_ok (eff_to (s_conn_to c)) (eff_to (s_send_to c)) (eff_to (s_recv_to c))
                        (32 * N.to_nat (eff_rbuf (s_rbuf c))) renv reactive fuel_per_call (fst st) (snd st) q in
  ((s', w'), r).

Lemma run_calls_generic c ks split reqs : forall s w rs0,
  run_calls c ks split (s, w, rs0) reqs =
  let '(st, r) := run_calls_g _ (ssend c ks) split (s, w) reqs in (fst st, snd st, r).
Proof.
  induction reqs as [|q rest IH]; intros s w rs0; [reflexivity|].
  cbn [run_calls run_calls_g]. unfold sstep. unfold ssend at 1. cbn [fst snd].
  destruct (send_multiple _ _ _ _ _ _ _ _ _ _ _ _ _ _ _ _ _ _ q) as [[s' w'] r]. cbn [app].
  destruct r as [ms|x]; [|reflexivity].
  rewrite IH. destruct (run_calls_g _ (ssend c ks) split (s', w') rest) as [[s2 w2] r2]. reflexivity.
Qed.

(* ---- sub-requests of a valid request are valid ---- *)
Lemma enc_msg_le m ms : In m ms -> (length (enc_msg m) <= length (enc_items ms))%nat.
Proof.
  unfold enc_items. induction ms as [|a ms IH]; intros H; [contradiction|]. cbn [flat_map]. rewrite app_length.
  destruct H as [->|H]; [lia|]. specialize (IH H). lia.
Qed.
Lemma enc_items_single m : enc_items [m] = enc_msg m.
Proof. unfold enc_items. cbn [flat_map]. apply app_nil_r. Qed.

Lemma c_valid_single ms m : c_valid ms = true -> In m ms -> c_valid [m] = true.
Proof.
  unfold c_valid. intros H Hin. apply andb_true_iff in H. destruct H as [H1 H2].
  rewrite forallb_forall in H1. specialize (H1 m Hin). cbn [forallb]. rewrite H1. cbn [andb].
  rewrite enc_items_single. apply N.leb_le in H2. apply N.leb_le. pose proof (enc_msg_le m ms Hin). lia.
Qed.
Lemma okm_single ms m : okm ms -> In m ms -> okm [m].
Proof.
  intros [Hw Hf] Hin. split.
  - constructor; [|constructor]. rewrite Forall_forall in Hw. apply Hw. exact Hin.
  - unfold fits in *. rewrite enc_items_single. pose proof (enc_msg_le m ms Hin). lia.
Qed.

Section Split.
  Variable key : list N.
  Hypothesis Bk : RijP1.bytes_ok key.
  Variables user pass : list N.
  Hypothesis Bu : Codec.bytes_ok user.
  Hypothesis Bp : Codec.bytes_ok pass.
  Hypothesis Hlen : N.of_nat (length user + length pass) <= 60000.
  Variable crc : bool.
  Variables conn_to send_to recv_to : Z.
  Hypothesis to_pos : (0 < conn_to /\ 0 < send_to /\ 0 < recv_to)%Z.
  Variable rbuf : nat.
  Hypothesis rbuf_pos : (0 < rbuf)%nat.
  Variables reply_of deny_of : list message -> list message.
  Hypothesis reply_okm : forall ms, okm (reply_of ms).
  Hypothesis deny_okm : forall ms, okm (deny_of ms).
  Hypothesis reply_nonempty : forall ms, reply_of ms <> [].
  Hypothesis deny_nonempty : forall ms, deny_of ms <> [].
  Hypothesis auth_grants : c_auth_ok (reply_of (c_auth_req user pass)) = true.
  Hypothesis auth_denies : c_auth_ok (deny_of (c_auth_req user pass)) = false.
  (* the device answers every request with one message *)
  Variable f : message -> message.

  Notation csend_multiple := (csend_multiple key user pass crc conn_to send_to recv_to rbuf reply_of deny_of).
  Notation W := (world message (pstate message)).
  Notation peer_log w := (plog message (est message (pstate message) w)).
  Notation peer_script w := (script message (est message (pstate message) w)).
  Notation auth_req := (c_auth_req user pass).

  Variable fuel : nat.
  Hypothesis Hfuel : (maxlen < fuel)%nat.

  Definition psend (st : cstate * W) (q : list message) : (cstate * W) * res (list message) :=
    let '(s', w', r) := csend_multiple fuel (fst st) (snd st) q in ((s', w'), r).

  Let with_script (p : pstate message) (sc : list (behaviour)) : pstate message :=
    {| p_enc := p_enc message p; p_dec := p_dec message p; inflight := inflight message p; delayed := delayed message p;
       closed := closed message p; script := sc; plog := plog message p |}.

  Lemma healthy_tl n p p' : healthy message (S n) p -> script message p' = tl (script message p) -> healthy message n p'.
  Proof. intros H E. destruct (healthy_hd message rbuf rbuf_pos n p H) as [_ H1]. apply H1. exact E. Qed.
  Lemma healthy_tl2 n p p' : healthy message (S (S n)) p -> script message p' = tl (tl (script message p)) -> healthy message n p'.
  Proof.
    intros H E. apply (healthy_tl n (with_script p (tl (script message p)))); [|exact E].
    apply (healthy_tl (S n) p); [exact H|reflexivity].
  Qed.
  Lemma healthy_one n p : healthy message (S n) p -> healthy message 1 p.
  Proof.
    intro H. destruct (healthy_hd message rbuf rbuf_pos n p H) as [Hb _]. unfold hd_b in Hb. unfold healthy.
    destruct (script message p) as [|b sc] eqn:E.
    - right. exists 0%nat. split; [lia|reflexivity].
    - left. subst b. reflexivity.
  Qed.
  Lemma healthy_two n p : healthy message (S (S n)) p -> healthy message 2 p.
  Proof.
    intro H. pose proof (healthy_one _ _ H) as H1.
    assert (H2 : healthy message 1 (with_script p (tl (script message p)))).
    { apply (healthy_one n). apply (healthy_tl (S n) p); [exact H|reflexivity]. }
    destruct (healthy_hd message rbuf rbuf_pos 0 _ H1) as [Hb1 _]. destruct (healthy_hd message rbuf rbuf_pos 0 _ H2) as [Hb2 _].
    unfold hd_b in Hb1, Hb2. cbn [with_script script] in Hb2. unfold healthy.
    destruct (script message p) as [|b [|b2 sc]] eqn:E.
    - right. exists 0%nat. split; [lia|reflexivity].
    - right. exists 1%nat. subst b. split; [lia|reflexivity].
    - left. cbn [tl] in Hb2. subst b b2. reflexivity.
  Qed.

  Notation steady := (C08_steady key Bk user pass Bu Bp Hlen crc conn_to send_to recv_to to_pos rbuf rbuf_pos reply_of deny_of
                        reply_okm deny_okm reply_nonempty deny_nonempty auth_grants auth_denies).
  Notation steady_script := (C08_steady_script key Bk user pass Bu Bp Hlen crc conn_to send_to recv_to to_pos rbuf rbuf_pos reply_of deny_of
                        reply_okm deny_okm reply_nonempty deny_nonempty auth_grants auth_denies).
  Notation recovery := (C08_recovery key Bk user pass Bu Bp Hlen crc conn_to send_to recv_to to_pos rbuf rbuf_pos reply_of deny_of
                        reply_okm deny_okm reply_nonempty deny_nonempty auth_grants auth_denies).
  Notation recovery_script := (C08_recovery_script key Bk user pass Bu Bp Hlen crc conn_to send_to recv_to to_pos rbuf rbuf_pos reply_of deny_of
                        reply_okm deny_okm reply_nonempty deny_nonempty auth_grants auth_denies).

  (* an authenticated client in split mode: every request travels in its own frame, in order, and gets its own reply *)
  Lemma split_steady : forall ms s (w : W),
    cSync s w -> authed s = true ->
    (forall m, In m ms -> c_valid [m] = true /\ okm [m] /\ reply_of [m] = [f m]) ->
    healthy message (length ms) (est message (pstate message) w) ->
    forall st' r, run_calls_g _ psend true (s, w) (map (fun m => [m]) ms) = (st', r) ->
    r = Some (map f ms) /\ peer_log (snd st') = peer_log w ++ map (fun m => [m]) ms /\
    cSync (fst st') (snd st') /\ authed (fst st') = true.
  Proof.
    induction ms as [|m ms IH]; intros s w HS Ha Hv Hh st' r.
    - cbn. intros [= <- <-]. cbn [fst snd]. rewrite app_nil_r. auto.
    - cbn [map run_calls_g]. unfold psend at 1. cbn [fst snd].
      destruct (csend_multiple fuel s w [m]) as [[s1 w1] r1] eqn:E1.
      destruct (Hv m (or_introl eq_refl)) as (Hvm & Hom & reply_one).
      cbn [length] in Hh.
      destruct (steady fuel s w [m] s1 w1 r1 HS Ha Hfuel Hvm Hom (healthy_one _ _ Hh) E1) as (-> & Hl & HS1 & Ha1).
      pose proof (steady_script fuel s w [m] s1 w1 _ HS Ha Hfuel Hvm Hom E1) as Hsc.
      assert (Hh1 : healthy message (length ms) (est message (pstate message) w1)) by (apply (healthy_tl _ _ _ Hh); exact Hsc).
      destruct (run_calls_g _ psend true (s1, w1) (map (fun m0 => [m0]) ms)) as [st2 r2] eqn:E2.
      destruct (IH s1 w1 HS1 Ha1 (fun m0 H0 => Hv m0 (or_intror H0)) Hh1 st2 r2 E2) as (-> & Hl2 & HS2 & Ha2).
      intros [= <- <-]. rewrite reply_one. cbn [firstn app map].
      split; [reflexivity|]. split; [|auto]. rewrite Hl2, Hl, <- app_assoc. reflexivity.
  Qed.

  (* C15: the split run and the unsplit run of the command, from the fresh (or any unauthenticated, in-sync) client state,
     against a device that answers the authentication and then every request with one message:
     - both collect the same replies, hence print the same document in every output format;
     - split: the device receives the authentication request and then every top-level request in its own frame, in order;
     - unsplit: it receives the authentication request and one frame with all requests. *)
  Theorem split_equals_unsplit ms s (w : W) :
    cSync s w -> authed s = false -> ms <> [] -> c_valid ms = true -> okm ms ->
    reply_of ms = map f ms -> (forall m, In m ms -> reply_of [m] = [f m]) ->
    healthy message (S (length ms)) (est message (pstate message) w) ->
    forall st1 r1 st2 r2,
    run_calls_g _ psend true (s, w) (map (fun m => [m]) ms) = (st1, r1) ->
    run_calls_g _ psend false (s, w) [ms] = (st2, r2) ->
    r1 = Some (map f ms) /\ r2 = Some (map f ms) /\
    peer_log (snd st1) = peer_log w ++ auth_req :: map (fun m => [m]) ms /\
    peer_log (snd st2) = peer_log w ++ [auth_req; ms].
  Proof.
    intros HS Ha Hne Hv Hokm Hall Hone Hh st1 r1 st2 r2.
    assert (Hsingle : forall m, In m ms -> c_valid [m] = true /\ okm [m] /\ reply_of [m] = [f m]).
    { intros m Hin. split; [exact (c_valid_single ms m Hv Hin)|split; [exact (okm_single ms m Hokm Hin)|exact (Hone m Hin)]]. }
    destruct ms as [|m ms']; [contradiction|]. cbn [length] in Hh.
    intros E1 E2.
    assert (G2 : r2 = Some (map f (m :: ms')) /\ peer_log (snd st2) = peer_log w ++ [auth_req; m :: ms']).
    { revert E2. cbn [run_calls_g]. unfold psend. cbn [fst snd].
      destruct (csend_multiple fuel s w (m :: ms')) as [[sa wa] ra] eqn:Ea.
      destruct (recovery fuel s w (m :: ms') sa wa ra HS Ha Hfuel Hv Hokm (healthy_two _ _ Hh) Ea) as (-> & Hl & _).
      intros [= <- <-]. cbn [snd]. rewrite app_nil_r, Hall. auto. }
    destruct G2 as [-> G2]. split; [|split; [reflexivity|split; [|exact G2]]]; revert E1; cbn [map run_calls_g]; unfold psend at 1; cbn [fst snd];
      destruct (csend_multiple fuel s w [m]) as [[s1 w1] ra] eqn:Ea;
      destruct (Hsingle m (or_introl eq_refl)) as (Hvm & Hom & reply_one);
      destruct (recovery fuel s w [m] s1 w1 ra HS Ha Hfuel Hvm Hom (healthy_two _ _ Hh) Ea) as (-> & Hl & HS1 & Ha1);
      pose proof (recovery_script fuel s w [m] s1 w1 _ HS Ha Hfuel Hvm Hom (healthy_two _ _ Hh) Ea) as Hsc;
      assert (Hh1 : healthy message (length ms') (est message (pstate message) w1)) by (apply (healthy_tl2 _ _ _ Hh); exact Hsc);
      destruct (run_calls_g _ psend true (s1, w1) (map (fun m0 => [m0]) ms')) as [stb rb] eqn:Eb;
      destruct (split_steady ms' s1 w1 HS1 Ha1 (fun m0 H0 => Hsingle m0 (or_intror H0)) Hh1 stb rb Eb) as (-> & Hlb & _);
      intros [= <- <-]; rewrite ?reply_one; cbn [firstn app map snd]; [reflexivity|].
    rewrite Hlb, Hl, <- app_assoc. reflexivity.
  Qed.

  (* ... so, for every output format, the document printed is the same *)
  Corollary split_same_document ms s (w : W) (render : list message -> JsonDoc.jdoc) :
    cSync s w -> authed s = false -> ms <> [] -> c_valid ms = true -> okm ms ->
    reply_of ms = map f ms -> (forall m, In m ms -> reply_of [m] = [f m]) ->
    healthy message (S (length ms)) (est message (pstate message) w) ->
    option_map render (snd (run_calls_g _ psend true (s, w) (map (fun m => [m]) ms))) =
    option_map render (snd (run_calls_g _ psend false (s, w) [ms])).
  Proof.
    intros HS Ha Hne Hv Hokm Hall Hone Hh.
    destruct (run_calls_g _ psend true (s, w) (map (fun m => [m]) ms)) as [st1 r1] eqn:E1.
    destruct (run_calls_g _ psend false (s, w) [ms]) as [st2 r2] eqn:E2.
    destruct (split_equals_unsplit ms s w HS Ha Hne Hv Hokm Hall Hone Hh st1 r1 st2 r2 E1 E2) as (-> & -> & _). reflexivity.
  Qed.
End Split.
