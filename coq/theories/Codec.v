From Coq Require Import List NArith ZArith Lia Bool.
Import ListNotations.
Local Open Scope N_scope.

(* ---------- little endian ---------- *)
Fixpoint le (k : nat) (n : N) : list N :=
  match k with O => [] | S k' => (n mod 256) :: le k' (n / 256) end.
Fixpoint unle (bs : list N) : N :=
  match bs with [] => 0 | b :: r => b + 256 * unle r end.

Lemma le_length k n : length (le k n) = k.
Proof. revert n; induction k; intro n; cbn; [reflexivity|]. rewrite IHk. reflexivity. Qed.

Lemma unle_le k n : n < 256 ^ N.of_nat k -> unle (le k n) = n.
Proof.
  revert n; induction k as [|k IH]; intros n Hn.
  - cbn in *. lia.
  - cbn [le unle]. rewrite IH.
    + symmetry. rewrite N.add_comm. apply N.div_mod. discriminate.
    + rewrite Nat2N.inj_succ, N.pow_succ_r' in Hn. apply N.div_lt_upper_bound; lia.
Qed.

(* two's complement *)
Definition twos (bits : N) (z : Z) : N := Z.to_N (z mod 2 ^ Z.of_N bits).
Definition untwos (bits : N) (n : N) : Z :=
  if n <? 2 ^ (bits - 1) then Z.of_N n else (Z.of_N n - 2 ^ Z.of_N bits)%Z.

(* ---------- messages ---------- *)
Inductive gval :=
| GNil | GBool (b : bool)
| GI8 (z : Z) | GU8 (n : N) | GI16 (z : Z) | GU16 (n : N)
| GI32 (z : Z) | GU32 (n : N) | GI64 (z : Z) | GU64 (n : N)
| GF32 (bits : N) | GF64 (bits : N)
| GStr (s : list N) | GBytes (s : list N)
| GMsgs (ms : list message)
| GTime (sec : Z) (nsec : Z) | GErr (n : N)
| GOther (k : N)
with message := Msg (tag : N) (dt : N) (v : gval).

(* data type codes *)
Definition dNone := 0. Definition dBool := 1. Definition dChar8 := 2. Definition dUChar8 := 3.
Definition dInt16 := 4. Definition dUInt16 := 5. Definition dInt32 := 6. Definition dUint32 := 7.
Definition dInt64 := 8. Definition dUint64 := 9. Definition dFloat32 := 10. Definition dDouble64 := 11.
Definition dBitfield := 12. Definition dCString := 13. Definition dContainer := 14. Definition dTimestamp := 15.
Definition dByteArray := 16. Definition dError := 255.

(* encoding of the value bytes; defined for matching (dt, value) pairs *)
Fixpoint enc_val (v : gval) : list N :=
  match v with
  | GNil => []
  | GBool b => [if b then 1 else 0]
  | GI8 z => le 1 (twos 8 z) | GU8 n => le 1 n
  | GI16 z => le 2 (twos 16 z) | GU16 n => le 2 n
  | GI32 z => le 4 (twos 32 z) | GU32 n => le 4 n
  | GI64 z => le 8 (twos 64 z) | GU64 n => le 8 n
  | GF32 b => le 4 b | GF64 b => le 8 b
  | GStr s => s | GBytes s => s
  | GMsgs ms => flat_map enc_msg ms
  | GTime s ns => le 8 (twos 64 s) ++ le 4 (twos 32 ns)
  | GErr n => le 4 n
  | GOther _ => []
  end
with enc_msg (m : message) : list N :=
  match m with
  | Msg tag dt v => let body := enc_val v in
                    le 4 tag ++ [dt] ++ le 2 (N.of_nat (length body)) ++ body
  end.

Definition enc_items (ms : list message) : list N := flat_map enc_msg ms.

Definition fixed_len (dt : N) : option N :=
  if dt =? 0 then Some 0 else
  if (dt =? 1) || (dt =? 2) || (dt =? 3) || (dt =? 12) then Some 1 else
  if (dt =? 4) || (dt =? 5) then Some 2 else
  if (dt =? 6) || (dt =? 7) || (dt =? 10) || (dt =? 255) then Some 4 else
  if (dt =? 8) || (dt =? 9) || (dt =? 11) then Some 8 else
  if dt =? 15 then Some 12 else
  if (dt =? 13) || (dt =? 14) || (dt =? 16) then None else Some 999999 (* undefined: never matches *).

Definition defined_dt (dt : N) : bool := (dt <=? 16) || (dt =? 255).

Definition max_data : N := 65528.

(* normalisation performed by time.Unix(sec, nsec) *)
Definition norm_time (s ns : Z) : Z * Z :=
  let q := (ns / 1000000000)%Z in
  let r := (ns mod 1000000000)%Z in
  (untwos 64 (twos 64 (s + q)), r).

Definition dec_scalar (dt : N) (raw : list N) : option gval :=
  if dt =? 0 then Some GNil else
  if dt =? 1 then Some (GBool (negb (unle raw =? 0))) else
  if dt =? 2 then Some (GI8 (untwos 8 (unle raw))) else
  if dt =? 3 then Some (GU8 (unle raw)) else
  if dt =? 4 then Some (GI16 (untwos 16 (unle raw))) else
  if dt =? 5 then Some (GU16 (unle raw)) else
  if dt =? 6 then Some (GI32 (untwos 32 (unle raw))) else
  if dt =? 7 then Some (GU32 (unle raw)) else
  if dt =? 8 then Some (GI64 (untwos 64 (unle raw))) else
  if dt =? 9 then Some (GU64 (unle raw)) else
  if dt =? 10 then Some (GF32 (unle raw)) else
  if dt =? 11 then Some (GF64 (unle raw)) else
  if dt =? 12 then Some (GU8 (unle raw)) else
  if dt =? 13 then Some (GStr raw) else
  if dt =? 15 then
    let '(s, ns) := norm_time (untwos 64 (unle (firstn 8 raw))) (untwos 32 (unle (skipn 8 raw))) in
    Some (GTime s ns) else
  if dt =? 16 then Some (GBytes raw) else
  if dt =? 255 then Some (GErr (unle raw)) else None.

Fixpoint dec_items (fuel : nat) (bs : list N) : option (list message) :=
  match fuel with
  | O => None
  | S f =>
    match bs with
    | [] => Some []
    | _ =>
      if (length bs <? 7)%nat then None else
      let tag := unle (firstn 4 bs) in
      let dt := nth 4 bs 0 in
      let l := unle (firstn 2 (skipn 5 bs)) in
      let rest := skipn 7 bs in
      if negb (defined_dt dt) then None else
      if max_data <? l then None else
      if match fixed_len dt with Some k => negb (k =? l) | None => false end then None else
      if (N.of_nat (length rest) <? l) then None else
      let raw := firstn (N.to_nat l) rest in
      let rest' := skipn (N.to_nat l) rest in
      let ov := if dt =? 14 then
                  match dec_items f raw with Some ms => Some (GMsgs ms) | None => None end
                else dec_scalar dt raw in
      match ov with
      | None => None
      | Some v => match dec_items f rest' with
                  | Some ms => Some (Msg tag dt v :: ms)
                  | None => None
                  end
      end
    end
  end.

(* ---------- well-formedness of a message tree (what validate accepts) ---------- *)
Definition bytes_ok (s : list N) := Forall (fun b => b < 256) s.
Definition in_s (bits : Z) (z : Z) := (- 2 ^ (bits - 1) <= z < 2 ^ (bits - 1))%Z.

Fixpoint wf_val (dt : N) (v : gval) : Prop :=
  match v with
  | GNil => dt = 0
  | GBool _ => dt = 1
  | GI8 z => dt = 2 /\ in_s 8 z
  | GU8 n => (dt = 3 \/ dt = 12) /\ n < 256
  | GI16 z => dt = 4 /\ in_s 16 z
  | GU16 n => dt = 5 /\ n < 65536
  | GI32 z => dt = 6 /\ in_s 32 z
  | GU32 n => dt = 7 /\ n < 2 ^ 32
  | GI64 z => dt = 8 /\ in_s 64 z
  | GU64 n => dt = 9 /\ n < 2 ^ 64
  | GF32 b => dt = 10 /\ b < 2 ^ 32
  | GF64 b => dt = 11 /\ b < 2 ^ 64
  | GStr s => dt = 13 /\ bytes_ok s /\ N.of_nat (length s) <= max_data
  | GBytes s => dt = 16 /\ bytes_ok s /\ N.of_nat (length s) <= max_data
  | GMsgs ms => dt = 14 /\ N.of_nat (length (flat_map enc_msg ms)) <= max_data /\
                (fix all (l : list message) : Prop :=
                   match l with [] => True | Msg t d v :: r => (t < 2 ^ 32 /\ wf_val d v) /\ all r end) ms
  | GTime s ns => dt = 15 /\ in_s 64 s /\ (0 <= ns < 1000000000)%Z
  | GErr n => dt = 255 /\ n < 2 ^ 32
  | GOther _ => False
  end.

Definition wf_msg (m : message) : Prop := match m with Msg t d v => t < 2 ^ 32 /\ wf_val d v end.
