From Coq Require Import List Arith NArith Lia Bool ZifyN ZifyNat.
Import ListNotations.
Require Import CRC.
Local Open Scope N_scope.

Fixpoint xor_bytes (a b : list N) : list N :=
  match a, b with
  | x :: a', y :: b' => N.lxor x y :: xor_bytes a' b'
  | _, _ => []
  end.

Ltac xor_solve :=
  apply N.bits_inj; let i := fresh "i" in intro i; rewrite ?N.lxor_spec;
  repeat match goal with |- context [N.testbit ?x ?j] => destruct (N.testbit x j) end; reflexivity.

Lemma lxor_lt_256 x y : x < 256 -> y < 256 -> N.lxor x y < 256.
Proof.
  intros Hx Hy. destruct (N.eq_dec (N.lxor x y) 0) as [->|Hne]; [reflexivity|].
  apply N.log2_lt_pow2 with (b := 8); [lia|].
  eapply N.le_lt_trans; [apply N.log2_lxor|]. apply N.max_lub_lt.
  - destruct (N.eq_dec x 0) as [->|Hz]; [reflexivity|]. apply N.log2_lt_pow2; [lia|exact Hx].
  - destruct (N.eq_dec y 0) as [->|Hz]; [reflexivity|]. apply N.log2_lt_pow2; [lia|exact Hy].
Qed.

Lemma byte_cons x A : x < 256 -> x + 256 * A = N.lxor x (A * 2 ^ 8).
Proof. intro H. rewrite lxor_add_disjoint by (change (2 ^ 8) with 256; exact H). change (2 ^ 8) with 256. lia. Qed.

Lemma val_xor a b : bytes_ok a -> bytes_ok b -> length a = length b ->
  val (xor_bytes a b) = N.lxor (val a) (val b) /\ bytes_ok (xor_bytes a b).
Proof.
  intros Ha. revert b. induction Ha as [|x a Hx Ha IH]; intros b Hb Hl.
  - destruct b; [split; [reflexivity|constructor]|discriminate].
  - destruct b as [|y b]; [discriminate|]. inversion Hb as [|? ? Hy Hb']; subst.
    destruct (IH b Hb' ltac:(cbn in Hl; lia)) as [IH1 IH2].
    cbn [xor_bytes val]. split.
    + rewrite IH1.
      rewrite (byte_cons (N.lxor x y)) by (apply lxor_lt_256; assumption).
      rewrite (byte_cons x), (byte_cons y) by assumption.
      rewrite <- !N.shiftl_mul_pow2, N.shiftl_lxor. xor_solve.
    + constructor; [apply lxor_lt_256; assumption|exact IH2].
Qed.

Lemma val_app a b : bytes_ok a -> val (a ++ b) = N.lxor (val a) (val b * 2 ^ (8 * N.of_nat (length a))).
Proof.
  induction 1 as [|x a Hx Ha IH]; [cbn; rewrite N.mul_1_r; reflexivity|].
  cbn [app val length]. rewrite IH.
  rewrite Nat2N.inj_succ.
  replace (8 * N.succ (N.of_nat (length a))) with (8 * N.of_nat (length a) + 8) by lia.
  rewrite N.pow_add_r.
  rewrite !(byte_cons x) by assumption.
  set (P := 2 ^ (8 * N.of_nat (length a))).
  replace (val b * (P * 2 ^ 8)) with ((val b * P) * 2 ^ 8) by lia.
  rewrite <- !N.shiftl_mul_pow2, N.shiftl_lxor. xor_solve.
Qed.

(* crc of altered data *)
Lemma crc32_xor d e : bytes_ok d -> bytes_ok e -> length d = length e ->
  crc32 (xor_bytes d e) = N.lxor (crc32 d) (Tn (8 * N.of_nat (length d)) (val e)).
Proof.
  intros Hd He Hl. destruct (val_xor d e Hd He Hl) as [Hv Hb].
  unfold crc32. rewrite (raw_closed _ Hb), (raw_closed _ Hd).
  assert (Hlx : length (xor_bytes d e) = length d).
  { clear -Hl. revert e Hl; induction d as [|x d IH]; intros [|y e] Hl; cbn in *; try lia. rewrite IH; lia. }
  rewrite Hlx, Hv.
  replace (N.lxor mask32 (N.lxor (val d) (val e))) with (N.lxor (N.lxor mask32 (val d)) (val e)) by xor_solve.
  rewrite Tn_lxor. xor_solve.
Qed.

Definition burst32 (e : list N) : Prop := exists p B, val e = B * 2 ^ p /\ 0 < B /\ B < W.

(* data d (n bytes) followed by its CRC as a 32-bit number c; both altered by ed / ec.
   If the altered pair passes the check then the whole error pattern is "in the code". *)
Theorem accept_forces_zero d ed ec :
  bytes_ok d -> bytes_ok ed -> bytes_ok ec -> length ed = length d -> length ec = 4%nat ->
  N.lxor (crc32 d) (val ec) = crc32 (xor_bytes d ed) ->
  Tn (8 * N.of_nat (length d) + 32) (val (ed ++ ec)) = 0.
Proof.
  intros Hd Hed Hec Hl Hl4 Hacc.
  rewrite crc32_xor in Hacc by (assumption || lia).
  assert (E : val ec = Tn (8 * N.of_nat (length d)) (val ed)).
  { apply (f_equal (N.lxor (crc32 d))) in Hacc. rewrite <- !N.lxor_assoc, N.lxor_nilpotent, !N.lxor_0_l in Hacc. exact Hacc. }
  rewrite (val_app ed ec Hed), Hl.
  rewrite N.add_comm, Tn_add, Tn_lxor, Tn_shift, <- E, N.lxor_nilpotent.
  apply Tn_0.
Qed.

Theorem burst_never_accepted d ed ec :
  bytes_ok d -> bytes_ok ed -> bytes_ok ec -> length ed = length d -> length ec = 4%nat ->
  burst32 (ed ++ ec) ->
  N.lxor (crc32 d) (val ec) <> crc32 (xor_bytes d ed).
Proof.
  intros Hd Hed Hec Hl Hl4 (p & B & Hv & HB0 & HBW) Hacc.
  pose proof (accept_forces_zero d ed ec Hd Hed Hec Hl Hl4 Hacc) as Z.
  rewrite Hv in Z.
  assert (Hp : p <= 8 * N.of_nat (length d) + 32).
  { (* B * 2^p = val (ed ++ ec) < 2^(8n+32) *)
    assert (Hlt : val (ed ++ ec) < 256 ^ N.of_nat (length (ed ++ ec))).
    { apply val_lt. apply Forall_app; split; assumption. }
    rewrite app_length, Hl, Hl4, Nat2N.inj_add, pow256 in Hlt. rewrite Hv in Hlt.
    destruct (N.le_gt_cases p (8 * N.of_nat (length d) + 32)) as [|Hgt]; [assumption|exfalso].
    assert (2 ^ (8 * (N.of_nat (length d) + N.of_nat 4)) <= 2 ^ p) by (apply N.pow_le_mono_r; lia).
    assert (2 ^ p <= B * 2 ^ p) by nia. lia. }
  revert Z. apply burst_detected; assumption.
Qed.

Print Assumptions burst_never_accepted.
