(* The protocol constants the hand-written model uses are pinned in the model (they are the specification: magic 0xDCE3,
   32 byte blocks, 0xFF key/IV padding, ...). This file ties them to what the SOURCE says: gen/Constants.v is regenerated
   from /repo on every run and every equation below is re-checked; a changed constant breaks exactly the agreement lemma
   of the properties that depend on it. *)
From Coq Require Import List NArith ZArith String.
Import ListNotations.
Require Import Constants Codec Frame Cipher Config Vocab.
Local Open Scope N_scope.

Lemma frame_constants :
  RSCP_MAGIC = magic /\ RSCP_CTRL_BIT_MASK = ctrl_mask /\ RSCP_CTRL_BIT_MASK_VERSION = ver_mask /\
  RSCP_CTRL_BIT_MASK_CRC = crc_bit /\ N.shiftl RSCP_VERSION_1_0 RSCP_FLAG_BIT_VERSION = ver1 /\
  N.shiftl RSCP_CRC_ENABLED RSCP_FLAG_BIT_CRC = crc_bit /\ RSCP_CRC_DISABLED = 0 /\
  RSCP_FRAME_HEADER_SIZE = N.of_nat hdr /\ RSCP_FRAME_CRC_SIZE = 4 /\ RSCP_FRAME_MAX_DATA_SIZE = 65535 /\
  RSCP_FRAME_MAGIC_POS = 0 /\ RSCP_FRAME_CTRL_POS = 2 /\ RSCP_FRAME_TIME_POS = 4 /\ RSCP_FRAME_LENGTH_POS = 16 /\ RSCP_FRAME_DATA_POS = 18 /\
  RSCP_FRAME_MAX_SIZE = 65557 /\ RSCP_FRAME_MAX_BLOCK_SIZE = 2049.
Proof. repeat split; reflexivity. Qed.

Lemma item_constants :
  RSCP_DATA_TAG_SIZE = 4 /\ RSCP_DATA_DATATYPE_SIZE = 1 /\ RSCP_DATA_LENGTH_SIZE = 2 /\ RSCP_DATA_HEADER_SIZE = 7 /\
  RSCP_DATA_MAX_DATA_SIZE = max_data /\
  map fst data_types = [0;1;2;3;4;5;6;7;8;9;10;11;12;13;14;15;16;255].
Proof. repeat split; reflexivity. Qed.

Lemma cipher_constants :
  RSCP_CRYPT_BLOCK_SIZE = 32 /\ RSCP_CRYPT_BLOCK_PADDING = 0 /\ RSCP_CRYPT_KEY_PADDING = 255 /\ RSCP_CRYPT_IV_PADDING = 255 /\
  keySize = 32 /\ iv_bytes = iv0 /\ key_of_empty = key_pad [] /\ key_of_abc = key_pad [97; 98; 99] /\
  key_of_40 = key_pad [48; 49; 50; 51; 52; 53; 54; 55; 56; 57; 97; 98; 99; 100; 101; 102; 103; 104; 105; 106; 107; 108; 109; 110; 111; 112;
                       113; 114; 115; 116; 117; 118; 119; 120; 121; 122; 65; 66; 67; 68].
Proof. repeat split; reflexivity. Qed.

Lemma config_constants :
  default_port = 5033 /\ default_connection_timeout_ns = (3 * second)%Z /\ default_send_timeout_ns = (3 * second)%Z /\
  default_receive_timeout_ns = (3 * second)%Z /\ default_heartbeat_ns = (10 * second)%Z /\
  default_receive_buffer_blocks = 1 /\ default_use_checksum = 1 /\ RSCP_FRAME_MAX_BLOCK_SIZE = max_blocks.
Proof. repeat split; reflexivity. Qed.

Lemma auth_constants :
  TAG_RSCP_REQ_AUTHENTICATION = 1 /\ TAG_RSCP_AUTHENTICATION_USER = 2 /\ TAG_RSCP_AUTHENTICATION_PASSWORD = 3 /\
  TAG_RSCP_AUTHENTICATION = 8388609 /\ AUTH_LEVEL_NO_AUTH = 0 /\ RequiredAuthLogLevel = 99 /\
  tag_datatype 1 = 14 /\ tag_datatype 2 = 13 /\ tag_datatype 3 = 13 /\
  secret_tags = [3; 5] /\ TypeFlagBit = 23.
Proof. repeat split; reflexivity. Qed.
