From Coq Require Import List NArith ZArith Lia Bool.
Import ListNotations.
Require Import Codec.
Local Open Scope N_scope.

Lemma twos_lt bits z : twos bits z < 2 ^ bits.
Proof.
  unfold twos. 
  assert (H : (0 <= z mod 2 ^ Z.of_N bits < 2 ^ Z.of_N bits)%Z) by (apply Z.mod_pos_bound; apply Z.pow_pos_nonneg; lia).
  apply N2Z.inj_lt. rewrite Z2N.id by lia. rewrite N2Z.inj_pow. cbn. lia.
Qed.

Lemma untwos_twos bits z : 0 < bits -> in_s (Z.of_N bits) z -> untwos bits (twos bits z) = z.
Proof.
  intros Hb [Hlo Hhi]. unfold untwos, twos.
  set (M := (2 ^ Z.of_N bits)%Z).
  assert (HM : (M = 2 * 2 ^ (Z.of_N bits - 1))%Z).
  { unfold M. rewrite <- Z.pow_succ_r by lia. f_equal. lia. }
  assert (Hpos : (0 < 2 ^ (Z.of_N bits - 1))%Z) by (apply Z.pow_pos_nonneg; lia).
  assert (Hm : (0 <= z mod M < M)%Z) by (apply Z.mod_pos_bound; lia).
  replace (2 ^ (bits - 1)) with (Z.to_N (2 ^ (Z.of_N bits - 1))%Z).
  2:{ apply N2Z.inj. rewrite Z2N.id by lia. rewrite N2Z.inj_pow, N2Z.inj_sub by lia. reflexivity. }
  destruct (Z_lt_le_dec z 0) as [Hneg|Hnn].
  - assert (E : (z mod M = z + M)%Z).
    { symmetry. apply Z.mod_unique with (q := (-1)%Z); lia. }
    rewrite E. destruct (N.ltb_spec (Z.to_N (z + M)) (Z.to_N (2 ^ (Z.of_N bits - 1)))) as [H|H].
    + apply Z2N.inj_lt in H; lia.
    + rewrite Z2N.id by lia. lia.
  - rewrite Z.mod_small by lia.
    destruct (N.ltb_spec (Z.to_N z) (Z.to_N (2 ^ (Z.of_N bits - 1)))) as [H|H].
    + rewrite Z2N.id by lia. reflexivity.
    + apply Z2N.inj_le in H; lia.
Qed.

Ltac wf_inv H := cbn [wf_val] in H; try contradiction;
  repeat match goal with
         | X : _ /\ _ |- _ => destruct X
         | X : _ \/ _ |- _ => destruct X
         end; subst.

Lemma enc_val_len dt v : wf_val dt v ->
  match fixed_len dt with Some k => N.of_nat (length (enc_val v)) = k | None => True end.
Proof.
  intro H. destruct v; wf_inv H; cbn; rewrite ?app_length, ?le_length; try reflexivity; exact I.
Qed.

Lemma enc_val_max dt v : wf_val dt v -> N.of_nat (length (enc_val v)) <= max_data.
Proof.
  intro H. destruct v; wf_inv H; cbn [enc_val]; try assumption;
    rewrite ?app_length, ?le_length; cbn; unfold max_data; lia.
Qed.

Lemma defined_of_wf dt v : wf_val dt v -> defined_dt dt = true.
Proof. intro H. destruct v; wf_inv H; reflexivity. Qed.

Ltac le_rt := cbn [enc_val dec_scalar N.eqb Pos.eqb];
  rewrite ?unle_le by (first [assumption | apply (twos_lt 8) | apply (twos_lt 16) | apply (twos_lt 32) | apply (twos_lt 64)]);
  rewrite ?untwos_twos by (first [assumption | lia]); try reflexivity.

Lemma dec_scalar_enc dt v : wf_val dt v -> dt <> 14 -> dec_scalar dt (enc_val v) = Some v.
Proof.
  intros H Hne. destruct v; wf_inv H; try congruence; try (le_rt; fail).
  - destruct b; reflexivity.
  - (* time *)
    cbn [enc_val dec_scalar N.eqb Pos.eqb].
    rewrite firstn_app, le_length, Nat.sub_diag, firstn_O, app_nil_r.
    rewrite (firstn_all2 (n:=8)) by (rewrite le_length; lia).
    rewrite skipn_app, le_length, Nat.sub_diag.
    rewrite (skipn_all2 (n:=8)) by (rewrite le_length; lia). cbn [app skipn].
    rewrite !unle_le by (first [apply (twos_lt 64) | apply (twos_lt 32)]).
    rewrite (untwos_twos 64) by (first [assumption | lia]).
    rewrite (untwos_twos 32) by (unfold in_s; cbn; lia).
    unfold norm_time. rewrite Z.div_small, Z.mod_small, Z.add_0_r by lia.
    rewrite (untwos_twos 64) by (first [assumption | lia]). reflexivity.
Qed.

(* ---------- header access lemmas ---------- *)
Lemma hdr_parts tag dt l body rest bs :
  bs = le 4 tag ++ [dt] ++ le 2 l ++ body ++ rest ->
  firstn 4 bs = le 4 tag /\ nth 4 bs 0 = dt /\ firstn 2 (skipn 5 bs) = le 2 l /\
  skipn 7 bs = body ++ rest /\ (7 <= length bs)%nat.
Proof.
  intros ->. cbn [le app firstn skipn nth length]. repeat split; lia.
Qed.

Lemma wf_all_iff ms :
  (fix all (l : list message) : Prop :=
     match l with [] => True | Msg t d v :: r => (t < 2 ^ 32 /\ wf_val d v) /\ all r end) ms
  <-> Forall wf_msg ms.
Proof.
  induction ms as [|[t d v] r IH]; [split; constructor|].
  split.
  - intros [H1 H2]. constructor; [exact H1| apply IH, H2].
  - intro H. inversion H; subst. split; [assumption|apply IH; assumption].
Qed.

Theorem dec_enc_items : forall fuel ms,
  Forall wf_msg ms -> (length (enc_items ms) < fuel)%nat ->
  dec_items fuel (enc_items ms) = Some ms.
Proof.
  induction fuel as [|f IH]; intros ms Hwf Hlen; [lia|].
  destruct ms as [|[tag dt v] ms]; [reflexivity|].
  inversion Hwf as [|? ? Hm Hrest]; subst. cbn [wf_msg] in Hm. destruct Hm as [Htag Hv].
  unfold enc_items in *. cbn [flat_map enc_msg] in *.
  set (body := enc_val v) in *.
  set (rest := flat_map enc_msg ms) in *.
  assert (Hbody : N.of_nat (length body) <= max_data) by (apply (enc_val_max dt v Hv)).
  rewrite <- !app_assoc in *.
  set (bs := le 4 tag ++ [dt] ++ le 2 (N.of_nat (length body)) ++ body ++ rest) in *.
  destruct (hdr_parts tag dt (N.of_nat (length body)) body rest bs eq_refl) as (H1 & H2 & H3 & H4 & H5).
  cbn [dec_items].
  destruct bs as [|b0 bs'] eqn:Ebs; [cbn in H5; lia|]. rewrite <- Ebs in *. clear Ebs b0 bs'.
  destruct (Nat.ltb_spec (length bs) 7) as [Hc|_]; [lia|].
  rewrite H1, H2, H3, H4.
  rewrite !unle_le by (first [exact Htag | unfold max_data in Hbody; cbn; lia]).
  rewrite (defined_of_wf dt v Hv). cbn [negb].
  destruct (N.ltb_spec max_data (N.of_nat (length body))) as [Hc|_]; [lia|].
  pose proof (enc_val_len dt v Hv) as HL. fold body in HL.
  replace (match fixed_len dt with Some k => negb (k =? N.of_nat (length body)) | None => false end) with false.
  2:{ destruct (fixed_len dt); [|reflexivity]. rewrite HL, N.eqb_refl. reflexivity. }
  rewrite app_length. 
  destruct (N.ltb_spec (N.of_nat (length body + length rest)) (N.of_nat (length body))) as [Hc|_]; [lia|].
  rewrite Nat2N.id.
  rewrite firstn_app, Nat.sub_diag, firstn_O, app_nil_r, firstn_all.
  rewrite skipn_app, Nat.sub_diag, skipn_all. cbn [app skipn].
  assert (Hlb : (length body < f)%nat /\ (length rest < f)%nat).
  { unfold bs in Hlen. rewrite !app_length, !le_length in Hlen. cbn [length] in Hlen. lia. }
  destruct Hlb as [Hlb Hlr].
  assert (Hov : (if dt =? 14 then match dec_items f body with Some ms0 => Some (GMsgs ms0) | None => None end
                 else dec_scalar dt body) = Some v).
  { destruct (N.eqb_spec dt 14) as [->|Hne].
    - destruct v; wf_inv Hv; try discriminate.
      assert (Hch : Forall wf_msg ms0) by (apply wf_all_iff; assumption).
      unfold body in *. cbn [enc_val] in *.
      rewrite IH; [reflexivity|exact Hch|exact Hlb].
    - apply dec_scalar_enc; assumption. }
  rewrite Hov. unfold rest in *. rewrite IH; [reflexivity|assumption|exact Hlr].
Qed.

Print Assumptions dec_enc_items.
