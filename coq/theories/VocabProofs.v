(* C14: coherence of the tag and data-type vocabularies, proved over the tables generated from the source.
   Finite facts are closed by vm_compute over the generated tables (bounds: the table sizes, 256 type codes);
   C14_json_tag is proved for every 32-bit tag. *)
From Coq Require Import List NArith String Bool Ascii Lia.
Import ListNotations.
Require Import Constants Tables Published Dec Codec CodecProofs Vocab.
Local Open Scope N_scope.

Definition published_b : bool :=
  forallb (fun '(t, n, d) =>
    (match name_of_tag t with Some n' => String.eqb n n' | None => false end) &&
    (match tag_of_name n with Some t' => t =? t' | None => false end) &&
    (tag_datatype t =? d)) published.

Lemma names_roundtrip : names_roundtrip_b = true. Proof. vm_compute. reflexivity. Qed.
Lemma tags_roundtrip : tags_roundtrip_b = true. Proof. vm_compute. reflexivity. Qed.
Lemma strings_agree : strings_agree_b = true. Proof. vm_compute. reflexivity. Qed.
Lemma values_agree : values_agree_b = true. Proof. vm_compute. reflexivity. Qed.
Lemma values_nodup : values_nodup_b = true. Proof. vm_compute. reflexivity. Qed.
Lemma tags_32bit : tags_32bit_b = true. Proof. vm_compute. reflexivity. Qed.
Lemma no_numeric_names : no_numeric_names_b = true. Proof. vm_compute. reflexivity. Qed.
Lemma types_defined : types_defined_b = true. Proof. vm_compute. reflexivity. Qed.
Lemma dt_roundtrip : dt_roundtrip_b = true. Proof. vm_compute. reflexivity. Qed.
Lemma rows_ok : rows_ok_b = true. Proof. vm_compute. reflexivity. Qed.
Lemma published_ok : published_b = true. Proof. vm_compute. reflexivity. Qed.
Lemma type_flag_bit : TypeFlagBit = 23. Proof. reflexivity. Qed.

Opaque tag_names name_values tag_types tag_values tag_strings dt_rows published.

Lemma assocN_in {A} (tbl : list (N * A)) k v : assocN tbl k = Some v -> In (k, v) tbl.
Proof.
  induction tbl as [|[k' v'] r IH]; [discriminate|]. cbn.
  destruct (N.eqb_spec k' k) as [->|]; [intros [= ->]; left; reflexivity|right; auto].
Qed.
Lemma assocS_in {A} (tbl : list (string * A)) k v : assocS tbl k = Some v -> In (k, v) tbl.
Proof.
  induction tbl as [|[k' v'] r IH]; [discriminate|]. cbn.
  destruct (String.eqb_spec k' k) as [->|]; [intros [= ->]; left; reflexivity|right; auto].
Qed.

(* every known tag has a name that parses back to the same number (so names are unique) *)
Theorem C14_name_roundtrip t n : In (t, n) tag_names -> tag_of_name n = Some t.
Proof.
  intro H. pose proof names_roundtrip as A. unfold names_roundtrip_b in A.
  rewrite forallb_forall in A. specialize (A _ H). cbv beta iota in A.
  destruct (tag_of_name n); [|discriminate]. apply N.eqb_eq in A. subst. reflexivity.
Qed.
Theorem C14_names_unique t1 t2 n : In (t1, n) tag_names -> In (t2, n) tag_names -> t1 = t2.
Proof. intros H1 H2. apply C14_name_roundtrip in H1, H2. congruence. Qed.
Theorem C14_value_roundtrip n t : In (n, t) name_values -> name_of_tag t = Some n.
Proof.
  intro H. pose proof tags_roundtrip as A. unfold tags_roundtrip_b in A.
  rewrite forallb_forall in A. specialize (A _ H). cbv beta iota in A.
  destruct (name_of_tag t); [|discriminate]. apply String.eqb_eq in A. subst. reflexivity.
Qed.

Lemma eqb_listN_eq a b : eqb_listN a b = true -> a = b.
Proof.
  revert b; induction a as [|x a IH]; intros [|y b]; cbn; try discriminate; [reflexivity|].
  intro H. apply andb_true_iff in H as [H1 H2]. apply N.eqb_eq in H1. f_equal; auto.
Qed.
Lemma strictly_ascending_nodup l : strictly_ascending l = true -> NoDup l.
Proof.
  assert (G : forall l, strictly_ascending l = true -> NoDup l /\ forall x y, hd_error l = Some x -> In y (tl l) -> x < y).
  { clear l. induction l as [|x r IH]; intro H.
    - split; [constructor|]. intros x y [=].
    - destruct r as [|y r'].
      + split; [constructor; [intros []|constructor]|]. intros x0 y0 _ [].
      + cbn [strictly_ascending] in H. apply andb_true_iff in H as [Hxy Hr]. apply N.ltb_lt in Hxy.
        destruct (IH Hr) as [ND Hlt]. split.
        * constructor; [|exact ND]. intros [E|Hin]; [lia|]. specialize (Hlt y x eq_refl Hin). lia.
        * intros x0 y0 [= <-] Hin. cbn [tl] in Hin. destruct Hin as [<-|Hin]; [exact Hxy|].
          specialize (Hlt y y0 eq_refl Hin). lia. }
  intro H. apply G. exact H.
Qed.

Theorem C14_values_agree : tag_values = map fst tag_names /\ map snd name_values = map fst tag_names /\ NoDup tag_values.
Proof.
  pose proof values_agree as A. unfold values_agree_b in A. apply andb_true_iff in A as [A1 A2].
  split; [apply eqb_listN_eq; exact A1|]. split; [apply eqb_listN_eq; exact A2|].
  apply strictly_ascending_nodup. exact values_nodup.
Qed.

(* the names, numbers and data types of the published tags are unchanged *)
Theorem C14_published t n d : In (t, n, d) published ->
  name_of_tag t = Some n /\ tag_of_name n = Some t /\ tag_datatype t = d.
Proof.
  intro H. pose proof published_ok as A. unfold published_b in A. rewrite forallb_forall in A. specialize (A _ H).
  cbv beta iota in A. apply andb_true_iff in A as [A A3]. apply andb_true_iff in A as [A1 A2].
  destruct (name_of_tag t); [|discriminate]. destruct (tag_of_name n); [|discriminate].
  apply String.eqb_eq in A1. apply N.eqb_eq in A2, A3. subst. auto.
Qed.

(* the decimal form of a number starts with a digit and is not empty *)
Lemma dec_starts_with_digit n : starts_with_digit (dec_of_N n) = true.
Proof. unfold dec_of_N. destruct (N.to_uint n) eqn:E; cbn; reflexivity. Qed.
Lemma dec_nonempty n : dec_of_N n <> EmptyString.
Proof.
  unfold dec_of_N. destruct (N.to_uint n) eqn:E; cbn; discriminate.
Qed.

(* a tag written to JSON reads back as itself - for EVERY 32-bit tag, known or not *)
Theorem C14_json_tag t : t < 4294967296 -> unmarshal_tag (marshal_tag t) = Some t.
Proof.
  intro Ht. unfold marshal_tag, unmarshal_tag.
  destruct (name_of_tag t) as [n|] eqn:E.
  - apply assocN_in in E. rewrite (C14_name_roundtrip _ _ E). reflexivity.
  - destruct (tag_of_name (dec_of_N t)) as [t'|] eqn:F.
    + exfalso. apply assocS_in in F.
      pose proof no_numeric_names as Hn. unfold no_numeric_names_b in Hn. rewrite forallb_forall in Hn.
      specialize (Hn _ F). cbv beta iota in Hn. rewrite dec_starts_with_digit in Hn. discriminate.
    + unfold parse_uint32. pose proof (dec_nonempty t) as NE. destruct (dec_of_N t) eqn:D; [contradiction|].
      rewrite <- D, N_dec_roundtrip. apply N.ltb_lt in Ht. rewrite Ht. reflexivity.
Qed.

Lemma defined_dt_cases d : defined_dt d = true -> In d [0;1;2;3;4;5;6;7;8;9;10;11;12;13;14;15;16;255].
Proof.
  unfold defined_dt. intro H. apply orb_true_iff in H as [H|H].
  - apply N.leb_le in H. assert (E : exists k, (k <= 16)%nat /\ d = N.of_nat k) by (exists (N.to_nat d); lia).
    destruct E as (k & Hk & ->). do 17 (destruct k as [|k]; [cbn; tauto|]). lia.
  - apply N.eqb_eq in H. subst. cbn. tauto.
Qed.

Theorem C14_json_dt d : defined_dt d = true -> unmarshal_dt (marshal_dt d) = Some d.
Proof.
  intro H. apply defined_dt_cases in H. cbn in H.
  repeat (destruct H as [<-|H]; [vm_compute; reflexivity|]). contradiction.
Qed.

Theorem C14_types_defined t d : In (t, d) tag_types -> defined_dt d = true /\ is_a_tag t = true.
Proof.
  intro H. pose proof types_defined as A. unfold types_defined_b in A. rewrite forallb_forall in A.
  specialize (A _ H). cbv beta iota in A. apply andb_true_iff in A. exact A.
Qed.

(* for every one of the 256 type codes the source's tables agree with the model: defined exactly for the 18 types,
   and for a defined type decoder target, constructor and validator use the one Go representation the model's
   decoder yields, and the wire length is the model's *)
Theorem C14_kinds r : In r dt_rows -> row_ok r = true.
Proof.
  intro H. pose proof rows_ok as A. unfold rows_ok_b in A. apply andb_true_iff in A as [A _]. apply andb_true_iff in A as [A _].
  rewrite forallb_forall in A. exact (A _ H).
Qed.
Theorem C14_kinds_complete : map (fun r => fst (fst (fst (fst (fst r))))) dt_rows = map N.of_nat (seq 0 256).
Proof.
  pose proof rows_ok as A. unfold rows_ok_b in A. apply andb_true_iff in A as [_ A]. apply eqb_listN_eq. exact A.
Qed.

(* the request/response classification is bit 23 alone *)
Theorem C14_request_bit t : is_request t = negb (N.testbit t 23) /\ is_response t = N.testbit t 23.
Proof. unfold is_request, is_response. rewrite type_flag_bit. split; reflexivity. Qed.

(* a value built for a data type is encoded in the declared number of bytes and decoded to an equal value *)
Theorem C14_value t d v : wf_msg (Msg t d v) ->
  dec_items (S (List.length (enc_msg (Msg t d v)))) (enc_msg (Msg t d v)) = Some [Msg t d v] /\
  match fixed_len d with Some k => N.of_nat (List.length (enc_val v)) = k | None => True end.
Proof.
  intro W. split.
  - pose proof (dec_enc_items (S (List.length (enc_msg (Msg t d v)))) [Msg t d v]) as R.
    unfold enc_items in R. cbn [flat_map] in R. rewrite app_nil_r in R. apply R; [|lia].
    constructor; [exact W|constructor].
  - destruct W as [_ W]. exact (enc_val_len _ _ W).
Qed.
