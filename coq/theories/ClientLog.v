(* C11: with a log level below 99 nothing the client logs reveals the password *)
From Coq Require Import List Arith NArith ZArith Lia Bool.
Import ListNotations.
Require Import Client.
Local Open Scope N_scope.

Section Log.
  Variable msg : Type.
  Variable encode : Z * Z -> list msg -> list N.
  Variable decode_step : list N -> list N -> option (option (list msg)) * list N.
  Variable enc : list N -> list N -> list N * list N.
  Variable dec : list N -> list N -> list N * list N.
  Variable iv0 : list N.
  Variable valid_req : list msg -> bool.
  Variable auth_req : list msg.
  Variable auth_ok : list msg -> bool.
  Variables conn_to send_to recv_to : Z.
  Variable rbuf : nat.
  Variable E : Type.
  Variable m : envsm E.

  (* what a record gives away; Message.String masks secret tags, so a rendered tree never shows a masked value *)
  Variable reveals_dump : list N -> Prop.       (* the byte dump contains the password *)
  Variable reveals_tree : list msg -> Prop.     (* the rendering contains it in an unmasked leaf *)
  Definition reveals (k : lkind msg) : Prop :=
    match k with LText _ _ => False | LTree _ ms => reveals_tree ms | LDump _ b => reveals_dump b end.

  (* L: an upper bound of the log level of the run. Byte dumps are written at level Trace (6) only, so the assumptions about
     dumps are needed - and made - only when L reaches Trace *)
  Variable L : N.
  (* assumptions about what is NOT secret *)
  Hypothesis cipher_hides : lTrace <= L -> forall iv p, ~ reveals_dump (fst (enc iv p)).
  Hypothesis auth_tree_masked : ~ reveals_tree auth_req.            (* the password message has a secret tag *)
  Hypothesis peer_no_echo : lTrace <= L -> forall iv c, ~ reveals_dump (fst (dec iv c)).
  Hypothesis peer_no_echo_tree : forall buf pt ms b, decode_step buf pt = (Some (Some ms), b) -> ~ reveals_tree ms.
  Definition innocent (ms : list msg) : Prop := ~ reveals_tree ms /\ (lTrace <= L -> forall ts, ~ reveals_dump (encode ts ms)).

  Notation event := (event msg).
  Notation world := (world msg E).
  Notation log := (log msg E).
  Notation disconnect := (disconnect msg E m).
  Notation connect := (connect msg iv0 conn_to E m).
  Notation send := (send msg encode enc valid_req send_to E m).
  Notation recv_loop := (recv_loop msg decode_step dec rbuf E m).
  Notation receive := (receive msg decode_step dec recv_to rbuf E m).
  Notation authenticate := (authenticate msg encode decode_step enc dec valid_req auth_req auth_ok send_to recv_to rbuf E m).
  Notation send_multiple := (send_multiple msg encode decode_step enc dec iv0 valid_req auth_req auth_ok conn_to send_to recv_to rbuf E m).
  Notation run := (run msg encode decode_step enc dec iv0 valid_req auth_req auth_ok conn_to send_to recv_to rbuf E m).

  Definition clean (tr : list event) : Prop := forall l k, In (EvLog msg l k) tr -> ~ reveals k.

  Lemma clean_cons_other x tr : (forall l k, x <> EvLog msg l k) -> clean tr -> clean (x :: tr).
  Proof. intros Hx Hc l k [E0|Hin]; [exfalso; eapply Hx; exact E0|exact (Hc l k Hin)]. Qed.
  Lemma clean_cons_log l k tr : ~ reveals k -> clean tr -> clean (EvLog msg l k :: tr).
  Proof. intros Hk Hc l' k' [E0|Hin]; [injection E0 as <- <-; exact Hk|exact (Hc l' k' Hin)]. Qed.

  Lemma log_spec w l k : (l <=? level msg E w = true -> ~ reveals k) -> clean (out msg E w) ->
    clean (out msg E (log l k w)) /\ level msg E (log l k w) = level msg E w /\ cur msg E (log l k w) = cur msg E w.
  Proof.
    intros Hk Hc. unfold Client.log. destruct (l <=? level msg E w) eqn:El; [|auto].
    cbn [out level cur Client.emit Client.upd app]. split; [apply clean_cons_log; auto|auto].
  Qed.

  Ltac other := let l := fresh in let k := fresh in intros l k; discriminate.

  Lemma disconnect_clean s w : clean (out msg E w) ->
    clean (out msg E (snd (disconnect s w))) /\ level msg E (snd (disconnect s w)) = level msg E w.
  Proof.
    intro Hc. unfold Client.disconnect. cbn [snd]. destruct (cur msg E w) as [j|]; [|auto].
    set (w1 := upd msg E w None (next msg E w) (on_close E m (est msg E w)) (clock msg E w) [EvClose msg j]).
    assert (H1 : clean (out msg E w1)) by (cbn [w1 out Client.upd app]; apply clean_cons_other; [other|exact Hc]).
    destruct (log_spec w1 lInfo (LText msg 3) (fun _ F => F) H1) as (A & B & _). split; [exact A|exact B].
  Qed.

  Lemma connect_clean s w s' w' r : clean (out msg E w) -> connect s w = (s', w', r) ->
    clean (out msg E w') /\ level msg E w' = level msg E w.
  Proof.
    intros Hc. unfold Client.connect.
    destruct (log_spec w lInfo (LText msg 1) (fun _ F => F) Hc) as (A0 & B0 & _).
    set (w0 := log lInfo (LText msg 1) w) in *.
    destruct (on_dial E m (est msg E w0)) as [[e' ok] d].
    destruct ((dur d <=? conn_to)%Z && ok); intros [= <- <- <-].
    - set (w1 := upd msg E w0 (Some (next msg E w0)) (S (next msg E w0)) e' (clock msg E w0 + dur d)%Z [EvDial msg (next msg E w0)]).
      assert (H1 : clean (out msg E w1)) by (cbn [w1 out Client.upd app]; apply clean_cons_other; [other|exact A0]).
      destruct (log_spec w1 lInfo (LText msg 2) (fun _ F => F) H1) as (A & B & _). split; [exact A|rewrite B; exact B0].
    - cbn [out level Client.upd app]. split; [apply clean_cons_other; [other|exact A0]|exact B0].
  Qed.

  (* sending: either the messages are innocent, or the level is at most Info so that the debug/trace records are not written *)
  Lemma send_clean s w ms s' w' r : clean (out msg E w) -> level msg E w <= L ->
    (innocent ms \/ (~ reveals_tree ms /\ level msg E w <= lInfo)) ->
    send s w ms = (s', w', r) -> clean (out msg E w') /\ level msg E w' = level msg E w.
  Proof.
    intros Hc HL Hok. unfold Client.send.
    destruct (negb (valid_req ms)); [intros [= <- <- <-]; auto|].
    destruct (cur msg E w) as [j|]; [|intros [= <- <- <-]; auto].
    assert (Htree : ~ reveals_tree ms) by (destruct Hok as [[A _]|[A _]]; exact A).
    destruct (log_spec w lDebug (LTree msg ms) (fun _ => Htree) Hc) as (A1 & B1 & _).
    set (w1 := log lDebug (LTree msg ms) w) in *.
    destruct (on_now E m (est msg E w1)) as [e1 ts].
    assert (Hplain : lTrace <=? level msg E w1 = true -> ~ reveals (LDump msg (encode ts ms))).
    { intro Hl. apply N.leb_le in Hl. rewrite B1 in Hl. destruct Hok as [[_ A]|[_ A]]; [apply A; lia|]. unfold lTrace, lInfo in *. lia. }
    destruct (log_spec w1 lTrace (LDump msg (encode ts ms)) Hplain A1) as (A2 & B2 & _).
    set (w2 := log lTrace (LDump msg (encode ts ms)) w1) in *.
    destruct (enc (eiv s) (encode ts ms)) as [ct iv'] eqn:Ee.
    assert (Hct : lTrace <=? level msg E w2 = true -> ~ reveals (LDump msg ct)).
    { intro Hl. apply N.leb_le in Hl. rewrite B2, B1 in Hl.
      cbn. replace ct with (fst (enc (eiv s) (encode ts ms))) by (rewrite Ee; reflexivity). apply cipher_hides. lia. }
    destruct (log_spec w2 lTrace (LDump msg ct) Hct A2) as (A3 & B3 & _).
    set (w3 := log lTrace (LDump msg ct) w2) in *.
    set (w4 := emit msg E (EvSetWD msg j send_to) w3).
    assert (A4 : clean (out msg E w4)) by (cbn [w4 out Client.emit Client.upd app]; apply clean_cons_other; [other|exact A3]).
    assert (B4 : level msg E w4 = level msg E w) by (cbn [w4 level Client.emit Client.upd]; rewrite B3, B2, B1; reflexivity).
    clearbody w4. clear w3 A3 B3 Hct w2 A2 B2 Hplain.
    destruct (on_write E m e1 ct) as [[e' ok] d].
    destruct ((dur d <=? send_to)%Z && ok).
    - intros [= <- <- <-]. cbn [out level Client.upd app]. split; [|exact B4].
      apply clean_cons_other; [other|]. apply clean_cons_other; [other|exact A4].
    - set (wf := upd msg E w4 (Some j) (next msg E w4) e' (clock msg E w4 + Z.min (dur d) send_to)%Z [EvWriteFail msg j]).
      assert (Af : clean (out msg E wf)) by (cbn [wf out Client.upd app]; apply clean_cons_other; [other|exact A4]).
      destruct (disconnect_clean {| authed := authed s; eiv := iv'; div := div s |} wf Af) as [Ad Bd].
      destruct (disconnect _ wf) as [s2 w2']. cbn [snd] in *. intros [= <- <- <-]. split; [exact Ad|rewrite Bd; exact B4].
  Qed.

  Lemma recv_clean : forall fuel deadline buf pend s w s' w' r, clean (out msg E w) -> level msg E w <= L ->
    recv_loop fuel deadline buf pend s w = (s', w', r) -> clean (out msg E w') /\ level msg E w' = level msg E w.
  Proof.
    induction fuel as [|f IH]; intros deadline buf pend s w s' w' r Hc HL; cbn [Client.recv_loop].
    - intros [= <- <- <-]. auto.
    - destruct (cur msg E w) as [j|]; [|intros [= <- <- <-]; auto].
      destruct (on_read E m (est msg E w) rbuf) as [[e' rr] d].
      assert (Hclose : forall s0 wx x, clean (out msg E wx) -> level msg E wx = level msg E w ->
                forall s2 w2, (let '(a, b) := disconnect s0 wx in (a, b, x)) = (s2, w2, r) ->
                clean (out msg E w2) /\ level msg E w2 = level msg E w).
      { intros s0 wx x Hx Hl s2 w2. destruct (disconnect_clean s0 wx Hx) as [A B]. destruct (disconnect s0 wx) as [a b].
        cbn [snd] in *. intros [= <- <- _]. split; [exact A|rewrite B; exact Hl]. }
      destruct (Z.ltb deadline _).
      + apply Hclose; [cbn [out Client.upd app]; apply clean_cons_other; [other|exact Hc]|reflexivity].
      + set (w1 := upd msg E w (Some j) (next msg E w) e' (clock msg E w + dur d)%Z [EvRead msg j rr]).
        assert (H1 : clean (out msg E w1)) by (cbn [w1 out Client.upd app]; apply clean_cons_other; [other|exact Hc]).
        assert (L1 : level msg E w1 = level msg E w) by reflexivity.
        destruct rr as [b| |]; [|apply Hclose; assumption|apply Hclose; assumption].
        destruct (length b =? 0)%nat; [intros [= <- <- <-]; split; [exact H1|exact L1]|].
        destruct ((32 * (length (pend ++ b) / 32)) =? 0)%nat.
        * intro H. destruct (IH _ _ _ _ _ _ _ _ H1 ltac:(rewrite L1; exact HL) H) as [A B]. split; [exact A|rewrite B; exact L1].
        * destruct (dec (div s) (firstn _ (pend ++ b))) as [pt iv'] eqn:Ed.
          destruct (decode_step buf pt) as [[[rms|]|] buf'] eqn:Eds.
          -- intros [= <- <- <-].
             assert (Hpt : lTrace <=? level msg E w1 = true -> ~ reveals (LDump msg pt)).
             { intro Hl. apply N.leb_le in Hl. rewrite L1 in Hl.
               cbn. replace pt with (fst (dec (div s) (firstn (32 * (length (pend ++ b) / 32)) (pend ++ b)))) by (rewrite Ed; reflexivity). apply peer_no_echo. lia. }
             destruct (log_spec w1 lTrace (LDump msg pt) Hpt H1) as (A2 & B2 & _).
             destruct (log_spec _ lTrace (LTree msg rms) (fun _ => peer_no_echo_tree _ _ _ _ Eds) A2) as (A3 & B3 & _).
             split; [exact A3|rewrite B3, B2; exact L1].
          -- intro H. destruct (IH _ _ _ _ _ _ _ _ H1 ltac:(rewrite L1; exact HL) H) as [A B]. split; [exact A|rewrite B; exact L1].
          -- apply Hclose; assumption.
  Qed.

  Lemma receive_clean fuel s w s' w' r : clean (out msg E w) -> level msg E w <= L -> receive fuel s w = (s', w', r) ->
    clean (out msg E w') /\ level msg E w' = level msg E w.
  Proof.
    intros Hc HL. unfold Client.receive. destruct (cur msg E w) as [j|]; [|intros [= <- <- <-]; auto].
    intro H. apply recv_clean in H; [exact H| |exact HL]. cbn [out Client.emit Client.upd app]. apply clean_cons_other; [other|exact Hc].
  Qed.

  (* authenticate: the level is lowered while the authentication frame is built and sent, and restored on every path *)
  Lemma authenticate_clean fuel s w s' w' r : clean (out msg E w) -> level msg E w < auth_level -> level msg E w <= L ->
    authenticate fuel s w = (s', w', r) -> clean (out msg E w') /\ level msg E w' = level msg E w.
  Proof.
    intros Hc Hl HL. unfold Client.authenticate.
    destruct (N.ltb_spec (level msg E w) auth_level) as [_|Hge]; [|lia].
    destruct (log_spec w lInfo (LText msg 4) (fun _ F => F) Hc) as (A0 & B0 & _).
    set (w0 := set_level msg E (N.min (level msg E w) lInfo) (log lInfo (LText msg 4) w)).
    assert (Hc0 : clean (out msg E w0)) by exact A0.
    assert (Hl0 : level msg E w0 <= lInfo) by (cbn [w0 level Client.set_level]; lia).
    destruct (send s w0 auth_req) as [[s1 w1] r1] eqn:Es.
    assert (HL0 : level msg E w0 <= L) by (cbn [w0 level Client.set_level]; lia).
    destruct (send_clean _ _ _ _ _ _ Hc0 HL0 (or_intror (conj auth_tree_masked Hl0)) Es) as [A1 B1].
    set (w1' := set_level msg E (level msg E w) w1).
    assert (Hc1 : clean (out msg E w1')) by exact A1.
    destruct r1 as [u|x]; [|intros [= <- <- <-]; split; [exact Hc1|reflexivity]].
    destruct (receive fuel s1 w1') as [[s2 w2] [ms|x]] eqn:Er; destruct (receive_clean _ _ _ _ _ _ Hc1 HL Er) as [A2 B2].
    - destruct (auth_ok ms); intros [= <- <- <-]; [|split; [exact A2|rewrite B2; reflexivity]].
      set (wg := match cur msg E w2 with Some j => emit msg E (EvGranted msg j) w2 | None => w2 end).
      assert (Ag : clean (out msg E wg) /\ level msg E wg = level msg E w2).
      { unfold wg. destruct (cur msg E w2); [|auto]. cbn [out level Client.emit Client.upd app]. split; [apply clean_cons_other; [other|exact A2]|reflexivity]. }
      destruct Ag as [Ag Lg]. destruct (log_spec wg lInfo (LText msg 5) (fun _ F => F) Ag) as (A3 & B3 & _).
      split; [exact A3|rewrite B3, Lg, B2; reflexivity].
    - intros [= <- <- <-]. split; [exact A2|rewrite B2; reflexivity].
  Qed.

  Lemma send_multiple_clean fuel s w ms s' w' r : clean (out msg E w) -> level msg E w < auth_level -> level msg E w <= L -> innocent ms ->
    send_multiple fuel s w ms = (s', w', r) -> clean (out msg E w') /\ level msg E w' = level msg E w.
  Proof.
    intros Hc Hl HL Hin. unfold Client.send_multiple.
    assert (H0 : forall s0 w0 r0, (match cur msg E w with None => connect s w | Some _ => (s, w, Ok _ tt) end) = (s0, w0, r0) ->
                 clean (out msg E w0) /\ level msg E w0 = level msg E w).
    { intros s0 w0 r0. destruct (cur msg E w); [intros [= <- <- <-]; auto|]. apply connect_clean. exact Hc. }
    destruct (match cur msg E w with None => connect s w | Some _ => (s, w, Ok _ tt) end) as [[s0 w0] r0].
    destruct (H0 _ _ _ eq_refl) as [A0 B0].
    destruct r0 as [u|x]; [|intros [= <- <- <-]; auto].
    assert (H1 : forall s1 w1 r1, (if authed s0 then (s0, w0, Ok _ tt) else authenticate fuel s0 w0) = (s1, w1, r1) ->
                 clean (out msg E w1) /\ level msg E w1 = level msg E w).
    { intros s1 w1 r1. destruct (authed s0); [intros [= <- <- <-]; auto|].
      intro H. destruct (authenticate_clean _ _ _ _ _ _ A0 ltac:(rewrite B0; exact Hl) ltac:(rewrite B0; exact HL) H) as [A B]. split; [exact A|rewrite B; exact B0]. }
    destruct (if authed s0 then (s0, w0, Ok _ tt) else authenticate fuel s0 w0) as [[s1 w1] r1].
    destruct (H1 _ _ _ eq_refl) as [A1 B1].
    destruct r1 as [u1|x]; [|intros [= <- <- <-]; auto].
    destruct (send s1 w1 ms) as [[s2 w2] r2] eqn:Es.
    destruct (send_clean _ _ _ _ _ _ A1 ltac:(rewrite B1; exact HL) (or_introl Hin) Es) as [A2 B2].
    destruct r2 as [u2|x]; [|intros [= <- <- <-]; split; [exact A2|rewrite B2; exact B1]].
    intro H. destruct (receive_clean _ _ _ _ _ _ A2 ltac:(rewrite B2, B1; exact HL) H) as [A3 B3]. split; [exact A3|rewrite B3, B2; exact B1].
  Qed.

  (* C11: for every log level below 99, every environment and every sequence of innocent calls,
     no record in the log reveals the password, and the level is what it was *)
  Theorem C11_no_secret : forall calls e l, l < auth_level -> l <= L ->
    Forall (fun c => match c with CSend _ _ ms => innocent ms | CDisconnect _ => True end) calls ->
    let w := snd (run (init_state iv0) (init_world msg E e l) calls) in
    clean (out msg E w) /\ level msg E w = l.
  Proof.
    intros calls e l Hl HL Hcalls.
    assert (G : forall cs s w, Forall (fun c => match c with CSend _ _ ms => innocent ms | CDisconnect _ => True end) cs ->
                clean (out msg E w) -> level msg E w = l ->
                clean (out msg E (snd (run s w cs))) /\ level msg E (snd (run s w cs)) = l).
    { induction cs as [|c cs IH]; intros s w Hf Hc Hlv; [auto|]. pose proof (Forall_inv Hf) as Hc0. pose proof (Forall_inv_tail Hf) as Hf'. cbv beta in Hc0.
      cbn [Client.run]. destruct c as [fuel ms|]; cbn [Client.do_call].
      - destruct (send_multiple fuel s w ms) as [[s' w'] r] eqn:Ecall.
        destruct (send_multiple_clean _ _ _ _ _ _ _ Hc ltac:(rewrite Hlv; exact Hl) ltac:(rewrite Hlv; exact HL) Hc0 Ecall) as [A B].
        apply IH; [exact Hf'|exact A|rewrite B; exact Hlv].
      - destruct (disconnect_clean s w Hc) as [A B]. destruct (disconnect s w) as [s' w']. cbn [snd] in *.
        apply IH; [exact Hf'|exact A|rewrite B; exact Hlv]. }
    apply G; [exact Hcalls|intros l0 k []|reflexivity].
  Qed.
End Log.

Print Assumptions C11_no_secret.
