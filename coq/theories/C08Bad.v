(* C08, bad checksums: every checksummed frame whose timestamp, payload or checksum field is altered by one bit, two bits or a
   burst of at most 32 bits (C04) is, for the client's receive loop, a plaintext that is rejected exactly when it has been read
   completely (PeerU.badg) - so the pairing and recovery theorems hold against a peer that sends such frames. *)
From Coq Require Import List Arith NArith ZArith Lia Bool ZifyN ZifyNat.
Import ListNotations.
Require Import Codec CodecProofs CRC Frame FrameProofs FrameProofs2 FrameProofs3 FrameProofs4 FrameProofs5 CRCFrame Reader ReaderProofs
               C04Proofs Client ClientReasm PeerU Session C08Proofs.
Local Open Scope N_scope.

Lemma read_header_parts c ts L tail :
  c < 65536 -> N.lor c ctrl_mask = ctrl_mask -> N.land c ver_mask = ver1 -> length ts = 12%nat -> L < 65536 ->
  read_header (le 2 magic ++ le 2 c ++ ts ++ le 2 L ++ tail) =
  HOk (negb (N.land c crc_bit =? 0)) (hdr + N.to_nat L + (if negb (N.land c crc_bit =? 0) then 4 else 0)) (N.to_nat L).
Proof.
  intros Hc Hmask Hver Hts HL. set (p := le 2 magic ++ le 2 c ++ ts ++ le 2 L ++ tail).
  unfold read_header.
  assert (E2 : firstn 2 p = le 2 magic) by (apply firstn_app_exact, le_length).
  assert (S2 : skipn 2 p = le 2 c ++ ts ++ le 2 L ++ tail) by (apply skipn_app_exact, le_length).
  assert (S4 : skipn 4 p = ts ++ le 2 L ++ tail).
  { change 4%nat with (2 + 2)%nat. rewrite skipn_add, S2. apply skipn_app_exact, le_length. }
  assert (S16 : skipn 16 p = le 2 L ++ tail).
  { change 16%nat with (4 + 12)%nat. rewrite skipn_add, S4. apply skipn_app_exact, Hts. }
  rewrite E2, S2, S16.
  rewrite (firstn_app_exact (le 2 c)) by apply le_length.
  rewrite (firstn_app_exact (le 2 L)) by apply le_length.
  rewrite !unle_le by (change (256 ^ N.of_nat 2) with 65536; first [assumption | reflexivity]).
  rewrite N.eqb_refl. cbn [negb]. rewrite Hmask, Hver, !N.eqb_refl. cbn [negb]. reflexivity.
Qed.

Lemma read_header_inv g crc fs ds : read_header g = HOk crc fs ds ->
  header_ok g = true /\ crc = negb (N.land (unle (firstn 2 (skipn 2 g))) crc_bit =? 0) /\
  ds = N.to_nat (unle (firstn 2 (skipn 16 g))) /\ fs = (hdr + ds + (if crc then 4 else 0))%nat.
Proof.
  unfold read_header, header_ok.
  destruct (unle (firstn 2 g) =? magic); cbn [negb andb]; [|discriminate].
  destruct (N.lor (unle (firstn 2 (skipn 2 g))) ctrl_mask =? ctrl_mask); cbn [negb andb]; [|discriminate].
  destruct (N.land (unle (firstn 2 (skipn 2 g))) ver_mask =? ver1); cbn [negb andb]; [|discriminate].
  intros [= <- <- <-]. auto.
Qed.

(* a padded plaintext with a good header, exactly one frame long, zero padding, that the decoder does not accept *)
Lemma badg_of_frame g crc fs ds : aligned g -> (length g <= maxlen)%nat -> read_header g = HOk crc fs ds ->
  (length g - 32 < fs)%nat -> (fs <= length g)%nat -> all_zero (skipn fs g) = true -> (forall ms, decode_frame g <> Accept ms) ->
  PeerU.badg message c_verdict maxlen g.
Proof.
  intros [A1 A2] Hmax Hh Hlo Hhi Hz Hna.
  assert (Hne : g <> []) by (intros ->; cbn in A1; lia).
  split; [exact A2|]. split; [exact Hne|]. split; [exact Hmax|]. split.
  - intros n Hn Hm. destruct (Nat.eq_dec n 0) as [->|Hn0]; [reflexivity|].
    assert (Hn32 : (32 <= n)%nat) by (pose proof (Nat.div_mod n 32 ltac:(discriminate)); rewrite Hm in *; destruct (n / 32)%nat; lia).
    set (q := firstn n g).
    assert (Lq : length q = n) by (unfold q; rewrite firstn_length; lia).
    assert (Aq : aligned q) by (split; rewrite Lq; assumption).
    assert (Hq : read_header q = HOk crc fs ds).
    { rewrite <- (read_header_app q (skipn n g)) by lia. unfold q. rewrite firstn_skipn. exact Hh. }
    assert (Hnf : (n < fs)%nat).
    { pose proof (Nat.div_mod n 32 ltac:(discriminate)) as D1. pose proof (Nat.div_mod (length g) 32 ltac:(discriminate)) as D2.
      rewrite Hm in D1. rewrite A2 in D2. nia. }
    unfold c_verdict. destruct q as [|q0 qr] eqn:Eq; [cbn in Lq; lia|]. rewrite <- Eq in *.
    rewrite (decode_frame_alt q Aq), Hq, Lq.
    destruct (Nat.ltb_spec n fs) as [_|]; [reflexivity|lia].
  - destruct (read_header_inv g crc fs ds Hh) as (Hok & Hcrc & Hds & Hfs).
    assert (Hd : decode_frame g = Reject).
    { pose proof (decode_frame_alt g (conj A1 A2)) as Ha. rewrite Hh in Ha.
      destruct (Nat.ltb_spec (length g) fs) as [|_]; [lia|].
      destruct (decode_frame g) as [ms| |] eqn:Ed; [exfalso; exact (Hna ms eq_refl)| |reflexivity].
      unfold finish in Ha. rewrite Hz in Ha. cbn [negb] in Ha.
      destruct (dec_items (S ds) (firstn ds (skipn hdr g))); [|discriminate Ha].
      destruct crc; [|discriminate Ha].
      destruct (unle (firstn 4 (skipn (hdr + ds) g)) =? crc32 (firstn (hdr + ds) g)); discriminate Ha. }
    unfold c_verdict. destruct g as [|g0 gr] eqn:Eg; [congruence|]. rewrite <- Eg in *.
    rewrite Hd, Hok. cbv zeta. rewrite <- Hcrc, <- Hds, <- Hfs, Hz.
    destruct (fs <=? length g)%nat; reflexivity.
Qed.

Section AlteredBad.
  Variables (sec nsec : Z) (ms : list message) (e_ts e_pay e_crc padding : list N).
  Notation vf := (valid_frame sec nsec ms padding).
  Notation alt := (alteration e_ts e_pay e_crc padding).
  Notation ok := (alteration_ok sec nsec ms e_ts e_pay e_crc padding).
  Notation bits := (altered_bits e_ts e_pay e_crc).

  Let payload := enc_items ms.
  Let ts := le 8 (twos 64 sec) ++ le 4 (twos 32 nsec).
  Let pre := le 2 magic ++ le 2 (ctrl_word true) ++ ts ++ le 2 (N.of_nat (length payload)) ++ payload.
  Let e_pre := repeat 0 4 ++ e_ts ++ repeat 0 2 ++ e_pay.

  Lemma altered_shape : ok ->
    xor_bytes vf alt = le 2 magic ++ le 2 (ctrl_word true) ++ xor_bytes ts e_ts ++ le 2 (N.of_nat (length payload)) ++
                       (xor_bytes payload e_pay ++ xor_bytes (le 4 (crc32 pre)) e_crc ++ padding) /\
    length (xor_bytes vf alt) = length vf /\ length vf = (hdr + length payload + 4 + length padding)%nat.
  Proof.
    intros (Hwf & Hsz & Hl1 & Hl2 & Hl3 & Hb1 & Hb2 & Hb3 & A1 & A2).
    assert (Hlpre : length e_pre = length pre).
    { unfold e_pre, pre, ts. rewrite !app_length, !repeat_length, !le_length. fold payload in Hl2. lia. }
    assert (Hlv : length vf = (hdr + length payload + 4 + length padding)%nat).
    { unfold valid_frame. fold payload ts pre. unfold pre, ts. rewrite !app_length, !le_length. unfold hdr. lia. }
    split; [|split; [|exact Hlv]].
    - unfold valid_frame, alteration. fold payload ts pre e_pre.
      rewrite xor_app by (symmetry; exact Hlpre).
      rewrite xor_app by (rewrite le_length; lia). rewrite xor_zeros.
      unfold pre, e_pre. change (repeat 0 4) with (repeat 0 2 ++ repeat 0 2). rewrite <- !app_assoc.
      rewrite (xor_app (le 2 magic)) by (rewrite le_length; reflexivity).
      rewrite (xor_app (le 2 (ctrl_word true))) by (rewrite le_length; reflexivity).
      rewrite (xor_app ts) by (unfold ts; rewrite app_length, !le_length; lia).
      rewrite (xor_app (le 2 _)) by (rewrite le_length; reflexivity).
      pose proof (xor_zeros (le 2 magic)) as Z1. rewrite le_length in Z1. rewrite Z1.
      pose proof (xor_zeros (le 2 (ctrl_word true))) as Z2. rewrite le_length in Z2. rewrite Z2.
      pose proof (xor_zeros (le 2 (N.of_nat (length payload)))) as Z3. rewrite le_length in Z3. rewrite Z3.
      rewrite <- !app_assoc. reflexivity.
    - apply xor_length. unfold valid_frame, alteration. fold payload ts pre e_pre.
      rewrite !app_length, repeat_length, le_length, Hlpre, Hl3. reflexivity.
  Qed.

  (* C04 => badg: the altered frame is refused, and only once it has been read completely *)
  Theorem badg_altered : ok -> all_zero padding = true -> (length padding < 32)%nat ->
    (burst32 bits \/ two_bits bits) -> PeerU.badg message c_verdict maxlen (xor_bytes vf alt).
  Proof.
    intros Hok Hz Hpd Hbits. pose proof Hok as (Hwf & Hsz & Hl1 & Hl2 & Hl3 & Hb1 & Hb2 & Hb3 & A1 & A2).
    destruct (altered_shape Hok) as (Hx & HL & Hlv). fold payload in Hsz, Hl2.
    assert (Hlt : length (xor_bytes ts e_ts) = 12%nat).
    { rewrite xor_length by (unfold ts; rewrite app_length, !le_length; lia). unfold ts. rewrite app_length, !le_length. reflexivity. }
    assert (Hlp : length (xor_bytes payload e_pay) = length payload) by (apply xor_length; symmetry; exact Hl2).
    assert (Hlc : length (xor_bytes (le 4 (crc32 pre)) e_crc) = 4%nat) by (rewrite xor_length by (rewrite le_length; lia); apply le_length).
    assert (Hh : read_header (xor_bytes vf alt) = HOk true (hdr + length payload + 4) (length payload)).
    { rewrite Hx. rewrite (read_header_parts (ctrl_word true) (xor_bytes ts e_ts) (N.of_nat (length payload))) by (first [reflexivity|assumption]).
      rewrite Nat2N.id. reflexivity. }
    apply (badg_of_frame _ true (hdr + length payload + 4)%nat (length payload)).
    - split; rewrite HL; assumption.
    - rewrite HL, Hlv. unfold maxlen, hdr. lia.
    - exact Hh.
    - rewrite HL, Hlv. lia.
    - rewrite HL, Hlv. lia.
    - rewrite Hx. unfold hdr.
      replace (18 + length payload + 4)%nat with (2 + (2 + (12 + (2 + (length payload + 4)))))%nat by lia.
      rewrite skipn_add, (skipn_app_exact (le 2 magic)) by apply le_length.
      rewrite skipn_add, (skipn_app_exact (le 2 _)) by apply le_length.
      rewrite skipn_add, (skipn_app_exact (xor_bytes ts e_ts)) by exact Hlt.
      rewrite skipn_add, (skipn_app_exact (le 2 _)) by apply le_length.
      rewrite skipn_add, (skipn_app_exact (xor_bytes payload e_pay)) by exact Hlp.
      rewrite (skipn_app_exact (xor_bytes _ e_crc)) by exact Hlc. exact Hz.
    - destruct Hbits as [Hb|Hb]; [apply C04_burst|apply C04_two_bits]; assumption.
  Qed.
End AlteredBad.

Print Assumptions badg_altered.

(* malformed payloads: a frame with a good header (with or without checksum; the checksum, if any, may even be right) whose
   payload is not a sequence of items is refused, and only once it has been read completely *)
Section Malformed.
  Variables (crc : bool) (ts payload trailer : list N).
  Hypothesis Hts : length ts = 12%nat.
  Hypothesis Hpl : N.of_nat (length payload) < 65536.
  Hypothesis Htr : length trailer = (if crc then 4 else 0)%nat.
  Hypothesis Hbad : dec_items (S (length payload)) payload = None.

  Definition malformed_frame : list N :=
    pad32 (le 2 magic ++ le 2 (ctrl_word crc) ++ ts ++ le 2 (N.of_nat (length payload)) ++ (payload ++ trailer)).

  Theorem badg_malformed : PeerU.badg message c_verdict maxlen malformed_frame.
  Proof.
    unfold malformed_frame.
    set (fr := le 2 magic ++ le 2 (ctrl_word crc) ++ ts ++ le 2 (N.of_nat (length payload)) ++ (payload ++ trailer)).
    assert (Hlfr : length fr = (hdr + length payload + (if crc then 4 else 0))%nat).
    { unfold fr. rewrite !app_length, !le_length, Hts, Htr. unfold hdr. lia. }
    destruct (pad32_spec fr ltac:(rewrite Hlfr; unfold hdr; lia)) as (pd & Ep & Zpd & A1 & A2). rewrite Ep in *.
    assert (Hpd : (length pd < 32)%nat).
    { unfold pad32 in Ep. destruct (Nat.eqb_spec (length fr mod 32) 0).
      - assert (pd = []) by (apply (app_inv_head fr); rewrite app_nil_r; symmetry; exact Ep). subst. cbn. lia.
      - apply app_inv_head in Ep. subst pd. rewrite repeat_length. pose proof (Nat.mod_upper_bound (length fr) 32). lia. }
    destruct (C08Proofs.ctrl_word_ok crc) as (Hc & Hmask & Hver & Hcrc).
    assert (Hh : read_header (fr ++ pd) = HOk crc (hdr + length payload + (if crc then 4 else 0)) (length payload)).
    { unfold fr. rewrite <- !app_assoc.
      rewrite (read_header_parts (ctrl_word crc) ts (N.of_nat (length payload))) by assumption.
      rewrite Hcrc, Nat2N.id. reflexivity. }
    assert (Hsk : skipn hdr (fr ++ pd) = payload ++ trailer ++ pd).
    { unfold fr, hdr. rewrite <- !app_assoc.
      change 18%nat with (2 + (2 + (12 + 2)))%nat.
      rewrite skipn_add, (skipn_app_exact (le 2 magic)) by apply le_length.
      rewrite skipn_add, (skipn_app_exact (le 2 _)) by apply le_length.
      rewrite skipn_add, (skipn_app_exact ts) by exact Hts.
      rewrite (skipn_app_exact (le 2 _)) by apply le_length. reflexivity. }
    apply (badg_of_frame _ crc (hdr + length payload + (if crc then 4 else 0))%nat (length payload)).
    - split; assumption.
    - rewrite app_length, Hlfr. unfold maxlen, hdr. destruct crc; lia.
    - exact Hh.
    - rewrite app_length, Hlfr. unfold hdr. lia.
    - rewrite app_length, Hlfr. lia.
    - replace (hdr + length payload + (if crc then 4 else 0))%nat with (hdr + (length payload + length trailer))%nat by (rewrite Htr; lia).
      rewrite skipn_add, Hsk, app_assoc, skipn_app_exact by (rewrite app_length; reflexivity). exact Zpd.
    - intros ms Hacc.
      rewrite (decode_frame_alt (fr ++ pd) (conj A1 A2)), Hh in Hacc.
      destruct (Nat.ltb_spec (length (fr ++ pd)) (hdr + length payload + (if crc then 4 else 0))) as [|_]; [discriminate|].
      unfold finish in Hacc. rewrite Hsk in Hacc.
      rewrite (firstn_app_exact payload) in Hacc by reflexivity. rewrite Hbad in Hacc.
      destruct (negb (all_zero _)); discriminate.
  Qed.
End Malformed.

Print Assumptions badg_malformed.
