From Coq Require Import List Arith NArith ZArith Lia Bool.
Import ListNotations.
Require Import Codec CodecProofs JsonIn.
Local Open Scope N_scope.

Section Spec.
  Variable tag_of_name : str -> option N.
  Variable dt_of_name : str -> option N.
  Variable infer : N -> N.
  Hypothesis dt_empty : dt_of_name [] = None.

  Notation parse := (parse tag_of_name dt_of_name infer).
  Notation conv_scalar := (conv_scalar).

  Inductive nota := NBare | NTuple | NObj.
  Inductive rtree := RT (n : nota) (tag : N) (tn : option str) (dx : option (N * str)) (v : rval)
  with rval := RNone | RScalar (g : gval) | RKids (l : list rtree).

  Definition dt_of_tree (tag : N) (dx : option (N * str)) : N := match dx with Some (d, _) => d | None => infer tag end.

  Fixpoint denote (t : rtree) : message :=
    match t with
    | RT _ tag _ dx v =>
      Msg tag (dt_of_tree tag dx)
          match v with
          | RNone => GNil
          | RScalar g => g
          | RKids l => GMsgs ((fix go (l : list rtree) := match l with [] => [] | x :: r => denote x :: go r end) l)
          end
    end.

  (* how a scalar value is written *)
  Definition pval (g : gval) : json :=
    match g with
    | GBool b => JBool b
    | GI8 z | GI16 z | GI32 z | GI64 z => JNum (Some z) true None None
    | GU8 n | GU16 n | GU32 n | GU64 n | GErr n => JNum (Some (Z.of_N n)) true None None
    | GF32 b => JNum None false (Some b) None
    | GF64 b => JNum None false None (Some b)
    | GStr s => JStr s None
    | GBytes s => JArr (map (fun b => JNum (Some (Z.of_N b)) true None None) s)
    | GTime s ns => JStr [] (Some (s, ns))
    | _ => JNull
    end.

  Definition ptag (tag : N) (tn : option str) : json :=
    match tn with Some s => JStr s None | None => JNum (Some (Z.of_N tag)) true None None end.

  Fixpoint print (t : rtree) : json :=
    match t with
    | RT n tag tn dx v =>
      let jt := ptag tag tn in
      let jd := match dx with Some (_, s) => Some (JStr s None) | None => None end in
      let jv := match v with
                | RNone => None
                | RScalar g => Some (pval g)
                | RKids l => Some (JArr ((fix go (l : list rtree) := match l with [] => [] | x :: r => print x :: go r end) l))
                end in
      match n with
      | NBare => jt
      | NObj => JObj (Some jt) jd jv
      | NTuple => JArr (jt :: match jd, jv with
                              | None, None => [] | Some d, None => [d] | None, Some x => [x] | Some d, Some x => [d; x]
                              end)
      end
    end.

  (* well-formed request trees and admissible notation choices *)
  Fixpoint wf_rt (t : rtree) : Prop :=
    match t with
    | RT n tag tn dx v =>
      tag < 2 ^ 32 /\
      match tn with Some s => tag_of_name s = Some tag | None => True end /\
      match dx with Some (d, s) => dt_of_name s = Some d | None => True end /\
      (n = NBare -> dx = None /\ v = RNone) /\
      match v with
      | RNone => True
      | RScalar g => wf_val (dt_of_tree tag dx) g /\ dt_of_tree tag dx <> 14 /\ dt_of_tree tag dx <> 0 /\
                     (n = NTuple -> dx = None -> dt_of dt_of_name (pval g) = None)
      | RKids l => dt_of_tree tag dx = 14 /\
                   (fix all (l : list rtree) : Prop := match l with [] => True | x :: r => wf_rt x /\ all r end) l
      end
    end.

  Lemma in_u_ok (bits : Z) (n : N) : (Z.of_N n < 2 ^ bits)%Z -> in_u bits (Z.of_N n) = true.
  Proof. intro H. unfold in_u. apply andb_true_iff. split; [apply Z.leb_le; lia|apply Z.ltb_lt; exact H]. Qed.

  Lemma conv_bytes_map s : bytes_ok s -> conv_bytes (map (fun b => JNum (Some (Z.of_N b)) true None None) s) = Some s.
  Proof.
    induction 1 as [|b r Hb _ IH]; [reflexivity|]. cbn [map conv_bytes].
    rewrite in_u_ok by (change (2 ^ 8)%Z with 256%Z; lia). rewrite IH. cbn. rewrite N2Z.id. reflexivity.
  Qed.

  Lemma conv_pval dt g : wf_val dt g -> dt <> 14 -> dt <> 0 -> conv_scalar dt (pval g) = Some g.
  Proof.
    intros H H14 H0. destruct g; wf_inv H; try congruence; cbn [pval];
      try (unfold JsonIn.conv_scalar; cbn [N.eqb Pos.eqb]; unfold conv_s, conv_u, in_sb, in_u, in_s in *;
           repeat match goal with
                  | |- context [(?a <=? ?b)%Z] => destruct (Z.leb_spec a b); try lia
                  | |- context [(?a <? ?b)%Z] => destruct (Z.ltb_spec a b); try lia
                  end; cbn [andb]; rewrite ?N2Z.id; reflexivity).
    unfold JsonIn.conv_scalar. cbn [N.eqb Pos.eqb]. rewrite conv_bytes_map by assumption. reflexivity.
  Qed.

  Fixpoint size (t : rtree) : nat :=
    match t with
    | RT _ _ _ _ v => S match v with
                        | RKids l => (fix go (l : list rtree) := match l with [] => 0 | x :: r => size x + go r end)%nat l
                        | _ => 0%nat end
    end.
  Definition sizes (l : list rtree) : nat := fold_right (fun x a => size x + a)%nat 0%nat l.

  Lemma size_kids l : (fix go (l : list rtree) := match l with [] => 0 | x :: r => size x + go r end)%nat l = sizes l.
  Proof. induction l as [|x r IH]; [reflexivity|]. unfold sizes in *. cbn [fold_right]. rewrite <- IH. reflexivity. Qed.
  Lemma print_kids l : (fix go (l : list rtree) := match l with [] => [] | x :: r => print x :: go r end) l = map print l.
  Proof. induction l as [|x r IH]; [reflexivity|]. cbn [map]. rewrite <- IH. reflexivity. Qed.
  Lemma denote_kids l : (fix go (l : list rtree) := match l with [] => [] | x :: r => denote x :: go r end) l = map denote l.
  Proof. induction l as [|x r IH]; [reflexivity|]. cbn [map]. rewrite <- IH. reflexivity. Qed.
  Lemma wf_kids l : (fix all (l : list rtree) : Prop := match l with [] => True | x :: r => wf_rt x /\ all r end) l <-> Forall wf_rt l.
  Proof.
    induction l as [|x r IH]; [split; constructor|]. split.
    - intros [A B]. constructor; [exact A|apply IH, B].
    - intro H. inversion H; subst. split; [assumption|apply IH; assumption].
  Qed.

  Lemma tag_of_ptag tag tn : tag < 2 ^ 32 ->
    match tn with Some s => tag_of_name s = Some tag | None => True end ->
    tag_of tag_of_name (ptag tag tn) = Some tag.
  Proof.
    intros Ht Hn. destruct tn as [s|]; cbn [ptag tag_of]; [exact Hn|].
    rewrite in_u_ok by (change (2 ^ 32)%Z with (Z.of_N (2 ^ 32)); lia). rewrite N2Z.id. reflexivity.
  Qed.

  (* parsing the children of a container *)
  Lemma parse_all f l :
    (forall x, In x l -> parse f (print x) = Ok _ (denote x)) ->
    (fix all (l0 : list json) : res gval :=
       match l0 with
       | [] => Ok _ (GMsgs [])
       | x :: r => match parse f x, all r with
                   | Ok _ m, Ok _ (GMsgs ms) => Ok _ (GMsgs (m :: ms))
                   | _, _ => Err _
                   end
       end) (map print l) = Ok _ (GMsgs (map denote l)).
  Proof.
    induction l as [|x r IH]; intro H; [reflexivity|].
    cbn [map]. rewrite (H x (or_introl eq_refl)). rewrite IH by (intros y Hy; apply H; right; exact Hy). reflexivity.
  Qed.

  Theorem C12_notations : forall fuel t, (size t < fuel)%nat -> wf_rt t -> parse fuel (print t) = Ok _ (denote t).
  Proof.
    induction fuel as [|f IH]; intros t Hs Hw; [lia|].
    destruct t as [n tag tn dx v]. cbn [wf_rt] in Hw. destruct Hw as (Ht & Hn & Hd & Hb & Hv).
    pose proof (tag_of_ptag tag tn Ht Hn) as Htag.
    destruct v as [|g|l].
    - (* no value *)
      cbn [print denote].
      destruct n.
      + destruct (Hb eq_refl) as [-> _]. destruct tn; cbn [ptag] in Htag |- *; cbn [parse]; rewrite Htag; reflexivity.
      + destruct dx as [[d s]|]; cbn [parse]; rewrite Htag; cbn [dt_of dt_of_tree]; rewrite ?Hd; reflexivity.
      + destruct dx as [[d s]|]; cbn [parse]; rewrite Htag; cbn [dt_of dt_of_tree]; rewrite ?Hd; reflexivity.
    - (* scalar value *)
      destruct Hv as (Hwv & H14 & H0 & Hamb).
      pose proof (conv_pval _ _ Hwv H14 H0) as Hc.
      cbn [print denote].
      destruct n; [destruct (Hb eq_refl) as [_ E]; discriminate E| |]; destruct dx as [[d s]|]; cbn [dt_of_tree] in *;
        cbn [parse]; rewrite Htag; cbn [dt_of]; rewrite ?Hd; rewrite ?(Hamb eq_refl eq_refl);
        (destruct (N.eqb_spec d 14) || destruct (N.eqb_spec (infer tag) 14)); try contradiction; rewrite Hc; reflexivity.
    - (* container *)
      destruct Hv as (H14 & Hk). apply wf_kids in Hk.
      assert (Hall := parse_all f l).
      assert (Hkids : forall x, In x l -> parse f (print x) = Ok _ (denote x)).
      { intros x Hx. apply IH.
        - cbn [size] in Hs. rewrite size_kids in Hs.
          assert (size x <= sizes l)%nat. { clear -Hx. induction l as [|y r IHl]; [destruct Hx|]. unfold sizes in *. cbn [fold_right]. destruct Hx as [->|Hx]; [lia|]. specialize (IHl Hx). lia. }
          lia.
        - apply (proj1 (Forall_forall _ _) Hk x Hx). }
      specialize (Hall Hkids).
      cbn [print denote]. rewrite print_kids, denote_kids.
      destruct n; [destruct (Hb eq_refl) as [_ E]; discriminate E| |]; destruct dx as [[d s]|]; cbn [dt_of_tree] in *;
        cbn [parse]; rewrite Htag; cbn [dt_of]; rewrite ?Hd; rewrite H14; cbn [N.eqb Pos.eqb]; rewrite Hall; reflexivity.
  Qed.
End Spec.

Print Assumptions C12_notations.

(* exactness of the integer conversions, independent of the vocabulary *)
Definition int_of (v : gval) : option Z :=
  match v with
  | GI8 z | GI16 z | GI32 z | GI64 z => Some z
  | GU8 n | GU16 n | GU32 n | GU64 n | GErr n => Some (Z.of_N n)
  | _ => None
  end.
Lemma conv_scalar_int_exact dt z p f g v : conv_scalar dt (JNum (Some z) p f g) = Some v ->
  In dt [2; 3; 4; 5; 6; 7; 8; 9; 12; 255] -> int_of v = Some z.
Proof.
  intros H Hd. cbn [In] in Hd.
  repeat (destruct Hd as [<-|Hd]; [unfold conv_scalar in H; cbn [N.eqb Pos.eqb] in H; unfold conv_s, conv_u in H;
    match type of H with (if ?c then _ else _) = _ => destruct c eqn:Ec; [|discriminate] end;
    injection H as <-; cbn [int_of]; unfold in_u, in_sb in Ec; apply andb_true_iff in Ec as [E1 _]; apply Z.leb_le in E1;
    rewrite ?Z2N.id by lia; reflexivity|]).
  contradiction.
Qed.
Lemma conv_scalar_non_integral dt p f g : In dt [2; 3; 4; 5; 6; 7; 8; 9; 12; 255] -> conv_scalar dt (JNum None p f g) = None.
Proof.
  intro Hd. cbn [In] in Hd. repeat (destruct Hd as [<-|Hd]; [reflexivity|]). contradiction.
Qed.
