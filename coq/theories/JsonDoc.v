(* C13: the three output formats as JSON documents. Leaves whose text is produced by encoding/json, strconv or time
   (floats, strings, timestamps, RscpError names, base64) are kept as typed leaves; their formatting is an oracle of the
   check (modelled, not verified). Structure, keys, order and grouping are decided here. *)
From Coq Require Import List Arith NArith ZArith String Bool.
Import ListNotations.
Require Import Codec Vocab JsonOut.
Local Open Scope N_scope.

Inductive jdoc :=
| DNull | DBool (b : bool) | DInt (z : Z)
| DLeaf (v : gval)                 (* float, string, timestamp, RscpError: formatted by the library *)
| DBytes64 (s : list N)            (* []byte under encoding/json's default: base64 *)
| DBytesArr (s : list N)           (* []byte as the tool prints it in jsonsimple / jsonmerged: array of numbers *)
| DStr (s : string)                (* a tag or data type name *)
| DArr (l : list jdoc)
| DObj (o : list (string * jdoc)).

(* yneg s ns: the timestamp's year is negative (oracle; the tool replaces such a time by the epoch in simple/merged) *)
Section Render.
  Variable yneg : Z -> Z -> bool.

  Definition leaf_simple (v : gval) : jdoc :=
    match v with
    | GNil => DNull | GBool b => DBool b
    | GI8 z | GI16 z | GI32 z | GI64 z => DInt z
    | GU8 n | GU16 n | GU32 n | GU64 n => DInt (Z.of_N n)
    | GBytes s => DBytesArr s
    | GTime s ns => if yneg s ns then DLeaf (GTime 0 0) else DLeaf v
    | GOther _ => DNull
    | _ => DLeaf v
    end.
  Definition leaf_json (v : gval) : jdoc :=
    match v with
    | GNil => DNull | GBool b => DBool b
    | GI8 z | GI16 z | GI32 z | GI64 z => DInt z
    | GU8 n | GU16 n | GU32 n | GU64 n => DInt (Z.of_N n)
    | GBytes s => DBytes64 s
    | GOther _ => DNull
    | _ => DLeaf v
    end.

  (* output "json": every message with tag, type and value, in order, recursively *)
  Fixpoint msg_json (m : message) : jdoc :=
    match m with
    | Msg t d v =>
      DObj [("Tag"%string, DStr (marshal_tag t)); ("DataType"%string, DStr (dt_string d));
            ("Value"%string, match v with
                             | GMsgs [] => DNull       (* the decoder returns a nil slice for a container without items: encoding/json prints null *)
                             | GMsgs kids => DArr ((fix go (l : list message) := match l with [] => [] | x :: r => msg_json x :: go r end) kids)
                             | _ => leaf_json v end)]
    end.
  Definition render_json (ms : list message) : jdoc := DArr (map msg_json ms).

  (* output "jsonsimple": the ordered list of one-key objects, nested likewise *)
  Fixpoint msg_simple (m : message) : jdoc :=
    match m with
    | Msg t _ v =>
      DObj [(marshal_tag t, match v with
                            | GMsgs kids => DArr ((fix go (l : list message) := match l with [] => [] | x :: r => msg_simple x :: go r end) kids)
                            | _ => leaf_simple v end)]
    end.
  Definition render_simple (ms : list message) : jdoc := DArr (map msg_simple ms).

  (* output "jsonmerged": the merged object of JsonOut.v, keys sorted by tag number (MarshalJSON sorts them) *)
  Fixpoint insert_sorted (k : N) (v : jv) (o : obj) : obj :=
    match o with
    | [] => [(k, v)]
    | (k', v') :: r => if k <=? k' then (k, v) :: o else (k', v') :: insert_sorted k v r
    end.
  Definition sort_obj (o : obj) : obj := fold_right (fun kv acc => insert_sorted (fst kv) (snd kv) acc) [] o.

  Fixpoint doc_of_jv (fuel : nat) (v : jv) : jdoc :=
    match fuel with
    | O => DNull
    | S f =>
      match v with
      | JS g => leaf_simple g
      | JO o => DObj (map (fun kv => (marshal_tag (fst kv), doc_of_jv f (snd kv))) (sort_obj o))
      | JA l => DArr (map (fun o => DObj (map (fun kv => (marshal_tag (fst kv), doc_of_jv f (snd kv))) (sort_obj o))) l)
      end
    end.
  Fixpoint dval (v : gval) : nat :=
    match v with
    | GMsgs ms => S ((fix go (l : list message) : nat := match l with [] => O | Msg _ _ v' :: r => Nat.max (dval v') (go r) end) ms)
    | _ => O
    end.
  Definition render_merged (ms : list message) : jdoc := doc_of_jv (2 * S (dval (GMsgs ms))) (JO (merged ms)).
End Render.
