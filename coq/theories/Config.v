(* C16: client configuration check and defaults (client_config.go:49-91, crypt.go:22-27 after the D6 repair) *)
From Coq Require Import List Arith NArith ZArith Lia Bool.
Import ListNotations.
Local Open Scope Z_scope.

Inductive cksum := CNil | CBool (b : bool) | COther (kind : N).
Record config := { address : list N; user : list N; password : list N; key : list N; port : N;
                   heartbeat : Z; conn_to : Z; send_to : Z; recv_to : Z;
                   use_checksum : cksum; rbuf_blocks : N }.
Inductive field := FAddress | FUser | FPassword | FKey.
Inductive cerr := Missing (fs : list field) | BadChecksum (kind : N).

Definition second : Z := 1000000000.
Definition max_blocks : N := 2049.

Definition empty (s : list N) : bool := match s with [] => true | _ => false end.
Definition missing (c : config) : list field :=
  (if empty (address c) then [FAddress] else []) ++ (if empty (user c) then [FUser] else []) ++
  (if empty (password c) then [FPassword] else []) ++ (if empty (key c) then [FKey] else []).

Definition check (c : config) : config + cerr :=
  match missing c with
  | (_ :: _) as fs => inr (Missing fs)
  | [] =>
    match use_checksum c with
    | COther k => inr (BadChecksum k)
    | ck =>
      inl {| address := address c; user := user c; password := password c; key := key c;
             port := if (port c =? 0)%N then 5033%N else port c;
             heartbeat := if heartbeat c <=? second then 10 * second else heartbeat c;
             conn_to := if conn_to c <=? 0 then 3 * second else conn_to c;
             send_to := if send_to c <=? 0 then 3 * second else send_to c;
             recv_to := if recv_to c <=? 0 then 3 * second else recv_to c;
             use_checksum := match ck with CNil => CBool true | x => x end;
             rbuf_blocks := if ((rbuf_blocks c =? 0) || (max_blocks <? rbuf_blocks c))%N then 1%N else rbuf_blocks c |}
    end
  end.

Definition key_of (c : config) : list N := firstn 32 (key c ++ repeat 255%N 32).

Definition checksum_ok (k : cksum) : Prop := match k with COther _ => False | _ => True end.

Theorem C16_iff c : (exists c', check c = inl c') <->
  address c <> [] /\ user c <> [] /\ password c <> [] /\ key c <> [] /\ checksum_ok (use_checksum c).
Proof.
  unfold check, missing.
  destruct (address c) as [|a0 a], (user c) as [|u0 u], (password c) as [|p0 p], (key c) as [|k0 k]; cbn [empty app];
    try (split; [intros [c' H]; discriminate | intros (A & B & C & D & _); congruence]).
  destruct (use_checksum c); cbn [checksum_ok].
  - split; [intros _; repeat split; discriminate|intros _; eexists; reflexivity].
  - split; [intros _; repeat split; discriminate|intros _; eexists; reflexivity].
  - split; [intros [c' H]; discriminate|intros (_ & _ & _ & _ & F); contradiction].
Qed.

Theorem C16_error_names c fs : check c = inr (Missing fs) ->
  (In FAddress fs <-> address c = []) /\ (In FUser fs <-> user c = []) /\
  (In FPassword fs <-> password c = []) /\ (In FKey fs <-> key c = []).
Proof.
  unfold check. destruct (missing c) as [|f0 fr] eqn:Em.
  - destruct (use_checksum c); discriminate.
  - intros [= E]. subst fs. rewrite <- Em. unfold missing.
    destruct (address c), (user c), (password c), (key c); cbn [empty app In];
      repeat split; intro H; try reflexivity; try discriminate; try tauto;
      repeat (destruct H as [H|H]; try discriminate H; try contradiction).
Qed.

Theorem C16_defaults c c' : check c = inl c' ->
  port c' = (if (port c =? 0)%N then 5033%N else port c) /\
  use_checksum c' = (match use_checksum c with CNil => CBool true | x => x end) /\
  0 < conn_to c' /\ 0 < send_to c' /\ 0 < recv_to c' /\
  (conn_to c <= 0 -> conn_to c' = 3 * second) /\ (send_to c <= 0 -> send_to c' = 3 * second) /\
  (recv_to c <= 0 -> recv_to c' = 3 * second) /\
  (0 < conn_to c -> conn_to c' = conn_to c) /\ (0 < send_to c -> send_to c' = send_to c) /\ (0 < recv_to c -> recv_to c' = recv_to c) /\
  (1 <= rbuf_blocks c' <= max_blocks)%N /\ ((1 <= rbuf_blocks c <= max_blocks)%N -> rbuf_blocks c' = rbuf_blocks c) /\
  length (key_of c') = 32%nat /\ key_of c' = key_of c.
Proof.
  unfold check. destruct (missing c); [|discriminate].
  destruct (use_checksum c) eqn:Ek; [| |discriminate]; intros [= <-]; cbn [port use_checksum conn_to send_to recv_to rbuf_blocks key key_of];
    unfold second, max_blocks, key_of;
    (repeat split; try reflexivity;
     try (destruct (Z.leb_spec (conn_to c) 0); lia); try (destruct (Z.leb_spec (send_to c) 0); lia); try (destruct (Z.leb_spec (recv_to c) 0); lia);
     try (destruct (N.eqb_spec (rbuf_blocks c) 0); destruct (N.ltb_spec 2049 (rbuf_blocks c)); cbn [orb]; lia);
     try (rewrite firstn_length, app_length, repeat_length; lia)).
Qed.

Print Assumptions C16_iff.
Print Assumptions C16_defaults.
