(* C07 for the concrete client: the receive loop over the reactive scripted peer, Rijndael-256/CBC and the RSCP frame
   verdict returns the same result and ends in the same client state for ANY two segmentations of the same reply stream,
   for every receive buffer size of at least one byte. *)
From Coq Require Import List Arith NArith ZArith Lia Bool.
Import ListNotations.
Require Import Bytes CBC CBCInst Codec Frame Rijndael RijP1 Cipher CipherProofs SCipher SCipherProofs Client ClientReasm Session.
Local Open Scope N_scope.

(* the pieces the peer has sent and the client has not read yet, as long as they are plain data without delay *)
Fixpoint qview (l : list (rres * Z)) : list (list N) :=
  match l with
  | (RData b, Z0) :: q => b :: qview q
  | _ => []
  end.
Definition rview (e : renv) : list (list N) := qview (r_inflight e).

Lemma reactive_read_view : forall e n, match rview e with
  | [] => True
  | p :: r => exists e', on_read renv reactive e n = (e', RData (if (length p <=? n)%nat then p else firstn n p), 0%Z) /\
                rview e' = (if (length p <=? n)%nat then r else skipn n p :: r) /\ True
  end.
Proof.
  intros e n. unfold rview. destruct (r_inflight e) as [|[r d] q] eqn:Ei; [exact I|].
  destruct r as [b| |]; cbn [qview]; try exact I. destruct d; try exact I. cbn [qview].
  cbn [on_read reactive]. unfold r_read. rewrite Ei.
  destruct (length b <=? n)%nat.
  - eexists. split; [reflexivity|]. split; [reflexivity|exact I].
  - eexists. split; [reflexivity|]. split; [reflexivity|exact I].
Qed.

Section C07.
  Variable key : list N.
  Hypothesis Bk : bytes_ok key.
  Let ks := key_schedule (key_pad key).
  Variable rbuf : nat.
  Hypothesis rbuf_pos : (0 < rbuf)%nat.

  Definition c_recv_loop := recv_loop message c_decode_step (s_dec ks) rbuf renv reactive.

  Theorem C07_reassembly s iv S (e1 e2 : list (list N)) (w1 w2 : world message renv) j1 j2 deadline1 deadline2 fuel1 fuel2 :
    div s = iv -> one_reply message (s_decP ks) c_verdict iv S -> S <> [] ->
    concat e1 = S -> nonempty e1 -> concat e2 = S -> nonempty e2 ->
    cur message renv w1 = Some j1 -> rview (est message renv w1) = e1 -> (clock message renv w1 <= deadline1)%Z -> (length S < fuel1)%nat ->
    cur message renv w2 = Some j2 -> rview (est message renv w2) = e2 -> (clock message renv w2 <= deadline2)%Z -> (length S < fuel2)%nat ->
    let '(s1, _, r1) := c_recv_loop fuel1 deadline1 [] [] s w1 in
    let '(s2, _, r2) := c_recv_loop fuel2 deadline2 [] [] s w2 in
    (s1, r1) = (s2, r2).
  Proof.
    exact (ClientReasm.C07_reassembly message (s_decP ks) (s_decI ks)
             (fun iv a b H => s_decP_app (key_pad key) iv a b H) (fun iv a b H => s_decI_app (key_pad key) iv a b H)
             (s_decP_nil (key_pad key)) (s_decI_nil (key_pad key))
             c_verdict rbuf rbuf_pos renv reactive rview (fun _ _ => True) (fun _ => I) (fun _ _ _ _ _ => I) (fun _ => I)
             reactive_read_view s iv S e1 e2 w1 w2 j1 j2 deadline1 deadline2 fuel1 fuel2).
  Qed.
End C07.
Print Assumptions C07_reassembly.
