From Coq Require Import List NArith Lia Bool.
Import ListNotations.
Local Open Scope N_scope.

Definition poly : N := 3988292384. (* 0xEDB88320 *)
Definition T (s : N) : N := if N.odd s then N.lxor (N.shiftr s 1) poly else N.shiftr s 1.
Definition Tn (k : N) (s : N) : N := N.iter k T s.

Definition step_byte (s b : N) : N := Tn 8 (N.lxor s b).
Definition raw (s : N) (d : list N) : N := fold_left step_byte d s.
Definition mask32 : N := 4294967295.
Definition crc32 (d : list N) : N := N.lxor (raw mask32 d) mask32.

(* little-endian value of a byte list *)
Fixpoint val (d : list N) : N := match d with [] => 0 | b :: r => b + 256 * val r end.

Lemma odd_lxor a b : N.odd (N.lxor a b) = xorb (N.odd a) (N.odd b).
Proof. rewrite <- !N.bit0_odd. apply N.lxor_spec. Qed.

Ltac xor_solve :=
  apply N.bits_inj; let i := fresh "i" in intro i; rewrite ?N.lxor_spec;
  repeat match goal with |- context [N.testbit ?x ?j] => destruct (N.testbit x j) end; reflexivity.

Lemma T_lxor a b : T (N.lxor a b) = N.lxor (T a) (T b).
Proof.
  unfold T. rewrite odd_lxor, N.shiftr_lxor.
  destruct (N.odd a), (N.odd b); cbn [xorb]; xor_solve.
Qed.

Lemma T_0 : T 0 = 0. Proof. reflexivity. Qed.

Lemma Tn_lxor k a b : Tn k (N.lxor a b) = N.lxor (Tn k a) (Tn k b).
Proof.
  unfold Tn. induction k using N.peano_ind.
  - reflexivity.
  - rewrite !N.iter_succ, IHk. apply T_lxor.
Qed.

Lemma Tn_0 k : Tn k 0 = 0.
Proof. unfold Tn. induction k using N.peano_ind; [reflexivity|]. rewrite N.iter_succ, IHk. reflexivity. Qed.

Lemma Tn_add j k s : Tn (j + k) s = Tn j (Tn k s).
Proof. unfold Tn. apply N.iter_add. Qed.

Lemma T_double y : T (2 * y) = y.
Proof.
  unfold T. rewrite N.odd_mul, N.odd_2. cbn [andb].
  rewrite N.shiftr_div_pow2. change (2 ^ 1) with 2. rewrite N.mul_comm. apply N.div_mul. discriminate.
Qed.

Lemma Tn_shift k y : Tn k (y * 2 ^ k) = y.
Proof.
  unfold Tn. induction k using N.peano_ind.
  - cbn. apply N.mul_1_r.
  - rewrite N.pow_succ_r', N.iter_succ_r.
    replace (y * (2 * 2 ^ k)) with (2 * (y * 2 ^ k)) by lia.
    rewrite T_double. exact IHk.
Qed.

(* ---- closed form: raw s d = T^(8n) (s xor val d) ---- *)
Definition bytes_ok (d : list N) := Forall (fun b => b < 256) d.

Lemma val_lt d : bytes_ok d -> val d < 256 ^ N.of_nat (length d).
Proof.
  induction 1 as [|b r Hb _ IH]; [cbn; lia|].
  cbn [val length]. rewrite Nat2N.inj_succ, N.pow_succ_r'. lia.
Qed.

Lemma lxor_add_disjoint a b k : a < 2 ^ k -> N.lxor a (b * 2 ^ k) = a + b * 2 ^ k.
Proof.
  intro Ha. rewrite N.add_nocarry_lxor; [reflexivity|].
  apply N.bits_inj; intro i. rewrite N.land_spec, N.bits_0.
  destruct (N.lt_ge_cases i k) as [Hik|Hik].
  - rewrite N.mul_pow2_bits_low by assumption. apply andb_false_r.
  - destruct (N.eq_dec a 0) as [->|Hne]; [rewrite N.bits_0; reflexivity|].
    rewrite (N.bits_above_log2 a i); [reflexivity|].
    apply N.lt_le_trans with k; [|assumption]. apply N.log2_lt_pow2; lia.
Qed.

Lemma pow256 n : 256 ^ n = 2 ^ (8 * n).
Proof. rewrite N.pow_mul_r. reflexivity. Qed.

Lemma raw_closed d : bytes_ok d -> forall s,
  raw s d = Tn (8 * N.of_nat (length d)) (N.lxor s (val d)).
Proof.
  induction 1 as [|b r Hb Hr IH]; intro s.
  - cbn. rewrite N.lxor_0_r. reflexivity.
  - cbn [raw fold_left]. fold (raw (step_byte s b) r). rewrite IH.
    unfold step_byte. cbn [length val]. rewrite Nat2N.inj_succ.
    replace (8 * N.succ (N.of_nat (length r))) with (8 * N.of_nat (length r) + 8) by lia.
    rewrite Tn_add. f_equal.
    (* Tn 8 (s xor b) xor val r = Tn 8 (s xor (b + 256 * val r)) *)
    rewrite <- (Tn_shift 8 (val r)) at 1. rewrite <- Tn_lxor. f_equal.
    change (2 ^ 8) with 256.
    replace (b + 256 * val r) with (N.lxor b (val r * 2 ^ 8)).
    + rewrite N.lxor_assoc. reflexivity.
    + rewrite lxor_add_disjoint by (change (2^8) with 256; assumption). change (2^8) with 256. lia.
Qed.

(* ---- T is a bijection of [0, 2^32) fixing 0 ---- *)
Definition W : N := 4294967296.

Lemma T_bound s : s < W -> T s < W.
Proof.
  intro H. unfold T. unfold W in *.
  assert (Hs : N.shiftr s 1 < 2147483648).
  { rewrite N.shiftr_div_pow2. change (2^1) with 2. apply N.div_lt_upper_bound; lia. }
  destruct (N.odd s); [|lia].
  (* lxor of two values below 2^32 stays below 2^32 *)
  destruct (N.eq_dec (N.lxor (N.shiftr s 1) poly) 0) as [->|Hne]; [reflexivity|].
  apply N.log2_lt_pow2 with (b := 32); [lia|].
  eapply N.le_lt_trans; [apply N.log2_lxor|].
  apply N.max_lub_lt.
  - destruct (N.eq_dec (N.shiftr s 1) 0) as [->|Hz]; [reflexivity|]. apply N.log2_lt_pow2; [lia|]. change (2^32) with 4294967296. lia.
  - reflexivity.
Qed.

Lemma T_zero_inv s : s < W -> T s = 0 -> s = 0.
Proof.
  intros H. unfold T. unfold W in *.
  assert (Hs : N.shiftr s 1 < 2147483648).
  { rewrite N.shiftr_div_pow2. change (2^1) with 2. apply N.div_lt_upper_bound; lia. }
  destruct (N.odd s) eqn:Ho.
  - intro E. apply N.lxor_eq in E. unfold poly in E. lia.
  - intro E. rewrite N.shiftr_div_pow2 in E. change (2^1) with 2 in E.
    assert (s = 2 * (s / 2) + s mod 2) by (apply N.div_mod; discriminate).
    assert (s mod 2 = 0). { rewrite <- N.bit0_mod, N.bit0_odd, Ho. reflexivity. }
    lia.
Qed.

Lemma Tn_bound k s : s < W -> Tn k s < W.
Proof. intro H. unfold Tn. induction k using N.peano_ind; [exact H|]. rewrite N.iter_succ. apply T_bound, IHk. Qed.

Lemma Tn_zero_inv k s : s < W -> Tn k s = 0 -> s = 0.
Proof.
  intro H. unfold Tn. induction k using N.peano_ind; [trivial|].
  rewrite N.iter_succ. intro E. apply T_zero_inv in E; [auto|]. apply (Tn_bound k s H).
Qed.

(* ---- burst theorem ---- *)
(* an error pattern (as LE number over data||crc of L bits) confined to a 32-bit window *)
Theorem burst_detected L p B :
  0 < B -> B < W -> p <= L -> Tn L (B * 2 ^ p) <> 0.
Proof.
  intros HB0 HBW Hp E.
  replace L with ((L - p) + p) in E by lia.
  rewrite Tn_add, Tn_shift in E. apply Tn_zero_inv in E; [lia|assumption].
Qed.

(* ---- two-bit errors: order of x exceeds the frame length ---- *)
Definition orbit_ok (n : N) : bool :=
  fst (N.iter n (fun '(ok, s) => (ok && negb (s =? 1), T s)) (true, T 1)).

Lemma orbit_ok_spec n : orbit_ok n = true -> forall d, 1 <= d -> d <= n -> Tn d 1 <> 1.
Proof.
  unfold orbit_ok.
  assert (G : forall n, let r := N.iter n (fun '(ok, s) => (ok && negb (s =? 1), T s)) (true, T 1) in
            snd r = Tn (N.succ n) 1 /\ (fst r = true -> forall d, 1 <= d -> d <= n -> Tn d 1 <> 1)).
  { clear n. intro n. induction n using N.peano_ind.
    - cbn. split; [reflexivity|]. intros _ d H1 H2. lia.
    - cbn zeta in *. rewrite N.iter_succ.
      destruct (N.iter n _ _) as [ok s] eqn:E. cbn [fst snd] in *.
      destruct IHn as [Hs Hok]. split.
      + rewrite Hs. unfold Tn. rewrite <- N.iter_succ. reflexivity.
      + intro H. apply andb_true_iff in H as [H1 H2]. intros d Hd1 Hd2.
        destruct (N.eq_dec d (N.succ n)) as [->|Hne].
        * rewrite <- Hs. apply negb_true_iff, N.eqb_neq in H2. exact H2.
        * apply Hok; [assumption|assumption|lia]. }
  intros H. apply (G n). exact H.
Qed.

Definition max_bits : N := 8 * 65557.
Lemma order_check : orbit_ok max_bits = true.
Proof. vm_compute. reflexivity. Qed.

Lemma lxor_bound a b : a < W -> b < W -> N.lxor a b < W.
Proof.
  unfold W. intros Ha Hb.
  destruct (N.eq_dec (N.lxor a b) 0) as [->|Hne]; [reflexivity|].
  apply N.log2_lt_pow2 with (b := 32); [lia|].
  eapply N.le_lt_trans; [apply N.log2_lxor|]. apply N.max_lub_lt.
  - destruct (N.eq_dec a 0) as [->|Hz]; [reflexivity|]. apply N.log2_lt_pow2; [lia|exact Ha].
  - destruct (N.eq_dec b 0) as [->|Hz]; [reflexivity|]. apply N.log2_lt_pow2; [lia|exact Hb].
Qed.

Lemma Tn_pow2 L i : i <= L -> Tn L (2 ^ i) = Tn (L - i) 1.
Proof.
  intro H. replace L with ((L - i) + i) at 1 by lia.
  rewrite Tn_add. replace (2 ^ i) with (1 * 2 ^ i) by lia. rewrite Tn_shift. reflexivity.
Qed.

Theorem two_bit_detected L i j :
  L <= max_bits -> i < j -> j < L -> Tn L (N.lxor (2 ^ i) (2 ^ j)) <> 0.
Proof.
  intros HL Hij HjL E.
  rewrite Tn_lxor, !Tn_pow2 in E by lia.
  replace (L - i) with ((L - j) + (j - i)) in E by lia.
  rewrite Tn_add, <- Tn_lxor in E.
  apply Tn_zero_inv in E.
  - apply N.lxor_eq in E. revert E. apply (orbit_ok_spec max_bits order_check); lia.
  - apply lxor_bound; [apply Tn_bound|]; reflexivity.
Qed.

Print Assumptions burst_detected.
Print Assumptions two_bit_detected.
