From Coq Require Import List Arith NArith ZArith Lia Bool.
Import ListNotations.
Require Import Client.
Local Open Scope N_scope.

Section Inv.
  Variable msg : Type.
  Variable encode : Z * Z -> list msg -> list N.
  Variable decode_step : list N -> list N -> option (option (list msg)) * list N.
  Variable enc : list N -> list N -> list N * list N.
  Variable dec : list N -> list N -> list N * list N.
  Variable iv0 : list N.
  Variable valid_req : list msg -> bool.
  Variable auth_req : list msg.
  Variable auth_ok : list msg -> bool.
  Variables conn_to send_to recv_to : Z.
  Variable rbuf : nat.
  Variable E : Type.
  Variable m : envsm E.

  Notation event := (event msg).
  Notation world := (world msg E).
  Notation log := (log msg E).
  Notation emit := (emit msg E).
  Notation upd := (upd msg E).
  Notation disconnect := (disconnect msg E m).
  Notation connect := (connect msg iv0 conn_to E m).
  Notation send := (send msg encode enc valid_req send_to E m).
  Notation recv_loop := (recv_loop msg decode_step dec rbuf E m).
  Notation receive := (receive msg decode_step dec recv_to rbuf E m).
  Notation authenticate := (authenticate msg encode decode_step enc dec valid_req auth_req auth_ok send_to recv_to rbuf E m).
  Notation send_multiple := (send_multiple msg encode decode_step enc dec iv0 valid_req auth_req auth_ok conn_to send_to recv_to rbuf E m).
  Notation run := (run msg encode decode_step enc dec iv0 valid_req auth_req auth_ok conn_to send_to recv_to rbuf E m).

  (* plaintext actually sent for a ghost frame: the frame event is followed (older) by nothing we need; we record the
     plaintext through the ciphertext chain, so the statement is about ciphertexts being a chain of SOME plaintexts *)
  Fixpoint writes_on (j : nat) (tr : list event) : list (list N) :=
    match tr with
    | [] => []
    | EvWrite _ k ct :: r => if Nat.eqb k j then writes_on j r ++ [ct] else writes_on j r
    | _ :: r => writes_on j r
    end.
  Fixpoint frames_on (j : nat) (tr : list event) : list (list msg) :=
    match tr with
    | [] => []
    | EvFrame _ k ms :: r => if Nat.eqb k j then frames_on j r ++ [ms] else frames_on j r
    | _ :: r => frames_on j r
    end.

  Fixpoint chain (iv : list N) (ps : list (list N)) : list (list N) * list N :=
    match ps with
    | [] => ([], iv)
    | p :: r => let '(ct, iv1) := enc iv p in let '(cts, iv2) := chain iv1 r in (ct :: cts, iv2)
    end.
  Lemma chain_snoc iv ps p :
    chain iv (ps ++ [p]) = (fst (chain iv ps) ++ [fst (enc (snd (chain iv ps)) p)], snd (enc (snd (chain iv ps)) p)).
  Proof.
    revert iv; induction ps as [|q ps IH]; intro iv; cbn [app chain].
    - cbn [fst snd app]. destruct (enc iv p) as [ct iv1]. reflexivity.
    - destruct (enc iv q) as [ct iv1]. rewrite IH. destruct (chain iv1 ps) as [cts iv2]. cbn [fst snd app].
      destruct (enc iv2 p). reflexivity.
  Qed.

  (* the plaintext frames of a connection: every frame handed to send, encoded with the time it was sent at *)
  Definition plains (tss : list (Z * Z)) (fs : list (list msg)) : list (list N) :=
    map (fun tf => encode (fst tf) (snd tf)) (combine tss fs).
  Lemma plains_snoc tss fs ts f : length tss = length fs -> plains (tss ++ [ts]) (fs ++ [f]) = plains tss fs ++ [encode ts f].
  Proof.
    intro H. unfold plains.
    assert (C : forall (a : list (Z * Z)) (b : list (list msg)), length a = length b -> combine (a ++ [ts]) (b ++ [f]) = combine a b ++ [(ts, f)]).
    { induction a as [|x a IH]; intros [|y b] L; cbn in *; try lia; [reflexivity|]. rewrite IH by lia. reflexivity. }
    rewrite C by exact H. rewrite map_app. reflexivity.
  Qed.

  Fixpoint gate (tr : list event) : Prop :=
    match tr with
    | [] => True
    | EvFrame _ j ms :: pre => (ms = auth_req \/ In (EvGranted msg j) pre) /\ gate pre
    | _ :: pre => gate pre
    end.
  Definition first_ok (j : nat) (tr : list event) : Prop :=
    match frames_on j tr with [] => True | f :: _ => f = auth_req end.

  (* the ciphertexts on connection j are the chain, from iv0, of some plaintexts, one per frame sent on j *)
  Definition TInv (tr : list event) (nxt : nat) : Prop :=
    (forall j, exists tss, length tss = length (frames_on j tr) /\ writes_on j tr = fst (chain iv0 (plains tss (frames_on j tr)))) /\
    (forall j, (nxt <= j)%nat -> frames_on j tr = [] /\ writes_on j tr = []) /\
    gate tr /\ (forall j, first_ok j tr).
  Definition CInv (s : cstate) (c : option nat) (tr : list event) (nxt : nat) : Prop :=
    match c with
    | Some j => (j < nxt)%nat /\
                (exists tss, length tss = length (frames_on j tr) /\ writes_on j tr = fst (chain iv0 (plains tss (frames_on j tr))) /\
                             eiv s = snd (chain iv0 (plains tss (frames_on j tr)))) /\
                (authed s = true -> In (EvGranted msg j) tr /\ frames_on j tr <> [])
    | None => authed s = false
    end.
  Definition Inv (s : cstate) (w : world) : Prop :=
    TInv (out msg E w) (next msg E w) /\ CInv s (cur msg E w) (out msg E w) (next msg E w).

  Definition quiet (x : event) : Prop := match x with EvFrame _ _ _ | EvWrite _ _ _ => False | _ => True end.

  Lemma frames_quiet x j tr : quiet x -> frames_on j (x :: tr) = frames_on j tr.
  Proof. destruct x; intro Q; try contradiction; reflexivity. Qed.
  Lemma writes_quiet x j tr : quiet x -> writes_on j (x :: tr) = writes_on j tr.
  Proof. destruct x; intro Q; try contradiction; reflexivity. Qed.
  Lemma gate_quiet x tr : quiet x -> gate tr -> gate (x :: tr).
  Proof. destruct x; intros Q G; try contradiction; exact G. Qed.

  Lemma tinv_quiet x tr n : quiet x -> TInv tr n -> TInv (x :: tr) n.
  Proof.
    intros Q (H1 & H2 & H3 & H4). repeat split.
    - intro j. rewrite writes_quiet, frames_quiet by exact Q. apply H1.
    - rewrite frames_quiet by exact Q. apply H2, H.
    - rewrite writes_quiet by exact Q. apply H2, H.
    - apply gate_quiet; assumption.
    - intro j. unfold first_ok. rewrite frames_quiet by exact Q. apply H4.
  Qed.
  Lemma cinv_quiet x s c tr n : quiet x -> CInv s c tr n -> CInv s c (x :: tr) n.
  Proof.
    intros Q H. destruct c as [j|]; [|exact H]. destruct H as (A & B & C). cbn [CInv].
    rewrite frames_quiet, writes_quiet by exact Q. repeat split; auto.
    - right. apply C, H.
    - apply C, H.
  Qed.

  (* world transformers that only add quiet events and keep cur/next *)
  Lemma inv_log s w l k : Inv s w -> Inv s (log l k w).
  Proof.
    intros [T C]. unfold Client.log. destruct (l <=? level msg E w); [|split; assumption].
    split; cbn [out next cur Client.emit Client.upd app]; [apply tinv_quiet|apply cinv_quiet]; auto; exact I.
  Qed.
  Lemma inv_set_level s w l : Inv s w -> Inv s (set_level msg E l w).
  Proof. intros [T C]. split; assumption. Qed.
  Lemma inv_emit_quiet s w x : quiet x -> Inv s w -> Inv s (emit x w).
  Proof. intros Q [T C]. split; cbn [out next cur Client.emit Client.upd app]; [apply tinv_quiet|apply cinv_quiet]; assumption. Qed.
  Lemma inv_upd_quiet s w e t x : quiet x -> Inv s w -> Inv s (upd w (cur msg E w) (next msg E w) e t [x]).
  Proof. intros Q [T C]. split; cbn [out next cur Client.upd app]; [apply tinv_quiet|apply cinv_quiet]; assumption. Qed.
  Lemma cinv_div s c tr n iv' : CInv s c tr n -> CInv {| authed := authed s; eiv := eiv s; div := iv' |} c tr n.
  Proof. destruct c; exact (fun H => H). Qed.

  Lemma inv_disconnect_any s w : TInv (out msg E w) (next msg E w) ->
    Inv (fst (disconnect s w)) (snd (disconnect s w)) /\ authed (fst (disconnect s w)) = false.
  Proof.
    intro T. unfold Client.disconnect. cbn [fst snd]. split; [|reflexivity].
    destruct (cur msg E w) as [j|] eqn:Ec.
    - apply inv_log. split; cbn [out next cur Client.upd app]; [apply tinv_quiet; [exact I|exact T]|reflexivity].
    - split; [exact T|rewrite Ec; reflexivity].
  Qed.

  Lemma inv_connect s w s' w' r : Inv s w -> cur msg E w = None -> connect s w = (s', w', r) -> Inv s' w'.
  Proof.
    intros HI Hc. unfold Client.connect.
    set (w0 := log (lInfo) (LText msg 1) w).
    assert (HI0 : Inv s w0) by (apply inv_log; exact HI).
    assert (Hc0 : cur msg E w0 = None).
    { unfold w0, Client.log. destruct (_ <=? _); [cbn; exact Hc|exact Hc]. }
    destruct (on_dial E m (est msg E w0)) as [[e' ok] d].
    destruct ((dur d <=? conn_to)%Z && ok); intros [= <- <- <-].
    - apply inv_log. destruct HI0 as [(H1 & H2 & H3 & H4) C]. rewrite Hc0 in C. cbn [CInv] in C.
      split; cbn [out next cur Client.upd app].
      + apply tinv_quiet; [exact I|]. split; [exact H1|]. split; [intros j Hj; apply H2; lia|]. split; assumption.
      + cbn [CInv authed eiv]. rewrite frames_quiet, writes_quiet by exact I.
        destruct (H2 (next msg E w0) (le_n _)) as [F W]. rewrite F, W.
        split; [lia|]. split; [exists []; repeat split|]. intro Ha. rewrite C in Ha. discriminate.
    - destruct HI0 as [T C]. split; cbn [out next cur Client.upd app]; [apply tinv_quiet; [exact I|exact T]|].
      rewrite Hc0 in C. exact C.
  Qed.

  Lemma inv_send s w ms s' w' r : Inv s w -> (ms = auth_req \/ authed s = true) ->
    send s w ms = (s', w', r) -> Inv s' w' /\ (authed s' = true -> authed s = true).
  Proof.
    intros HI Hallow. unfold Client.send.
    destruct (negb (valid_req ms)); [intros [= <- <- <-]; auto|].
    destruct (cur msg E w) as [j|] eqn:Ec; [|intros [= <- <- <-]; auto].
    set (w1 := log lDebug (LTree msg ms) w).
    destruct (on_now E m (est msg E w1)) as [e1 ts].
    set (w2 := log lTrace (LDump msg (encode ts ms)) w1).
    destruct (enc (eiv s) (encode ts ms)) as [ct iv'] eqn:Ee.
    set (w3 := log lTrace (LDump msg ct) w2).
    set (w4 := emit (EvSetWD msg j send_to) w3).
    assert (HI4 : Inv s w4).
    { unfold w4, w3, w2, w1. apply inv_emit_quiet; [exact I|]. repeat apply inv_log. exact HI. }
    assert (Hc4 : cur msg E w4 = Some j).
    { unfold w4, w3, w2, w1, Client.emit, Client.log. repeat (destruct (_ <=? _)); cbn; exact Ec. }
    destruct (on_write E m e1 ct) as [[e' ok] d].
    destruct HI4 as [T C]. pose proof T as (H1 & H2 & H3 & H4). rewrite Hc4 in C. cbn [CInv] in C.
    destruct C as (Hj & (tss & Hlen & Hw & Hiv) & Hau).
    destruct ((dur d <=? send_to)%Z && ok).
    - intros [= <- <- <-]. split; [|auto]. split; cbn [out next cur Client.upd app].
      + split; [|split; [|split]].
        * intro k. cbn [writes_on frames_on]. destruct (Nat.eqb_spec j k) as [<-|Hne]; [|apply H1].
          exists (tss ++ [ts]). rewrite !app_length, Hlen. split; [reflexivity|].
          rewrite plains_snoc by exact Hlen. rewrite chain_snoc. cbn [fst]. rewrite <- Hiv, Ee, Hw. reflexivity.
        * intros k Hk. change (next msg E w3) with (next msg E w4) in Hk. cbn [writes_on frames_on]. destruct (Nat.eqb_spec j k); [lia|]. apply H2, Hk.
        * cbn [gate]. split; [|exact H3]. destruct Hallow as [->|Ha]; [left; reflexivity|right; apply Hau, Ha].
        * intro k. unfold first_ok. cbn [frames_on]. destruct (Nat.eqb_spec j k) as [<-|Hne]; [|apply H4].
          specialize (H4 j). unfold first_ok in H4.
          destruct (frames_on j (out msg E w4)) as [|f0 fr] eqn:Ef; cbn [app]; [|exact H4].
          destruct Hallow as [->|Ha]; [reflexivity|]. destruct (Hau Ha) as [_ Hne]. congruence.
      + cbn [CInv authed eiv frames_on writes_on]. rewrite Nat.eqb_refl. split; [exact Hj|]. split.
        * exists (tss ++ [ts]). rewrite !app_length, Hlen. split; [reflexivity|].
          rewrite plains_snoc by exact Hlen. rewrite chain_snoc. cbn [fst snd]. rewrite <- Hiv, Ee, Hw. auto.
        * intro Ha. split; [right; right; apply Hau, Ha|]. destruct (frames_on j (out msg E w4)); discriminate.
    - set (wf := upd w4 (Some j) (next msg E w4) e' (clock msg E w4 + Z.min (dur d) send_to)%Z [EvWriteFail msg j]).
      assert (Tf : TInv (out msg E wf) (next msg E wf)) by (cbn [wf out next Client.upd app]; apply tinv_quiet; [exact I|exact T]).
      destruct (inv_disconnect_any {| authed := authed s; eiv := iv'; div := div s |} wf Tf) as [Hd Ha].
      destruct (disconnect _ wf) as [s2 w2']. cbn [fst snd] in *. intros [= <- <- <-]. split; [exact Hd|]. rewrite Ha. discriminate.
  Qed.

  Lemma inv_recv_loop : forall fuel deadline buf pend s w s' w' r,
    Inv s w -> recv_loop fuel deadline buf pend s w = (s', w', r) -> Inv s' w' /\ (authed s' = true -> authed s = true).
  Proof.
    induction fuel as [|f IH]; intros deadline buf pend s w s' w' r HI; cbn [Client.recv_loop].
    - intros [= <- <- <-]. auto.
    - destruct (cur msg E w) as [j|] eqn:Ec; [|intros [= <- <- <-]; auto].
      destruct (on_read E m (est msg E w) rbuf) as [[e' rr] d].
      assert (Hclose : forall s0 wx x, Inv s wx \/ TInv (out msg E wx) (next msg E wx) ->
                 forall s2 w2, (let '(a, b) := disconnect s0 wx in (a, b, x)) = (s2, w2, r) ->
                 Inv s2 w2 /\ (authed s2 = true -> authed s = true)).
      { intros s0 wx x Hx s2 w2. assert (Tx : TInv (out msg E wx) (next msg E wx)) by (destruct Hx as [[T _]|T]; exact T).
        destruct (inv_disconnect_any s0 wx Tx) as [Hd Ha]. destruct (disconnect s0 wx) as [a b]. cbn [fst snd] in *.
        intros [= <- <- _]. split; [exact Hd|]. rewrite Ha. discriminate. }
      destruct (Z.ltb deadline (clock msg E w + dur d)).
      + apply Hclose. right. cbn [out next Client.upd app]. apply tinv_quiet; [exact I|exact (proj1 HI)].
      + set (w1 := upd w (Some j) (next msg E w) e' (clock msg E w + dur d)%Z [EvRead msg j rr]).
        assert (HI1 : Inv s w1).
        { destruct HI as [T C]. split; cbn [w1 out next cur Client.upd app]; [apply tinv_quiet; [exact I|exact T]|].
          rewrite Ec in C. apply cinv_quiet; [exact I|exact C]. }
        destruct rr as [b| |]; [|apply Hclose; left; exact HI1|apply Hclose; left; exact HI1].
        destruct (length b =? 0)%nat; [intros [= <- <- <-]; split; [exact HI1|auto]|].
        destruct ((32 * (length (pend ++ b) / 32)) =? 0)%nat; [apply IH; exact HI1|].
        destruct (dec (div s) (firstn _ (pend ++ b))) as [pt iv'].
        set (s1 := {| authed := authed s; eiv := eiv s; div := iv' |}).
        assert (HI2 : Inv s1 w1) by (destruct HI1 as [T C]; split; [exact T|apply cinv_div; exact C]).
        destruct (decode_step buf pt) as [[[rms|]|] buf'].
        * intros [= <- <- <-]. split; [repeat apply inv_log; exact HI2|auto].
        * intro H. destruct (IH _ _ _ _ _ _ _ _ HI2 H) as [A B]. auto.
        * apply Hclose. right. exact (proj1 HI2).
  Qed.

  Lemma inv_receive fuel s w s' w' r : Inv s w -> receive fuel s w = (s', w', r) -> Inv s' w' /\ (authed s' = true -> authed s = true).
  Proof.
    intros HI. unfold Client.receive. destruct (cur msg E w) as [j|] eqn:Ec; [|intros [= <- <- <-]; auto].
    apply inv_recv_loop. apply inv_emit_quiet; [exact I|exact HI].
  Qed.

  (* facts about successful sends and receives *)
  Lemma log_cur w l k : cur msg E (log l k w) = cur msg E w /\ next msg E (log l k w) = next msg E w /\
                        (forall j, frames_on j (out msg E (log l k w)) = frames_on j (out msg E w)).
  Proof. unfold Client.log. destruct (l <=? level msg E w); cbn; auto. Qed.

  Lemma send_ok_frames s w ms s' w' u : send s w ms = (s', w', Ok _ u) ->
    exists j, cur msg E w = Some j /\ cur msg E w' = Some j /\ frames_on j (out msg E w') <> [].
  Proof.
    unfold Client.send. destruct (negb (valid_req ms)); [discriminate|].
    destruct (cur msg E w) as [j|] eqn:Ec; [|discriminate].
    destruct (on_now E m _) as [e1 ts]. destruct (enc (eiv s) (encode ts ms)) as [ct iv'].
    destruct (on_write E m e1 ct) as [[e' ok] d].
    destruct ((dur d <=? send_to)%Z && ok).
    - intros [= <- <- <-]. exists j. repeat split; cbn [cur out Client.upd app frames_on]; auto.
      rewrite Nat.eqb_refl. destruct (frames_on j _); discriminate.
    - destruct (disconnect _ _). discriminate.
  Qed.

  Lemma recv_ok_keeps : forall fuel deadline buf pend s w s' w' ms,
    recv_loop fuel deadline buf pend s w = (s', w', Ok _ ms) ->
    cur msg E w' = cur msg E w /\ (forall j, frames_on j (out msg E w') = frames_on j (out msg E w)) /\ cur msg E w <> None.
  Proof.
    induction fuel as [|f IH]; intros deadline buf pend s w s' w' ms; cbn [Client.recv_loop]; [discriminate|].
    destruct (cur msg E w) as [j|] eqn:Ec; [|discriminate].
    destruct (on_read E m (est msg E w) rbuf) as [[e' rr] d].
    destruct (Z.ltb deadline _); [destruct (disconnect _ _); discriminate|].
    set (w1 := upd w (Some j) (next msg E w) e' (clock msg E w + dur d)%Z [EvRead msg j rr]).
    assert (K : cur msg E w1 = Some j /\ forall k, frames_on k (out msg E w1) = frames_on k (out msg E w)) by (split; [reflexivity|intro k; reflexivity]).
    destruct K as [K1 K2].
    destruct rr as [b| |]; [|destruct (disconnect _ _); discriminate|destruct (disconnect _ _); discriminate].
    destruct (length b =? 0)%nat; [discriminate|].
    destruct ((32 * (length (pend ++ b) / 32)) =? 0)%nat.
    - intro H. destruct (IH _ _ _ _ _ _ _ _ H) as (A & B & C). split; [congruence|]. split; [intro k; rewrite B; apply K2|discriminate].
    - destruct (dec (div s) _) as [pt iv']. destruct (decode_step buf pt) as [[[rms|]|] buf'].
      + intros [= <- <- <-].
        destruct (log_cur (log lTrace (LDump msg pt) w1) lTrace (LTree msg rms)) as (A1 & _ & A3).
        destruct (log_cur w1 lTrace (LDump msg pt)) as (B1 & _ & B3).
        split; [rewrite A1, B1; exact K1|]. split; [intro k; rewrite A3, B3; apply K2|discriminate].
      + intro H. destruct (IH _ _ _ _ _ _ _ _ H) as (A & B & C). split; [congruence|]. split; [intro k; rewrite B; apply K2|discriminate].
      + destruct (disconnect _ _). discriminate.
  Qed.

  Lemma set_level_inv_iff s w l : Inv s (set_level msg E l w) <-> Inv s w.
  Proof. split; intros [T C]; split; assumption. Qed.

  Lemma inv_authenticate fuel s w s' w' r : Inv s w -> authenticate fuel s w = (s', w', r) ->
    Inv s' w' /\ (match r with Ok _ _ => authed s' = true | Err _ _ => authed s' = true -> authed s = true end).
  Proof.
    intros HI. unfold Client.authenticate.
    set (w0 := if level msg E w <? auth_level then set_level msg E (N.min (level msg E w) lInfo) (log lInfo (LText msg 4) w) else w).
    assert (HI0 : Inv s w0).
    { unfold w0. destruct (_ <? _); [apply set_level_inv_iff, inv_log; exact HI|exact HI]. }
    destruct (send s w0 auth_req) as [[s1 w1] r1] eqn:Es.
    destruct (inv_send _ _ _ _ _ _ HI0 (or_introl eq_refl) Es) as [HI1 M1].
    set (w1' := if level msg E w <? auth_level then set_level msg E (level msg E w) w1 else w1).
    assert (HI1' : Inv s1 w1') by (unfold w1'; destruct (_ <? _); [apply set_level_inv_iff|]; exact HI1).
    destruct r1 as [u|x]; [|intros [= <- <- <-]; auto].
    destruct (send_ok_frames _ _ _ _ _ _ Es) as (j & Ec0 & Ec1 & Hfr).
    assert (Ec1' : cur msg E w1' = Some j /\ frames_on j (out msg E w1') <> []).
    { unfold w1'. destruct (_ <? _); cbn; auto. }
    destruct Ec1' as [Ec1' Hfr'].
    destruct (receive fuel s1 w1') as [[s2 w2] [ms|x]] eqn:Er.
    - destruct (inv_receive _ _ _ _ _ _ HI1' Er) as [[T C] M2].
      unfold Client.receive in Er. rewrite Ec1' in Er.
      destruct (recv_ok_keeps _ _ _ _ _ _ _ _ _ Er) as (K1 & K2 & _).
      cbn [cur out Client.emit Client.upd app] in K1, K2. rewrite Ec1' in K1.
      destruct (auth_ok ms); intros [= <- <- <-].
      + split; [|reflexivity]. apply inv_log. rewrite K1.
        split; cbn [out next cur Client.emit Client.upd app]; [apply tinv_quiet; [exact I|exact T]|].
        rewrite K1 in C |- *. cbn [CInv] in *. destruct C as (A & B & D). cbn [authed eiv].
        rewrite frames_quiet, writes_quiet by exact I. split; [exact A|]. split; [exact B|].
        intros _. split; [left; reflexivity|]. rewrite K2. rewrite frames_quiet by exact I. exact Hfr'.
      + split; [|cbn; discriminate]. split; [exact T|]. rewrite K1 in *. cbn [CInv unauth authed eiv] in *.
        destruct C as (A & B & D). split; [exact A|]. split; [exact B|]. discriminate.
    - intros [= <- <- <-]. destruct (inv_receive _ _ _ _ _ _ HI1' Er) as [HI2 M2]. split; [exact HI2|]. auto.
  Qed.

  Lemma inv_send_multiple fuel s w ms s' w' r : Inv s w -> send_multiple fuel s w ms = (s', w', r) -> Inv s' w'.
  Proof.
    intros HI. unfold Client.send_multiple.
    assert (H0 : forall s0 w0 r0, (match cur msg E w with None => connect s w | Some _ => (s, w, Ok _ tt) end) = (s0, w0, r0) -> Inv s0 w0).
    { intros s0 w0 r0. destruct (cur msg E w) eqn:Ec; [intros [= <- <- <-]; exact HI|]. apply inv_connect; assumption. }
    destruct (match cur msg E w with None => connect s w | Some _ => (s, w, Ok _ tt) end) as [[s0 w0] r0].
    specialize (H0 _ _ _ eq_refl).
    destruct r0 as [u|x]; [|intros [= <- <- <-]; exact H0].
    assert (H1 : forall s1 w1 r1, (if authed s0 then (s0, w0, Ok _ tt) else authenticate fuel s0 w0) = (s1, w1, r1) ->
                 Inv s1 w1 /\ (match r1 with Ok _ _ => authed s1 = true | Err _ _ => True end)).
    { intros s1 w1 r1. destruct (authed s0) eqn:Ea; [intros [= <- <- <-]; auto|].
      intro H. destruct (inv_authenticate _ _ _ _ _ _ H0 H) as [A B]. split; [exact A|]. destruct r1; auto. }
    destruct (if authed s0 then (s0, w0, Ok _ tt) else authenticate fuel s0 w0) as [[s1 w1] r1].
    destruct (H1 _ _ _ eq_refl) as [HI1 Hau].
    destruct r1 as [u1|x]; [|intros [= <- <- <-]; exact HI1].
    destruct (send s1 w1 ms) as [[s2 w2] [u2|x]] eqn:Es.
    - intro H. destruct (inv_send _ _ _ _ _ _ HI1 (or_intror Hau) Es) as [HI2 _].
      exact (proj1 (inv_receive _ _ _ _ _ _ HI2 H)).
    - intros [= <- <- <-]. exact (proj1 (inv_send _ _ _ _ _ _ HI1 (or_intror Hau) Es)).
  Qed.

  Lemma inv_init e l : Inv (init_state iv0) (init_world msg E e l).
  Proof. split; cbn; [repeat split; auto; exists []; split; reflexivity|reflexivity]. Qed.

  Theorem all_histories : forall calls e l,
    let w := snd (run (init_state iv0) (init_world msg E e l) calls) in TInv (out msg E w) (next msg E w).
  Proof.
    intros calls e l.
    assert (G : forall cs s w, Inv s w -> Inv (fst (run s w cs)) (snd (run s w cs))).
    { induction cs as [|c cs IH]; intros s w HI; [exact HI|]. cbn [Client.run].
      destruct c as [fuel ms|]; cbn [Client.do_call].
      - destruct (send_multiple fuel s w ms) as [[s' w'] r] eqn:Ecall. apply IH. exact (inv_send_multiple _ _ _ _ _ _ _ HI Ecall).
      - destruct (inv_disconnect_any s w (proj1 HI)) as [Hd _]. destruct (disconnect s w) as [s' w']. apply IH. exact Hd. }
    exact (proj1 (G calls _ _ (inv_init e l))).
  Qed.

  Corollary C06_sessions calls e l j :
    let tr := out msg E (snd (run (init_state iv0) (init_world msg E e l) calls)) in
    exists tss, length tss = length (frames_on j tr) /\ writes_on j tr = fst (chain iv0 (plains tss (frames_on j tr))).
  Proof. exact (proj1 (all_histories calls e l) j). Qed.

  Corollary C09_gate calls e l :
    let tr := out msg E (snd (run (init_state iv0) (init_world msg E e l) calls)) in
    gate tr /\ forall j, first_ok j tr.
  Proof. destruct (all_histories calls e l) as (_ & _ & G & F). split; assumption. Qed.
End Inv.

Print Assumptions C06_sessions.
Print Assumptions C09_gate.
