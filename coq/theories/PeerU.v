(* C08 on the unified model: a reactive RSCP peer with a fault script as an environment machine *)
From Coq Require Import List Arith NArith ZArith Lia Bool.
Import ListNotations.
Require Import Client ClientReasm.
Local Open Scope N_scope.

Section Peer.
  Variable msg : Type.
  Variable encode : Z * Z -> list msg -> list N.
  Variable enc : list N -> list N -> list N * list N.
  Variable decP : list N -> list N -> list N.
  Variable decI : list N -> list N -> list N.
  Variable V : list N -> option (option (list msg)).
  Variable iv0 : list N.
  Variable valid_req : list msg -> bool.
  Variable auth_req : list msg.
  Variable auth_ok : list msg -> bool.
  Variables conn_to send_to recv_to : Z.
  Variable rbuf : nat.
  Hypothesis rbuf_pos : (0 < rbuf)%nat.
  Hypothesis to_pos : (0 < conn_to /\ 0 < send_to /\ 0 < recv_to)%Z.

  Notation dec := (ClientReasm.dec decP decI).
  Notation decode_step := (ClientReasm.decode_step msg V).
  Notation al := ClientReasm.al.

  Variable decodeP : list N -> list msg.
  Variable reply_of : list msg -> list msg.
  Variable gp : list N.

  (* cipher and codec facts (to be discharged by CBC.v / Frame.v) *)
  Hypothesis decP_app : forall iv a b, al a -> decP iv (a ++ b) = decP iv a ++ decP (decI iv a) b.
  Hypothesis decI_app : forall iv a b, al a -> decI iv (a ++ b) = decI (decI iv a) b.
  Hypothesis decP_nil : forall iv, decP iv [] = [].
  Hypothesis decI_nil : forall iv, decI iv [] = iv.
  Hypothesis decP_len : forall iv c, al c -> length (decP iv c) = length c.
  Hypothesis dec_enc : forall iv p, al p -> decP iv (fst (enc iv p)) = p /\ decI iv (fst (enc iv p)) = snd (enc iv p).
  Hypothesis enc_len : forall iv p, al p -> length (fst (enc iv p)) = length p.
  Hypothesis enc_al : forall ts ms, al (encode ts ms) /\ (32 <= length (encode ts ms))%nat.
  (* okm ms: the list can be encoded and decoded back (for the RSCP instance: well-formed messages that fit one frame) *)
  Variable okm : list msg -> Prop.
  Hypothesis decodeP_enc : forall ts ms, okm ms -> decodeP (encode ts ms) = ms.
  Hypothesis V_whole : forall ts ms, okm ms -> ms <> [] -> V (encode ts ms) = Some (Some ms).
  Hypothesis V_prefix : forall ts ms n, okm ms -> (n < length (encode ts ms))%nat -> (n mod 32 = 0)%nat ->
                                        V (firstn n (encode ts ms)) = Some None.
  Hypothesis reply_okm : forall ms, okm (reply_of ms).
  Hypothesis auth_okm : okm auth_req.
  Hypothesis gp_bad : length gp = 32%nat /\ V gp = None /\ V [] = Some None.
  Hypothesis reply_nonempty : forall ms, reply_of ms <> [].
  Hypothesis auth_grants : auth_ok (reply_of auth_req) = true.
  Hypothesis auth_valid : valid_req auth_req = true.

  Inductive behaviour := Answer | Silent | CloseBefore | Garbage (tail : list N).
  Record pstate := { p_enc : list N; p_dec : list N; inflight : list (list N); closed : bool;
                     script : list behaviour; plog : list (list msg) }.
  Definition pts : Z * Z := (0%Z, 0%Z).            (* the peer's own timestamps do not matter *)

  Definition p_dial (p : pstate) : pstate * bool * Z :=
    ({| p_enc := iv0; p_dec := iv0; inflight := []; closed := false; script := script p; plog := plog p |}, true, 0%Z).

  Definition p_write (p : pstate) (ct : list N) : pstate * bool * Z :=
    let pt := decP (p_dec p) ct in
    let d' := decI (p_dec p) ct in
    let req := decodeP pt in
    let rep := encode pts (reply_of req) in
    let log' := plog p ++ [req] in
    (match script p with
     | [] => let '(c, e') := enc (p_enc p) rep in
             {| p_enc := e'; p_dec := d'; inflight := inflight p ++ [c]; closed := closed p; script := []; plog := log' |}
     | Answer :: sc => let '(c, e') := enc (p_enc p) rep in
             {| p_enc := e'; p_dec := d'; inflight := inflight p ++ [c]; closed := closed p; script := sc; plog := log' |}
     | Silent :: sc =>
             {| p_enc := p_enc p; p_dec := d'; inflight := inflight p; closed := closed p; script := sc; plog := log' |}
     | CloseBefore :: sc =>
             {| p_enc := p_enc p; p_dec := d'; inflight := inflight p; closed := true; script := sc; plog := log' |}
     | Garbage tail :: sc =>
             let '(c1, e1) := enc (p_enc p) gp in let '(c2, e2) := enc e1 tail in
             {| p_enc := e2; p_dec := d'; inflight := inflight p ++ [c1] ++ (if (length c2 =? 0)%nat then [] else [c2]);
                closed := closed p; script := sc; plog := log' |}
     end, true, 0%Z).

  Definition p_read (p : pstate) (n : nat) : pstate * rres * Z :=
    match inflight p with
    | u :: r =>
      if (length u <=? n)%nat
      then ({| p_enc := p_enc p; p_dec := p_dec p; inflight := r; closed := closed p; script := script p; plog := plog p |}, RData u, 0%Z)
      else ({| p_enc := p_enc p; p_dec := p_dec p; inflight := skipn n u :: r; closed := closed p; script := script p; plog := plog p |},
            RData (firstn n u), 0%Z)
    | [] => (p, if closed p then REOF else RTimeout, 0%Z)
    end.

  Definition peer : envsm pstate :=
    {| on_dial := p_dial; on_write := p_write; on_read := p_read; on_close := fun p => p; on_now := fun p => (p, pts) |}.

  (* everything about the peer that reading and closing leave alone *)
  Definition Rel (a b : pstate) : Prop :=
    p_enc a = p_enc b /\ p_dec a = p_dec b /\ closed a = closed b /\ script a = script b /\ plog a = plog b.
  Lemma Rel_refl e : Rel e e. Proof. repeat split. Qed.
  Lemma Rel_trans a b c : Rel a b -> Rel b c -> Rel a c.
  Proof. intros (A1 & A2 & A3 & A4 & A5) (B1 & B2 & B3 & B4 & B5). repeat split; congruence. Qed.
  Lemma Rel_close e : Rel e (on_close pstate peer e). Proof. repeat split. Qed.

  (* the peer's reads are a queue view of its inflight list *)
  Lemma peer_read_view : forall e n, match inflight e with
    | [] => True
    | p :: r => exists e', on_read pstate peer e n =
                  (e', RData (if (length p <=? n)%nat then p else firstn n p), 0%Z) /\
                inflight e' = (if (length p <=? n)%nat then r else skipn n p :: r) /\ Rel e e'
    end.
  Proof.
    intros e n. destruct (inflight e) as [|p r] eqn:Ei; [exact I|].
    cbn [on_read peer]. unfold p_read. rewrite Ei. destruct (length p <=? n)%nat; eexists; repeat split; reflexivity.
  Qed.

  (* a whole encrypted reply is "one reply" for the receive loop *)
  Lemma firstn_decP iv c n : (n mod 32 = 0)%nat -> (n <= length c)%nat -> decP iv (firstn n c) = firstn n (decP iv c).
  Proof.
    intros Hn Hle.
    assert (Hal : al (firstn n c)) by (unfold ClientReasm.al; rewrite firstn_length, Nat.min_l by exact Hle; exact Hn).
    pose proof (decP_app iv (firstn n c) (skipn n c) Hal) as H. rewrite firstn_skipn in H. rewrite H.
    assert (HL : length (decP iv (firstn n c)) = n) by (rewrite (decP_len iv (firstn n c) Hal), firstn_length; apply Nat.min_l; exact Hle).
    rewrite firstn_app, HL, Nat.sub_diag, firstn_O, app_nil_r.
    symmetry. apply firstn_all2. rewrite HL. apply le_n.
  Qed.

  Lemma reply_one iv ts ms : okm ms -> ms <> [] -> one_reply msg decP V iv (fst (enc iv (encode ts ms))).
  Proof.
    intros Hok Hms. destruct (enc_al ts ms) as [Ha Hl]. destruct (dec_enc iv (encode ts ms) Ha) as [Hp _].
    unfold one_reply. split; [unfold ClientReasm.al; rewrite enc_len by exact Ha; exact Ha|]. split.
    - intros n Hn Hm. rewrite enc_len in Hn by exact Ha. rewrite firstn_decP by (rewrite ?enc_len by exact Ha; lia || exact Hm).
      rewrite Hp. apply V_prefix; assumption.
    - rewrite Hp, V_whole by assumption. discriminate.
  Qed.

  Lemma garbage_one iv : one_reply msg decP V iv (fst (enc iv gp)).
  Proof.
    destruct gp_bad as (Hl & Hv & H0).
    assert (Ha : al gp) by (unfold ClientReasm.al; rewrite Hl; reflexivity).
    destruct (dec_enc iv gp Ha) as [Hp _].
    unfold one_reply. split; [unfold ClientReasm.al; rewrite enc_len, Hl by exact Ha; reflexivity|]. split.
    - intros n Hn Hm. rewrite enc_len in Hn by exact Ha. rewrite Hl in Hn.
      assert (n = 0%nat). { destruct (Nat.eq_dec n 0); [assumption|]. pose proof (Nat.div_mod n 32 ltac:(discriminate)). rewrite Hm in *. lia. }
      subst n. cbn [firstn]. rewrite decP_nil. exact H0.
    - rewrite Hp, Hv. discriminate.
  Qed.

  Variable maxlen : nat.
  Hypothesis enc_bound : forall ts ms, okm ms -> (length (encode ts ms) <= maxlen)%nat.
  Hypothesis gp_bound : (32 <= maxlen)%nat.

  Notation world := (world msg pstate).
  Notation send := (send msg encode enc valid_req send_to pstate peer).
  Notation recv_loop := (recv_loop msg decode_step dec rbuf pstate peer).
  Notation receive := (receive msg decode_step dec recv_to rbuf pstate peer).
  Notation disconnect := (disconnect msg pstate peer).

  Definition Sync (s : cstate) (w : world) : Prop :=
    match cur msg pstate w with
    | Some _ => inflight (est msg pstate w) = [] /\ closed (est msg pstate w) = false /\
                eiv s = p_dec (est msg pstate w) /\ div s = p_enc (est msg pstate w)
    | None => authed s = false
    end.

  Lemma log_keeps' (w : world) l k : cur msg pstate (log msg pstate l k w) = cur msg pstate w /\
     est msg pstate (log msg pstate l k w) = est msg pstate w /\ clock msg pstate (log msg pstate l k w) = clock msg pstate w /\
     next msg pstate (log msg pstate l k w) = next msg pstate w.
  Proof. unfold Client.log. destruct (N.leb l (level msg pstate w)); cbn; auto. Qed.

  (* a successful write to the peer *)
  Lemma send_peer s w ms j : cur msg pstate w = Some j -> valid_req ms = true ->
    exists w' ct iv', enc (eiv s) (encode pts ms) = (ct, iv') /\
      send s w ms = ({| authed := authed s; eiv := iv'; div := div s |}, w', Ok _ tt) /\
      cur msg pstate w' = Some j /\ est msg pstate w' = fst (fst (p_write (est msg pstate w) ct)) /\
      clock msg pstate w' = clock msg pstate w /\ next msg pstate w' = next msg pstate w.
  Proof.
    intros Hc Hv. destruct to_pos as (_ & Hs & _). unfold Client.send. rewrite Hv, Hc. cbn [negb].
    destruct (log_keeps' w lDebug (LTree msg ms)) as (A1 & A2 & A3 & A4).
    set (w1 := log msg pstate lDebug (LTree msg ms) w) in *.
    cbn [on_now peer]. 
    destruct (enc (eiv s) (encode pts ms)) as [ct iv'] eqn:Ee.
    destruct (log_keeps' w1 lTrace (LDump msg (encode pts ms))) as (B1 & B2 & B3 & B4).
    set (w2 := log msg pstate lTrace (LDump msg (encode pts ms)) w1) in *.
    destruct (log_keeps' w2 lTrace (LDump msg ct)) as (C1 & C2 & C3 & C4).
    set (w3 := log msg pstate lTrace (LDump msg ct) w2) in *.
    cbn [on_write peer].
    assert (Hw : exists p', p_write (est msg pstate w1) ct = (p', true, 0%Z)).
    { unfold p_write. destruct (script (est msg pstate w1)) as [|[| | |tail] sc]; try (destruct (enc _ _)); try (destruct (enc _ _)); eexists; reflexivity. }
    destruct Hw as [p' Hw]. rewrite Hw.
    replace (dur 0%Z) with 0%Z by reflexivity.
    destruct (Z.leb_spec 0 send_to) as [_|]; [|lia]. cbn [andb].
    eexists _, ct, iv'. split; [reflexivity|]. split; [reflexivity|].
    cbn [cur est clock next Client.upd Client.emit]. rewrite Z.add_0_r.
    repeat split; try congruence.
    - rewrite <- A2, Hw. reflexivity.
  Qed.

  Notation loop_inv := (ClientReasm.loop_inv msg decP decI decP_app decI_app V rbuf rbuf_pos pstate peer inflight Rel Rel_trans Rel_close peer_read_view).

  Lemma fl0 : ClientReasm.fl 0 = 0%nat. Proof. reflexivity. Qed.

  Definition healthy1 (p : pstate) : Prop := match script p with [] => True | Answer :: _ => True | _ => False end.

  (* one exchange on a synchronised connection *)
  (* adj: something done to the world between sending and receiving that only touches the log level *)
  Definition level_only (adj : world -> world) : Prop :=
    forall w, cur msg pstate (adj w) = cur msg pstate w /\ est msg pstate (adj w) = est msg pstate w /\
              clock msg pstate (adj w) = clock msg pstate w /\ next msg pstate (adj w) = next msg pstate w.

  Lemma exchange (adj : world -> world) fuel s w ms j s' w' r : level_only adj ->
    Sync s w -> cur msg pstate w = Some j -> valid_req ms = true -> okm ms -> (maxlen < fuel)%nat ->
    (let '(s1, w1, r1) := send s w ms in
     match r1 with Err _ x => (s1, adj w1, Err _ x) | Ok _ _ => receive fuel s1 (adj w1) end) = (s', w', r) ->
    Sync s' w' /\ (authed s' = true -> authed s = true) /\
    plog (est msg pstate w') = plog (est msg pstate w) ++ [ms] /\
    match r with Ok _ x => x = reply_of ms /\ cur msg pstate w' = Some j | Err _ _ => cur msg pstate w' = None end /\
    (healthy1 (est msg pstate w) -> r = Ok _ (reply_of ms) /\ script (est msg pstate w') = tl (script (est msg pstate w))).
  Proof.
    intros Hadj HS Hc Hv Hok Hf. unfold Sync in HS. rewrite Hc in HS. destruct HS as (Hin & Hcl & He & Hd).
    destruct to_pos as (_ & _ & Hr).
    destruct (send_peer s w ms j Hc Hv) as (w1_ & ct & iv' & Ee & Es & Hc1_ & He1_ & Hk1_ & Hn1_). rewrite Es.
    set (w1 := adj w1_). destruct (Hadj w1_) as (K1 & K2 & K3 & K4). fold w1 in K1, K2, K3, K4.
    assert (Hc1 : cur msg pstate w1 = Some j) by congruence.
    assert (He1 : est msg pstate w1 = fst (fst (p_write (est msg pstate w) ct))) by congruence.
    assert (Hk1 : clock msg pstate w1 = clock msg pstate w) by congruence.
    assert (Hn1 : next msg pstate w1 = next msg pstate w) by congruence.
    clearbody w1. clear K1 K2 K3 K4 Hc1_ He1_ Hk1_ Hn1_ Es.
    set (s1 := {| authed := authed s; eiv := iv'; div := div s |}).
    (* what the peer did with the request *)
    destruct (enc_al pts ms) as [Hams _].
    assert (Hct : ct = fst (enc (eiv s) (encode pts ms))) by (rewrite Ee; reflexivity).
    assert (HdP : decP (p_dec (est msg pstate w)) ct = encode pts ms) by (rewrite <- He, Hct; apply dec_enc; exact Hams).
    assert (HdI : decI (p_dec (est msg pstate w)) ct = iv').
    { rewrite <- He, Hct. rewrite (proj2 (dec_enc (eiv s) (encode pts ms) Hams)), Ee. reflexivity. }
    unfold Client.receive. rewrite Hc1.
    set (w2 := emit msg pstate (EvSetRD msg j recv_to) w1).
    assert (Hw2 : cur msg pstate w2 = Some j /\ est msg pstate w2 = est msg pstate w1 /\ clock msg pstate w2 = clock msg pstate w1) by (repeat split; exact Hc1).
    destruct Hw2 as (Hc2 & He2 & Hk2).
    set (rep := reply_of ms).
    set (p := est msg pstate w) in *.
    assert (Hp' : est msg pstate w1 = fst (fst (p_write p ct))) by exact He1.
    unfold p_write in Hp'. rewrite HdP, HdI, decodeP_enc in Hp' by exact Hok. fold rep in Hp'.
    assert (Hdl : (clock msg pstate w2 <= clock msg pstate w1 + recv_to)%Z) by lia.
    destruct (script p) as [|[| | |tail] sc] eqn:Esc.
    - (* the peer answers *)
      destruct (enc (p_enc p) (encode pts rep)) as [c e'] eqn:Er; cbn [fst] in Hp'.
      assert (Hc_c : c = fst (enc (p_enc p) (encode pts rep))) by (rewrite Er; reflexivity).
      destruct (enc_al pts rep) as [Harep Hlrep].
      assert (Hlen_c : length c = length (encode pts rep)) by (rewrite Hc_c; apply enc_len; exact Harep).
      assert (Hone : one_reply msg decP V (p_enc p) c) by (rewrite Hc_c; apply reply_one; [apply reply_okm|apply reply_nonempty]).
      assert (Hq : inflight (est msg pstate w2) = [c] ++ []) by (rewrite He2, Hp'; cbn [inflight]; rewrite Hin; reflexivity).
      pose proof (loop_inv maxlen fuel [c] [] [] s1 (p_enc p) c [] [] w2 (clock msg pstate w1 + recv_to)%Z j
                    ltac:(cbn [concat]; rewrite app_nil_r, Hlen_c; apply enc_bound, reply_okm) Hf ltac:(cbn [concat app]; rewrite app_nil_r; reflexivity)
                    ltac:(constructor; [intro X; rewrite X in Hlen_c; cbn in Hlen_c; lia|constructor]) ltac:(discriminate) Hone Hc2 Hq Hdl
                    (est msg pstate w2) (Rel_refl _) eq_refl ltac:(cbn; rewrite decP_nil; reflexivity) ltac:(cbn; rewrite decI_nil; exact Hd)
                    ltac:(cbn [length]; lia)) as L.
      destruct (recv_loop fuel (clock msg pstate w1 + recv_to)%Z [] [] s1 w2) as [[s2 w3] r2].
      destruct L as [Lf (Lrel & Lpost)].
      unfold ClientReasm.final in Lf.
      assert (HV : V (decP (p_enc p) c) = Some (Some rep)) by (rewrite Hc_c, (proj1 (dec_enc (p_enc p) (encode pts rep) Harep)); apply V_whole; [apply reply_okm|apply reply_nonempty]).
      rewrite HV in Lf; injection Lf as -> ->.
      intros [= <- <- <-].
      destruct Lpost as [Lc Lq]; destruct Lrel as (R1 & R2 & R3 & R4 & R5).
      rewrite He2, Hp' in R1, R2, R3, R4, R5; cbn [p_enc p_dec closed script plog] in R1, R2, R3, R4, R5.
      split.
      { unfold Sync. rewrite Lc. cbn [eiv div s1]. split; [exact Lq|]. split; [rewrite <- R3; exact Hcl|]. split; [rewrite <- R2; reflexivity|].
        rewrite <- R1, Hc_c. rewrite (proj2 (dec_enc (p_enc p) (encode pts rep) Harep)), Er. reflexivity. }
      split; [auto|]. split; [rewrite <- R5; reflexivity|]. split; [split; [reflexivity|exact Lc]|].
      intros _. split; [reflexivity|]. rewrite <- R4. reflexivity.
    - (* the peer answers *)
      destruct (enc (p_enc p) (encode pts rep)) as [c e'] eqn:Er; cbn [fst] in Hp'.
      assert (Hc_c : c = fst (enc (p_enc p) (encode pts rep))) by (rewrite Er; reflexivity).
      destruct (enc_al pts rep) as [Harep Hlrep].
      assert (Hlen_c : length c = length (encode pts rep)) by (rewrite Hc_c; apply enc_len; exact Harep).
      assert (Hone : one_reply msg decP V (p_enc p) c) by (rewrite Hc_c; apply reply_one; [apply reply_okm|apply reply_nonempty]).
      assert (Hq : inflight (est msg pstate w2) = [c] ++ []) by (rewrite He2, Hp'; cbn [inflight]; rewrite Hin; reflexivity).
      pose proof (loop_inv maxlen fuel [c] [] [] s1 (p_enc p) c [] [] w2 (clock msg pstate w1 + recv_to)%Z j
                    ltac:(cbn [concat]; rewrite app_nil_r, Hlen_c; apply enc_bound, reply_okm) Hf ltac:(cbn [concat app]; rewrite app_nil_r; reflexivity)
                    ltac:(constructor; [intro X; rewrite X in Hlen_c; cbn in Hlen_c; lia|constructor]) ltac:(discriminate) Hone Hc2 Hq Hdl
                    (est msg pstate w2) (Rel_refl _) eq_refl ltac:(cbn; rewrite decP_nil; reflexivity) ltac:(cbn; rewrite decI_nil; exact Hd)
                    ltac:(cbn [length]; lia)) as L.
      destruct (recv_loop fuel (clock msg pstate w1 + recv_to)%Z [] [] s1 w2) as [[s2 w3] r2].
      destruct L as [Lf (Lrel & Lpost)].
      unfold ClientReasm.final in Lf.
      assert (HV : V (decP (p_enc p) c) = Some (Some rep)) by (rewrite Hc_c, (proj1 (dec_enc (p_enc p) (encode pts rep) Harep)); apply V_whole; [apply reply_okm|apply reply_nonempty]).
      rewrite HV in Lf; injection Lf as -> ->.
      intros [= <- <- <-].
      destruct Lpost as [Lc Lq]; destruct Lrel as (R1 & R2 & R3 & R4 & R5).
      rewrite He2, Hp' in R1, R2, R3, R4, R5; cbn [p_enc p_dec closed script plog] in R1, R2, R3, R4, R5.
      split.
      { unfold Sync. rewrite Lc. cbn [eiv div s1]. split; [exact Lq|]. split; [rewrite <- R3; exact Hcl|]. split; [rewrite <- R2; reflexivity|].
        rewrite <- R1, Hc_c. rewrite (proj2 (dec_enc (p_enc p) (encode pts rep) Harep)), Er. reflexivity. }
      split; [auto|]. split; [rewrite <- R5; reflexivity|]. split; [split; [reflexivity|exact Lc]|].
      intros _. split; [reflexivity|]. rewrite <- R4. reflexivity.
    - (* silent *)
      cbn [fst] in Hp'. destruct fuel as [|f]; [lia|]. cbn [Client.recv_loop]. rewrite Hc2.
      cbn [on_read peer]. unfold p_read. rewrite He2, Hp'. cbn [inflight closed]. rewrite Hin, Hcl.
      replace (dur 0%Z) with 0%Z by reflexivity. rewrite Z.add_0_r.
      destruct (Z.ltb_spec (clock msg pstate w1 + recv_to)%Z (clock msg pstate w2)) as [|_]; [lia|].
      unfold Client.disconnect. cbn [cur Client.upd].
      intros [= <- <- <-]. rewrite (proj1 (log_keeps' _ _ _)), (proj1 (proj2 (log_keeps' _ _ _))).
      cbn [cur est Client.upd on_close peer plog]. unfold Sync. rewrite (proj1 (log_keeps' _ _ _)). cbn [cur Client.upd unauth authed].
      repeat split; auto; try (cbn; discriminate); try (exfalso; match goal with H : healthy1 _ |- _ => unfold healthy1 in H; try rewrite Esc in H; exact H end).
    - (* closed before answering *)
      cbn [fst] in Hp'. destruct fuel as [|f]; [lia|]. cbn [Client.recv_loop]. rewrite Hc2.
      cbn [on_read peer]. unfold p_read. rewrite He2, Hp'. cbn [inflight closed]. rewrite Hin.
      replace (dur 0%Z) with 0%Z by reflexivity. rewrite Z.add_0_r.
      destruct (Z.ltb_spec (clock msg pstate w1 + recv_to)%Z (clock msg pstate w2)) as [|_]; [lia|].
      unfold Client.disconnect. cbn [cur Client.upd].
      intros [= <- <- <-]. rewrite (proj1 (log_keeps' _ _ _)), (proj1 (proj2 (log_keeps' _ _ _))).
      cbn [cur est Client.upd on_close peer plog]. unfold Sync. rewrite (proj1 (log_keeps' _ _ _)). cbn [cur Client.upd unauth authed].
      repeat split; auto; try (cbn; discriminate); try (exfalso; match goal with H : healthy1 _ |- _ => unfold healthy1 in H; try rewrite Esc in H; exact H end).
    - (* a garbage block, then whatever: rejected, connection closed *)
      destruct (enc (p_enc p) gp) as [c1 e1] eqn:E1. destruct (enc e1 tail) as [c2 e2] eqn:E2. cbn [fst] in Hp'.
      destruct gp_bad as (Hlg & Hvg & _).
      assert (Hc_c : c1 = fst (enc (p_enc p) gp)) by (rewrite E1; reflexivity).
      assert (Hlen_c : length c1 = 32%nat) by (rewrite Hc_c, enc_len; [exact Hlg|unfold ClientReasm.al; rewrite Hlg; reflexivity]).
      assert (Hone : one_reply msg decP V (p_enc p) c1) by (rewrite Hc_c; apply garbage_one).
      set (erest := if (length c2 =? 0)%nat then [] else [c2]) in *.
      assert (Hq : inflight (est msg pstate w2) = [c1] ++ erest) by (rewrite He2, Hp'; cbn [inflight]; rewrite Hin; reflexivity).
      pose proof (loop_inv maxlen fuel [c1] erest [] s1 (p_enc p) c1 [] [] w2 (clock msg pstate w1 + recv_to)%Z j
                    ltac:(cbn [concat]; rewrite app_nil_r, Hlen_c; exact gp_bound) Hf ltac:(cbn [concat app]; rewrite app_nil_r; reflexivity)
                    ltac:(constructor; [intro X; rewrite X in Hlen_c; discriminate|constructor]) ltac:(discriminate) Hone Hc2 Hq Hdl
                    (est msg pstate w2) (Rel_refl _) eq_refl ltac:(cbn; rewrite decP_nil; reflexivity) ltac:(cbn; rewrite decI_nil; exact Hd)
                    ltac:(cbn [length]; lia)) as L.
      destruct (recv_loop fuel (clock msg pstate w1 + recv_to)%Z [] [] s1 w2) as [[s2 w3] r2].
      destruct L as [Lf (Lrel & Lpost)]. unfold ClientReasm.final in Lf.
      assert (Hga : al gp) by (unfold ClientReasm.al; rewrite Hlg; reflexivity).
      assert (HV : V (decP (p_enc p) c1) = None) by (rewrite Hc_c, (proj1 (dec_enc (p_enc p) gp Hga)); exact Hvg).
      rewrite HV in Lf. injection Lf as -> ->. intros [= <- <- <-].
      destruct Lrel as (R1 & R2 & R3 & R4 & R5). rewrite He2, Hp' in R5. cbn [plog] in R5.
      split; [unfold Sync; rewrite Lpost; reflexivity|]. split; [cbn; discriminate|]. split; [rewrite <- R5; reflexivity|]. split; [exact Lpost|].
      intro Hh. unfold healthy1 in Hh. try rewrite Esc in Hh. contradiction.
  Qed.

  Notation connect := (connect msg iv0 conn_to pstate peer).
  Notation authenticate := (authenticate msg encode decode_step enc dec valid_req auth_req auth_ok send_to recv_to rbuf pstate peer).
  Notation send_multiple := (send_multiple msg encode decode_step enc dec iv0 valid_req auth_req auth_ok conn_to send_to recv_to rbuf pstate peer).

  Lemma send_invalid s w ms : valid_req ms = false -> send s w ms = (s, w, Err _ EValidate).
  Proof. intro H. unfold Client.send. rewrite H. reflexivity. Qed.

  Lemma id_level_only : level_only (fun w => w). Proof. intro w. auto. Qed.
  Lemma set_level_only l : level_only (set_level msg pstate l). Proof. intro w. auto. Qed.

  Definition one_of (l : list (list msg)) (ms : list msg) : Prop :=
    l = [] \/ l = [auth_req] \/ l = [ms] \/ l = [auth_req; ms].

  (* connecting to the peer always succeeds and yields a synchronised state *)
  Lemma connect_peer s w : cur msg pstate w = None -> authed s = false ->
    exists s0 w0 j, connect s w = (s0, w0, Ok _ tt) /\ Sync s0 w0 /\ cur msg pstate w0 = Some j /\ authed s0 = false /\
                    plog (est msg pstate w0) = plog (est msg pstate w) /\ script (est msg pstate w0) = script (est msg pstate w).
  Proof.
    intros Hc Ha. destruct to_pos as (Hct & _ & _). unfold Client.connect.
    destruct (log_keeps' w lInfo (LText msg 1)) as (A1 & A2 & A3 & A4).
    set (w1 := log msg pstate lInfo (LText msg 1) w) in *.
    cbn [on_dial peer]. unfold p_dial. replace (dur 0%Z) with 0%Z by reflexivity.
    destruct (Z.leb_spec 0 conn_to) as [_|]; [|lia]. cbn [andb].
    eexists _, _, (next msg pstate w1). split; [reflexivity|].
    destruct (log_keeps' (upd msg pstate w1 (Some (next msg pstate w1)) (S (next msg pstate w1))
                {| p_enc := iv0; p_dec := iv0; inflight := []; closed := false; script := script (est msg pstate w1); plog := plog (est msg pstate w1) |}
                (clock msg pstate w1 + 0)%Z [EvDial msg (next msg pstate w1)]) lInfo (LText msg 2)) as (B1 & B2 & _ & _).
    unfold Sync. rewrite B1, B2. cbn [cur est Client.upd inflight closed p_dec p_enc eiv div authed plog script].
    rewrite A2. repeat split; auto.
  Qed.

  (* C08 (pairing, at most once, in order) for one call *)
  Theorem call_spec fuel s w ms s' w' r :
    Sync s w -> (maxlen < fuel)%nat -> (valid_req ms = true -> okm ms) -> send_multiple fuel s w ms = (s', w', r) ->
    Sync s' w' /\
    (exists l, plog (est msg pstate w') = plog (est msg pstate w) ++ l /\ one_of l ms) /\
    (forall x, r = Ok _ x -> x = reply_of ms /\ exists l, plog (est msg pstate w') = plog (est msg pstate w) ++ l ++ [ms]).
  Proof.
    intros HS Hf Hokm. unfold Client.send_multiple.
    (* step 1: connection *)
    assert (H0 : exists s0 w0 j, (match cur msg pstate w with None => connect s w | Some _ => (s, w, Ok _ tt) end) = (s0, w0, Ok _ tt) /\
                 Sync s0 w0 /\ cur msg pstate w0 = Some j /\ plog (est msg pstate w0) = plog (est msg pstate w) /\
                 (cur msg pstate w = None -> authed s0 = false)).
    { destruct (cur msg pstate w) as [j|] eqn:Ec.
      - exists s, w, j. repeat split; auto. discriminate.
      - unfold Sync in HS. rewrite Ec in HS.
        destruct (connect_peer s w Ec HS) as (s0 & w0 & j & A & B & C & D & F & _). exists s0, w0, j. repeat split; auto. }
    destruct H0 as (s0 & w0 & j & E0 & HS0 & Hc0 & Hl0 & _). rewrite E0.
    (* step 2: authentication when needed *)
    destruct (authed s0) eqn:Ea.
    - destruct (valid_req ms) eqn:Hv.
      + intro H. destruct (exchange (fun x => x) fuel s0 w0 ms j s' w' r id_level_only HS0 Hc0 Hv (Hokm eq_refl) Hf) as (A & B & C & D & _).
        { destruct (send s0 w0 ms) as [[sa wa] [u|x]]; exact H. }
        split; [exact A|]. split.
        * exists [ms]. rewrite C, Hl0. split; [reflexivity|]. right. right. left. reflexivity.
        * intros x ->. destruct D as [-> _]. split; [reflexivity|]. exists []. rewrite C, Hl0. reflexivity.
      + rewrite (send_invalid s0 w0 ms Hv). intros [= <- <- <-]. split; [exact HS0|]. split.
        * exists []. rewrite app_nil_r. split; [exact Hl0|left; reflexivity].
        * intros x Hx. discriminate.
    - unfold Client.authenticate.
      set (org := level msg pstate w0).
      set (w0a := if org <? auth_level then set_level msg pstate (N.min org lInfo) (log msg pstate lInfo (LText msg 4) w0) else w0).
      assert (K0 : cur msg pstate w0a = Some j /\ est msg pstate w0a = est msg pstate w0).
      { unfold w0a. destruct (org <? auth_level); [cbn [cur est Client.set_level]; destruct (log_keeps' w0 lInfo (LText msg 4)) as (A1 & A2 & _); rewrite A1, A2|]; auto. }
      destruct K0 as [Kc Ke].
      assert (HS0a : Sync s0 w0a) by (unfold Sync in *; rewrite Kc, Ke; rewrite Hc0 in HS0; exact HS0).
      set (adj := fun w1 : world => if org <? auth_level then set_level msg pstate org w1 else w1).
      assert (Hadj : level_only adj) by (unfold adj; destruct (org <? auth_level); [apply set_level_only|apply id_level_only]).
      destruct (send s0 w0a auth_req) as [[s1 w1] r1] eqn:Es1.
      fold (adj w1).
      destruct (match r1 with Err _ x => (s1, adj w1, Err _ x) | Ok _ _ => receive fuel s1 (adj w1) end) as [[s2 w2] r2] eqn:Ex.
      assert (Hex := exchange adj fuel s0 w0a auth_req j s2 w2 r2 Hadj HS0a Kc auth_valid auth_okm Hf).
      rewrite Es1 in Hex. specialize (Hex Ex). destruct Hex as (A & B & C & D & _). rewrite Ke in C.
      destruct r1 as [u|x1].
      + rewrite Ex. destruct r2 as [x2|x2].
        * destruct D as [-> Hc2]. rewrite auth_grants.
          set (s3 := {| authed := true; eiv := eiv s2; div := div s2 |}).
          set (w3 := log msg pstate lInfo (LText msg 5) (match cur msg pstate w2 with Some j0 => emit msg pstate (EvGranted msg j0) w2 | None => w2 end)).
          assert (K3 : cur msg pstate w3 = Some j /\ est msg pstate w3 = est msg pstate w2).
          { unfold w3. destruct (log_keeps' (match cur msg pstate w2 with Some j0 => emit msg pstate (EvGranted msg j0) w2 | None => w2 end) lInfo (LText msg 5)) as (A1 & A2 & _).
            rewrite A1, A2, Hc2. cbn [cur est Client.emit Client.upd]. auto. }
          destruct K3 as [K3c K3e].
          assert (HS3 : Sync s3 w3). { unfold Sync in *. rewrite K3c, K3e. rewrite Hc2 in A. exact A. }
          destruct (valid_req ms) eqn:Hv.
          -- intro H. destruct (exchange (fun x => x) fuel s3 w3 ms j s' w' r id_level_only HS3 K3c Hv (Hokm eq_refl) Hf) as (A' & B' & C' & D' & _).
             { destruct (send s3 w3 ms) as [[sa wa] [u'|x']]; exact H. }
             rewrite K3e in C'.
             split; [exact A'|]. split.
             ++ exists [auth_req; ms]. rewrite C', C, Hl0, <- app_assoc. split; [reflexivity|]. right. right. right. reflexivity.
             ++ intros x ->. destruct D' as [-> _]. split; [reflexivity|]. exists [auth_req]. rewrite C', C, Hl0, <- app_assoc. reflexivity.
          -- rewrite (send_invalid s3 w3 ms Hv). intros [= <- <- <-]. split; [exact HS3|]. split.
             ++ exists [auth_req]. rewrite K3e, C, Hl0. split; [reflexivity|]. right. left. reflexivity.
             ++ intros x Hx. discriminate.
        * intros [= <- <- <-]. split; [exact A|]. split.
          -- exists [auth_req]. rewrite C, Hl0. split; [reflexivity|]. right. left. reflexivity.
          -- intros x Hx. discriminate.
      + injection Ex as <- <- <-. intros [= <- <- <-]. split; [exact A|]. split.
        * exists [auth_req]. rewrite C, Hl0. split; [reflexivity|]. right. left. reflexivity.
        * intros x Hx. discriminate.
  Qed.

  (* C08 (recovery): from a closed state, if the peer is healthy for the next two exchanges, the call reconnects,
     re-authenticates and returns the reply to this very request *)
  Theorem recovery fuel s w ms s' w' r :
    Sync s w -> cur msg pstate w = None -> (maxlen < fuel)%nat -> valid_req ms = true -> okm ms ->
    (match script (est msg pstate w) with [] => True | [Answer] => True | Answer :: Answer :: _ => True | _ => False end) ->
    send_multiple fuel s w ms = (s', w', r) ->
    r = Ok _ (reply_of ms) /\ plog (est msg pstate w') = plog (est msg pstate w) ++ [auth_req; ms] /\ Sync s' w'.
  Proof.
    intros HS Hc Hf Hv Hokm Hh. unfold Client.send_multiple. rewrite Hc.
    assert (Ha : authed s = false) by (unfold Sync in HS; rewrite Hc in HS; exact HS).
    destruct (connect_peer s w Hc Ha) as (s0 & w0 & j & E0 & HS0 & Hc0 & Ha0 & Hl0 & Hsc0). rewrite E0, Ha0.
    unfold Client.authenticate.
    set (org := level msg pstate w0).
    set (w0a := if org <? auth_level then set_level msg pstate (N.min org lInfo) (log msg pstate lInfo (LText msg 4) w0) else w0).
    assert (K0 : cur msg pstate w0a = Some j /\ est msg pstate w0a = est msg pstate w0).
    { unfold w0a. destruct (org <? auth_level); [cbn [cur est Client.set_level]; destruct (log_keeps' w0 lInfo (LText msg 4)) as (A1 & A2 & _); rewrite A1, A2|]; auto. }
    destruct K0 as [Kc Ke].
    assert (HS0a : Sync s0 w0a) by (unfold Sync in *; rewrite Kc, Ke; rewrite Hc0 in HS0; exact HS0).
    set (adj := fun w1 : world => if org <? auth_level then set_level msg pstate org w1 else w1).
    assert (Hadj : level_only adj) by (unfold adj; destruct (org <? auth_level); [apply set_level_only|apply id_level_only]).
    destruct (send s0 w0a auth_req) as [[s1 w1] r1] eqn:Es1.
    fold (adj w1).
    destruct (match r1 with Err _ x => (s1, adj w1, Err _ x) | Ok _ _ => receive fuel s1 (adj w1) end) as [[s2 w2] r2] eqn:Ex.
    assert (Hex := exchange adj fuel s0 w0a auth_req j s2 w2 r2 Hadj HS0a Kc auth_valid auth_okm Hf).
    rewrite Es1 in Hex. specialize (Hex Ex). destruct Hex as (A & B & C & D & Hhealthy). rewrite Ke in C.
    assert (Hh0 : healthy1 (est msg pstate w0a)).
    { unfold healthy1. rewrite Ke, Hsc0. destruct (script (est msg pstate w)) as [|[| | |] [|[| | |] ?]]; try contradiction; exact I. }
    destruct (Hhealthy Hh0) as [-> Hsc2]. rewrite Ke, Hsc0 in Hsc2.
    destruct D as [_ Hc2].
    destruct r1 as [u|x1]; [|discriminate].
    rewrite Ex. rewrite auth_grants.
    set (s3 := {| authed := true; eiv := eiv s2; div := div s2 |}).
    set (w3 := log msg pstate lInfo (LText msg 5) (match cur msg pstate w2 with Some j0 => emit msg pstate (EvGranted msg j0) w2 | None => w2 end)).
    assert (K3 : cur msg pstate w3 = Some j /\ est msg pstate w3 = est msg pstate w2).
    { unfold w3. destruct (log_keeps' (match cur msg pstate w2 with Some j0 => emit msg pstate (EvGranted msg j0) w2 | None => w2 end) lInfo (LText msg 5)) as (A1 & A2 & _).
      rewrite A1, A2, Hc2. cbn [cur est Client.emit Client.upd]. auto. }
    destruct K3 as [K3c K3e].
    assert (HS3 : Sync s3 w3). { unfold Sync in *. rewrite K3c, K3e. rewrite Hc2 in A. exact A. }
    intro H.
    destruct (exchange (fun x => x) fuel s3 w3 ms j s' w' r id_level_only HS3 K3c Hv Hokm Hf) as (A' & B' & C' & D' & Hhealthy').
    { destruct (send s3 w3 ms) as [[sa wa] [u'|x']]; exact H. }
    assert (Hh3 : healthy1 (est msg pstate w3)).
    { unfold healthy1. rewrite K3e, Hsc2. destruct (script (est msg pstate w)) as [|[| | |] [|[| | |] ?]]; try contradiction; exact I. }
    destruct (Hhealthy' Hh3) as [-> _].
    split; [reflexivity|]. split; [|exact A']. rewrite C', K3e, C, Hl0, <- app_assoc. reflexivity.
  Qed.
End Peer.

Print Assumptions call_spec.
Print Assumptions recovery.
