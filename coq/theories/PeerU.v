(* C08 on the unified model: a reactive RSCP peer with a fault script as an environment machine *)
From Coq Require Import List Arith NArith ZArith Lia Bool.
Import ListNotations.
Require Import Client ClientReasm ClientShort.
Local Open Scope N_scope.

Section Peer.
  Variable msg : Type.
  Variable encode : Z * Z -> list msg -> list N.
  Variable enc : list N -> list N -> list N * list N.
  Variable decP : list N -> list N -> list N.
  Variable decI : list N -> list N -> list N.
  Variable V : list N -> option (option (list msg)).
  Variable iv0 : list N.
  Variable valid_req : list msg -> bool.
  Variable auth_req : list msg.
  Variable auth_ok : list msg -> bool.
  Variables conn_to send_to recv_to : Z.
  Variable rbuf : nat.
  Hypothesis rbuf_pos : (0 < rbuf)%nat.
  Hypothesis to_pos : (0 < conn_to /\ 0 < send_to /\ 0 < recv_to)%Z.

  Notation dec := (ClientReasm.dec decP decI).
  Notation decode_step := (ClientReasm.decode_step msg V).
  Notation al := ClientReasm.al.

  Variable decodeP : list N -> list msg.
  (* what the peer answers: reply_of normally, deny_of when its script says Refuse *)
  Variable reply_of : list msg -> list msg.
  Variable deny_of : list msg -> list msg.

  (* cipher and codec facts (discharged for the RSCP instance in C08Proofs.v) *)
  Hypothesis decP_app : forall iv a b, al a -> decP iv (a ++ b) = decP iv a ++ decP (decI iv a) b.
  Hypothesis decI_app : forall iv a b, al a -> decI iv (a ++ b) = decI (decI iv a) b.
  Hypothesis decP_nil : forall iv, decP iv [] = [].
  Hypothesis decI_nil : forall iv, decI iv [] = iv.
  Hypothesis decP_len : forall iv c, al c -> length (decP iv c) = length c.
  Hypothesis dec_enc : forall iv p, al p -> decP iv (fst (enc iv p)) = p /\ decI iv (fst (enc iv p)) = snd (enc iv p).
  Hypothesis enc_len : forall iv p, al p -> length (fst (enc iv p)) = length p.
  Hypothesis enc_al : forall ts ms, al (encode ts ms) /\ (32 <= length (encode ts ms))%nat.
  (* okm ms: the list can be encoded and decoded back (for the RSCP instance: well-formed messages that fit one frame) *)
  Variable okm : list msg -> Prop.
  Hypothesis decodeP_enc : forall ts ms, okm ms -> decodeP (encode ts ms) = ms.
  Hypothesis V_whole : forall ts ms, okm ms -> ms <> [] -> V (encode ts ms) = Some (Some ms).
  Hypothesis V_prefix : forall ts ms n, okm ms -> (n < length (encode ts ms))%nat -> (n mod 32 = 0)%nat ->
                                        V (firstn n (encode ts ms)) = Some None.
  Hypothesis reply_okm : forall ms, okm (reply_of ms).
  Hypothesis deny_okm : forall ms, okm (deny_of ms).
  Hypothesis auth_okm : okm auth_req.
  Hypothesis reply_nonempty : forall ms, reply_of ms <> [].
  Hypothesis deny_nonempty : forall ms, deny_of ms <> [].
  Hypothesis auth_grants : auth_ok (reply_of auth_req) = true.
  Hypothesis auth_denies : auth_ok (deny_of auth_req) = false.
  Hypothesis auth_valid : valid_req auth_req = true.

  Variable maxlen : nat.
  Hypothesis enc_bound : forall ts ms, okm ms -> (length (encode ts ms) <= maxlen)%nat.

  (* a plaintext the receiver rejects exactly when it has read all of it: whole blocks, every shorter run of blocks is
     "incomplete", the whole is refused (a garbled header block; a frame with a wrong checksum; a frame with a malformed payload) *)
  Definition badg (g : list N) : Prop :=
    al g /\ g <> [] /\ (length g <= maxlen)%nat /\
    (forall n, (n < length g)%nat -> (n mod 32 = 0)%nat -> V (firstn n g) = Some None) /\ V g = None.

  (* per exchange, the peer ...                                                   what the client must do
     Answer         answers with reply_of request                                return that reply
     Refuse         answers with deny_of request                                 return that reply (authentication: fail, stay connected)
     Silent         does not answer                                              fail at the deadline, disconnect
     Late           answers after the client's deadline has passed                fail at the deadline, disconnect
     CloseBefore    closes the connection instead of answering                   fail, disconnect
     CloseInside n  sends the first n mod length bytes of the encrypted reply, then closes          fail, disconnect
     Bad g tail     sends the rejected plaintext g (encrypted) followed by tail (e.g. a stale, well-formed frame)    fail, disconnect *)
  Inductive behaviour := Answer | Refuse | Silent | Late | CloseBefore | CloseInside (n : nat) | Bad (g tail : list N).
  Record pstate := { p_enc : list N; p_dec : list N; inflight : list (list N); delayed : list (list N); closed : bool;
                     script : list behaviour; plog : list (list msg) }.
  Definition pts : Z * Z := (0%Z, 0%Z).            (* the peer's own timestamps do not matter *)
  Definition hd_b (p : pstate) : behaviour := match script p with [] => Answer | b :: _ => b end.
  Definition okb (b : behaviour) : Prop := match b with Bad g _ => badg g | _ => True end.

  Definition p_dial (p : pstate) : pstate * bool * Z :=
    ({| p_enc := iv0; p_dec := iv0; inflight := []; delayed := []; closed := false; script := script p; plog := plog p |}, true, 0%Z).

  Definition p_write (p : pstate) (ct : list N) : pstate * bool * Z :=
    let pt := decP (p_dec p) ct in
    let d' := decI (p_dec p) ct in
    let req := decodeP pt in
    let mk e i dl cl := {| p_enc := e; p_dec := d'; inflight := i; delayed := dl; closed := cl; script := tl (script p); plog := plog p ++ [req] |} in
    (match hd_b p with
     | Answer => let '(c, e') := enc (p_enc p) (encode pts (reply_of req)) in mk e' (inflight p ++ [c]) (delayed p) (closed p)
     | Refuse => let '(c, e') := enc (p_enc p) (encode pts (deny_of req)) in mk e' (inflight p ++ [c]) (delayed p) (closed p)
     | Silent => mk (p_enc p) (inflight p) (delayed p) (closed p)
     | Late => let '(c, e') := enc (p_enc p) (encode pts (reply_of req)) in mk e' (inflight p) (delayed p ++ [c]) (closed p)
     | CloseBefore => mk (p_enc p) (inflight p) (delayed p) true
     | CloseInside n => let '(c, e') := enc (p_enc p) (encode pts (reply_of req)) in
                        let k := (n mod length c)%nat in
                        mk e' (inflight p ++ (if (k =? 0)%nat then [] else [firstn k c])) (delayed p) true
     | Bad g tail => let '(c1, e1) := enc (p_enc p) g in let '(c2, e2) := enc e1 tail in
                     mk e2 (inflight p ++ [c1] ++ (if (length c2 =? 0)%nat then [] else [c2])) (delayed p) (closed p)
     end, true, 0%Z).

  Definition p_read (p : pstate) (n : nat) : pstate * rres * Z :=
    match inflight p with
    | u :: r =>
      if (length u <=? n)%nat
      then ({| p_enc := p_enc p; p_dec := p_dec p; inflight := r; delayed := delayed p; closed := closed p; script := script p; plog := plog p |}, RData u, 0%Z)
      else ({| p_enc := p_enc p; p_dec := p_dec p; inflight := skipn n u :: r; delayed := delayed p; closed := closed p; script := script p; plog := plog p |},
            RData (firstn n u), 0%Z)
    | [] => match delayed p with
            | [] => (p, if closed p then REOF else RTimeout, 0%Z)
            | dl => (* the late data arrives only after the waiting Read has timed out *)
                    ({| p_enc := p_enc p; p_dec := p_dec p; inflight := dl; delayed := []; closed := closed p; script := script p; plog := plog p |}, RTimeout, 0%Z)
            end
    end.

  Definition peer : envsm pstate :=
    {| on_dial := p_dial; on_write := p_write; on_read := p_read; on_close := fun p => p; on_now := fun p => (p, pts) |}.

  (* everything about the peer that reading data and closing leave alone *)
  Definition Rel (a b : pstate) : Prop :=
    p_enc a = p_enc b /\ p_dec a = p_dec b /\ closed a = closed b /\ script a = script b /\ plog a = plog b /\ delayed a = delayed b.
  Lemma Rel_refl e : Rel e e. Proof. repeat split. Qed.
  Lemma Rel_trans a b c : Rel a b -> Rel b c -> Rel a c.
  Proof. intros (A1 & A2 & A3 & A4 & A5 & A6) (B1 & B2 & B3 & B4 & B5 & B6). repeat split; congruence. Qed.
  Lemma Rel_close e : Rel e (on_close pstate peer e). Proof. repeat split. Qed.
  (* ... and what a Read that finds nothing leaves alone *)
  Definition Rel' (a b : pstate) : Prop :=
    p_enc a = p_enc b /\ p_dec a = p_dec b /\ closed a = closed b /\ script a = script b /\ plog a = plog b.
  Lemma Rel'_refl e : Rel' e e. Proof. repeat split. Qed.
  Lemma Rel'_trans a b c : Rel' a b -> Rel' b c -> Rel' a c.
  Proof. intros (A1 & A2 & A3 & A4 & A5) (B1 & B2 & B3 & B4 & B5). repeat split; congruence. Qed.
  Lemma Rel'_close e : Rel' e (on_close pstate peer e). Proof. repeat split. Qed.

  (* the peer's reads are a queue view of its inflight list *)
  Lemma peer_read_view : forall e n, match inflight e with
    | [] => True
    | p :: r => exists e', on_read pstate peer e n =
                  (e', RData (if (length p <=? n)%nat then p else firstn n p), 0%Z) /\
                inflight e' = (if (length p <=? n)%nat then r else skipn n p :: r) /\ Rel e e'
    end.
  Proof.
    intros e n. destruct (inflight e) as [|p r] eqn:Ei; [exact I|].
    cbn [on_read peer]. unfold p_read. rewrite Ei. destruct (length p <=? n)%nat; eexists; repeat split; reflexivity.
  Qed.
  Lemma peer_read_view' : forall e n, match inflight e with
    | [] => True
    | p :: r => exists e', on_read pstate peer e n =
                  (e', RData (if (length p <=? n)%nat then p else firstn n p), 0%Z) /\
                inflight e' = (if (length p <=? n)%nat then r else skipn n p :: r) /\ Rel' e e'
    end.
  Proof.
    intros e n. destruct (inflight e) as [|p r] eqn:Ei; [exact I|].
    cbn [on_read peer]. unfold p_read. rewrite Ei. destruct (length p <=? n)%nat; eexists; repeat split; reflexivity.
  Qed.
  Lemma peer_read_empty : forall e n, inflight e = [] ->
    exists e' r, on_read pstate peer e n = (e', r, 0%Z) /\ (r = REOF \/ r = RTimeout) /\ Rel' e e'.
  Proof.
    intros e n Ei. cbn [on_read peer]. unfold p_read. rewrite Ei. destruct (delayed e) as [|d dl].
    - eexists _, _. split; [reflexivity|]. split; [destruct (closed e); auto|apply Rel'_refl].
    - eexists _, _. split; [reflexivity|]. split; [auto|repeat split].
  Qed.

  (* a whole encrypted reply is "one reply" for the receive loop *)
  Lemma firstn_decP iv c n : (n mod 32 = 0)%nat -> (n <= length c)%nat -> decP iv (firstn n c) = firstn n (decP iv c).
  Proof.
    intros Hn Hle.
    assert (Hal : al (firstn n c)) by (unfold ClientReasm.al; rewrite firstn_length, Nat.min_l by exact Hle; exact Hn).
    pose proof (decP_app iv (firstn n c) (skipn n c) Hal) as H. rewrite firstn_skipn in H. rewrite H.
    assert (HL : length (decP iv (firstn n c)) = n) by (rewrite (decP_len iv (firstn n c) Hal), firstn_length; apply Nat.min_l; exact Hle).
    rewrite firstn_app, HL, Nat.sub_diag, firstn_O, app_nil_r.
    symmetry. apply firstn_all2. rewrite HL. apply le_n.
  Qed.

  Lemma reply_one iv ts ms : okm ms -> ms <> [] -> one_reply msg decP V iv (fst (enc iv (encode ts ms))).
  Proof.
    intros Hok Hms. destruct (enc_al ts ms) as [Ha Hl]. destruct (dec_enc iv (encode ts ms) Ha) as [Hp _].
    unfold one_reply. split; [unfold ClientReasm.al; rewrite enc_len by exact Ha; exact Ha|]. split.
    - intros n Hn Hm. rewrite enc_len in Hn by exact Ha. rewrite firstn_decP by (rewrite ?enc_len by exact Ha; lia || exact Hm).
      rewrite Hp. apply V_prefix; assumption.
    - rewrite Hp, V_whole by assumption. discriminate.
  Qed.

  Lemma garbage_one iv g : badg g -> one_reply msg decP V iv (fst (enc iv g)).
  Proof.
    intros (Ha & Hne & Hl & Hpre & Hv).
    destruct (dec_enc iv g Ha) as [Hp _].
    unfold one_reply. split; [unfold ClientReasm.al; rewrite enc_len by exact Ha; exact Ha|]. split.
    - intros n Hn Hm. rewrite enc_len in Hn by exact Ha. rewrite firstn_decP by (rewrite ?enc_len by exact Ha; lia || exact Hm).
      rewrite Hp. apply Hpre; assumption.
    - rewrite Hp, Hv. discriminate.
  Qed.

  Notation world := (world msg pstate).
  Notation send := (send msg encode enc valid_req send_to pstate peer).
  Notation recv_loop := (recv_loop msg decode_step dec rbuf pstate peer).
  Notation receive := (receive msg decode_step dec recv_to rbuf pstate peer).
  Notation disconnect := (disconnect msg pstate peer).

  (* in sync or closed (and the rest of the fault script is well-formed) *)
  Definition Sync (s : cstate) (w : world) : Prop :=
    Forall okb (script (est msg pstate w)) /\
    match cur msg pstate w with
    | Some _ => inflight (est msg pstate w) = [] /\ delayed (est msg pstate w) = [] /\ closed (est msg pstate w) = false /\
                eiv s = p_dec (est msg pstate w) /\ div s = p_enc (est msg pstate w)
    | None => authed s = false
    end.

  Lemma log_keeps' (w : world) l k : cur msg pstate (log msg pstate l k w) = cur msg pstate w /\
     est msg pstate (log msg pstate l k w) = est msg pstate w /\ clock msg pstate (log msg pstate l k w) = clock msg pstate w /\
     next msg pstate (log msg pstate l k w) = next msg pstate w.
  Proof. unfold Client.log. destruct (N.leb l (level msg pstate w)); cbn; auto. Qed.

  (* a successful write to the peer *)
  Lemma send_peer s w ms j : cur msg pstate w = Some j -> valid_req ms = true ->
    exists w' ct iv', enc (eiv s) (encode pts ms) = (ct, iv') /\
      send s w ms = ({| authed := authed s; eiv := iv'; div := div s |}, w', Ok _ tt) /\
      cur msg pstate w' = Some j /\ est msg pstate w' = fst (fst (p_write (est msg pstate w) ct)) /\
      clock msg pstate w' = clock msg pstate w /\ next msg pstate w' = next msg pstate w.
  Proof.
    intros Hc Hv. destruct to_pos as (_ & Hs & _). unfold Client.send. rewrite Hv, Hc. cbn [negb].
    destruct (log_keeps' w lDebug (LTree msg ms)) as (A1 & A2 & A3 & A4).
    set (w1 := log msg pstate lDebug (LTree msg ms) w) in *.
    cbn [on_now peer].
    destruct (enc (eiv s) (encode pts ms)) as [ct iv'] eqn:Ee.
    destruct (log_keeps' w1 lTrace (LDump msg (encode pts ms))) as (B1 & B2 & B3 & B4).
    set (w2 := log msg pstate lTrace (LDump msg (encode pts ms)) w1) in *.
    destruct (log_keeps' w2 lTrace (LDump msg ct)) as (C1 & C2 & C3 & C4).
    set (w3 := log msg pstate lTrace (LDump msg ct) w2) in *.
    cbn [on_write peer].
    assert (Hw : exists p', p_write (est msg pstate w1) ct = (p', true, 0%Z)).
    { unfold p_write. eexists. reflexivity. }
    destruct Hw as [p' Hw]. rewrite Hw.
    replace (dur 0%Z) with 0%Z by reflexivity.
    destruct (Z.leb_spec 0 send_to) as [_|]; [|lia]. cbn [andb].
    eexists _, ct, iv'. split; [reflexivity|]. split; [reflexivity|].
    cbn [cur est clock next Client.upd Client.emit]. rewrite Z.add_0_r.
    repeat split; try congruence.
    - rewrite <- A2, Hw. reflexivity.
  Qed.

  Notation loop_inv := (ClientReasm.loop_inv msg decP decI decP_app decI_app V rbuf rbuf_pos pstate peer inflight Rel Rel_trans Rel_close peer_read_view).
  Notation loop_short := (ClientShort.loop_short msg decP decI decP_app decI_app V rbuf rbuf_pos pstate peer inflight Rel' Rel'_trans Rel'_close peer_read_view' peer_read_empty).

  (* something done to the world between sending and receiving that only touches the log level *)
  Definition level_only (adj : world -> world) : Prop :=
    forall w, cur msg pstate (adj w) = cur msg pstate w /\ est msg pstate (adj w) = est msg pstate w /\
              clock msg pstate (adj w) = clock msg pstate w /\ next msg pstate (adj w) = next msg pstate w.

  (* what the call must return, by the behaviour the peer's script prescribes for this exchange *)
  Definition outcome (b : behaviour) (ms : list msg) (r : res (list msg)) : Prop :=
    match b with
    | Answer => r = Ok _ (reply_of ms)
    | Refuse => r = Ok _ (deny_of ms)
    | _ => exists x, r = Err _ x
    end.

  (* receiving on a connection on which exactly one complete reply is queued *)
  Lemma recv_reply fuel s1 (w2 : world) j c pe rep tail deadline :
    (maxlen < fuel)%nat -> okm rep -> rep <> [] -> c = fst (enc pe (encode pts rep)) ->
    cur msg pstate w2 = Some j -> inflight (est msg pstate w2) = [c] ++ tail -> (clock msg pstate w2 <= deadline)%Z -> div s1 = pe ->
    forall s' w' r, recv_loop fuel deadline [] [] s1 w2 = (s', w', r) ->
    r = Ok _ rep /\ s' = {| authed := authed s1; eiv := eiv s1; div := snd (enc pe (encode pts rep)) |} /\
    cur msg pstate w' = Some j /\ inflight (est msg pstate w') = tail /\ Rel (est msg pstate w2) (est msg pstate w').
  Proof.
    intros Hf Hok Hne Hc_c Hc2 Hq Hdl Hd s' w' r.
    destruct (enc_al pts rep) as [Harep Hlrep].
    assert (Hlen_c : length c = length (encode pts rep)) by (rewrite Hc_c; apply enc_len; exact Harep).
    assert (Hone : one_reply msg decP V pe c) by (rewrite Hc_c; apply reply_one; assumption).
    pose proof (loop_inv maxlen fuel [c] tail [] s1 pe c [] [] w2 deadline j
                  ltac:(cbn [concat]; rewrite app_nil_r, Hlen_c; apply enc_bound, Hok) Hf ltac:(cbn [concat app]; rewrite app_nil_r; reflexivity)
                  ltac:(constructor; [intro X; rewrite X in Hlen_c; cbn in Hlen_c; lia|constructor]) ltac:(discriminate) Hone Hc2 Hq Hdl
                  (est msg pstate w2) (Rel_refl _) eq_refl ltac:(cbn; rewrite decP_nil; reflexivity) ltac:(cbn; rewrite decI_nil; exact Hd)
                  ltac:(cbn [length]; lia)) as L.
    destruct (recv_loop fuel deadline [] [] s1 w2) as [[s2 w3] r2].
    destruct L as [Lf (Lrel & Lpost)].
    unfold ClientReasm.final in Lf.
    assert (HV : V (decP pe c) = Some (Some rep)) by (rewrite Hc_c, (proj1 (dec_enc pe (encode pts rep) Harep)); apply V_whole; assumption).
    rewrite HV in Lf; injection Lf as -> ->.
    intros [= <- <- <-]. destruct Lpost as [Lc Lq].
    split; [reflexivity|]. split; [rewrite Hc_c, (proj2 (dec_enc pe (encode pts rep) Harep)); reflexivity|]. auto.
  Qed.

  (* receiving when the peer's data ends with a rejected plaintext *)
  Lemma recv_bad fuel s1 (w2 : world) j c pe g tail deadline :
    (maxlen < fuel)%nat -> badg g -> c = fst (enc pe g) ->
    cur msg pstate w2 = Some j -> inflight (est msg pstate w2) = [c] ++ tail -> (clock msg pstate w2 <= deadline)%Z -> div s1 = pe ->
    forall s' w' r, recv_loop fuel deadline [] [] s1 w2 = (s', w', r) ->
    r = Err _ EProto /\ authed s' = false /\ cur msg pstate w' = None /\ Rel (est msg pstate w2) (est msg pstate w').
  Proof.
    intros Hf Hbad Hc_c Hc2 Hq Hdl Hd s' w' r.
    pose proof Hbad as (Hag & Hgne & Hgl & _ & Hvg).
    assert (Hlen_c : length c = length g) by (rewrite Hc_c; apply enc_len; exact Hag).
    assert (Hone : one_reply msg decP V pe c) by (rewrite Hc_c; apply garbage_one; assumption).
    assert (Hlpos : (0 < length g)%nat) by (destruct g; [congruence|cbn; lia]).
    pose proof (loop_inv maxlen fuel [c] tail [] s1 pe c [] [] w2 deadline j
                  ltac:(cbn [concat]; rewrite app_nil_r, Hlen_c; exact Hgl) Hf ltac:(cbn [concat app]; rewrite app_nil_r; reflexivity)
                  ltac:(constructor; [intro X; rewrite X in Hlen_c; cbn in Hlen_c; lia|constructor]) ltac:(discriminate) Hone Hc2 Hq Hdl
                  (est msg pstate w2) (Rel_refl _) eq_refl ltac:(cbn; rewrite decP_nil; reflexivity) ltac:(cbn; rewrite decI_nil; exact Hd)
                  ltac:(cbn [length]; lia)) as L.
    destruct (recv_loop fuel deadline [] [] s1 w2) as [[s2 w3] r2].
    destruct L as [Lf (Lrel & Lpost)]. unfold ClientReasm.final in Lf.
    assert (HV : V (decP pe c) = None) by (rewrite Hc_c, (proj1 (dec_enc pe g Hag)); exact Hvg).
    rewrite HV in Lf. injection Lf as -> ->. intros [= <- <- <-]. auto.
  Qed.

  (* receiving when only a proper prefix of the encrypted reply arrives (possibly nothing) *)
  Lemma recv_short fuel s1 (w2 : world) j c pe rep k deadline :
    (maxlen < fuel)%nat -> okm rep -> rep <> [] -> c = fst (enc pe (encode pts rep)) -> (k < length c)%nat ->
    cur msg pstate w2 = Some j -> inflight (est msg pstate w2) = (if (k =? 0)%nat then [] else [firstn k c]) ->
    (clock msg pstate w2 <= deadline)%Z -> div s1 = pe ->
    forall s' w' r, recv_loop fuel deadline [] [] s1 w2 = (s', w', r) ->
    r = Err _ EIO /\ authed s' = false /\ cur msg pstate w' = None /\ Rel' (est msg pstate w2) (est msg pstate w').
  Proof.
    intros Hf Hok Hne Hc_c Hk Hc2 Hq Hdl Hd s' w' r.
    destruct (enc_al pts rep) as [Harep Hlrep].
    assert (Hlen_c : length c = length (encode pts rep)) by (rewrite Hc_c; apply enc_len; exact Harep).
    assert (Hone : one_reply msg decP V pe c) by (rewrite Hc_c; apply reply_one; assumption).
    set (e := if (k =? 0)%nat then [] else [firstn k c]) in *.
    assert (Hcat : concat e = firstn k c).
    { unfold e. destruct (Nat.eqb_spec k 0) as [->|]; [reflexivity|]. cbn [concat]. apply app_nil_r. }
    assert (Hlk : length (firstn k c) = k) by (rewrite firstn_length; lia).
    pose proof (loop_short maxlen fuel e [] (firstn k c) s1 pe c [] [] w2 deadline j
                  ltac:(rewrite Hcat, Hlk; pose proof (enc_bound pts rep Hok); lia) Hf Hone Hcat ltac:(rewrite Hlk; reflexivity) ltac:(rewrite Hlk; exact Hk)
                  ltac:(unfold e; destruct (Nat.eqb_spec k 0); constructor; [|constructor]; intro X; apply (f_equal (@length N)) in X; rewrite Hlk in X; cbn in X; lia)
                  Hc2 Hq Hdl (est msg pstate w2) (Rel'_refl _) eq_refl ltac:(cbn; rewrite decP_nil; reflexivity) ltac:(cbn; rewrite decI_nil; exact Hd)) as L.
    destruct (recv_loop fuel deadline [] [] s1 w2) as [[s2 w3] r2].
    destruct L as (L1 & L2 & L3 & L4). intros [= <- <- <-]. auto.
  Qed.

  (* one exchange on a synchronised connection *)
  Lemma exchange (adj : world -> world) fuel s w ms j s' w' r : level_only adj ->
    Sync s w -> cur msg pstate w = Some j -> valid_req ms = true -> okm ms -> (maxlen < fuel)%nat ->
    (let '(s1, w1, r1) := send s w ms in
     match r1 with Err _ x => (s1, adj w1, Err _ x) | Ok _ _ => receive fuel s1 (adj w1) end) = (s', w', r) ->
    Sync s' w' /\ (authed s' = true -> authed s = true) /\
    plog (est msg pstate w') = plog (est msg pstate w) ++ [ms] /\
    script (est msg pstate w') = tl (script (est msg pstate w)) /\
    match r with Ok _ x => cur msg pstate w' = Some j /\ authed s' = authed s | Err _ x => cur msg pstate w' = None /\ (x = EIO \/ x = EProto) end /\
    outcome (hd_b (est msg pstate w)) ms r.
  Proof.
    intros Hadj HS Hc Hv Hok Hf. unfold Sync in HS. rewrite Hc in HS. destruct HS as (Hsc & Hin & Hdl0 & Hcl & He & Hd).
    destruct to_pos as (_ & _ & Hr).
    destruct (send_peer s w ms j Hc Hv) as (w1_ & ct & iv' & Ee & Es & Hc1_ & He1_ & Hk1_ & Hn1_). rewrite Es.
    set (w1 := adj w1_). destruct (Hadj w1_) as (K1 & K2 & K3 & K4). fold w1 in K1, K2, K3, K4.
    assert (Hc1 : cur msg pstate w1 = Some j) by congruence.
    assert (He1 : est msg pstate w1 = fst (fst (p_write (est msg pstate w) ct))) by congruence.
    assert (Hk1 : clock msg pstate w1 = clock msg pstate w) by congruence.
    clearbody w1. clear K1 K2 K3 K4 Hc1_ He1_ Hk1_ Hn1_ Es.
    set (s1 := {| authed := authed s; eiv := iv'; div := div s |}).
    (* what the peer did with the request *)
    destruct (enc_al pts ms) as [Hams _].
    assert (Hct : ct = fst (enc (eiv s) (encode pts ms))) by (rewrite Ee; reflexivity).
    assert (HdP : decP (p_dec (est msg pstate w)) ct = encode pts ms) by (rewrite <- He, Hct; apply dec_enc; exact Hams).
    assert (HdI : decI (p_dec (est msg pstate w)) ct = iv').
    { rewrite <- He, Hct. rewrite (proj2 (dec_enc (eiv s) (encode pts ms) Hams)), Ee. reflexivity. }
    unfold Client.receive. rewrite Hc1.
    set (w2 := emit msg pstate (EvSetRD msg j recv_to) w1).
    assert (Hw2 : cur msg pstate w2 = Some j /\ est msg pstate w2 = est msg pstate w1 /\ clock msg pstate w2 = clock msg pstate w1) by (repeat split; exact Hc1).
    destruct Hw2 as (Hc2 & He2 & Hk2).
    set (p := est msg pstate w) in *.
    assert (Hp' : est msg pstate w2 = fst (fst (p_write p ct))) by (rewrite He2; exact He1).
    unfold p_write in Hp'. rewrite HdP, HdI, decodeP_enc in Hp' by exact Hok.
    assert (Hdl : (clock msg pstate w2 <= clock msg pstate w1 + recv_to)%Z) by lia.
    assert (Hsc' : Forall okb (tl (script p))) by (destruct (script p); [constructor|inversion Hsc; assumption]).
    assert (Hokb : okb (hd_b p)) by (unfold hd_b; destruct (script p); [exact I|inversion Hsc; assumption]).
    assert (Hds1 : div s1 = p_enc p) by exact Hd.
    destruct (hd_b p) as [| | | | |n|g tail] eqn:Eb; unfold outcome.
    - (* the peer answers *)
      destruct (enc (p_enc p) (encode pts (reply_of ms))) as [c e'] eqn:Er; cbn [fst] in Hp'.
      assert (Hq : inflight (est msg pstate w2) = [c] ++ []) by (rewrite Hp'; cbn [inflight]; rewrite Hin; reflexivity).
      intro Hrun.
      destruct (recv_reply fuel s1 w2 j c (p_enc p) (reply_of ms) [] _ Hf (reply_okm ms) (reply_nonempty ms) ltac:(rewrite Er; reflexivity) Hc2 Hq Hdl Hds1 _ _ _ Hrun)
        as (-> & -> & Lc & Lq & (R1 & R2 & R3 & R4 & R5 & R6)).
      rewrite Hp' in R1, R2, R3, R4, R5, R6; cbn [p_enc p_dec closed script plog delayed] in R1, R2, R3, R4, R5, R6. rewrite Er. cbn [snd].
      split; [unfold Sync; rewrite Lc, <- R4; split; [exact Hsc'|]; cbn [eiv div s1]; repeat split; congruence|].
      split; [auto|]. split; [rewrite <- R5; reflexivity|]. split; [rewrite <- R4; reflexivity|]. split; [split; [exact Lc|reflexivity]|reflexivity].
    - (* the peer answers with a refusal *)
      destruct (enc (p_enc p) (encode pts (deny_of ms))) as [c e'] eqn:Er; cbn [fst] in Hp'.
      assert (Hq : inflight (est msg pstate w2) = [c] ++ []) by (rewrite Hp'; cbn [inflight]; rewrite Hin; reflexivity).
      intro Hrun.
      destruct (recv_reply fuel s1 w2 j c (p_enc p) (deny_of ms) [] _ Hf (deny_okm ms) (deny_nonempty ms) ltac:(rewrite Er; reflexivity) Hc2 Hq Hdl Hds1 _ _ _ Hrun)
        as (-> & -> & Lc & Lq & (R1 & R2 & R3 & R4 & R5 & R6)).
      rewrite Hp' in R1, R2, R3, R4, R5, R6; cbn [p_enc p_dec closed script plog delayed] in R1, R2, R3, R4, R5, R6. rewrite Er. cbn [snd].
      split; [unfold Sync; rewrite Lc, <- R4; split; [exact Hsc'|]; cbn [eiv div s1]; repeat split; congruence|].
      split; [auto|]. split; [rewrite <- R5; reflexivity|]. split; [rewrite <- R4; reflexivity|]. split; [split; [exact Lc|reflexivity]|reflexivity].
    - (* silent *)
      cbn [fst] in Hp'. destruct fuel as [|f]; [lia|]. cbn [Client.recv_loop]. rewrite Hc2.
      cbn [on_read peer]. unfold p_read. rewrite Hp'. cbn [inflight delayed closed]. rewrite Hin, Hdl0, Hcl.
      replace (dur 0%Z) with 0%Z by reflexivity. rewrite Z.add_0_r.
      destruct (Z.ltb_spec (clock msg pstate w1 + recv_to)%Z (clock msg pstate w2)) as [|_]; [lia|].
      unfold Client.disconnect. cbn [cur Client.upd].
      intros [= <- <- <-]. rewrite (proj1 (log_keeps' _ _ _)), (proj1 (proj2 (log_keeps' _ _ _))).
      cbn [cur est Client.upd on_close peer plog script]. unfold Sync. rewrite (proj1 (log_keeps' _ _ _)), (proj1 (proj2 (log_keeps' _ _ _))).
      cbn [cur est Client.upd unauth authed on_close peer script].
      repeat split; auto; try (cbn; discriminate). eexists; reflexivity.
    - (* late: the reply arrives after the Read has timed out, on a connection the client then closes *)
      destruct (enc (p_enc p) (encode pts (reply_of ms))) as [c e'] eqn:Er; cbn [fst] in Hp'.
      destruct fuel as [|f]; [lia|]. cbn [Client.recv_loop]. rewrite Hc2.
      cbn [on_read peer]. unfold p_read. rewrite Hp'. cbn [inflight delayed closed]. rewrite Hin, Hdl0. cbn [app].
      replace (dur 0%Z) with 0%Z by reflexivity. rewrite Z.add_0_r.
      destruct (Z.ltb_spec (clock msg pstate w1 + recv_to)%Z (clock msg pstate w2)) as [|_]; [lia|].
      unfold Client.disconnect. cbn [cur Client.upd].
      intros [= <- <- <-]. rewrite (proj1 (log_keeps' _ _ _)), (proj1 (proj2 (log_keeps' _ _ _))).
      cbn [cur est Client.upd on_close peer plog script]. unfold Sync. rewrite (proj1 (log_keeps' _ _ _)), (proj1 (proj2 (log_keeps' _ _ _))).
      cbn [cur est Client.upd unauth authed on_close peer script].
      repeat split; auto; try (cbn; discriminate). eexists; reflexivity.
    - (* closed before answering *)
      cbn [fst] in Hp'. destruct fuel as [|f]; [lia|]. cbn [Client.recv_loop]. rewrite Hc2.
      cbn [on_read peer]. unfold p_read. rewrite Hp'. cbn [inflight delayed closed]. rewrite Hin, Hdl0.
      replace (dur 0%Z) with 0%Z by reflexivity. rewrite Z.add_0_r.
      destruct (Z.ltb_spec (clock msg pstate w1 + recv_to)%Z (clock msg pstate w2)) as [|_]; [lia|].
      unfold Client.disconnect. cbn [cur Client.upd].
      intros [= <- <- <-]. rewrite (proj1 (log_keeps' _ _ _)), (proj1 (proj2 (log_keeps' _ _ _))).
      cbn [cur est Client.upd on_close peer plog script]. unfold Sync. rewrite (proj1 (log_keeps' _ _ _)), (proj1 (proj2 (log_keeps' _ _ _))).
      cbn [cur est Client.upd unauth authed on_close peer script].
      repeat split; auto; try (cbn; discriminate). eexists; reflexivity.
    - (* a proper prefix of the reply, then the connection is closed *)
      destruct (enc (p_enc p) (encode pts (reply_of ms))) as [c e'] eqn:Er; cbn [fst] in Hp'.
      destruct (enc_al pts (reply_of ms)) as [Harep Hlrep].
      assert (Hlen_c : length c = length (encode pts (reply_of ms))) by (replace c with (fst (enc (p_enc p) (encode pts (reply_of ms)))) by (rewrite Er; reflexivity); apply enc_len; exact Harep).
      assert (Hk : (n mod length c < length c)%nat) by (apply Nat.mod_upper_bound; lia).
      assert (Hq : inflight (est msg pstate w2) = (if (n mod length c =? 0)%nat then [] else [firstn (n mod length c) c])).
      { rewrite Hp'; cbn [inflight]; rewrite Hin; reflexivity. }
      intro Hrun.
      destruct (recv_short fuel s1 w2 j c (p_enc p) (reply_of ms) _ _ Hf (reply_okm ms) (reply_nonempty ms) ltac:(rewrite Er; reflexivity) Hk Hc2 Hq Hdl Hds1 _ _ _ Hrun)
        as (-> & La & Lc & (R1 & R2 & R3 & R4 & R5)).
      rewrite Hp' in R4, R5; cbn [script plog] in R4, R5.
      split; [unfold Sync; rewrite Lc, <- R4; split; [exact Hsc'|exact La]|].
      split; [rewrite La; discriminate|]. split; [rewrite <- R5; reflexivity|]. split; [rewrite <- R4; reflexivity|]. split; [auto|eexists; reflexivity].
    - (* a rejected plaintext, then whatever: protocol error, connection closed *)
      destruct (enc (p_enc p) g) as [c1 e1] eqn:E1. destruct (enc e1 tail) as [c2 e2] eqn:E2. cbn [fst] in Hp'.
      set (erest := if (length c2 =? 0)%nat then [] else [c2]) in *.
      assert (Hq : inflight (est msg pstate w2) = [c1] ++ erest) by (rewrite Hp'; cbn [inflight]; rewrite Hin; reflexivity).
      intro Hrun.
      destruct (recv_bad fuel s1 w2 j c1 (p_enc p) g erest _ Hf Hokb ltac:(rewrite E1; reflexivity) Hc2 Hq Hdl Hds1 _ _ _ Hrun)
        as (-> & La & Lc & (R1 & R2 & R3 & R4 & R5 & R6)).
      rewrite Hp' in R4, R5; cbn [script plog] in R4, R5.
      split; [unfold Sync; rewrite Lc, <- R4; split; [exact Hsc'|exact La]|].
      split; [rewrite La; discriminate|]. split; [rewrite <- R5; reflexivity|]. split; [rewrite <- R4; reflexivity|]. split; [auto|eexists; reflexivity].
  Qed.

  Notation connect := (connect msg iv0 conn_to pstate peer).
  Notation authenticate := (authenticate msg encode decode_step enc dec valid_req auth_req auth_ok send_to recv_to rbuf pstate peer).
  Notation send_multiple := (send_multiple msg encode decode_step enc dec iv0 valid_req auth_req auth_ok conn_to send_to recv_to rbuf pstate peer).

  Lemma send_invalid s w ms : valid_req ms = false -> send s w ms = (s, w, Err _ EValidate).
  Proof. intro H. unfold Client.send. rewrite H. reflexivity. Qed.

  Lemma id_level_only : level_only (fun w => w). Proof. intro w. auto. Qed.
  Lemma set_level_only l : level_only (set_level msg pstate l). Proof. intro w. auto. Qed.

  Definition one_of (l : list (list msg)) (ms : list msg) : Prop :=
    l = [] \/ l = [auth_req] \/ l = [ms] \/ l = [auth_req; ms].

  (* connecting to the peer always succeeds and yields a synchronised state *)
  Lemma connect_peer s w : Forall okb (script (est msg pstate w)) -> cur msg pstate w = None -> authed s = false ->
    exists s0 w0 j, connect s w = (s0, w0, Ok _ tt) /\ Sync s0 w0 /\ cur msg pstate w0 = Some j /\ authed s0 = false /\
                    plog (est msg pstate w0) = plog (est msg pstate w) /\ script (est msg pstate w0) = script (est msg pstate w).
  Proof.
    intros Hsc Hc Ha. destruct to_pos as (Hct & _ & _). unfold Client.connect.
    destruct (log_keeps' w lInfo (LText msg 1)) as (A1 & A2 & A3 & A4).
    set (w1 := log msg pstate lInfo (LText msg 1) w) in *.
    cbn [on_dial peer]. unfold p_dial. replace (dur 0%Z) with 0%Z by reflexivity.
    destruct (Z.leb_spec 0 conn_to) as [_|]; [|lia]. cbn [andb].
    eexists _, _, (next msg pstate w1). split; [reflexivity|].
    destruct (log_keeps' (upd msg pstate w1 (Some (next msg pstate w1)) (S (next msg pstate w1))
                {| p_enc := iv0; p_dec := iv0; inflight := []; delayed := []; closed := false; script := script (est msg pstate w1); plog := plog (est msg pstate w1) |}
                (clock msg pstate w1 + 0)%Z [EvDial msg (next msg pstate w1)]) lInfo (LText msg 2)) as (B1 & B2 & _ & _).
    unfold Sync. rewrite B1, B2. cbn [cur est Client.upd inflight delayed closed p_dec p_enc eiv div authed plog script].
    rewrite A2. repeat split; auto.
  Qed.

  (* Disconnect keeps the invariant, tells the peer nothing and leaves the client closed *)
  Lemma disconnect_sync s w s' w' : Sync s w -> disconnect s w = (s', w') ->
    Sync s' w' /\ cur msg pstate w' = None /\ authed s' = false /\
    plog (est msg pstate w') = plog (est msg pstate w) /\ script (est msg pstate w') = script (est msg pstate w).
  Proof using All.
    intros [Hsc HS]. unfold Client.disconnect. intros [= <- <-]. destruct (cur msg pstate w) as [j|] eqn:Ec.
    - unfold Sync. rewrite !(proj1 (log_keeps' _ _ _)), !(proj1 (proj2 (log_keeps' _ _ _))). cbn [cur est Client.upd on_close peer unauth authed].
      repeat split; auto.
    - unfold Sync. rewrite Ec. cbn [unauth authed]. repeat split; auto.
  Qed.

  (* the connection step of a call *)
  Lemma step_connect s w : Sync s w ->
    exists s0 w0 j, (match cur msg pstate w with None => connect s w | Some _ => (s, w, Ok _ tt) end) = (s0, w0, Ok _ tt) /\
       Sync s0 w0 /\ cur msg pstate w0 = Some j /\ plog (est msg pstate w0) = plog (est msg pstate w) /\
       script (est msg pstate w0) = script (est msg pstate w) /\ authed s0 = authed s.
  Proof.
    intro HS. destruct (cur msg pstate w) as [j|] eqn:Ec.
    - exists s, w, j. split; [reflexivity|]. split; [exact HS|]. repeat split; auto.
    - pose proof HS as [Hsc HS']. rewrite Ec in HS'.
      destruct (connect_peer s w Hsc Ec HS') as (s0 & w0 & j & A & B & C & D & F & G). exists s0, w0, j. split; [exact A|]. split; [exact B|]. repeat split; auto. congruence.
  Qed.

  (* the authentication step of a call, started on a synchronised connection *)
  Lemma step_auth fuel s0 w0 j s1 w1 r1 : Sync s0 w0 -> cur msg pstate w0 = Some j -> (maxlen < fuel)%nat ->
    authenticate fuel s0 w0 = (s1, w1, r1) ->
    Sync s1 w1 /\ plog (est msg pstate w1) = plog (est msg pstate w0) ++ [auth_req] /\
    script (est msg pstate w1) = tl (script (est msg pstate w0)) /\
    match r1 with
    | Ok _ _ => cur msg pstate w1 = Some j /\ authed s1 = true /\ hd_b (est msg pstate w0) = Answer
    | Err _ x => authed s1 = false /\ ((cur msg pstate w1 = None /\ (x = EIO \/ x = EProto)) \/ (x = EAuth /\ hd_b (est msg pstate w0) = Refuse /\ cur msg pstate w1 = Some j))
    end.
  Proof.
    intros HS0 Hc0 Hf. unfold Client.authenticate.
    set (org := level msg pstate w0).
    set (w0a := if org <? auth_level then set_level msg pstate (N.min org lInfo) (log msg pstate lInfo (LText msg 4) w0) else w0).
    assert (K0 : cur msg pstate w0a = Some j /\ est msg pstate w0a = est msg pstate w0).
    { unfold w0a. destruct (org <? auth_level); [cbn [cur est Client.set_level]; destruct (log_keeps' w0 lInfo (LText msg 4)) as (A1 & A2 & _); rewrite A1, A2|]; auto. }
    destruct K0 as [Kc Ke].
    assert (HS0a : Sync s0 w0a) by (unfold Sync in *; rewrite Kc, Ke; rewrite Hc0 in HS0; exact HS0).
    set (adj := fun w1 : world => if org <? auth_level then set_level msg pstate org w1 else w1).
    assert (Hadj : level_only adj) by (unfold adj; destruct (org <? auth_level); [apply set_level_only|apply id_level_only]).
    destruct (send s0 w0a auth_req) as [[sa wa] ra] eqn:Es1.
    fold (adj wa).
    destruct (match ra with Err _ x => (sa, adj wa, Err _ x) | Ok _ _ => receive fuel sa (adj wa) end) as [[s2 w2] r2] eqn:Ex.
    assert (Hex := exchange adj fuel s0 w0a auth_req j s2 w2 r2 Hadj HS0a Kc auth_valid auth_okm Hf).
    rewrite Es1 in Hex. specialize (Hex Ex). destruct Hex as (A & B & C & Dsc & D & O). rewrite Ke in C, Dsc, O.
    destruct ra as [u|x1].
    - rewrite Ex. destruct r2 as [x2|x2].
      + destruct D as [Hc2 Ha2].
        assert (Hx2 : (hd_b (est msg pstate w0) = Answer /\ x2 = reply_of auth_req) \/ (hd_b (est msg pstate w0) = Refuse /\ x2 = deny_of auth_req)).
        { unfold outcome in O. destruct (hd_b (est msg pstate w0)); try (destruct O as [? O]; discriminate O); injection O as ->; auto. }
        destruct Hx2 as [[Hb ->]|[Hb ->]].
        * rewrite auth_grants.
          set (w3 := log msg pstate lInfo (LText msg 5) (match cur msg pstate w2 with Some j0 => emit msg pstate (EvGranted msg j0) w2 | None => w2 end)).
          assert (K3 : cur msg pstate w3 = Some j /\ est msg pstate w3 = est msg pstate w2).
          { unfold w3. destruct (log_keeps' (match cur msg pstate w2 with Some j0 => emit msg pstate (EvGranted msg j0) w2 | None => w2 end) lInfo (LText msg 5)) as (A1 & A2 & _).
            rewrite A1, A2, Hc2. cbn [cur est Client.emit Client.upd]. auto. }
          destruct K3 as [K3c K3e].
          intros [= <- <- <-]. rewrite K3e. split; [unfold Sync in *; rewrite K3c, K3e; rewrite Hc2 in A; exact A|]. auto.
        * rewrite auth_denies. intros [= <- <- <-].
          split; [unfold Sync in *; rewrite Hc2 in *; exact A|]. split; [exact C|]. split; [exact Dsc|]. split; [reflexivity|]. right. auto.
      + intros [= <- <- <-]. destruct D as [Hc2 Hx]. split; [exact A|]. split; [exact C|]. split; [exact Dsc|].
        split; [|left; auto]. destruct A as [_ A]. rewrite Hc2 in A. exact A.
    - injection Ex as <- <- <-. intros [= <- <- <-]. destruct D as [Hc2 Hx]. split; [exact A|]. split; [exact C|]. split; [exact Dsc|].
      split; [|left; auto]. destruct A as [_ A]. rewrite Hc2 in A. exact A.
  Qed.

  (* C08 (pairing, at most once, in order) for one call *)
  Theorem call_spec fuel s w ms s' w' r :
    Sync s w -> (maxlen < fuel)%nat -> (valid_req ms = true -> okm ms) -> send_multiple fuel s w ms = (s', w', r) ->
    Sync s' w' /\
    (exists l, plog (est msg pstate w') = plog (est msg pstate w) ++ l /\ one_of l ms) /\
    (forall x, r = Ok _ x -> (x = reply_of ms \/ x = deny_of ms) /\
               exists l, plog (est msg pstate w') = plog (est msg pstate w) ++ l ++ [ms]) /\
    (forall x, r = Err _ x -> (cur msg pstate w' = None /\ (x = EIO \/ x = EProto)) \/ x = EValidate \/ (x = EAuth /\ authed s' = false)).
  Proof using All.
    intros HS Hf Hokm. unfold Client.send_multiple.
    destruct (step_connect s w HS) as (s0 & w0 & j & E0 & HS0 & Hc0 & Hl0 & Hsc0 & Ha0). rewrite E0.
    assert (Fin : forall sa wa l0, Sync sa wa -> cur msg pstate wa = Some j -> plog (est msg pstate wa) = plog (est msg pstate w) ++ l0 -> (l0 = [] \/ l0 = [auth_req]) ->
              (match send sa wa ms with (s2, w2, Err _ x) => (s2, w2, Err _ x) | (s2, w2, Ok _ _) => receive fuel s2 w2 end) = (s', w', r) ->
              Sync s' w' /\ (exists l, plog (est msg pstate w') = plog (est msg pstate w) ++ l /\ one_of l ms) /\
              (forall x, r = Ok _ x -> (x = reply_of ms \/ x = deny_of ms) /\ exists l, plog (est msg pstate w') = plog (est msg pstate w) ++ l ++ [ms]) /\
              (forall x, r = Err _ x -> (cur msg pstate w' = None /\ (x = EIO \/ x = EProto)) \/ x = EValidate \/ (x = EAuth /\ authed s' = false))).
    { intros sa wa l0 HSa Hca Hla Hl0' H. destruct (valid_req ms) eqn:Hv.
      - destruct (exchange (fun x => x) fuel sa wa ms j s' w' r id_level_only HSa Hca Hv (Hokm eq_refl) Hf) as (A & B & C & Dsc & D & O).
        { destruct (send sa wa ms) as [[sb wb] [u|x]]; exact H. }
        split; [exact A|]. split; [|split].
        + exists (l0 ++ [ms]). rewrite C, Hla, <- app_assoc. split; [reflexivity|]. destruct Hl0' as [->| ->]; unfold one_of; cbn [app]; auto.
        + intros x ->. split; [|exists l0; rewrite C, Hla, <- app_assoc; reflexivity].
          unfold outcome in O. destruct (hd_b (est msg pstate wa)); try (destruct O as [? O]; discriminate O); injection O as ->; auto.
        + intros x ->. left. exact D.
      - rewrite (send_invalid sa wa ms Hv) in H. injection H as <- <- <-. split; [exact HSa|]. split; [|split].
        + exists l0. split; [exact Hla|]. destruct Hl0' as [->| ->]; unfold one_of; auto.
        + intros x Hx. discriminate.
        + intros x [= <-]. auto. }
    destruct (authed s0) eqn:Ea.
    - apply (Fin s0 w0 []); auto. rewrite app_nil_r. exact Hl0.
    - destruct (authenticate fuel s0 w0) as [[s1 w1] r1] eqn:Eau.
      destruct (step_auth fuel s0 w0 j s1 w1 r1 HS0 Hc0 Hf Eau) as (A & C & Dsc & D).
      destruct r1 as [u|x1].
      + destruct D as (Hc1 & Ha1 & _). apply (Fin s1 w1 [auth_req]); auto. rewrite C, Hl0. reflexivity.
      + intros [= <- <- <-]. split; [exact A|]. split; [|split].
        * exists [auth_req]. rewrite C, Hl0. split; [reflexivity|]. unfold one_of; auto.
        * intros x Hx. discriminate.
        * intros x [= <-]. destruct D as [Ha1 [[Hc1 Hx]|(Hx & _ & _)]]; auto.
  Qed.

  Definition healthy (n : nat) (p : pstate) : Prop := firstn n (script p) = firstn n (repeat Answer n) \/ exists k, (k < n)%nat /\ script p = repeat Answer k.
  (* healthy n p: the peer answers at least the next n requests normally *)

  Lemma healthy_hd n p : healthy (S n) p -> hd_b p = Answer /\ forall p', script p' = tl (script p) -> healthy n p'.
  Proof.
    unfold healthy, hd_b. intros [H|[k [Hk H]]].
    - destruct (script p) as [|b sc]; [split; [reflexivity|]|].
      + intros p' ->. right. exists 0%nat. cbn. destruct n; [cbn in H; discriminate|split; [lia|reflexivity]].
      + cbn [firstn repeat] in H. injection H as -> H. split; [reflexivity|]. intros p' ->. left. exact H.
    - rewrite H. destruct k; cbn [repeat]; (split; [reflexivity|]); intros p' ->; cbn [tl].
      + destruct n.
        * left. reflexivity.
        * right. exists 0%nat. split; [lia|reflexivity].
      + right. exists k. split; [lia|reflexivity].
  Qed.

  (* C08 (recovery): whenever the client is not authenticated - after a timeout, a broken connection, a protocol error, a refused
     authentication or Disconnect - and the peer answers the next two requests, the call (re)connects where necessary,
     authenticates again and returns the reply to this very request *)
  Theorem recovery fuel s w ms s' w' r :
    Sync s w -> authed s = false -> (maxlen < fuel)%nat -> valid_req ms = true -> okm ms -> healthy 2 (est msg pstate w) ->
    send_multiple fuel s w ms = (s', w', r) ->
    r = Ok _ (reply_of ms) /\ plog (est msg pstate w') = plog (est msg pstate w) ++ [auth_req; ms] /\ Sync s' w' /\ authed s' = true.
  Proof using All.
    intros HS Ha Hf Hv Hokm Hh. unfold Client.send_multiple.
    destruct (step_connect s w HS) as (s0 & w0 & j & E0 & HS0 & Hc0 & Hl0 & Hsc0 & Ha0). rewrite E0, Ha0, Ha.
    destruct (authenticate fuel s0 w0) as [[s1 w1] r1] eqn:Eau.
    destruct (step_auth fuel s0 w0 j s1 w1 r1 HS0 Hc0 Hf Eau) as (A & C & Dsc & D).
    destruct (healthy_hd 1 (est msg pstate w) Hh) as [Hb Hh1].
    assert (Hb0 : hd_b (est msg pstate w0) = Answer) by (unfold hd_b in *; rewrite Hsc0; exact Hb).
    destruct r1 as [u|x1].
    2:{ exfalso. destruct D as [_ [[Hc1 _]|(_ & Hr & _)]]; [|congruence].
        (* a healthy exchange cannot fail: re-run the exchange lemma's outcome through step_auth's disjunction *)
        revert Eau. unfold Client.authenticate.
        set (org := level msg pstate w0).
        set (w0a := if org <? auth_level then set_level msg pstate (N.min org lInfo) (log msg pstate lInfo (LText msg 4) w0) else w0).
        assert (K0 : cur msg pstate w0a = Some j /\ est msg pstate w0a = est msg pstate w0).
        { unfold w0a. destruct (org <? auth_level); [cbn [cur est Client.set_level]; destruct (log_keeps' w0 lInfo (LText msg 4)) as (A1 & A2 & _); rewrite A1, A2|]; auto. }
        destruct K0 as [Kc Ke].
        assert (HS0a : Sync s0 w0a) by (unfold Sync in *; rewrite Kc, Ke; rewrite Hc0 in HS0; exact HS0).
        set (adj := fun w1 : world => if org <? auth_level then set_level msg pstate org w1 else w1).
        assert (Hadj : level_only adj) by (unfold adj; destruct (org <? auth_level); [apply set_level_only|apply id_level_only]).
        destruct (send s0 w0a auth_req) as [[sa wa] ra] eqn:Es1. fold (adj wa).
        destruct (match ra with Err _ x => (sa, adj wa, Err _ x) | Ok _ _ => receive fuel sa (adj wa) end) as [[s2 w2] r2] eqn:Ex.
        assert (Hex := exchange adj fuel s0 w0a auth_req j s2 w2 r2 Hadj HS0a Kc auth_valid auth_okm Hf).
        rewrite Es1 in Hex. specialize (Hex Ex). destruct Hex as (_ & _ & _ & _ & D' & O). rewrite Ke, Hb0 in O. unfold outcome in O. subst r2.
        destruct ra as [u|xa]; [|discriminate Ex]. rewrite Ex, auth_grants. discriminate. }
    destruct D as (Hc1 & Ha1 & _).
    assert (Hh1' : healthy 1 (est msg pstate w1)) by (apply Hh1; rewrite Dsc, Hsc0; reflexivity).
    destruct (healthy_hd 0 _ Hh1') as [Hb1 _].
    intro H.
    destruct (exchange (fun x => x) fuel s1 w1 ms j s' w' r id_level_only A Hc1 Hv Hokm Hf) as (A' & B' & C' & Dsc' & D' & O').
    { destruct (send s1 w1 ms) as [[sb wb] [u'|x']]; exact H. }
    rewrite Hb1 in O'. unfold outcome in O'. subst r. destruct D' as [_ D'].
    split; [reflexivity|]. split; [rewrite C', C, Hl0, <- app_assoc; reflexivity|]. split; [exact A'|congruence].
  Qed.

  (* ... and an authenticated client whose peer answers the next request gets exactly that answer, with nothing else sent *)
  Theorem steady fuel s w ms s' w' r :
    Sync s w -> authed s = true -> (maxlen < fuel)%nat -> valid_req ms = true -> okm ms -> healthy 1 (est msg pstate w) ->
    send_multiple fuel s w ms = (s', w', r) ->
    r = Ok _ (reply_of ms) /\ plog (est msg pstate w') = plog (est msg pstate w) ++ [ms] /\ Sync s' w' /\ authed s' = true.
  Proof using All.
    intros HS Ha Hf Hv Hokm Hh. unfold Client.send_multiple.
    destruct (cur msg pstate w) as [j|] eqn:Ec; [|destruct HS as [_ HS]; rewrite Ec in HS; congruence].
    rewrite Ha. intro H.
    destruct (exchange (fun x => x) fuel s w ms j s' w' r id_level_only HS Ec Hv Hokm Hf) as (A' & B' & C' & Dsc' & D' & O').
    { destruct (send s w ms) as [[sb wb] [u'|x']]; exact H. }
    destruct (healthy_hd 0 _ Hh) as [Hb _]. rewrite Hb in O'. unfold outcome in O'. subst r. destruct D' as [_ D'].
    split; [reflexivity|]. split; [exact C'|]. split; [exact A'|congruence].
  Qed.

  (* the same two theorems, saying in addition that exactly the answered exchanges were consumed from the peer's script
     (needed to chain calls: C15's split run) *)
  Theorem recovery_s fuel s w ms s' w' r :
    Sync s w -> authed s = false -> (maxlen < fuel)%nat -> valid_req ms = true -> okm ms -> healthy 2 (est msg pstate w) ->
    send_multiple fuel s w ms = (s', w', r) ->
    script (est msg pstate w') = tl (tl (script (est msg pstate w))).
  Proof using All.
    intros HS Ha Hf Hv Hokm Hh H.
    destruct (recovery fuel s w ms s' w' r HS Ha Hf Hv Hokm Hh H) as (Hr & _).
    revert H. unfold Client.send_multiple.
    destruct (step_connect s w HS) as (s0 & w0 & j & E0 & HS0 & Hc0 & Hl0 & Hsc0 & Ha0). rewrite E0, Ha0, Ha.
    destruct (authenticate fuel s0 w0) as [[s1 w1] r1] eqn:Eau.
    destruct (step_auth fuel s0 w0 j s1 w1 r1 HS0 Hc0 Hf Eau) as (A & C & Dsc & D).
    destruct r1 as [u|x1]; [|intros [= _ _ Hx]; rewrite Hr in Hx; discriminate].
    destruct D as (Hc1 & Ha1 & _). intro H.
    destruct (exchange (fun x => x) fuel s1 w1 ms j s' w' r id_level_only A Hc1 Hv Hokm Hf) as (A' & B' & C' & Dsc' & D' & O').
    { destruct (send s1 w1 ms) as [[sb wb] [u'|x']]; exact H. }
    rewrite Dsc', Dsc, Hsc0. reflexivity.
  Qed.

  Theorem steady_s fuel s w ms s' w' r :
    Sync s w -> authed s = true -> (maxlen < fuel)%nat -> valid_req ms = true -> okm ms ->
    send_multiple fuel s w ms = (s', w', r) ->
    script (est msg pstate w') = tl (script (est msg pstate w)).
  Proof using All.
    intros HS Ha Hf Hv Hokm. unfold Client.send_multiple.
    destruct (cur msg pstate w) as [j|] eqn:Ec; [|destruct HS as [_ HS]; rewrite Ec in HS; congruence].
    rewrite Ha. intro H.
    destruct (exchange (fun x => x) fuel s w ms j s' w' r id_level_only HS Ec Hv Hokm Hf) as (A' & B' & C' & Dsc' & D' & O').
    { destruct (send s w ms) as [[sb wb] [u'|x']]; exact H. }
    exact Dsc'.
  Qed.

  (* ---- whole histories of calls ---- *)
  Fixpoint run_res (s : cstate) (w : world) (cs : list (call msg)) : cstate * world * list (option (res (list msg))) :=
    match cs with
    | [] => (s, w, [])
    | CSend _ fuel ms :: cs' => let '(s1, w1, x) := send_multiple fuel s w ms in
                                let '(s2, w2, xs) := run_res s1 w1 cs' in (s2, w2, Some x :: xs)
    | CDisconnect _ :: cs' => let '(s1, w1) := disconnect s w in
                              let '(s2, w2, xs) := run_res s1 w1 cs' in (s2, w2, None :: xs)
    end.

  Lemma run_res_run s w cs : fst (run_res s w cs) = run msg encode decode_step enc dec iv0 valid_req auth_req auth_ok conn_to send_to recv_to rbuf pstate peer s w cs.
  Proof.
    revert s w; induction cs as [|[fuel ms|] cs IH]; intros s w; [reflexivity| |]; cbn [run_res run do_call].
    - destruct (send_multiple fuel s w ms) as [[s1 w1] x]. rewrite <- IH. destruct (run_res s1 w1 cs) as [[s2 w2] xs]. reflexivity.
    - destruct (disconnect s w) as [s1 w1]. rewrite <- IH. destruct (run_res s1 w1 cs) as [[s2 w2] xs]. reflexivity.
  Qed.

  Definition okc (c : call msg) : Prop :=
    match c with CSend _ fuel ms => (maxlen < fuel)%nat /\ (valid_req ms = true -> okm ms) | CDisconnect _ => True end.

  (* what one call contributed to the peer's log (l) and what it returned (r) *)
  Inductive paired : list (call msg) -> list (option (res (list msg))) -> list (list (list msg)) -> Prop :=
  | paired_nil : paired [] [] []
  | paired_disc cs rs ls : paired cs rs ls -> paired (CDisconnect _ :: cs) (None :: rs) ([] :: ls)
  | paired_send fuel ms r l cs rs ls : paired cs rs ls -> one_of l ms ->
      (forall x, r = Ok _ x -> (x = reply_of ms \/ x = deny_of ms) /\ exists l0, l = l0 ++ [ms]) ->
      paired (CSend _ fuel ms :: cs) (Some r :: rs) (l :: ls).

  (* C08 over every history of calls and every fault script: the peer's log is the concatenation, in call order, of what the
     single calls contributed - nothing, the authentication request, the request, or both (each request at most once) - and
     every successful call returned the reply the peer produced for that very request, which is the last thing it received *)
  Theorem history cs : forall s w, Sync s w -> Forall okc cs ->
    let '(s', w', rs) := run_res s w cs in
    Sync s' w' /\ exists ls, paired cs rs ls /\ plog (est msg pstate w') = plog (est msg pstate w) ++ concat ls.
  Proof using All.
    induction cs as [|[fuel ms|] cs IH]; intros s w HS Hok; cbn [run_res].
    - split; [exact HS|]. exists []. split; [constructor|]. cbn. rewrite app_nil_r. reflexivity.
    - inversion Hok as [|c0 cs0 Hc Hok']; subst. destruct Hc as [Hf Hm].
      destruct (send_multiple fuel s w ms) as [[s1 w1] x] eqn:Ec.
      destruct (call_spec fuel s w ms s1 w1 x HS Hf Hm Ec) as (A & (l & Hl & Ho) & Hx & _).
      specialize (IH s1 w1 A Hok'). destruct (run_res s1 w1 cs) as [[s2 w2] xs]. destruct IH as (A2 & ls & Hp & Hl2).
      split; [exact A2|]. exists (l :: ls). split.
      + constructor; [exact Hp|exact Ho|]. intros y Hy. destruct (Hx y Hy) as [H1 [l0 H2]]. split; [exact H1|]. exists l0.
        rewrite Hl in H2. apply app_inv_head in H2. exact H2.
      + rewrite Hl2, Hl. cbn [concat]. rewrite <- app_assoc. reflexivity.
    - inversion Hok as [|c0 cs0 _ Hok']; subst.
      destruct (disconnect s w) as [s1 w1] eqn:Ed.
      destruct (disconnect_sync s w s1 w1 HS Ed) as (A & _ & _ & Hl & _).
      specialize (IH s1 w1 A Hok'). destruct (run_res s1 w1 cs) as [[s2 w2] xs]. destruct IH as (A2 & ls & Hp & Hl2).
      split; [exact A2|]. exists ([] :: ls). split; [constructor; exact Hp|]. rewrite Hl2, Hl. reflexivity.
  Qed.
End Peer.
