(* The theorems of the unified client model, instantiated with the concrete RSCP instance of Session.v
   (frames, CRC, Rijndael-256/CBC, validation, the authentication request/verdict, the reactive scripted peer) -
   for EVERY configuration, EVERY script of peer reactions and EVERY sequence of calls. *)
From Coq Require Import List Arith NArith ZArith Lia Bool.
Import ListNotations.
Require Import Bytes CBC CBCInst Codec CodecProofs CRC Frame FrameProofs5 Rijndael RijP1 Cipher CipherProofs SCipher SCipherProofs Validate Vocab Config
               Client ClientInv ClientTime Wire WireProofs Session.
Local Open Scope N_scope.

Section Concrete.
  Variable c : scfg.
  Let ks := key_schedule (key_pad (s_key c)).
  Let encode := c_encode (s_crc c).
  Let auth := c_auth_req (s_user c) (s_pass c).
  Let ct := eff_to (s_conn_to c).
  Let st := eff_to (s_send_to c).
  Let rt := eff_to (s_recv_to c).
  Let rb := (32 * N.to_nat (eff_rbuf (s_rbuf c)))%nat.

  Definition crun := run message encode c_decode_step (s_enc ks) (s_dec ks) iv0 c_valid auth c_auth_ok ct st rt rb renv reactive.
  Definition csend_multiple := send_multiple message encode c_decode_step (s_enc ks) (s_dec ks) iv0 c_valid auth c_auth_ok ct st rt rb renv reactive.
  Definition to_call (x : scall) : call message :=
    match x with SSend ms => CSend message fuel_per_call ms | SDisc => CDisconnect message end.
  Definition env0 (conns : list (list reaction)) : renv := {| r_conns := conns; r_script := []; r_inflight := []; r_now := s_time c |}.

  (* the trace `session` prints is the trace of Client.run on the same calls *)
  Lemma sstep_run : forall cs s w rs,
    fst (fold_left (sstep c ks) cs (s, w, rs)) = crun s w (map to_call cs).
  Proof.
    induction cs as [|x cs IH]; intros s w rs; [reflexivity|].
    cbn [fold_left map]. specialize (IH).
    destruct x as [ms|]; cbn [to_call sstep].
    - unfold crun at 1. cbn [run do_call]. fold crun.
      unfold encode, auth, ct, st, rt, rb.
      destruct (send_multiple _ _ _ _ _ _ _ _ _ _ _ _ _ _ _ _ _ _ _) as [[s' w'] r]. apply IH.
    - unfold crun at 1. cbn [run do_call]. fold crun.
      destruct (disconnect message renv reactive s w) as [s' w']. apply IH.
  Qed.

  (* the trace `session` prints is the trace of Client.run on the same calls *)
  Lemma session_trace conns calls : s_attached c = false ->
    fst (session c conns calls) =
    rev (out message renv (snd (crun (init_state iv0) (init_world message renv (env0 conns) (s_level c)) (map to_call calls)))).
  Proof.
    intro Ha. unfold session. rewrite Ha. fold ks.
    pose proof (sstep_run calls (init_state iv0) (init_world message renv (env0 conns) (s_level c)) []) as G.
    unfold env0 in *.
    destruct (fold_left (sstep c ks) calls _) as [[sf wf] rsf]. cbn [fst snd] in *. rewrite <- G. reflexivity.
  Qed.

  Definition trace_of (conns : list (list reaction)) (calls : list scall) : list (event message) :=
    out message renv (snd (crun (init_state iv0) (init_world message renv (env0 conns) (s_level c)) (map to_call calls))).

  (* C06: on every connection j of every session the ciphertexts written are the CBC chain, from the all-0xFF IV, of the
     padded plaintext frames of exactly the message lists handed to send on that connection, in order *)
  Theorem C06_sessions conns calls j :
    exists tss, length tss = length (frames_on message j (trace_of conns calls)) /\
      writes_on message j (trace_of conns calls) =
      fst (chain (s_enc ks) iv0 (plains message encode tss (frames_on message j (trace_of conns calls)))).
  Proof. apply (ClientInv.C06_sessions message encode c_decode_step (s_enc ks) (s_dec ks) iv0 c_valid auth c_auth_ok ct st rt rb renv reactive). Qed.

  (* C09: a frame other than the authentication request is only ever sent on a connection on which a non-zero level was
     granted before, and the first frame of every connection is the authentication request *)
  Theorem C09_gate conns calls :
    gate message auth (trace_of conns calls) /\ forall j, first_ok message auth j (trace_of conns calls).
  Proof. apply (ClientInv.C09_gate message encode c_decode_step (s_enc ks) (s_dec ks) iv0 c_valid auth c_auth_ok ct st rt rb renv reactive). Qed.

  (* the effective timeouts are positive whatever the configuration says *)
  Lemma eff_to_pos t : (0 < eff_to t)%Z.
  Proof. unfold eff_to, Config.second. destruct (Z.leb_spec t 0); lia. Qed.
  Lemma eff_pos : (0 < ct /\ 0 < st /\ 0 < rt)%Z.
  Proof. unfold ct, st, rt. repeat split; apply eff_to_pos. Qed.

  (* C10: every call returns (or has reached, when the fuel runs out first) a clock within the configured budget *)
  Theorem C10_budget fuel s w ms s' w' r :
    csend_multiple fuel s w ms = (s', w', r) ->
    (clock message renv w <= clock message renv w' <= clock message renv w + budget message ct st rt renv s w)%Z.
  Proof. apply (ClientTime.C10_budget message encode c_decode_step (s_enc ks) (s_dec ks) iv0 c_valid auth c_auth_ok ct st rt rb renv reactive eff_pos). Qed.
End Concrete.

(* ---- a peer that implements just the scheme can decrypt: the chain of block-aligned plaintexts decrypts, from the same
        initial chain value, to their concatenation, and both sides end on the same chain value ---- *)
Section Decrypt.
  Variable key : list N.
  Hypothesis Bk : bytes_ok key.
  Let ks := key_schedule (key_pad key).
  Definition aligned_all (ps : list (list N)) : Prop := Forall (fun p => CBCInst.al p) ps.

  Lemma chain_decrypt : forall ps iv, aligned_all ps ->
    s_decP ks iv (concat (fst (chain (s_enc ks) iv ps))) = concat ps /\
    s_decI ks iv (concat (fst (chain (s_enc ks) iv ps))) = snd (chain (s_enc ks) iv ps) /\
    CBCInst.al (concat (fst (chain (s_enc ks) iv ps))).
  Proof.
    induction ps as [|p r IH]; intros iv Hal.
    - cbn. repeat split.
    - inversion Hal as [|? ? Hp Hr]; subst. cbn [chain].
      destruct (s_dec_enc (key_pad key) (key_pad_len key) (key_pad_bytes key Bk) iv p Hp) as (DE & DI). fold ks in DE, DI.
      pose proof (s_enc_len (key_pad key) (key_pad_len key) (key_pad_bytes key Bk) iv p Hp) as Lc. fold ks in Lc.
      destruct (s_enc ks iv p) as [ct iv1] eqn:Ee. cbn [fst snd] in *.
      destruct (IH iv1 Hr) as (I1 & I2 & I3).
      destruct (chain (s_enc ks) iv1 r) as [cts iv2] eqn:Ec. cbn [fst snd concat] in *.
      assert (Act : CBCInst.al ct) by (unfold CBCInst.al in *; rewrite Lc; exact Hp).
      pose proof (s_decP_app (key_pad key) iv ct (concat cts) Act) as PA. pose proof (s_decI_app (key_pad key) iv ct (concat cts) Act) as PI.
      fold ks in PA, PI. rewrite PA, PI, DE, DI, I1, I2. repeat split.
      unfold CBCInst.al in *. rewrite app_length, Nat.add_mod, Act, I3 by discriminate. reflexivity.
  Qed.
End Decrypt.
