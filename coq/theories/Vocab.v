(* Tag and data-type vocabulary: lookup functions over the GENERATED tables (gen/Tables.v, gen/Constants.v)
   and the JSON forms of tags and data types (tag_functions.go, tag_enumer.go, datatype_enumer.go). *)
From Coq Require Import List NArith String Bool Ascii.
Import ListNotations.
Require Import Constants Tables Dec Codec.
Local Open Scope N_scope.

Fixpoint assocN {A} (tbl : list (N * A)) (k : N) : option A :=
  match tbl with [] => None | (k', v) :: r => if k' =? k then Some v else assocN r k end.
Fixpoint assocS {A} (tbl : list (string * A)) (k : string) : option A :=
  match tbl with [] => None | (k', v) :: r => if String.eqb k' k then Some v else assocS r k end.

(* _TagMap / Tag.String / IsATag *)
Definition name_of_tag (t : N) : option string := assocN tag_names t.
Definition is_a_tag (t : N) : bool := match name_of_tag t with Some _ => true | None => false end.
(* _TagNameToValueMap / TagString *)
Definition tag_of_name (s : string) : option N := assocS name_values s.
(* dataTypeMap / Tag.DataType: a tag without an entry has data type None (0) *)
Definition tag_datatype (t : N) : N := match assocN tag_types t with Some d => d | None => 0 end.

(* request / response classification *)
Definition is_request (t : N) : bool := negb (N.testbit t TypeFlagBit).
Definition is_response (t : N) : bool := N.testbit t TypeFlagBit.

(* secret tags *)
Definition is_secret (t : N) : bool := existsb (N.eqb t) secret_tags.

(* strconv.ParseUint(s, 10, 32): a non-empty string of decimal digits whose value fits 32 bits *)
Definition parse_uint32 (s : string) : option N :=
  match s with
  | EmptyString => None
  | _ => match N_of_dec s with Some n => if n <? 4294967296 then Some n else None | None => None end
  end.

(* Tag.MarshalJSON: known tags by name, unknown ones as their decimal number, both inside a JSON string *)
Definition marshal_tag (t : N) : string :=
  match name_of_tag t with Some n => n | None => dec_of_N t end.
(* Tag.UnmarshalJSON on a JSON string *)
Definition unmarshal_tag (s : string) : option N :=
  match tag_of_name s with Some t => Some t | None => parse_uint32 s end.

(* DataType: String / DataTypeString / IsADataType / JSON *)
Definition name_of_dt (d : N) : option string := assocN data_types d.
Definition is_a_datatype (d : N) : bool := match name_of_dt d with Some _ => true | None => false end.
Definition dt_of_name (s : string) : option N :=
  (fix go (l : list (N * string)) := match l with [] => None | (d, n) :: r => if String.eqb n s then Some d else go r end) data_types.
Definition marshal_dt (d : N) : string :=
  match name_of_dt d with Some n => n | None => ("DataType(" ++ dec_of_N d ++ ")")%string end.
Definition unmarshal_dt (s : string) : option N := dt_of_name s.

(* ---- kinds: which Go representation a data type uses (codes shared with harness/cmd/translate) ---- *)
Definition kind_of_val (v : gval) : N :=
  match v with
  | GNil => 0 | GBool _ => 1 | GI8 _ => 2 | GU8 _ => 3 | GI16 _ => 4 | GU16 _ => 5 | GI32 _ => 6 | GU32 _ => 7
  | GI64 _ => 8 | GU64 _ => 9 | GF32 _ => 10 | GF64 _ => 11 | GStr _ => 12 | GBytes _ => 13 | GMsgs _ => 14
  | GTime _ _ => 15 | GErr _ => 16 | GOther _ => 17
  end.
(* the kind the MODEL's decoder produces for a data type (from Codec.dec_scalar / dec_items) *)
Definition model_kind (d : N) : option N :=
  if d =? 14 then Some 14 else
  match dec_scalar d (repeat 0 12) with Some v => Some (kind_of_val v) | None => None end.
Definition model_len (d : N) : N := match fixed_len d with Some k => k | None => 0 end.

Definition row_ok (r : N * bool * N * N * N * list N) : bool :=
  let '(d, isdef, len, ek, nk, vks) := r in
  Bool.eqb isdef (defined_dt d) && Bool.eqb isdef (is_a_datatype d) &&
  (if isdef then
     match model_kind d with
     | Some k => (ek =? k) && (nk =? k) && (match vks with [k'] => k' =? k | _ => false end) && (len =? model_len d)
     | None => false
     end
   else (len =? 0) && (match vks with [] => true | _ => false end)).

(* ---- exhaustive table checks, as boolean functions (closed by vm_compute in VocabProofs.v; the witness
        functions below return the offending entry for the replay when a check fails) ---- *)
Definition names_roundtrip_b : bool :=
  forallb (fun '(t, n) => match tag_of_name n with Some t' => t =? t' | None => false end) tag_names.
Definition tags_roundtrip_b : bool :=
  forallb (fun '(n, t) => match name_of_tag t with Some n' => String.eqb n n' | None => false end) name_values.
Definition strings_agree_b : bool :=
  forallb (fun '(t, n) => match name_of_tag t with Some n' => String.eqb n n' | None => false end) tag_strings.
Fixpoint eqb_listN (a b : list N) : bool :=
  match a, b with [], [] => true | x :: a', y :: b' => (x =? y) && eqb_listN a' b' | _, _ => false end.
Definition values_agree_b : bool :=
  eqb_listN tag_values (map fst tag_names) && eqb_listN (map snd name_values) (map fst tag_names).
Fixpoint strictly_ascending (l : list N) : bool :=
  match l with x :: ((y :: _) as r) => (x <? y) && strictly_ascending r | _ => true end.
Definition values_nodup_b : bool := strictly_ascending tag_values.
Definition tags_32bit_b : bool := forallb (fun '(t, _) => t <? 4294967296) tag_names.
Definition starts_with_digit (s : string) : bool :=
  match s with EmptyString => true | String c _ => let k := nat_of_ascii c in (Nat.leb 48 k) && (Nat.leb k 57) end.
Definition no_numeric_names_b : bool := forallb (fun '(n, _) => negb (starts_with_digit n)) name_values.
Definition types_defined_b : bool := forallb (fun '(t, d) => defined_dt d && is_a_tag t) tag_types.
Definition dt_roundtrip_b : bool :=
  forallb (fun '(d, n) => match dt_of_name n with Some d' => d =? d' | None => false end) data_types.
Definition rows_ok_b : bool := forallb row_ok dt_rows && (N.of_nat (List.length dt_rows) =? 256) &&
  eqb_listN (map (fun r => fst (fst (fst (fst (fst r))))) dt_rows) (map N.of_nat (seq 0 256)).

(* Tag.String / DataType.String *)
Definition tag_string (t : N) : string :=
  match name_of_tag t with Some n => n | None => ("Tag(" ++ dec_of_N t ++ ")")%string end.
Definition dt_string (d : N) : string := marshal_dt d.
(* Tag.UnmarshalJSON on a JSON integer literal *)
Definition unmarshal_tag_num (n : N) : option N := if n <? 4294967296 then Some n else None.
(* lengthMap lookup as DataType.length() does it: 0 for a type without an entry *)
Definition dt_length (d : N) : N := if defined_dt d then model_len d else 0.
