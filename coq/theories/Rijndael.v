
From Coq Require Import List NArith Lia.
Import ListNotations.
Require Export Bytes.
Local Open Scope N_scope.

Definition sbox_tab : list N := [99; 124; 119; 123; 242; 107; 111; 197; 48; 1; 103; 43; 254; 215; 171; 118; 202; 130; 201; 125; 250; 89; 71; 240; 173; 212; 162; 175; 156; 164; 114; 192; 183; 253; 147; 38; 54; 63; 247; 204; 52; 165; 229; 241; 113; 216; 49; 21; 4; 199; 35; 195; 24; 150; 5; 154; 7; 18; 128; 226; 235; 39; 178; 117; 9; 131; 44; 26; 27; 110; 90; 160; 82; 59; 214; 179; 41; 227; 47; 132; 83; 209; 0; 237; 32; 252; 177; 91; 106; 203; 190; 57; 74; 76; 88; 207; 208; 239; 170; 251; 67; 77; 51; 133; 69; 249; 2; 127; 80; 60; 159; 168; 81; 163; 64; 143; 146; 157; 56; 245; 188; 182; 218; 33; 16; 255; 243; 210; 205; 12; 19; 236; 95; 151; 68; 23; 196; 167; 126; 61; 100; 93; 25; 115; 96; 129; 79; 220; 34; 42; 144; 136; 70; 238; 184; 20; 222; 94; 11; 219; 224; 50; 58; 10; 73; 6; 36; 92; 194; 211; 172; 98; 145; 149; 228; 121; 231; 200; 55; 109; 141; 213; 78; 169; 108; 86; 244; 234; 101; 122; 174; 8; 186; 120; 37; 46; 28; 166; 180; 198; 232; 221; 116; 31; 75; 189; 139; 138; 112; 62; 181; 102; 72; 3; 246; 14; 97; 53; 87; 185; 134; 193; 29; 158; 225; 248; 152; 17; 105; 217; 142; 148; 155; 30; 135; 233; 206; 85; 40; 223; 140; 161; 137; 13; 191; 230; 66; 104; 65; 153; 45; 15; 176; 84; 187; 22]%N.
Definition isbox_tab : list N := [82; 9; 106; 213; 48; 54; 165; 56; 191; 64; 163; 158; 129; 243; 215; 251; 124; 227; 57; 130; 155; 47; 255; 135; 52; 142; 67; 68; 196; 222; 233; 203; 84; 123; 148; 50; 166; 194; 35; 61; 238; 76; 149; 11; 66; 250; 195; 78; 8; 46; 161; 102; 40; 217; 36; 178; 118; 91; 162; 73; 109; 139; 209; 37; 114; 248; 246; 100; 134; 104; 152; 22; 212; 164; 92; 204; 93; 101; 182; 146; 108; 112; 72; 80; 253; 237; 185; 218; 94; 21; 70; 87; 167; 141; 157; 132; 144; 216; 171; 0; 140; 188; 211; 10; 247; 228; 88; 5; 184; 179; 69; 6; 208; 44; 30; 143; 202; 63; 15; 2; 193; 175; 189; 3; 1; 19; 138; 107; 58; 145; 17; 65; 79; 103; 220; 234; 151; 242; 207; 206; 240; 180; 230; 115; 150; 172; 116; 34; 231; 173; 53; 133; 226; 249; 55; 232; 28; 117; 223; 110; 71; 241; 26; 113; 29; 41; 197; 137; 111; 183; 98; 14; 170; 24; 190; 27; 252; 86; 62; 75; 198; 210; 121; 32; 154; 219; 192; 254; 120; 205; 90; 244; 31; 221; 168; 51; 136; 7; 199; 49; 177; 18; 16; 89; 39; 128; 236; 95; 96; 81; 127; 169; 25; 181; 74; 13; 45; 229; 122; 159; 147; 201; 156; 239; 160; 224; 59; 77; 174; 42; 245; 176; 200; 235; 187; 60; 131; 83; 153; 97; 23; 43; 4; 126; 186; 119; 214; 38; 225; 105; 20; 99; 85; 33; 12; 125]%N.

Definition sbox (b : N) : N := nth (N.to_nat b) sbox_tab 0.
Definition isbox (b : N) : N := nth (N.to_nat b) isbox_tab 0.

Definition xtime (a : N) : N :=
  let a2 := N.shiftl a 1 in
  if N.testbit a 7 then N.lxor (N.land a2 255) 27 else a2.

(* multiplication by small constants in GF(2^8) *)
Definition m2 := xtime.
Definition m3 a := N.lxor (xtime a) a.
Definition m4 a := xtime (xtime a).
Definition m8 a := xtime (m4 a).
Definition m9 a := N.lxor (m8 a) a.
Definition m11 a := N.lxor (N.lxor (m8 a) (m2 a)) a.
Definition m13 a := N.lxor (N.lxor (m8 a) (m4 a)) a.
Definition m14 a := N.lxor (N.lxor (m8 a) (m4 a)) (m2 a).

Definition x4 (a b c d : N) := N.lxor (N.lxor a b) (N.lxor c d).

Fixpoint mix_columns (s : list N) : list N :=
  match s with
  | a :: b :: c :: d :: r =>
      x4 (m2 a) (m3 b) c d :: x4 a (m2 b) (m3 c) d ::
      x4 a b (m2 c) (m3 d) :: x4 (m3 a) b c (m2 d) :: mix_columns r
  | _ => []
  end.

Fixpoint inv_mix_columns (s : list N) : list N :=
  match s with
  | a :: b :: c :: d :: r =>
      x4 (m14 a) (m11 b) (m13 c) (m9 d) :: x4 (m9 a) (m14 b) (m11 c) (m13 d) ::
      x4 (m13 a) (m9 b) (m14 c) (m11 d) :: x4 (m11 a) (m13 b) (m9 c) (m14 d) :: inv_mix_columns r
  | _ => []
  end.

(* state index i = row + 4*col ; row r shifted by off(r) columns *)
Definition shift_off (r : nat) : nat := match r with 0 => 0 | 1 => 1 | 2 => 3 | _ => 4 end%nat.
Definition shift_rows (s : list N) : list N :=
  map (fun i => let r := Nat.modulo i 4 in let c := Nat.div i 4 in
                nth (r + 4 * Nat.modulo (c + shift_off r) 8)%nat s 0) (seq 0 32).
Definition inv_shift_rows (s : list N) : list N :=
  map (fun i => let r := Nat.modulo i 4 in let c := Nat.div i 4 in
                nth (r + 4 * Nat.modulo (c + 8 - shift_off r) 8)%nat s 0) (seq 0 32).


(* key schedule: words as 4-byte lists (big endian order = byte order in key) *)
Definition word := list N.
Definition sub_word (w : word) := map sbox w.
Definition rot_word (w : word) : word := match w with a :: r => r ++ [a] | [] => [] end.

Fixpoint chunks4 (l : list N) : list word :=
  match l with
  | a :: b :: c :: d :: r => [a; b; c; d] :: chunks4 r
  | _ => []
  end.

(* ws: words so far in reverse order (latest first) *)
Fixpoint expand (fuel : nat) (i : nat) (rc : N) (ws : list word) : list word :=
  match fuel with
  | O => ws
  | S f =>
      let prev := nth 0 ws [] in
      let back := nth 7 ws [] in
      let '(temp, rc') :=
        if Nat.eqb (Nat.modulo i 8) 0 then
          (xor_bytes (sub_word (rot_word prev)) [rc; 0; 0; 0], xtime rc)
        else if Nat.eqb (Nat.modulo i 8) 4 then (sub_word prev, rc)
        else (prev, rc) in
      expand f (S i) rc' (xor_bytes back temp :: ws)
  end.

Definition key_schedule (key : list N) : list N :=
  concat (rev (expand 112 8 1 (rev (chunks4 key)))).

Definition round_key (ks : list N) (r : nat) : list N := firstn 32 (skipn (32 * r) ks).

Fixpoint enc_rounds (ks : list N) (n : nat) (r : nat) (s : list N) : list N :=
  match n with
  | O => s
  | S n' => enc_rounds ks n' (S r)
              (xor_bytes (mix_columns (shift_rows (map sbox s))) (round_key ks r))
  end.

Definition encrypt_block (ks : list N) (b : list N) : list N :=
  let s := xor_bytes b (round_key ks 0) in
  let s := enc_rounds ks 13 1 s in
  xor_bytes (shift_rows (map sbox s)) (round_key ks 14).

Fixpoint dec_rounds (ks : list N) (n : nat) (s : list N) : list N :=
  match n with
  | O => s
  | S n' => dec_rounds ks n'
              (map isbox (inv_shift_rows (inv_mix_columns (xor_bytes s (round_key ks n)))))
  end.

Definition decrypt_block (ks : list N) (b : list N) : list N :=
  let s := xor_bytes b (round_key ks 14) in
  let s := map isbox (inv_shift_rows s) in
  let s := dec_rounds ks 13 s in
  xor_bytes s (round_key ks 0).

