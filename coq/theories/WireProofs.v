(* C01: what rscp.Write produces, rscp.Read returns - through the cipher, for single frames and for streams of
   frames on chained cipher states; and the chunked-delivery theorem of C03 lifted to ciphertexts. *)
From Coq Require Import List Arith NArith ZArith Lia Bool.
Import ListNotations.
Require Import Bytes CBC Codec CodecProofs CRC Frame FrameProofs FrameProofs5 Reader ReaderProofs
               Rijndael RijP1 Cipher CipherProofs Wire.
Local Open Scope N_scope.

Definition fits (ms : list message) : Prop := N.of_nat (length (enc_items ms)) < 65536.

Lemma frame_nonempty sec nsec crc ms : (0 < length (frame sec nsec crc ms))%nat.
Proof. unfold frame. destruct crc; rewrite !app_length, !le_length; lia. Qed.

Lemma plain_aligned crc sec nsec ms : aligned (model_plain crc sec nsec ms).
Proof.
  unfold model_plain. destruct (pad32_spec (frame sec nsec crc ms) (frame_nonempty sec nsec crc ms)) as (pd & _ & _ & A & B).
  split; assumption.
Qed.

Section Key.
  Variable key : list N.
  Hypothesis Bk : bytes_ok key.
  Let ks := key_schedule (key_pad key).

  Lemma kp_len : length (key_pad key) = 32%nat. Proof. apply key_pad_len. Qed.
  Lemma kp_ok : bytes_ok (key_pad key). Proof. apply key_pad_bytes, Bk. Qed.

  (* one frame: the ciphertext of Write, handed to Read in one piece on the matching chain, is accepted with exactly
     the messages written, and both chains end on the same block *)
  Theorem C01_roundtrip iv crc sec nsec ms :
    length iv = 32%nat -> Forall wf_msg ms -> fits ms ->
    exists st', model_read_step ks rinit iv (fst (model_write ks iv crc sec nsec ms))
                = (st', snd (model_write ks iv crc sec nsec ms), Accept ms)
                /\ length (snd (model_write ks iv crc sec nsec ms)) = 32%nat.
  Proof.
    intros Liv Hwf Hfit. unfold model_write, model_read_step.
    pose proof (plain_aligned crc sec nsec ms) as [A1 A2]. fold (model_plain crc sec nsec ms).
    set (p := model_plain crc sec nsec ms) in *.
    destruct (c_dec_enc (key_pad key) kp_len kp_ok iv p Liv A2) as (DE & Lc & Li). fold ks in DE, Lc, Li.
    rewrite Lc.
    destruct (length p <? 32)%nat eqn:E1; [apply Nat.ltb_lt in E1; lia|].
    rewrite A2. cbn [Nat.eqb negb orb].
    rewrite DE.
    pose proof (read_step_spec rinit [] p eq_refl (conj A1 A2)) as RS.
    destruct (read_step rinit p) as [st' v]. destruct RS as [Hv _]. cbn [app] in Hv.
    unfold p, model_plain in Hv. rewrite (C01_plain_roundtrip sec nsec crc ms Hwf Hfit) in Hv. subst v.
    exists st'. split; [reflexivity|exact Li].
  Qed.

  Definition frame_ok (f : wframe) : Prop := Forall wf_msg (w_ms f) /\ fits (w_ms f).

  (* every frame of a multi-frame stream written and read on one pair of chained cipher states *)
  Theorem C01_stream : forall fs iv, length iv = 32%nat -> Forall frame_ok fs ->
    read_stream ks iv (fst (write_stream ks iv fs)) = (map (fun f => Accept (w_ms f)) fs, snd (write_stream ks iv fs)).
  Proof.
    induction fs as [|f r IH]; intros iv Liv Hok; [reflexivity|].
    inversion Hok as [|? ? [Hwf Hfit] Hr]; subst.
    cbn [write_stream].
    destruct (C01_roundtrip iv (w_crc f) (w_sec f) (w_nsec f) (w_ms f) Liv Hwf Hfit) as (st' & RT & Li).
    destruct (model_write ks iv (w_crc f) (w_sec f) (w_nsec f) (w_ms f)) as [c iv1] eqn:EW. cbn [fst snd] in *.
    specialize (IH iv1 Li Hr).
    destruct (write_stream ks iv1 r) as [cs iv2] eqn:ES. cbn [fst snd] in *.
    cbn [read_stream]. rewrite RT, IH. reflexivity.
  Qed.
  (* ---- chunked delivery (C03, last sentence) at the level of ciphertext chunks ---- *)
  Fixpoint dec_chunks (iv : list N) (chunks : list (list N)) : list (list N) :=
    match chunks with [] => [] | c :: r => fst (c_dec ks iv c) :: dec_chunks (snd (c_dec ks iv c)) r end.

  Lemma aligned_al c : aligned c -> al c. Proof. intros [_ H]. exact H. Qed.

  Lemma model_feed_plain : forall chunks st iv, length iv = 32%nat -> Forall aligned chunks ->
    fst (model_feed ks st iv chunks) = feed st (dec_chunks iv chunks).
  Proof.
    induction chunks as [|c r IH]; intros st iv Liv Hal; [reflexivity|].
    inversion Hal as [|? ? Hc Hr]; subst. destruct Hc as [C1 C2].
    cbn [model_feed dec_chunks feed]. unfold model_read_step.
    destruct (length c <? 32)%nat eqn:E1; [apply Nat.ltb_lt in E1; lia|].
    rewrite C2. cbn [Nat.eqb negb orb].
    destruct (c_dec_len (key_pad key) kp_len kp_ok iv c Liv C2) as [_ Li]. fold ks in Li.
    destruct (c_dec ks iv c) as [p iv'] eqn:ED. cbn [fst snd] in *.
    destruct (read_step st p) as [st' v].
    destruct v; try reflexivity.
    specialize (IH st' iv' Li Hr). destruct (model_feed ks st' iv' r) as [vs ivf]. cbn [fst] in *. rewrite IH. reflexivity.
  Qed.

  Lemma dec_chunks_aligned : forall chunks iv, length iv = 32%nat -> Forall aligned chunks -> Forall aligned (dec_chunks iv chunks).
  Proof.
    induction chunks as [|c r IH]; intros iv Liv Hal; [constructor|].
    inversion Hal as [|? ? Hc Hr]; subst. destruct Hc as [C1 C2].
    destruct (c_dec_len (key_pad key) kp_len kp_ok iv c Liv C2) as [Lp Li]. fold ks in Lp, Li.
    cbn [dec_chunks]. constructor; [split; rewrite Lp; assumption|apply IH; assumption].
  Qed.

  Lemma concat_al chunks : Forall aligned chunks -> al (concat chunks).
  Proof.
    induction 1 as [|c r [_ C2] _ IH]; [reflexivity|]. unfold al in *. cbn [concat]. rewrite app_length.
    rewrite Nat.add_mod, C2, IH by discriminate. reflexivity.
  Qed.

  Lemma dec_chunks_concat : forall chunks iv, length iv = 32%nat -> Forall aligned chunks ->
    concat (dec_chunks iv chunks) = fst (c_dec ks iv (concat chunks)).
  Proof.
    induction chunks as [|c r IH]; intros iv Liv Hal; [reflexivity|].
    inversion Hal as [|? ? Hc Hr]; subst.
    cbn [dec_chunks concat].
    pose proof (c_dec_app (key_pad key) kp_len iv c (concat r) Liv (aligned_al c Hc) (concat_al r Hr)) as A. fold ks in A. rewrite A. cbn [fst].
    destruct (c_dec_len (key_pad key) kp_len kp_ok iv c Liv (aligned_al c Hc)) as [_ Li]. fold ks in Li.
    rewrite (IH _ Li Hr). reflexivity.
  Qed.

  (* delivering one ciphertext in block-aligned pieces yields 'incomplete' until the verdict of the plaintext received
     so far is something else, and that verdict is the one of decoding that much in one piece *)
  Theorem C03_chunks chunks iv : length iv = 32%nat -> Forall aligned chunks ->
    fst (model_feed ks rinit iv chunks) = cut (map decode_frame (prefixes [] (dec_chunks iv chunks)))
    /\ concat (dec_chunks iv chunks) = fst (c_dec ks iv (concat chunks)).
  Proof.
    intros Liv Hal. split; [|apply dec_chunks_concat; assumption].
    rewrite model_feed_plain by assumption. apply chunks_from_empty. apply dec_chunks_aligned; assumption.
  Qed.
End Key.
