(* byte-list helpers shared by the cipher models *)
From Coq Require Import List Arith NArith Lia Bool.
Import ListNotations.
Local Open Scope N_scope.

Fixpoint xor_bytes (a b : list N) : list N :=
  match a, b with
  | x :: a', y :: b' => N.lxor x y :: xor_bytes a' b'
  | _, _ => []
  end.

Lemma xor_bytes_length a b : length a = length b -> length (xor_bytes a b) = length a.
Proof. revert b; induction a as [|x a IH]; intros [|y b] H; cbn in *; try lia. rewrite IH; lia. Qed.

Lemma xor_bytes_invol a b : length a = length b -> xor_bytes (xor_bytes a b) b = a.
Proof.
  revert b; induction a as [|x a IH]; intros [|y b] H; cbn in *; try lia; [reflexivity|].
  rewrite IH by lia. f_equal. rewrite N.lxor_assoc, N.lxor_nilpotent, N.lxor_0_r. reflexivity.
Qed.

