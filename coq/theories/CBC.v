From Coq Require Import List Arith NArith Lia Bool.
Import ListNotations.
Require Export Bytes.
Local Open Scope N_scope.

Section CBC.
  Variables E D : list N -> list N.
  Hypothesis DE : forall b, length b = 32%nat -> D (E b) = b.
  Hypothesis Elen : forall b, length b = 32%nat -> length (E b) = 32%nat.

  (* n = number of blocks *)
  Fixpoint cbc_enc (n : nat) (iv data : list N) : list N * list N :=
    match n with
    | O => ([], iv)
    | S n' => let c := E (xor_bytes (firstn 32 data) iv) in
              let '(rest, iv') := cbc_enc n' c (skipn 32 data) in (c ++ rest, iv')
    end.
  Fixpoint cbc_dec (n : nat) (iv data : list N) : list N * list N :=
    match n with
    | O => ([], iv)
    | S n' => let c := firstn 32 data in
              let p := xor_bytes (D c) iv in
              let '(rest, iv') := cbc_dec n' c (skipn 32 data) in (p ++ rest, iv')
    end.

  Theorem cbc_dec_enc : forall n iv p, length iv = 32%nat -> length p = (32 * n)%nat ->
    cbc_dec n iv (fst (cbc_enc n iv p)) = (p, snd (cbc_enc n iv p)) /\
    length (fst (cbc_enc n iv p)) = (32 * n)%nat /\ length (snd (cbc_enc n iv p)) = 32%nat.
  Proof.
    induction n as [|n IH]; intros iv p Hiv Hp.
    - cbn. destruct p; [auto|cbn in Hp; lia].
    - cbn [cbc_enc].
      set (b := firstn 32 p). set (c := E (xor_bytes b iv)).
      assert (Hb : length b = 32%nat) by (unfold b; rewrite firstn_length; lia).
      assert (Hx : length (xor_bytes b iv) = 32%nat) by (rewrite xor_bytes_length; lia).
      assert (Hc : length c = 32%nat) by (apply Elen, Hx).
      assert (Hrest : length (skipn 32 p) = (32 * n)%nat) by (rewrite skipn_length; lia).
      destruct (IH c (skipn 32 p) Hc Hrest) as (IH1 & IH2 & IH3).
      destruct (cbc_enc n c (skipn 32 p)) as [rest iv'] eqn:Eenc. cbn [fst snd] in *.
      cbn [cbc_dec].
      rewrite firstn_app, Hc, Nat.sub_diag, firstn_O, app_nil_r, (firstn_all2 (n:=32)) by lia.
      rewrite skipn_app, Hc, Nat.sub_diag, (skipn_all2 (n:=32)) by lia. cbn [skipn app].
      rewrite IH1. replace (D c) with (xor_bytes b iv) by (unfold c; rewrite DE by exact Hx; reflexivity).
      rewrite xor_bytes_invol by lia.
      repeat split.
      + f_equal. unfold b. apply firstn_skipn.
      + rewrite app_length. lia.
      + exact IH3.
  Qed.
End CBC.

Print Assumptions cbc_dec_enc.
