From Coq Require Import List Arith NArith ZArith Lia Bool.
Import ListNotations.
Require Import Codec.
Local Open Scope N_scope.

(* C02: the fuel S (length bs) is always enough: more fuel never changes the answer (so None always means "rejected") *)
Theorem fuel_stable : forall f bs, (length bs < f)%nat -> forall k, dec_items (f + k) bs = dec_items f bs.
Proof.
  induction f as [|f IH]; intros bs Hl k; [lia|].
  cbn [Nat.add dec_items].
  destruct bs as [|b0 bs0] eqn:Ebs; [reflexivity|]. rewrite <- Ebs in *.
  destruct (length bs <? 7)%nat eqn:E7; [reflexivity|]. apply Nat.ltb_ge in E7.
  destruct (negb (defined_dt (nth 4 bs 0))); [reflexivity|].
  set (l := unle (firstn 2 (skipn 5 bs))).
  destruct (max_data <? l); [reflexivity|].
  destruct (match fixed_len (nth 4 bs 0) with Some k0 => negb (k0 =? l) | None => false end); [reflexivity|].
  destruct (N.ltb_spec (N.of_nat (length (skipn 7 bs))) l) as [|Hle]; [reflexivity|].
  assert (H1 : (length (firstn (N.to_nat l) (skipn 7 bs)) < f)%nat).
  { rewrite firstn_length, skipn_length. lia. }
  assert (H2 : (length (skipn (N.to_nat l) (skipn 7 bs)) < f)%nat).
  { rewrite !skipn_length. lia. }
  rewrite (IH _ H1 k), (IH _ H2 k). reflexivity.
Qed.

Corollary fuel_enough bs k : dec_items (S (length bs) + k) bs = dec_items (S (length bs)) bs.
Proof. apply fuel_stable. lia. Qed.
Print Assumptions fuel_enough.
