(* The CBC instance of the abstract cipher interface used by ClientReasm / PeerU *)
From Coq Require Import List Arith NArith Lia Bool.
Import ListNotations.
Require Import CBC.
Local Open Scope N_scope.

Section Inst.
  Variables E D : list N -> list N.
  Hypothesis DE : forall b, length b = 32%nat -> D (E b) = b.
  Hypothesis Elen : forall b, length b = 32%nat -> length (E b) = 32%nat.

  (* chains are always 32 bytes in reachable states; fix makes the functions total outside them *)
  Definition fix_iv (iv : list N) : list N := firstn 32 (iv ++ repeat 0 32).
  Lemma fix_iv_len iv : length (fix_iv iv) = 32%nat.
  Proof. unfold fix_iv. rewrite firstn_length, app_length, repeat_length. lia. Qed.
  Lemma fix_iv_id iv : length iv = 32%nat -> fix_iv iv = iv.
  Proof. intro H. unfold fix_iv. rewrite firstn_app, H, Nat.sub_diag, firstn_O, app_nil_r. apply firstn_all2. lia. Qed.

  Definition blocks (c : list N) : nat := (length c / 32)%nat.
  Definition al (c : list N) := (length c mod 32 = 0)%nat.

  Definition enc (iv p : list N) : list N * list N := cbc_enc E (blocks p) (fix_iv iv) p.
  Definition decP (iv c : list N) : list N := fst (cbc_dec D (blocks c) (fix_iv iv) c).
  Definition decI (iv c : list N) : list N := snd (cbc_dec D (blocks c) (fix_iv iv) c).

  Lemma al_len c : al c -> length c = (32 * blocks c)%nat.
  Proof. unfold al, blocks. intro H. pose proof (Nat.div_mod (length c) 32 ltac:(discriminate)). lia. Qed.

  Lemma dec_enc iv p : al p -> decP iv (fst (enc iv p)) = p /\ decI iv (fst (enc iv p)) = snd (enc iv p).
  Proof.
    intro Ha. unfold decP, decI, enc.
    destruct (cbc_dec_enc E D DE Elen (blocks p) (fix_iv iv) p (fix_iv_len iv) (al_len p Ha)) as (A & B & C).
    assert (Hb : blocks (fst (cbc_enc E (blocks p) (fix_iv iv) p)) = blocks p).
    { unfold blocks at 1. rewrite B. rewrite Nat.mul_comm, Nat.div_mul by discriminate. reflexivity. }
    rewrite Hb, A. split; reflexivity.
  Qed.

  Lemma enc_len iv p : al p -> length (fst (enc iv p)) = length p.
  Proof.
    intro Ha. unfold enc.
    destruct (cbc_dec_enc E D DE Elen (blocks p) (fix_iv iv) p (fix_iv_len iv) (al_len p Ha)) as (_ & B & _).
    rewrite B. symmetry. apply al_len, Ha.
  Qed.

  (* decryption of a concatenation: first part, then the rest chained from the last cipher block of the first *)
  Lemma cbc_dec_app : forall n1 n2 iv a b, length iv = 32%nat -> length a = (32 * n1)%nat ->
    cbc_dec D (n1 + n2) iv (a ++ b) =
      (fst (cbc_dec D n1 iv a) ++ fst (cbc_dec D n2 (snd (cbc_dec D n1 iv a)) b), snd (cbc_dec D n2 (snd (cbc_dec D n1 iv a)) b)).
  Proof.
    induction n1 as [|n1 IH]; intros n2 iv a b Hiv Ha.
    - destruct a; [|cbn in Ha; lia]. cbn [cbc_dec Nat.add app fst snd]. destruct (cbc_dec D n2 iv b); reflexivity.
    - cbn [Nat.add cbc_dec].
      assert (H32 : (32 <= length a)%nat) by lia.
      assert (F : firstn 32 (a ++ b) = firstn 32 a).
      { rewrite firstn_app. replace (32 - length a)%nat with 0%nat by lia. rewrite firstn_O, app_nil_r. reflexivity. }
      assert (S : skipn 32 (a ++ b) = skipn 32 a ++ b).
      { rewrite skipn_app. replace (32 - length a)%nat with 0%nat by lia. reflexivity. }
      rewrite F, S.
      assert (Hc : length (firstn 32 a) = 32%nat) by (rewrite firstn_length; lia).
      assert (Hr : length (skipn 32 a) = (32 * n1)%nat) by (rewrite skipn_length; lia).
      rewrite (IH n2 (firstn 32 a) (skipn 32 a) b Hc Hr).
      destruct (cbc_dec D n1 (firstn 32 a) (skipn 32 a)) as [p1 iv1]. cbn [fst snd].
      destruct (cbc_dec D n2 iv1 b) as [p2 iv2]. cbn [fst snd]. rewrite app_assoc. reflexivity.
  Qed.

  Lemma cbc_dec_iv_len : forall n iv c, length iv = 32%nat -> length c = (32 * n)%nat -> length (snd (cbc_dec D n iv c)) = 32%nat.
  Proof.
    induction n as [|n IH]; intros iv c Hiv Hc; [exact Hiv|].
    cbn [cbc_dec]. pose proof (IH (firstn 32 c) (skipn 32 c) ltac:(rewrite firstn_length; lia) ltac:(rewrite skipn_length; lia)) as H.
    destruct (cbc_dec D n (firstn 32 c) (skipn 32 c)). exact H.
  Qed.

  Lemma blocks_app a b : al a -> blocks (a ++ b) = (blocks a + blocks b)%nat.
  Proof.
    intro Ha. unfold blocks. rewrite app_length, (al_len a Ha). unfold blocks.
    rewrite (Nat.mul_comm 32), Nat.div_add_l by discriminate. rewrite Nat.div_mul by discriminate. reflexivity.
  Qed.

  Lemma decP_app iv a b : al a -> decP iv (a ++ b) = decP iv a ++ decP (decI iv a) b.
  Proof.
    intro Ha. unfold decP, decI. rewrite (blocks_app a b Ha).
    rewrite (cbc_dec_app (blocks a) (blocks b) (fix_iv iv) a b (fix_iv_len iv) (al_len a Ha)). cbn [fst].
    rewrite (fix_iv_id (snd (cbc_dec D (blocks a) (fix_iv iv) a))) by (apply cbc_dec_iv_len; [apply fix_iv_len|apply al_len, Ha]).
    reflexivity.
  Qed.
  Lemma decI_app iv a b : al a -> decI iv (a ++ b) = decI (decI iv a) b.
  Proof.
    intro Ha. unfold decI. rewrite (blocks_app a b Ha).
    rewrite (cbc_dec_app (blocks a) (blocks b) (fix_iv iv) a b (fix_iv_len iv) (al_len a Ha)). cbn [snd].
    rewrite (fix_iv_id (snd (cbc_dec D (blocks a) (fix_iv iv) a))) by (apply cbc_dec_iv_len; [apply fix_iv_len|apply al_len, Ha]).
    reflexivity.
  Qed.
  Lemma decP_nil iv : decP iv [] = []. Proof. reflexivity. Qed.
  Lemma decI_nil iv : length iv = 32%nat -> decI iv [] = iv. Proof. intro H. unfold decI. cbn. apply fix_iv_id, H. Qed.
End Inst.

Print Assumptions decP_app.
Print Assumptions dec_enc.
