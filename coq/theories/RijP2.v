From Coq Require Import List NArith Lia Bool.
Import ListNotations.
Require Import Rijndael RijP1.
Local Open Scope N_scope.

Lemma inv_mix_column a b c d : byte a -> byte b -> byte c -> byte d ->
  inv_mix_columns (mix_columns [a; b; c; d]) = [a; b; c; d].
Proof.
  intros Ha Hb Hc Hd. cbn [mix_columns inv_mix_columns].
  pose proof (m2_byte a Ha). pose proof (m2_byte b Hb). pose proof (m2_byte c Hc). pose proof (m2_byte d Hd).
  pose proof (m3_byte a Ha). pose proof (m3_byte b Hb). pose proof (m3_byte c Hc). pose proof (m3_byte d Hd).
  Opaque m2 m3 m9 m11 m13 m14 x4.
  Time rewrite !(lin_x4 m14 m14_lin) by assumption.
  Time rewrite !(lin_x4 m11 m11_lin) by assumption.
  Time rewrite !(lin_x4 m13 m13_lin), !(lin_x4 m9 m9_lin) by assumption.
  repeat f_equal; rewrite x4_transpose.
  - rewrite row0_a, row0_b, row0_c, row0_d by assumption. apply x4_a000.
  - rewrite row1_a, row1_b, row1_c, row1_d by assumption. apply x4_0b00.
  - rewrite row2_a, row2_b, row2_c, row2_d by assumption. apply x4_00c0.
  - rewrite row3_a, row3_b, row3_c, row3_d by assumption. apply x4_000d.
Qed.
