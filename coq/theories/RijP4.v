From Coq Require Import List Arith NArith Lia Bool.
Import ListNotations.
Require Import Rijndael RijP1 RijP2 RijP3.
Local Open Scope N_scope.

Definition gword (w : list N) := length w = 4%nat /\ bytes_ok w.

Lemma gword_sub w : gword w -> gword (sub_word w).
Proof. intros [L B]. split; [unfold sub_word; rewrite map_length; exact L|apply bytes_map_sbox; exact B]. Qed.
Lemma gword_rot w : gword w -> gword (rot_word w).
Proof.
  intros [L B]. destruct w as [|a r]; [discriminate|]. cbn [rot_word]. split.
  - rewrite app_length. cbn in *. lia.
  - inversion B; subst. apply Forall_app; split; [assumption|constructor; [assumption|constructor]].
Qed.
Lemma gword_xor a b : gword a -> gword b -> gword (xor_bytes a b).
Proof. intros [La Ba] [Lb Bb]. split; [rewrite xor_bytes_len by (rewrite La, Lb; reflexivity); exact La|apply xor_bytes_ok; assumption]. Qed.

Lemma expand_good : forall fuel i rc ws, byte rc -> Forall gword ws -> (8 <= length ws)%nat ->
  Forall gword (expand fuel i rc ws) /\ length (expand fuel i rc ws) = (length ws + fuel)%nat.
Proof.
  induction fuel as [|f IH]; intros i rc ws Hrc Hws Hl; [cbn [expand]; split; [exact Hws|rewrite Nat.add_0_r; reflexivity]|].
  cbn [expand].
  assert (Gp : gword (nth 0 ws [])).
  { apply (proj1 (Forall_forall _ _) Hws). apply nth_In. lia. }
  assert (Gb : gword (nth 7 ws [])).
  { apply (proj1 (Forall_forall _ _) Hws). apply nth_In. lia. }
  assert (Grc : gword [rc; 0; 0; 0]).
  { split; [reflexivity|]. repeat constructor; try exact Hrc; reflexivity. }
  destruct (Nat.eqb (Nat.modulo i 8) 0); [|destruct (Nat.eqb (Nat.modulo i 8) 4)]; cbv beta iota zeta.
  - destruct (IH (S i) (xtime rc) (xor_bytes (nth 7 ws []) (xor_bytes (sub_word (rot_word (nth 0 ws []))) [rc; 0; 0; 0]) :: ws)) as [A B].
    + apply xtime_byte; exact Hrc.
    + constructor; [|exact Hws]. apply gword_xor; [exact Gb|]. apply gword_xor; [|exact Grc]. apply gword_sub, gword_rot; exact Gp.
    + cbn [length]. lia.
    + split; [exact A|]. etransitivity; [exact B|]. cbn [length]. lia.
  - destruct (IH (S i) rc (xor_bytes (nth 7 ws []) (sub_word (nth 0 ws [])) :: ws)) as [A B]; try assumption.
    + constructor; [|exact Hws]. apply gword_xor; [exact Gb|apply gword_sub; exact Gp].
    + cbn [length]. lia.
    + split; [exact A|]. etransitivity; [exact B|]. cbn [length]. lia.
  - destruct (IH (S i) rc (xor_bytes (nth 7 ws []) (nth 0 ws []) :: ws)) as [A B]; try assumption.
    + constructor; [|exact Hws]. apply gword_xor; assumption.
    + cbn [length]. lia.
    + split; [exact A|]. etransitivity; [exact B|]. cbn [length]. lia.
Qed.

Lemma chunks4_good : forall n key, length key = (4 * n)%nat -> bytes_ok key ->
  Forall gword (chunks4 key) /\ length (chunks4 key) = n.
Proof.
  induction n as [|n IH]; intros key L B.
  - destruct key; [cbn; split; [constructor|reflexivity]|discriminate].
  - do 4 (destruct key as [|? key]; [cbn in L; lia|]).
    inversion B as [|? ? B0 Hb1]; subst. inversion Hb1 as [|? ? B1 Hb2]; subst.
    inversion Hb2 as [|? ? B2 Hb3]; subst. inversion Hb3 as [|? ? B3 Hb4]; subst.
    destruct (IH key ltac:(cbn in L; lia) Hb4) as [A C]. cbn [chunks4]. split.
    + constructor; [|exact A]. split; [reflexivity|repeat constructor; assumption].
    + cbn [length]. rewrite C. reflexivity.
Qed.

Lemma concat_good : forall ws, Forall gword ws -> length (concat ws) = (4 * length ws)%nat /\ bytes_ok (concat ws).
Proof.
  induction 1 as [|w ws [L B] _ [IL IB]]; [cbn; split; [reflexivity|constructor]|].
  cbn [concat length]. split; [rewrite app_length, L, IL; lia|apply Forall_app; split; assumption].
Qed.

Theorem key_schedule_good key : length key = 32%nat -> bytes_ok key -> good_ks (key_schedule key).
Proof.
  intros L B. unfold key_schedule, good_ks.
  destruct (chunks4_good 8 key L B) as [C1 C2].
  assert (R1 : Forall gword (rev (chunks4 key))) by (apply Forall_rev; exact C1).
  destruct (expand_good 112 8 1 (rev (chunks4 key)) ltac:(reflexivity) R1 ltac:(rewrite rev_length, C2; lia)) as [E1 E2].
  rewrite rev_length, C2 in E2.
  destruct (concat_good (rev (expand 112 8 1 (rev (chunks4 key)))) ltac:(apply Forall_rev; exact E1)) as [K1 K2].
  rewrite rev_length, E2 in K1. split; [exact K1|exact K2].
Qed.

(* the block cipher instance satisfies the premise cipher_ok of the generic theorems *)
Theorem rijndael_cipher_ok key b : length key = 32%nat -> bytes_ok key -> length b = 32%nat -> bytes_ok b ->
  decrypt_block (key_schedule key) (encrypt_block (key_schedule key) b) = b.
Proof. intros. apply decrypt_encrypt_block; [apply key_schedule_good; assumption|split; assumption]. Qed.

Print Assumptions rijndael_cipher_ok.
