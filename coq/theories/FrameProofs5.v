From Coq Require Import List NArith ZArith Lia Bool ZifyN ZifyNat.
Import ListNotations.
Require Import Codec CodecProofs CRC Frame FrameProofs FrameProofs2 FrameProofs3 FrameProofs4.
Local Open Scope N_scope.

Lemma bok_le k n : bok (le k n).
Proof.
  revert n; induction k as [|k IH]; intro n; [constructor|].
  cbn [le]. constructor; [apply N.mod_lt; discriminate|apply IH].
Qed.

Lemma bok_app a b : bok a -> bok b -> bok (a ++ b).
Proof. intros Ha Hb. apply Forall_app; split; assumption. Qed.

Lemma bok_enc : forall fuel ms, (length (enc_items ms) < fuel)%nat -> Forall wf_msg ms -> bok (enc_items ms).
Proof.
  induction fuel as [|f IH]; intros ms Hl Hwf; [lia|].
  destruct ms as [|[tag dt v] ms]; [constructor|].
  inversion Hwf as [|? ? Hm Hrest]; subst. cbn [wf_msg] in Hm. destruct Hm as [Htag Hv].
  unfold enc_items in *. cbn [flat_map enc_msg] in *.
  rewrite !app_length, !le_length in Hl. cbn [length] in Hl.
  repeat apply bok_app; try apply bok_le.
  - constructor; [|constructor].
    destruct v; wf_inv Hv; lia.
  - destruct v; wf_inv Hv; cbn [enc_val]; repeat apply bok_app; try apply bok_le; try assumption; try (constructor; fail).
    + constructor; [destruct b; lia|constructor].
    + apply IH; [cbn [enc_val] in Hl; lia|]. apply wf_all_iff. assumption.
  - apply IH; [lia|assumption].
Qed.

Lemma enc_items_rel ms : Forall wf_msg ms -> items_rel (enc_items ms) ms.
Proof.
  intro H. apply (dec_items_sound (S (length (enc_items ms)))).
  - apply (bok_enc (S (length (enc_items ms)))); [lia|exact H].
  - apply dec_enc_items; [exact H|lia].
Qed.

Lemma all_zero_repeat n : all_zero (repeat 0 n) = true.
Proof. induction n; [reflexivity|cbn; exact IHn]. Qed.

Lemma pad32_spec p : (0 < length p)%nat ->
  exists padding, pad32 p = p ++ padding /\ all_zero padding = true /\
                  (32 <= length (pad32 p))%nat /\ (length (pad32 p) mod 32 = 0)%nat.
Proof.
  intro Hp. unfold pad32.
  destruct (Nat.eqb_spec (length p mod 32) 0) as [E|E].
  - exists []. rewrite app_nil_r. repeat split; [|exact E].
    pose proof (Nat.div_mod (length p) 32). lia.
  - exists (repeat 0 (32 - length p mod 32)). repeat split.
    + apply all_zero_repeat.
    + rewrite app_length, repeat_length. pose proof (Nat.mod_upper_bound (length p) 32). lia.
    + rewrite app_length, repeat_length.
      pose proof (Nat.mod_upper_bound (length p) 32).
      pose proof (Nat.div_mod (length p) 32).
      replace (length p + (32 - length p mod 32))%nat with ((length p / 32 + 1) * 32)%nat by lia.
      apply Nat.mod_mul. discriminate.
Qed.

Theorem frame_wellformed sec nsec crc ms :
  Forall wf_msg ms -> N.of_nat (length (enc_items ms)) < 65536 ->
  WellFormed (pad32 (frame sec nsec crc ms)) ms.
Proof.
  intros Hwf Hsz.
  set (body := enc_items ms).
  set (c := ctrl_word crc).
  set (ts := le 8 (twos 64 sec) ++ le 4 (twos 32 nsec)).
  set (pre := le 2 magic ++ le 2 c ++ ts ++ le 2 (N.of_nat (length body)) ++ body).
  set (trailer := if crc then le 4 (crc32 pre) else []).
  assert (Hf : frame sec nsec crc ms = pre ++ trailer).
  { unfold frame, pre, trailer, ts, c, body. rewrite <- !app_assoc. destruct crc; [reflexivity|rewrite app_nil_r; reflexivity]. }
  assert (Hpos : (0 < length (frame sec nsec crc ms))%nat).
  { rewrite Hf. subst pre. rewrite app_length. rewrite (app_length (le 2 magic)). rewrite le_length. lia. }
  destruct (pad32_spec (frame sec nsec crc ms) Hpos) as (padding & Hpad & Hz & Hlen & Hmod).
  exists c, ts, body, trailer, padding.
  assert (Hcrcbit : (N.land c crc_bit =? 0) = negb crc) by (unfold c; destruct crc; reflexivity).
  split. { rewrite Hpad, Hf. unfold pre. rewrite <- !app_assoc. reflexivity. }
  split. { unfold c. destruct crc; reflexivity. }
  split. { unfold c. destruct crc; reflexivity. }
  split. { unfold c. destruct crc; reflexivity. }
  split. { unfold ts. rewrite app_length, !le_length. reflexivity. }
  split. { exact Hsz. }
  split. { apply enc_items_rel. exact Hwf. }
  split. { rewrite Hcrcbit. unfold trailer. destruct crc; reflexivity. }
  split. { exact Hz. }
  split; assumption.
Qed.

Lemma bok_repeat0 n : bok (repeat 0 n).
Proof. induction n; constructor; [lia|assumption]. Qed.

Theorem C01_plain_roundtrip sec nsec crc ms :
  Forall wf_msg ms -> N.of_nat (length (enc_items ms)) < 65536 ->
  decode_frame (pad32 (frame sec nsec crc ms)) = Accept ms.
Proof.
  intros Hwf Hsz. apply decode_frame_complete; [|apply frame_wellformed; assumption].
  assert (Hb : bok (frame sec nsec crc ms)).
  { unfold frame.
    assert (bok (enc_items ms)) by (apply (bok_enc (S (length (enc_items ms)))); [lia|exact Hwf]).
    destruct crc; repeat apply bok_app; try apply bok_le; assumption. }
  unfold pad32. destruct (length (frame sec nsec crc ms) mod 32 =? 0)%nat; [exact Hb|].
  apply bok_app; [exact Hb|apply bok_repeat0].
Qed.

Print Assumptions C01_plain_roundtrip.
