(* C07, closed form: for the concrete client, EVERY encodable non-empty reply, encrypted on the connection's chain and cut into
   ANY non-empty pieces, read through ANY receive buffer of at least one byte, is returned as exactly those messages, and
   the client's decrypting chain ends where the peer's encrypting chain ended. *)
From Coq Require Import List Arith NArith ZArith Lia Bool.
Import ListNotations.
Require Import Bytes CBC CBCInst Codec Frame Rijndael RijP1 Cipher CipherProofs SCipher SCipherProofs Client ClientReasm Session
               C07Proofs PeerU C08Proofs.
Local Open Scope N_scope.

Section Reply.
  Variable key : list N.
  Hypothesis Bk : bytes_ok key.
  Let ks := key_schedule (key_pad key).
  Let kl := key_pad_len key.
  Let kb := key_pad_bytes key Bk.
  Variable rbuf : nat.
  Hypothesis rbuf_pos : (0 < rbuf)%nat.

  Lemma enc_al' crc ts ms : ClientReasm.al (c_encode crc ts ms) /\ (32 <= length (c_encode crc ts ms))%nat.
  Proof. destruct (WireProofs.plain_aligned crc (fst ts) (snd ts) ms) as [A B]. split; assumption. Qed.

  (* every encrypted reply is "one reply" in the sense of C07_reassembly *)
  Lemma reply_is_one_reply crc iv ts ms : okm ms -> ms <> [] ->
    one_reply message (s_decP ks) c_verdict iv (fst (s_enc ks iv (c_encode crc ts ms))).
  Proof.
    apply (PeerU.reply_one message (c_encode crc) (s_enc ks) (s_decP ks) (s_decI ks) c_verdict rbuf rbuf_pos
             (fun iv a b H => s_decP_app (key_pad key) iv a b H)
             (fun iv c H => s_decP_len (key_pad key) kl kb iv c H) (fun iv p H => s_dec_enc (key_pad key) kl kb iv p H)
             (fun iv p H => s_enc_len (key_pad key) kl kb iv p H) (enc_al' crc) okm (V_whole crc) (V_prefix crc)).
  Qed.

  Theorem C07_reply_any_segmentation crc ts ms s (e erest : list (list N)) (w : world message renv) j deadline fuel s' w' r :
    okm ms -> ms <> [] ->
    let c := fst (s_enc ks (div s) (c_encode crc ts ms)) in
    concat e = c -> nonempty e ->
    cur message renv w = Some j -> rview (est message renv w) = e ++ erest -> (clock message renv w <= deadline)%Z -> (length c < fuel)%nat ->
    c_recv_loop key rbuf fuel deadline [] [] s w = (s', w', r) ->
    r = Ok (list message) ms /\ div s' = snd (s_enc ks (div s) (c_encode crc ts ms)) /\ eiv s' = eiv s /\ authed s' = authed s /\
    cur message renv w' = Some j /\ rview (est message renv w') = erest.
  Proof.
    intros Hok Hne c Hcat Hnn Hcur Hq Hdl Hf Hrun.
    pose proof (reply_is_one_reply crc (div s) ts ms Hok Hne) as Hone. fold c in Hone.
    destruct (enc_al' crc ts ms) as [Ha Hl].
    assert (Hlen : length c = length (c_encode crc ts ms)) by (unfold c; apply (s_enc_len (key_pad key) kl kb); exact Ha).
    assert (He : e <> []) by (intros ->; cbn in Hcat; rewrite <- Hcat in Hlen; cbn in Hlen; lia).
    pose proof (ClientReasm.loop_inv message (s_decP ks) (s_decI ks)
                  (fun iv a b H => s_decP_app (key_pad key) iv a b H) (fun iv a b H => s_decI_app (key_pad key) iv a b H)
                  c_verdict rbuf rbuf_pos renv reactive rview (fun _ _ => True) (fun _ _ _ _ _ => I) (fun _ => I) reactive_read_view
                  (length c) fuel e erest [] s (div s) c [] [] w deadline j
                  ltac:(rewrite Hcat; lia) Hf ltac:(cbn [app]; exact Hcat) Hnn He Hone Hcur Hq Hdl (est message renv w) I eq_refl
                  ltac:(rewrite firstn_nil; symmetry; apply (s_decP_nil (key_pad key))) ltac:(rewrite firstn_nil; symmetry; apply (s_decI_nil (key_pad key)))
                  ltac:(cbn [length]; lia)) as L.
    unfold c_recv_loop in Hrun.
    change (recv_loop message c_decode_step (s_dec (key_schedule (key_pad key))) rbuf renv reactive fuel deadline [] [] s w)
      with (recv_loop message (ClientReasm.decode_step message c_verdict) (ClientReasm.dec (s_decP ks) (s_decI ks)) rbuf renv reactive fuel deadline [] [] s w) in Hrun.
    rewrite Hrun in L. destruct L as [Lf (_ & Lpost)].
    unfold ClientReasm.final in Lf.
    destruct (s_dec_enc (key_pad key) kl kb (div s) (c_encode crc ts ms) Ha) as [HP HI]. fold ks in HP, HI. fold c in HP, HI.
    rewrite HP, (V_whole crc ts ms Hok Hne) in Lf. injection Lf as -> ->.
    destruct Lpost as [Lc Lq]. cbn [div eiv authed]. rewrite HI. repeat split; auto.
  Qed.
End Reply.

Print Assumptions C07_reply_any_segmentation.
