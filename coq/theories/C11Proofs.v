(* C11 for the concrete RSCP client: what "reveals the password" means for a byte dump and for a rendered message tree,
   the masking of secret tags at every nesting depth, and the discharge of the premise about the authentication request. *)
From Coq Require Import List Arith NArith ZArith Lia Bool.
Import ListNotations.
Require Import Codec Vocab Client ClientLog Session.
Local Open Scope N_scope.

Definition sublist (pw l : list N) : Prop := exists a b, l = a ++ pw ++ b.

(* the text leaves Message.String shows: strings and byte arrays under tags that are not secret, at every depth;
   under a secret tag the whole value is replaced by the mask *)
Fixpoint shown (v : gval) : list (list N) :=
  match v with
  | GStr s => [s] | GBytes s => [s]
  | GMsgs ms => (fix go (l : list message) : list (list N) :=
                   match l with [] => [] | Msg t _ v' :: r => (if is_secret t then [] else shown v') ++ go r end) ms
  | _ => []
  end.
Definition shown_msgs (ms : list message) : list (list N) := shown (GMsgs ms).

Definition reveals_dump (pw : list N) (b : list N) : Prop := sublist pw b.
Definition reveals_tree (pw : list N) (ms : list message) : Prop := exists leaf, In leaf (shown_msgs ms) /\ sublist pw leaf.

(* masking at every nesting depth: a value under a secret tag is never shown, however deep it sits *)
Lemma shown_cons t d v r : shown_msgs (Msg t d v :: r) = (if is_secret t then [] else shown v) ++ shown_msgs r.
Proof. reflexivity. Qed.

Theorem C11_mask_depth : forall pw t d v wrap, is_secret t = true ->
  (* wrap: any number of enclosing non-secret containers *)
  let nest := fold_right (fun tg inner => [Msg tg 14 (GMsgs inner)]) [Msg t d v] wrap in
  ~ reveals_tree pw nest.
Proof.
  intros pw t d v wrap Hs. induction wrap as [|tg wrap IH]; cbn [fold_right].
  - intros (leaf & Hin & _). rewrite shown_cons, Hs in Hin. destruct Hin.
  - intros (leaf & Hin & Hsub). rewrite shown_cons in Hin. cbn [shown_msgs shown app] in Hin. rewrite app_nil_r in Hin.
    destruct (is_secret tg); [destruct Hin|]. apply IH. exists leaf. split; [exact Hin|exact Hsub].
Qed.

(* the authentication request renders without the password (it travels under the secret tag RSCP_AUTHENTICATION_PASSWORD),
   provided the user name does not itself contain the password *)
Theorem C11_auth_tree_masked user pw : ~ sublist pw user -> ~ reveals_tree pw (c_auth_req user pw).
Proof.
  intros Hu (leaf & Hin & Hsub). unfold c_auth_req in Hin. vm_compute in Hin.
  destruct Hin as [<-|[]]. exact (Hu Hsub).
Qed.

(* C11 for the concrete client model: for every environment, level < 99 and sequence of innocent calls *)
Definition C11_concrete pw := fun encode decode_step enc dec iv0 valid_req user auth_ok conn_to send_to recv_to rbuf E m =>
  @ClientLog.C11_no_secret message encode decode_step enc dec iv0 valid_req (c_auth_req user pw) auth_ok conn_to send_to recv_to rbuf E m
     (reveals_dump pw) (reveals_tree pw).

(* ---- the levels at which nothing but fixed texts and rendered trees is logged ----
   Byte dumps are written at level Trace (6) only. With a log level of at most Debug (5) - all of logrus' named levels up to
   Debug - the theorem needs no assumption about ciphertext or about the bytes the peer sends: *)
Section Quiet.
  Variable msg : Type.
  Variable encode : Z * Z -> list msg -> list N.
  Variable decode_step : list N -> list N -> option (option (list msg)) * list N.
  Variable enc : list N -> list N -> list N * list N.
  Variable dec : list N -> list N -> list N * list N.
  Variable iv0 : list N.
  Variable valid_req : list msg -> bool.
  Variable auth_req : list msg.
  Variable auth_ok : list msg -> bool.
  Variables conn_to send_to recv_to : Z.
  Variable rbuf : nat.
  Variable E : Type.
  Variable m : envsm E.
  Variable rdump : list N -> Prop.          (* ANY notion of "this dump gives the password away" - even "every dump does" *)
  Variable rtree : list msg -> Prop.
  Hypothesis auth_tree_masked : ~ rtree auth_req.
  Hypothesis peer_no_echo_tree : forall buf pt ms b, decode_step buf pt = (Some (Some ms), b) -> ~ rtree ms.

  Lemma not_trace_5 : ~ (lTrace <= 5). Proof. unfold lTrace. lia. Qed.

  Theorem C11_quiet_levels : forall calls e l, l <= 5 ->
    Forall (fun c => match c with CSend _ _ ms => ~ rtree ms | CDisconnect _ => True end) calls ->
    let w := snd (run msg encode decode_step enc dec iv0 valid_req auth_req auth_ok conn_to send_to recv_to rbuf E m
                    (init_state iv0) (init_world msg E e l) calls) in
    clean msg rdump rtree (out msg E w) /\ level msg E w = l.
  Proof.
    intros calls e l Hl Hcalls.
    apply (ClientLog.C11_no_secret msg encode decode_step enc dec iv0 valid_req auth_req auth_ok conn_to send_to recv_to rbuf E m
             rdump rtree 5 (fun H => False_ind _ (not_trace_5 H)) auth_tree_masked (fun H => False_ind _ (not_trace_5 H)) peer_no_echo_tree
             calls e l); [unfold auth_level; lia|exact Hl|].
    eapply Forall_impl; [|exact Hcalls]. intros [fuel ms|]; [|auto]. intro H. split; [exact H|]. intro H5. destruct (not_trace_5 H5).
  Qed.
End Quiet.

(* ... in particular no byte dump is logged at all at those levels (take "every dump reveals" and "no tree reveals") *)
Theorem C11_no_dumps_at_quiet_levels : forall msg encode decode_step enc dec iv0 valid_req auth_req auth_ok conn_to send_to recv_to rbuf E (m : envsm E) calls e l,
  l <= 5 ->
  let w := snd (run msg encode decode_step enc dec iv0 valid_req auth_req auth_ok conn_to send_to recv_to rbuf E m
                  (init_state iv0) (init_world msg E e l) calls) in
  forall lv b, ~ In (EvLog msg lv (LDump msg b)) (out msg E w).
Proof.
  intros msg encode decode_step enc dec iv0 valid_req auth_req auth_ok conn_to send_to recv_to rbuf E m calls e l Hl w lv b Hin.
  destruct (C11_quiet_levels msg encode decode_step enc dec iv0 valid_req auth_req auth_ok conn_to send_to recv_to rbuf E m
              (fun _ => True) (fun _ => False) (fun F => F) (fun _ _ _ _ _ F => F) calls e l Hl) as [Hc _].
  - apply Forall_forall. intros [fuel ms|] _; auto.
  - exact (Hc lv (LDump msg b) Hin I).
Qed.

Print Assumptions C11_quiet_levels. Print Assumptions C11_no_dumps_at_quiet_levels.
