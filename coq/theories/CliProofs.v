(* C15: the process contract of the command model *)
From Coq Require Import List NArith ZArith Bool String.
Import ListNotations.
Require Import Codec JsonIn JsonInst JsonDoc Client Session Cli.
Local Open Scope N_scope.

(* exactly one of three endings: help/version (status 0, text on stderr, nothing on stdout), success (status 0, one JSON
   document on stdout, nothing on stderr), failure (status 1, nothing on stdout, a diagnostic on stderr) *)
Theorem C15_contract yneg i conns : let o := fst (cli_main yneg i conns) in
  (status o = 0 /\ stdout_doc o = None /\ stderr_nonempty o = true /\ (ci_help i || ci_version i = true)) \/
  (status o = 0 /\ (exists d, stdout_doc o = Some d) /\ stderr_nonempty o = false /\ (ci_help i || ci_version i = false)) \/
  (status o = 1 /\ stdout_doc o = None /\ stderr_nonempty o = true /\ (ci_help i || ci_version i = false)).
Proof.
  cbv zeta. unfold cli_main. destruct (ci_help i || ci_version i) eqn:Eh; [left; repeat split|].
  right.
  assert (G : forall (o : cli_out), o <> CHelp ->
    (status o = 0 /\ (exists d, stdout_doc o = Some d) /\ stderr_nonempty o = false /\ false = false) \/
    (status o = 1 /\ stdout_doc o = None /\ stderr_nonempty o = true /\ false = false)).
  { intros [| |d] H; [contradiction|right; repeat split|left; repeat split; exists d; reflexivity]. }
  apply G.
  destruct (ci_flag_error i); [discriminate|].
  destruct (is_empty (ci_host i) || is_empty (ci_user i) || is_empty (ci_pass i) || is_empty (ci_key i)); [discriminate|].
  destruct (ci_request i) as [j|]; [|discriminate].
  destruct (parse_requests j) as [ms|]; [|discriminate].
  destruct (run_calls _ _ _ _ _) as [[s1 w1] r]. destruct (disconnect _ _ _ _ _) as [s2 w2].
  destruct r as [rs|]; [|discriminate].
  destruct (ci_output i =? 0); [discriminate|]. destruct (ci_output i =? 1); [discriminate|]. destruct (ci_output i =? 2); discriminate.
Qed.

(* unusable flags or configuration, a missing or malformed request text: nothing is ever transmitted *)
Theorem C15_nothing_sent yneg i conns :
  ci_help i = true \/ ci_version i = true \/ ci_flag_error i = true \/
  ci_host i = [] \/ ci_user i = [] \/ ci_pass i = [] \/ ci_key i = [] \/ ci_request i = None \/
  (exists j, ci_request i = Some j /\ parse_requests j = JsonIn.Err _) ->
  snd (cli_main yneg i conns) = [].
Proof.
  intro H. unfold cli_main.
  destruct (ci_help i) eqn:E1; [reflexivity|]. destruct (ci_version i) eqn:E2; [reflexivity|]. cbn [orb].
  destruct (ci_flag_error i) eqn:E3; [reflexivity|].
  destruct (ci_host i) as [|h0 hr] eqn:E4; [reflexivity|]. destruct (ci_user i) as [|u0 ur] eqn:E5; [reflexivity|].
  destruct (ci_pass i) as [|p0 pr] eqn:E6; [reflexivity|]. destruct (ci_key i) as [|k0 kr] eqn:E7; [reflexivity|]. cbn [is_empty orb].
  destruct (ci_request i) as [j|] eqn:E8; [|reflexivity].
  destruct (parse_requests j) as [ms|] eqn:E9; [|reflexivity].
  exfalso. destruct H as [H|[H|[H|[H|[H|[H|[H|[H|(j' & Hj & He)]]]]]]]]; try discriminate.
  injection Hj as <-. rewrite E9 in He. discriminate.
Qed.

(* an unknown output format is an error (detected after the exchange) *)
Theorem C15_unknown_output yneg i conns : ci_output i <> 0 -> ci_output i <> 1 -> ci_output i <> 2 ->
  forall d, fst (cli_main yneg i conns) <> CDoc d.
Proof.
  intros H0 H1 H2 d. unfold cli_main.
  destruct (ci_help i || ci_version i); [discriminate|]. destruct (ci_flag_error i); [discriminate|].
  destruct (is_empty _ || _ || _ || _); [discriminate|]. destruct (ci_request i) as [j|]; [|discriminate].
  destruct (parse_requests j); [|discriminate].
  destruct (run_calls _ _ _ _ _) as [[s1 w1] r]. destruct (disconnect _ _ _ _ _) as [s2 w2].
  destruct r; [|discriminate].
  destruct (N.eqb_spec (ci_output i) 0); [contradiction|]. destruct (N.eqb_spec (ci_output i) 1); [contradiction|].
  destruct (N.eqb_spec (ci_output i) 2); [contradiction|discriminate].
Qed.
Print Assumptions C15_contract. Print Assumptions C15_nothing_sent.
