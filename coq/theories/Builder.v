From Coq Require Import List Arith NArith Lia Bool.
Import ListNotations.
Local Open Scope N_scope.

Section Builder.
  Variable tag_dt : N -> N.     (* dataTypeMap lookup, 0 (None) when absent *)

  Inductive arg := ATag (t : N) | AType (d : N) | AVal (k : N) | ANil.
  Inductive bval := BNone | BVal (a : arg) | BKids (ms : list bmsg)
  with bmsg := BM (tag dt : N) (v : bval).

  Inductive berr := Empty | NotATag | MissingValue | TagOrTypeAsValue | NoArguments | Fuel.
  Inductive res (A : Type) := Ok (a : A) | Err (e : berr).
  Arguments Ok {A}. Arguments Err {A}.

  Definition is_value (a : arg) : bool := match a with ATag _ | AType _ => false | _ => true end.

  Fixpoint create (fuel : nat) (args : list arg) : res (bmsg * list arg) :=
    match fuel with
    | O => Err Fuel
    | S f =>
      match args with
      | [] => Err Empty
      | ATag t :: rest =>
        let dt := tag_dt t in
        if dt =? 0 then Ok (BM t 0 BNone, rest)
        else if dt =? 14 then
          match kids f rest with Ok ks => Ok (BM t 14 (BKids ks), []) | Err e => Err e end
        else match rest with
             | [] => Err MissingValue
             | v :: rest' => if is_value v then Ok (BM t dt (BVal v), rest') else Err TagOrTypeAsValue
             end
      | _ :: _ => Err NotATag
      end
    end
  with kids (fuel : nat) (l : list arg) : res (list bmsg) :=
    match fuel with
    | O => Err Fuel
    | S f =>
      match l with
      | [] => Ok []
      | _ => match create f l with
             | Ok (m, rest) => match kids f rest with Ok ms => Ok (m :: ms) | Err e => Err e end
             | Err e => Err e
             end
      end
    end.

  (* CreateRequest: one message from the argument list (arguments left over after a complete message are ignored) *)
  Definition create_request (args : list arg) : res bmsg :=
    match create (S (2 * length args)) args with Ok (m, _) => Ok m | Err e => Err e end.
  (* CreateRequests: the single form applied to each list in turn; no lists at all is an error *)
  Fixpoint map_requests (ls : list (list arg)) : res (list bmsg) :=
    match ls with
    | [] => Ok []
    | l :: r => match create_request l with
                | Err e => Err e
                | Ok m => match map_requests r with Ok ms => Ok (m :: ms) | Err e => Err e end
                end
    end.
  Definition create_requests (ls : list (list arg)) : res (list bmsg) :=
    match ls with [] => Err NoArguments | _ => map_requests ls end.

  (* the documented grammar *)
  Inductive Derives : list arg -> bmsg -> list arg -> Prop :=
  | D_none t rest : tag_dt t = 0 -> Derives (ATag t :: rest) (BM t 0 BNone) rest
  | D_val t v rest : tag_dt t <> 0 -> tag_dt t <> 14 -> is_value v = true ->
      Derives (ATag t :: v :: rest) (BM t (tag_dt t) (BVal v)) rest
  | D_cont t rest ks : tag_dt t = 14 -> DerivesAll rest ks -> Derives (ATag t :: rest) (BM t 14 (BKids ks)) []
  with DerivesAll : list arg -> list bmsg -> Prop :=
  | DA_nil : DerivesAll [] []
  | DA_cons a args m rest ms : Derives (a :: args) m rest -> DerivesAll rest ms -> DerivesAll (a :: args) (m :: ms).

  Scheme Derives_mind := Induction for Derives Sort Prop
    with DerivesAll_mind := Induction for DerivesAll Sort Prop.

  (* every successful parse consumes at least one argument *)
  Lemma create_shrinks : forall fuel args m rest, create fuel args = Ok (m, rest) -> (length rest < length args)%nat.
  Proof.
    destruct fuel as [|f]; intros args m rest H; [discriminate|]. cbn [create] in H.
    destruct args as [|[t|d|k|] args]; try discriminate.
    destruct (tag_dt t =? 0); [injection H as <- <-; cbn; lia|].
    destruct (tag_dt t =? 14).
    - destruct (kids f args); [injection H as <- <-; cbn; lia|discriminate].
    - destruct args as [|v args]; [discriminate|]. destruct (is_value v); [|discriminate].
      injection H as <- <-. cbn. lia.
  Qed.

  Theorem create_sound : forall fuel,
    (forall args m rest, create fuel args = Ok (m, rest) -> Derives args m rest) /\
    (forall args ms, kids fuel args = Ok ms -> DerivesAll args ms).
  Proof.
    induction fuel as [|f [IHc IHk]]; [split; intros; discriminate|]. split.
    - intros args m rest H. cbn [create] in H.
      destruct args as [|[t|d|k|] args]; try discriminate.
      destruct (N.eqb_spec (tag_dt t) 0) as [E0|N0]; [injection H as <- <-; constructor; exact E0|].
      destruct (N.eqb_spec (tag_dt t) 14) as [E14|N14].
      + destruct (kids f args) as [ks|] eqn:Ek; [|discriminate]. injection H as <- <-.
        constructor; [exact E14|apply IHk; exact Ek].
      + destruct args as [|v args]; [discriminate|]. destruct (is_value v) eqn:Ev; [|discriminate].
        injection H as <- <-. constructor; assumption.
    - intros args ms H. cbn [kids] in H.
      destruct args as [|a args]; [injection H as <-; constructor|].
      destruct (create f (a :: args)) as [[m rest]|] eqn:Ec; [|discriminate].
      destruct (kids f rest) as [ms'|] eqn:Ek; [|discriminate]. injection H as <-.
      econstructor; [apply IHc; exact Ec|apply IHk; exact Ek].
  Qed.

  Lemma derives_shrinks args m rest : Derives args m rest -> (length rest < length args)%nat.
  Proof. destruct 1; cbn; lia. Qed.

  Theorem create_complete : forall args m rest, Derives args m rest ->
    forall fuel, (2 * length args <= fuel)%nat -> create fuel args = Ok (m, rest).
  Proof.
    intros args m rest H.
    induction H using Derives_mind with
      (P0 := fun args ms (_ : DerivesAll args ms) => forall fuel, (2 * length args + 1 <= fuel)%nat -> kids fuel args = Ok ms).
    - intros [|f] Hf; [cbn in Hf; lia|]. cbn [create]. rewrite e. reflexivity.
    - intros [|f] Hf; [cbn in Hf; lia|]. cbn [create].
      destruct (N.eqb_spec (tag_dt t) 0); [contradiction|]. destruct (N.eqb_spec (tag_dt t) 14); [contradiction|].
      rewrite e. reflexivity.
    - intros [|f] Hf; [cbn in Hf; lia|]. cbn [create]. rewrite e. cbn [N.eqb Pos.eqb].
      rewrite IHDerives by (cbn [length] in Hf; lia). reflexivity.
    - intros [|f] Hf; [lia|]. reflexivity.
    - intros [|f] Hf; [cbn in Hf; lia|]. cbn [kids].
      rewrite IHDerives by lia.
      pose proof (derives_shrinks _ _ _ H) as Hs. cbn [length] in *.
      rewrite IHDerives0 by lia. reflexivity.
  Qed.

  Theorem C18_grammar args m rest :
    create (S (2 * length args)) args = Ok (m, rest) <-> Derives args m rest.
  Proof.
    split.
    - apply (proj1 (create_sound _)).
    - intro H. apply create_complete; [exact H|lia].
  Qed.

  (* ---- the documented errors, as a relation on argument lists ---- *)
  Inductive Fails : list arg -> berr -> Prop :=
  | F_empty : Fails [] Empty
  | F_notatag a rest : (forall t, a <> ATag t) -> Fails (a :: rest) NotATag
  | F_missing t : tag_dt t <> 0 -> tag_dt t <> 14 -> Fails [ATag t] MissingValue
  | F_tagortype t v rest : tag_dt t <> 0 -> tag_dt t <> 14 -> is_value v = false -> Fails (ATag t :: v :: rest) TagOrTypeAsValue
  | F_child t rest e : tag_dt t = 14 -> FailsAll rest e -> Fails (ATag t :: rest) e
  with FailsAll : list arg -> berr -> Prop :=
  | FA_here a args e : Fails (a :: args) e -> FailsAll (a :: args) e
  | FA_later a args m rest e : Derives (a :: args) m rest -> FailsAll rest e -> FailsAll (a :: args) e.

  Theorem create_errors : forall fuel,
    (forall args e, create fuel args = Err e -> e = Fuel \/ Fails args e) /\
    (forall args e, kids fuel args = Err e -> e = Fuel \/ FailsAll args e).
  Proof.
    induction fuel as [|f [IHc IHk]]; [split; intros args e H; injection H as <-; left; reflexivity|]. split.
    - intros args e H. cbn [create] in H.
      destruct args as [|a args]; [injection H as <-; right; constructor|].
      destruct a as [t|d|k|]; try (injection H as <-; right; constructor; intros t0 E; discriminate E).
      destruct (N.eqb_spec (tag_dt t) 0) as [E0|N0]; [discriminate|].
      destruct (N.eqb_spec (tag_dt t) 14) as [E14|N14].
      + destruct (kids f args) as [ks|e'] eqn:Ek; [discriminate|]. injection H as <-.
        destruct (IHk _ _ Ek) as [->|Hf]; [left; reflexivity|right; apply F_child; assumption].
      + destruct args as [|v args]; [injection H as <-; right; constructor; assumption|].
        destruct (is_value v) eqn:Ev; [discriminate|]. injection H as <-. right. constructor; assumption.
    - intros args e H. cbn [kids] in H.
      destruct args as [|a args]; [discriminate|].
      destruct (create f (a :: args)) as [[m rest]|e'] eqn:Ec.
      + destruct (kids f rest) as [ms'|e''] eqn:Ek; [discriminate|]. injection H as <-.
        destruct (IHk _ _ Ek) as [->|Hf]; [left; reflexivity|].
        right. eapply FA_later; [apply (proj1 (create_sound f)); exact Ec|exact Hf].
      + injection H as <-. destruct (IHc _ _ Ec) as [->|Hf]; [left; reflexivity|right; constructor; exact Hf].
  Qed.

  (* the fuel 2 * length + 1 is never exhausted *)
  Theorem create_no_fuel : forall fuel,
    (forall args, (2 * length args < fuel)%nat -> create fuel args <> Err Fuel) /\
    (forall args, (2 * length args + 1 < fuel)%nat \/ (args = [] /\ (0 < fuel)%nat) -> kids fuel args <> Err Fuel).
  Proof.
    induction fuel as [|f [IHc IHk]]; [split; intros args H; [lia|destruct H as [H|[_ H]]; lia]|]. split.
    - intros args Hl H. cbn [create] in H.
      destruct args as [|a args]; [discriminate|].
      destruct a as [t|d|k|]; try discriminate.
      destruct (tag_dt t =? 0); [discriminate|].
      destruct (tag_dt t =? 14).
      + destruct (kids f args) as [ks|e'] eqn:Ek; [discriminate|]. injection H as ->.
        revert Ek. apply IHk. cbn [length] in Hl.
        destruct args as [|a' args']; [right; split; [reflexivity|lia]|left; cbn [length] in *; lia].
      + destruct args as [|v args]; [discriminate|]. destruct (is_value v); discriminate.
    - intros args Hl H. cbn [kids] in H.
      destruct args as [|a args]; [discriminate|].
      destruct Hl as [Hl|[E _]]; [|discriminate].
      destruct (create f (a :: args)) as [[m rest]|e'] eqn:Ec.
      + destruct (kids f rest) as [ms'|e''] eqn:Ek; [discriminate|]. injection H as ->.
        revert Ek. apply IHk. pose proof (create_shrinks _ _ _ _ Ec) as Hs.
        destruct rest as [|r0 rest']; [right; split; [reflexivity|cbn [length] in *; lia]|left; cbn [length] in *; lia].
      + injection H as ->. revert Ec. apply IHc. lia.
  Qed.

  Theorem C18_fuel args : create_request args <> Err Fuel.
  Proof.
    unfold create_request. intro H.
    destruct (create (S (2 * length args)) args) as [[m r]|e] eqn:E; [discriminate|]. injection H as ->.
    revert E. apply (proj1 (create_no_fuel _)). lia.
  Qed.

  (* every argument list either builds the documented tree or fails with the documented error *)
  Theorem C18_total args :
    (exists m rest, create_request args = Ok m /\ Derives args m rest) \/
    (exists e, create_request args = Err e /\ Fails args e).
  Proof.
    pose proof (C18_fuel args) as NF. unfold create_request in *.
    destruct (create (S (2 * length args)) args) as [[m r]|e] eqn:E.
    - left. exists m, r. split; [reflexivity|apply C18_grammar; exact E].
    - right. exists e. split; [reflexivity|].
      destruct (proj1 (create_errors _) _ _ E) as [->|Hf]; [exfalso; apply NF; reflexivity|exact Hf].
  Qed.

  Theorem C18_multi ls : create_requests ls =
    match ls with [] => Err NoArguments | _ => map_requests ls end.
  Proof. reflexivity. Qed.
End Builder.
Arguments Ok {A}. Arguments Err {A}.

Print Assumptions C18_grammar. Print Assumptions C18_total.
