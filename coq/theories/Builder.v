From Coq Require Import List Arith NArith Lia Bool.
Import ListNotations.
Local Open Scope N_scope.

Section Builder.
  Variable tag_dt : N -> N.     (* dataTypeMap lookup, 0 (None) when absent *)

  Inductive arg := ATag (t : N) | AType (d : N) | AVal (k : N) | ANil.
  Inductive bval := BNone | BVal (a : arg) | BKids (ms : list bmsg)
  with bmsg := BM (tag dt : N) (v : bval).

  Inductive berr := Empty | NotATag | MissingValue | TagOrTypeAsValue | Fuel.
  Inductive res (A : Type) := Ok (a : A) | Err (e : berr).
  Arguments Ok {A}. Arguments Err {A}.

  Definition is_value (a : arg) : bool := match a with ATag _ | AType _ => false | _ => true end.

  Fixpoint create (fuel : nat) (args : list arg) : res (bmsg * list arg) :=
    match fuel with
    | O => Err Fuel
    | S f =>
      match args with
      | [] => Err Empty
      | ATag t :: rest =>
        let dt := tag_dt t in
        if dt =? 0 then Ok (BM t 0 BNone, rest)
        else if dt =? 14 then
          match kids f rest with Ok ks => Ok (BM t 14 (BKids ks), []) | Err e => Err e end
        else match rest with
             | [] => Err MissingValue
             | v :: rest' => if is_value v then Ok (BM t dt (BVal v), rest') else Err TagOrTypeAsValue
             end
      | _ :: _ => Err NotATag
      end
    end
  with kids (fuel : nat) (l : list arg) : res (list bmsg) :=
    match fuel with
    | O => Err Fuel
    | S f =>
      match l with
      | [] => Ok []
      | _ => match create f l with
             | Ok (m, rest) => match kids f rest with Ok ms => Ok (m :: ms) | Err e => Err e end
             | Err e => Err e
             end
      end
    end.

  (* the documented grammar *)
  Inductive Derives : list arg -> bmsg -> list arg -> Prop :=
  | D_none t rest : tag_dt t = 0 -> Derives (ATag t :: rest) (BM t 0 BNone) rest
  | D_val t v rest : tag_dt t <> 0 -> tag_dt t <> 14 -> is_value v = true ->
      Derives (ATag t :: v :: rest) (BM t (tag_dt t) (BVal v)) rest
  | D_cont t rest ks : tag_dt t = 14 -> DerivesAll rest ks -> Derives (ATag t :: rest) (BM t 14 (BKids ks)) []
  with DerivesAll : list arg -> list bmsg -> Prop :=
  | DA_nil : DerivesAll [] []
  | DA_cons a args m rest ms : Derives (a :: args) m rest -> DerivesAll rest ms -> DerivesAll (a :: args) (m :: ms).

  Scheme Derives_mind := Induction for Derives Sort Prop
    with DerivesAll_mind := Induction for DerivesAll Sort Prop.

  (* every successful parse consumes at least one argument *)
  Lemma create_shrinks : forall fuel args m rest, create fuel args = Ok (m, rest) -> (length rest < length args)%nat.
  Proof.
    destruct fuel as [|f]; intros args m rest H; [discriminate|]. cbn [create] in H.
    destruct args as [|[t|d|k|] args]; try discriminate.
    destruct (tag_dt t =? 0); [injection H as <- <-; cbn; lia|].
    destruct (tag_dt t =? 14).
    - destruct (kids f args); [injection H as <- <-; cbn; lia|discriminate].
    - destruct args as [|v args]; [discriminate|]. destruct (is_value v); [|discriminate].
      injection H as <- <-. cbn. lia.
  Qed.

  Theorem create_sound : forall fuel,
    (forall args m rest, create fuel args = Ok (m, rest) -> Derives args m rest) /\
    (forall args ms, kids fuel args = Ok ms -> DerivesAll args ms).
  Proof.
    induction fuel as [|f [IHc IHk]]; [split; intros; discriminate|]. split.
    - intros args m rest H. cbn [create] in H.
      destruct args as [|[t|d|k|] args]; try discriminate.
      destruct (N.eqb_spec (tag_dt t) 0) as [E0|N0]; [injection H as <- <-; constructor; exact E0|].
      destruct (N.eqb_spec (tag_dt t) 14) as [E14|N14].
      + destruct (kids f args) as [ks|] eqn:Ek; [|discriminate]. injection H as <- <-.
        constructor; [exact E14|apply IHk; exact Ek].
      + destruct args as [|v args]; [discriminate|]. destruct (is_value v) eqn:Ev; [|discriminate].
        injection H as <- <-. constructor; assumption.
    - intros args ms H. cbn [kids] in H.
      destruct args as [|a args]; [injection H as <-; constructor|].
      destruct (create f (a :: args)) as [[m rest]|] eqn:Ec; [|discriminate].
      destruct (kids f rest) as [ms'|] eqn:Ek; [|discriminate]. injection H as <-.
      econstructor; [apply IHc; exact Ec|apply IHk; exact Ek].
  Qed.

  Lemma derives_shrinks args m rest : Derives args m rest -> (length rest < length args)%nat.
  Proof. destruct 1; cbn; lia. Qed.

  Theorem create_complete : forall args m rest, Derives args m rest ->
    forall fuel, (2 * length args <= fuel)%nat -> create fuel args = Ok (m, rest).
  Proof.
    intros args m rest H.
    induction H using Derives_mind with
      (P0 := fun args ms (_ : DerivesAll args ms) => forall fuel, (2 * length args + 1 <= fuel)%nat -> kids fuel args = Ok ms).
    - intros [|f] Hf; [cbn in Hf; lia|]. cbn [create]. rewrite e. reflexivity.
    - intros [|f] Hf; [cbn in Hf; lia|]. cbn [create].
      destruct (N.eqb_spec (tag_dt t) 0); [contradiction|]. destruct (N.eqb_spec (tag_dt t) 14); [contradiction|].
      rewrite e. reflexivity.
    - intros [|f] Hf; [cbn in Hf; lia|]. cbn [create]. rewrite e. cbn [N.eqb Pos.eqb].
      rewrite IHDerives by (cbn [length] in Hf; lia). reflexivity.
    - intros [|f] Hf; [lia|]. reflexivity.
    - intros [|f] Hf; [cbn in Hf; lia|]. cbn [kids].
      rewrite IHDerives by lia.
      pose proof (derives_shrinks _ _ _ H) as Hs. cbn [length] in *.
      rewrite IHDerives0 by lia. reflexivity.
  Qed.

  Theorem C18_grammar args m rest :
    create (S (2 * length args)) args = Ok (m, rest) <-> Derives args m rest.
  Proof.
    split.
    - apply (proj1 (create_sound _)).
    - intro H. apply create_complete; [exact H|lia].
  Qed.
End Builder.

Print Assumptions C18_grammar.
