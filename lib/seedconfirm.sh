#!/bin/bash
# usage: seedconfirm.sh <Cxx> <a|b|c> [worktree prefix, default mut]  confirms a seeded change in its scratch worktree: suite passes with it, demo fails with it and passes without
P=$1; V=$2; PRE=${3:-mut}; W=/tmp/$PRE-$P; O=/tmp/$PRE-$P-out/$V
export GOFLAGS=-mod=mod GOPROXY=off
cd $W || exit 2
git checkout -q -- . ; git clean -fdq
pkg=$(head -20 $O/demo_test.go | grep -m1 "^package " | awk '{print $2}')
dir=rscp; [ "$pkg" = "main" ] && dir=cmd/e3dc
[ "$pkg" = "rscp_test" ] && dir=rscp
git apply $O/patch.diff || { echo "PATCH-DOES-NOT-APPLY"; exit 1; }
suite=$(go build ./... 2>&1 && go test -vet=off -count=1 ./... 2>&1 | grep -c "^FAIL\|^---")
cp $O/demo_test.go $dir/zz_seed_demo_test.go
with=$(timeout 600 go test -vet=off -count=1 ./$dir 2>&1 | grep -c "^--- FAIL\|^FAIL\|panic:")
git apply -R $O/patch.diff
without=$(timeout 600 go test -vet=off -count=1 ./$dir 2>&1 | grep -c "^--- FAIL\|^FAIL\|panic:")
rm -f $dir/zz_seed_demo_test.go; git checkout -q -- . ; git clean -fdq
echo "$P/$V: suite-failures-with-change=$suite demo-failures-with=$with demo-failures-without=$without"
