#!/usr/bin/env python3
"""Mutation sweep: how many small syntactic changes of /repo that the pinned test suite does not notice do the checks notice?

  lib/mutsweep.py suite   [-j 16]          phase A: every mutation of the listed files, in scratch worktrees under /tmp:
                                           does it build, does the pinned suite still pass?   -> work/mutsweep/suite.tsv
  lib/mutsweep.py checks  [--max N]        phase B: every survivor of phase A is copied into /repo (restored afterwards with
                                           git checkout), the quick checks of the properties anchored in that file are run
                                                                                               -> work/mutsweep/checks.tsv
  lib/mutsweep.py report                   summary table

Nothing here is a registered check; it measures the checks. /repo is always restored."""
import os, sys, subprocess, json, re, shutil, time, random
from concurrent.futures import ThreadPoolExecutor

ROOT = os.path.dirname(os.path.dirname(os.path.abspath(__file__)))
OUT = os.path.join(ROOT, "work", "mutsweep")
MUTATE = os.path.join(OUT, "mutate")
ENV = dict(os.environ, GOFLAGS="-mod=mod", GOPROXY="off")
# file -> the properties anchored in it (properties.jsonl: anchors.files), i.e. the checks that should notice
FILES = {
    "rscp/reader.go": ["C02", "C03", "C01", "C04", "C07"],
    "rscp/writer.go": ["C01", "C05", "C04", "C11", "C06"],
    "rscp/client.go": ["C09", "C11", "C10", "C05", "C16", "C08", "C06", "C07"],
    "rscp/client_config.go": ["C16", "C10", "C07"],
    "rscp/request.go": ["C05", "C18"],
    "rscp/message.go": ["C01", "C05", "C11", "C18"],
    "rscp/message_helpers.go": ["C01", "C05"],
    "rscp/message_json.go": ["C12", "C13", "C14"],
    "rscp/crypt.go": ["C06", "C16"],
    "rscp/tag_functions.go": ["C14", "C12", "C05"],
    "rscp/tag_issecret.go": ["C11"],
    "rscp/read_request_slice.go": ["C18"],
    "rscp/datatype_new.go": ["C14", "C02", "C01"],
    "rscp/datatype_validate.go": ["C14", "C05"],
    "rscp/datatype_length.go": ["C14", "C02", "C03"],
    "cmd/e3dc/e3dc.go": ["C15"],
    "cmd/e3dc/e3dc_help.go": ["C15"],
    "cmd/e3dc/json_input.go": ["C12", "C15"],
    "cmd/e3dc/json_output.go": ["C13", "C15"],
}


def sh(cmd, cwd=None, timeout=600):
    try:
        p = subprocess.run(cmd, cwd=cwd, env=ENV, stdout=subprocess.PIPE, stderr=subprocess.STDOUT, timeout=timeout, text=True)
        return p.returncode, p.stdout
    except subprocess.TimeoutExpired:
        return 124, "TIMEOUT"


def build_tool():
    os.makedirs(OUT, exist_ok=True)
    rc, out = sh(["go", "build", "-o", MUTATE, "./cmd/mutate"], cwd=os.path.join(ROOT, "harness"))
    if rc != 0:
        sys.exit("cannot build mutate: " + out)


def pristine(f):
    return subprocess.run(["git", "-C", "/repo", "show", "HEAD:" + f], stdout=subprocess.PIPE, check=True).stdout


def sites():
    res = []
    src = os.path.join(OUT, "src")
    os.makedirs(src, exist_ok=True)
    for f in FILES:
        p = os.path.join(src, f.replace("/", "__"))
        open(p, "wb").write(pristine(f))
        rc, out = sh([MUTATE, "-list", p])
        for l in out.splitlines():
            i, line, desc = l.split(" ", 2)
            res.append((f, int(i), int(line), desc))
    return res


def phase_suite(jobs):
    build_tool()
    all_sites = sites()
    wts = []
    for k in range(jobs):
        w = "/tmp/msw-%d" % k
        if not os.path.isdir(w):
            subprocess.run(["git", "-C", "/repo", "worktree", "add", "-q", "--detach", w, "HEAD"], check=True)
        wts.append(w)
    done = {}
    tsv = os.path.join(OUT, "suite.tsv")
    if os.path.exists(tsv):
        for l in open(tsv):
            a = l.rstrip("\n").split("\t")
            done[(a[0], int(a[1]))] = a
    todo = [s for s in all_sites if (s[0], s[1]) not in done]
    print("sites: %d, to do: %d" % (len(all_sites), len(todo)))
    import queue
    free = queue.Queue()
    for w in wts:
        free.put(w)
    outf = open(tsv, "a")

    def work(s):
        f, i, line, desc = s
        w = free.get()
        try:
            src = os.path.join(OUT, "src", f.replace("/", "__"))
            mut = os.path.join(OUT, "mut", "%s__%d.go" % (f.replace("/", "__"), i))
            os.makedirs(os.path.dirname(mut), exist_ok=True)
            sh([MUTATE, "-id", str(i), "-o", mut, src])
            shutil.copy(mut, os.path.join(w, f))
            rc, out = sh(["go", "build", "./..."], cwd=w, timeout=300)
            if rc != 0:
                st = "nobuild"
            else:
                rc, out = sh(["go", "test", "-vet=off", "-count=1", "-timeout", "120s", "./..."], cwd=w, timeout=400)
                st = "survived" if rc == 0 else "killed"
            subprocess.run(["git", "-C", w, "checkout", "-q", "--", "."])
            if st != "survived":
                os.remove(mut)
            outf.write("\t".join([f, str(i), str(line), st, desc]) + "\n")
            outf.flush()
        finally:
            free.put(w)

    with ThreadPoolExecutor(jobs) as ex:
        list(ex.map(work, todo))
    for w in wts:
        subprocess.run(["git", "-C", "/repo", "worktree", "remove", "--force", w])
    subprocess.run(["git", "-C", "/repo", "worktree", "prune"])


def phase_checks(maxn):
    tsv = os.path.join(OUT, "suite.tsv")
    surv = [l.rstrip("\n").split("\t") for l in open(tsv) if "\tsurvived\t" in l]
    done = set()
    ctsv = os.path.join(OUT, "checks.tsv")
    if os.path.exists(ctsv):
        for l in open(ctsv):
            a = l.split("\t")
            done.add((a[0], a[1]))
    random.Random(1).shuffle(surv)
    # removed informational prints cannot touch a property (log texts are not pinned by any of them): not worth a run
    neutral = re.compile(r"statement removed: (Log\.(Info|Infof|Warn|Warnf|Debug|Debugf)|rscp\.Log\.|fmt\.Fprint)")
    todo = [s for s in surv if (s[0], s[1]) not in done and not neutral.search(s[4])][:maxn]
    print("survivors: %d, to check now: %d" % (len(surv), len(todo)))
    rc, out = sh(["git", "-C", "/repo", "status", "--porcelain"])
    if out.strip():
        sys.exit("/repo is not clean")
    outf = open(ctsv, "a")
    for f, i, line, st, desc in todo:
        mut = os.path.join(OUT, "mut", "%s__%s.go" % (f.replace("/", "__"), i))
        caught, detail = [], []
        try:
            shutil.copy(mut, os.path.join("/repo", f))
            for p in FILES[f]:
                rc, out = sh([os.path.join(ROOT, "check"), p, "--tier", "quick"], cwd=ROOT, timeout=1800)
                v = [l for l in out.splitlines() if l.startswith("VIOLATION")]
                if v:
                    nf = sum(1 for l in v if l.endswith("no-failing-input-found"))
                    caught.append(p + ("(no-input)" if nf == len(v) else ""))
                    why = [l for l in out.splitlines() if l.startswith("[check] violation") or l.startswith("[check] proof")]
                    detail.append(p + ": " + (why[0][:160] if why else ""))
                    break  # one check that notices is enough
        finally:
            subprocess.run(["git", "-C", "/repo", "checkout", "-q", "--", "."])
        outf.write("\t".join([f, i, line, ",".join(caught) if caught else "MISSED", desc, " | ".join(detail)]) + "\n")
        outf.flush()
        print(f, i, line, desc, "->", ",".join(caught) if caught else "MISSED", flush=True)


def report():
    tsv = os.path.join(OUT, "suite.tsv")
    st = {}
    for l in open(tsv):
        a = l.rstrip("\n").split("\t")
        st.setdefault(a[0], {}).setdefault(a[3], 0)
        st[a[0]][a[3]] += 1
    ch = {}
    ctsv = os.path.join(OUT, "checks.tsv")
    if os.path.exists(ctsv):
        for l in open(ctsv):
            a = l.rstrip("\n").split("\t")
            k = "missed" if a[3] == "MISSED" else "caught"
            ch.setdefault(a[0], {}).setdefault(k, 0)
            ch[a[0]][k] += 1
    print("| file | sites | do not build | killed by the pinned suite | survive the suite | of those run through the checks | caught | not noticed |")
    print("|---|---|---|---|---|---|---|---|")
    tot = [0] * 7
    for f in FILES:
        s, c = st.get(f, {}), ch.get(f, {})
        row = [sum(s.values()), s.get("nobuild", 0), s.get("killed", 0), s.get("survived", 0), c.get("caught", 0) + c.get("missed", 0), c.get("caught", 0), c.get("missed", 0)]
        tot = [a + b for a, b in zip(tot, row)]
        print("| `%s` | %s |" % (f, " | ".join(map(str, row))))
    print("| total | %s |" % " | ".join(map(str, tot)))


if __name__ == "__main__":
    cmd = sys.argv[1] if len(sys.argv) > 1 else "report"
    if cmd == "suite":
        j = int(sys.argv[sys.argv.index("-j") + 1]) if "-j" in sys.argv else 16
        phase_suite(j)
    elif cmd == "checks":
        n = int(sys.argv[sys.argv.index("--max") + 1]) if "--max" in sys.argv else 10 ** 9
        phase_checks(n)
    else:
        report()
