#!/usr/bin/env python3
"""Regenerates MANIFEST.json from lib/manifest_data.py (kept valid at all times)."""
import json, os, sys
sys.path.insert(0, os.path.dirname(os.path.abspath(__file__)))
from manifest_data import CHECKS, NOT_APPLICABLE, NOTES
ROOT = os.path.dirname(os.path.dirname(os.path.abspath(__file__)))
m = {
    "version": 1,
    "setup_cmd": "./check --setup",
    "hooks": {
        "guard": "verif",
        "enable": "go build -tags verif -overlay <work>/overlay.json (lib/gobuild.sh maps hooks/rscp_hooks.go.txt to /repo/rscp/zz_verif_hooks.go and hooks/e3dc_driver_test.go.txt to /repo/cmd/e3dc/zz_verif_driver_test.go; nothing is committed to /repo for hooks)",
        "baseline_off_cmd": "cd /repo && GOFLAGS=-mod=mod GOPROXY=off go test -vet=off -count=1 ./...",
        "source_commits": [],
        "add_only": True,
    },
    "engines": [{"name": "coq-model+correspondence", "path": "check",
                 "serves_properties": [c["property_id"] for c in CHECKS],
                 "kind_free_text": "Coq 8.16 model + theorems (coq/), translator (harness/cmd/translate), extracted OCaml runner (runner/), Go correspondence harness (harness/cmd/exec)"}],
    "checks": [],
    "notes": NOTES,
    "not_applicable": NOT_APPLICABLE,
}
for c in CHECKS:
    pid = c["property_id"]
    m["checks"].append({
        "property_id": pid,
        "quick_cmd": "./check %s --tier quick" % pid,
        "thorough_cmd": "./check %s --tier thorough" % pid,
        "evidence_file": "/verif/evidence/%s.json" % pid,
        "replay_cmd_template": "./check %s --replay {path}" % pid,
        "engine": "coq-model+correspondence",
        "level_claimed": {"category": "proof", "text": c["text"], "design_ref": c["design_ref"]},
        "level_note": c["note"],
        "technique": c["technique"],
    })
json.dump(m, open(os.path.join(ROOT, "MANIFEST.json"), "w"), indent=1)
print("MANIFEST.json:", len(m["checks"]), "checks,", len(m["not_applicable"]), "not applicable")
