#!/bin/bash
# usage: seedround.sh <prefix> <variant-dir> <id> ...   e.g. seedround.sh mut4 d C01d C01e
# (env SUF: suffix appended to <id> for the name under seeded/)
# confirms each delivered change in its scratch worktree (/tmp/<prefix>-<id>), copies it to seeded/<id>/ and runs the check of its property
PRE=$1; V=$2; shift 2
export GOFLAGS=-mod=mod GOPROXY=off
for id in "$@"; do
  P=${id:0:3}; W=/tmp/$PRE-$id; O=/tmp/$PRE-$id-out/$V; N=$id${SUF:-}
  [ -f $O/patch.diff ] || { echo "$id: nothing delivered"; continue; }
  cd $W || continue
  git checkout -q -- . ; git clean -fdq
  pkg=$(head -30 $O/demo_test.go | grep -m1 "^package " | awk '{print $2}')
  dir=rscp; [ "$pkg" = "main" ] && dir=cmd/e3dc
  git apply $O/patch.diff || { echo "$id: PATCH-DOES-NOT-APPLY"; continue; }
  suite=$(go build ./... 2>&1 && go test -vet=off -count=1 ./... 2>&1 | grep -c "^FAIL\|^---")
  cp $O/demo_test.go $dir/zz_seed_demo_test.go
  race=""; grep -qi "\-race" $O/NOTES.md && race="-race"
  with=$(timeout 900 go test $race -vet=off -count=1 ./$dir 2>&1 | grep -c "^--- FAIL\|^FAIL\|panic:\|DATA RACE")
  git apply -R $O/patch.diff
  without=$(timeout 900 go test $race -vet=off -count=1 ./$dir 2>&1 | grep -c "^--- FAIL\|^FAIL\|panic:\|DATA RACE")
  rm -f $dir/zz_seed_demo_test.go; git checkout -q -- . ; git clean -fdq
  cd /verif
  mkdir -p seeded/$N && cp $O/patch.diff seeded/$N/patch.diff && cp $O/demo_test.go seeded/$N/demo_test.go.txt && cp $O/NOTES.md seeded/$N/NOTES.md
  out=$(lib/seedtest.sh /verif/seeded/$N/patch.diff $P 2>&1)
  n=$(echo "$out" | grep -c "^VIOLATION"); nf=$(echo "$out" | grep -c "no-failing-input-found")
  why=$(echo "$out" | grep -m1 "violation (" | sed 's/.*violation (\([a-z]*\)): //' | cut -c1-140)
  echo "$N  confirm: suite-failures=$suite demo-with=$with demo-without=$without | violations=$n no-failing-input=$nf  $why"
done
