#!/bin/bash
# usage: seedtest.sh <patch.diff> <Cxx> [<Cyy> ...]   applies a seeded change to /repo, runs the checks, always restores /repo
set -u
patch=$1; shift
cd /repo || exit 2
if ! git diff --quiet || ! git diff --cached --quiet; then echo "seedtest: /repo is not clean"; exit 2; fi
git apply "$patch" || { echo "seedtest: patch does not apply"; exit 2; }
trap 'git -C /repo checkout -- . ; git -C /repo clean -fdq' EXIT
cd /verif
for p in "$@"; do
  echo "=== $p on $(basename $(dirname $patch))/$(basename $patch)"
  VERIF_KEEP= timeout 1800 ./check "$p" --tier quick 2>&1 | grep -E "^(\[check\] (violation|proof|error)|VIOLATION|OK |KNOWN-FINDING|ERROR)" | cut -c1-400 | head -60
  echo "    exit=${PIPESTATUS[0]}"
done
