#!/bin/bash
# runs every seeded change under /verif/seeded through the quick check of its property; prints one line per change
cd /verif
for d in seeded/C*/; do
  id=$(basename $d); p=${id:0:3}
  out=$(lib/seedtest.sh /verif/${d}patch.diff $p 2>&1)
  n=$(echo "$out" | grep -c "^VIOLATION")
  nf=$(echo "$out" | grep -c "no-failing-input-found")
  why=$(echo "$out" | grep -m1 "violation (" | sed 's/.*violation (\([a-z]*\)): //' | cut -c1-110)
  echo "$id  violations=$n no-failing-input=$nf  $why"
done
