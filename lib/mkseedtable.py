#!/usr/bin/env python3
"""Rebuilds the table 'which check catches which seeded change' in DESIGN.md from seeded/*/meta.json and seeded/RESULTS.txt."""
import json, os, re, glob
root = os.path.dirname(os.path.dirname(os.path.abspath(__file__)))
res = {}
for l in open(os.path.join(root, "seeded/RESULTS.txt")):
    m = re.match(r"(C\d\d[a-z])\s+violations=(\d+) no-failing-input=(\d+)\s*(.*)", l)
    if m:
        res[m.group(1)] = (int(m.group(2)), int(m.group(3)), m.group(4).strip())
rows = ["| Seeded change | Needs, to manifest | Check | Result of the final machinery (quick tier) | History |", "|---|---|---|---|---|"]
for f in sorted(glob.glob(os.path.join(root, "seeded/C*/meta.json"))):
    m = json.load(open(f))
    r = res.get(m["id"])
    if r is None:
        out = "not run"
    elif r[0] > 0 and r[1] == 0:
        out = "VIOLATION with failing input (%d replay%s): %s" % (r[0], "s" if r[0] > 1 else "", r[2][:90])
    elif r[0] > 0:
        out = "VIOLATION, no-failing-input-found"
    else:
        out = "MISSED"
    rows.append("| `seeded/%s` | %s | `./check %s` | %s | %s |" % (m["id"], m["needs_to_manifest"], m["property"], out, m["history"]))
table = "\n".join(rows)
p = os.path.join(root, "DESIGN.md")
s = open(p).read()
b, e = "<!-- SEEDTABLE-BEGIN -->", "<!-- SEEDTABLE-END -->"
if b in s:
    s = s[:s.index(b) + len(b)] + "\n" + table + "\n" + s[s.index(e):]
    open(p, "w").write(s)
print(table[:600])
