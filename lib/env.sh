# sourced by the check scripts: Go environment for building against /repo's working tree, offline
export GOFLAGS=-mod=mod GOPROXY=off CGO_ENABLED=${CGO_ENABLED:-0}
export VERIF_ROOT=${VERIF_ROOT:-/verif}
export REPO=${REPO:-/repo}
