#!/usr/bin/env python3
"""Rebuilds the table 'theorems per property' in DESIGN.md (between THMTABLE markers) from coq/properties/Cxx.v."""
import os, re, glob, json
root = os.path.dirname(os.path.dirname(os.path.abspath(__file__)))
titles = {}
for l in open(os.path.join(root, "properties.jsonl")):
    p = json.loads(l)
    titles[p["id"]] = p["title"]
rows = ["| Property | Theorems stated in `coq/properties/Cxx.v` (each closed by `exact`, `Print Assumptions`: closed under the global context) | Proof files |", "|---|---|---|"]
for f in sorted(glob.glob(os.path.join(root, "coq/properties/C*.v"))):
    pid = os.path.basename(f)[:-2]
    src = re.sub(r"\(\*.*?\*\)", "", open(f).read(), flags=re.S)
    names = re.findall(r"^\s*(?:Theorem|Definition)\s+(C\d\d_\w+)", src, flags=re.M)
    names = [n for n in names if "nonvacuous" not in n]
    ex = re.findall(r"^\s*Example\s+(\w+)", src, flags=re.M)
    reqs = re.findall(r"^Require Import ([^.]*)\.", src, flags=re.M | re.S)
    mods = [m for r in reqs for m in r.split() if re.search(r"Proofs|Inv|Time|Term|Reasm|Short|Log|Level|Send|PeerU|C08Bad|C07Reply|Agree", m)]
    rows.append("| %s %s | %s%s | %s |" % (pid, titles.get(pid, ""), ", ".join("`%s`" % n for n in names),
                                          ("; non-vacuity: " + ", ".join("`%s`" % e for e in ex)) if ex else "", ", ".join("`%s.v`" % m for m in mods)))
table = "\n".join(rows)
p = os.path.join(root, "DESIGN.md")
s = open(p).read()
b, e = "<!-- THMTABLE-BEGIN -->", "<!-- THMTABLE-END -->"
if b in s:
    s = s[:s.index(b) + len(b)] + "\n" + table + "\n" + s[s.index(e):]
    open(p, "w").write(s)
print(table[:1500])
