#!/usr/bin/env python3
"""Orchestration of one check run: translate -> prove -> extract/build runner -> run both sides -> compare -> decide.
See DESIGN.md section 3."""
import fcntl, glob, hashlib, json, os, re, shutil, subprocess, sys, time

ROOT = os.environ.get("VERIF_ROOT", "/verif")
REPO = os.environ.get("REPO", "/repo")
COQ = os.path.join(ROOT, "coq")
ENV = dict(os.environ, GOFLAGS="-mod=mod", GOPROXY="off", VERIF_ROOT=ROOT, REPO=REPO)
ENV.pop("GOTOOLCHAIN", None) if ENV.get("GOTOOLCHAIN") == "local" else None

TRUSTED_BASE = [
    "Coq 8.16.1 kernel (coqc) incl. vm_compute for the finite sweeps; no native_compute; no axioms (Print Assumptions: Closed under the global context)",
    "translator harness/cmd/translate (Go compiler + reflect evaluate /repo's constants and tables into coq/gen/*.v)",
    "extraction: ExtrOcamlBasic only (bool, option, list, prod, unit, sumbool -> OCaml; nat/N/Z/positive/string stay Coq data types; no Extract Constant), OCaml 4.13.1 + zarith, runner/driver.ml",
    "correspondence harness harness/cmd/exec (generators, scripted connection/device, canonicalisers) and lib/verif.py (comparison, verdict)",
    "modelled, not verified: crypto/cipher CBC, github.com/azihsoyn/rijndael256, hash/crc32, encoding/binary, encoding/json text layer, time.Unix normalisation, logrus/fmt rendering, net.Conn deadline semantics, the Go runtime",
]


def log(*a):
    print("[check]", *a, file=sys.stderr, flush=True)


class Lock:
    def __init__(self, name):
        self.path = os.path.join(ROOT, name)

    def __enter__(self):
        self.f = open(self.path, "w")
        fcntl.flock(self.f, fcntl.LOCK_EX)
        return self

    def __exit__(self, *a):
        fcntl.flock(self.f, fcntl.LOCK_UN)
        self.f.close()


def run(cmd, timeout=None, cwd=None, stdin=None, env=None):
    p = subprocess.run(cmd, cwd=cwd, stdin=stdin, stdout=subprocess.PIPE, stderr=subprocess.STDOUT, timeout=timeout,
                       env=env or ENV, shell=isinstance(cmd, str))
    return p.returncode, p.stdout.decode("utf-8", "replace")


# ------------------------------------------------------------------ stage 1: translate
def gobuild(outdir, pkgs, race=False):
    cmd = [os.path.join(ROOT, "lib/gobuild.sh"), outdir] + (["-race"] if race else []) + pkgs
    rc, out = run(cmd, timeout=900)
    return rc, out


def stage_translate(work):
    with Lock(".translate.lock"):
        rc, out = gobuild(os.path.join(work, "bin"), ["translate"])
        if rc != 0:
            return False, "the translator does not build against /repo's working tree:\n" + out
        rc, out = run([os.path.join(work, "bin/translate"), os.path.join(COQ, "gen")], timeout=300)
        if rc != 0:
            return False, "translator failed:\n" + out
    return True, ""


# ------------------------------------------------------------------ stage 2: prove
def coq_files():
    fs = []
    for d in ("gen", "golden", "theories", "properties"):
        fs += sorted(glob.glob(os.path.join(COQ, d, "*.v")))
    return [os.path.relpath(f, COQ) for f in fs]


def write_coqproject():
    lines = ["-R gen RSCP", "-R golden RSCP", "-R theories RSCP", "-R properties RSCP",
             "-arg -w -arg -notation-overridden,-deprecated-hint-without-locality,-deprecated-instance-without-locality,-abstract-large-number"]
    content = "\n".join(lines + coq_files()) + "\n"
    p = os.path.join(COQ, "_CoqProject")
    old = open(p).read() if os.path.exists(p) else ""
    if old != content or not os.path.exists(os.path.join(COQ, "Makefile")):
        open(p, "w").write(content)
        rc, out = run(["coq_makefile", "-f", "_CoqProject", "-o", "Makefile"], cwd=COQ, timeout=120)
        if rc != 0:
            raise RuntimeError("coq_makefile failed: " + out)


def stage_coq(timeout=1500):
    """full .vo build (never -vos); returns (ok, log)"""
    with Lock(".coq.lock"):
        write_coqproject()
        t0 = time.time()
        rc, out = run(["timeout", str(timeout), "make", "-k", "-j16"], cwd=COQ, timeout=timeout + 60)
        log("coq build: rc=%d in %.1fs" % (rc, time.time() - t0))
    return rc == 0, out


def vo_ok(rel):
    v = os.path.join(COQ, rel)
    vo = v[:-2] + ".vo"
    return os.path.exists(vo) and os.path.getmtime(vo) >= os.path.getmtime(v)


_req_re = re.compile(r"^\s*(?:From\s+\S+\s+)?Require\s+(?:Import|Export)?\s*([^.]*)\.", re.M)


def cone(rel):
    """transitive dependency cone of a .v file inside the development"""
    index = {os.path.basename(f)[:-2]: f for f in coq_files()}
    seen, todo = [], [rel]
    while todo:
        f = todo.pop()
        if f in seen:
            continue
        seen.append(f)
        src = open(os.path.join(COQ, f)).read()
        src = re.sub(r"\(\*.*?\*\)", "", src, flags=re.S)
        for m in _req_re.finditer(src):
            if m.group(0).lstrip().startswith("From Coq") or m.group(0).lstrip().startswith("From mathcomp"):
                continue
            for name in m.group(1).split():
                name = name.split(".")[-1]
                if name in index:
                    todo.append(index[name])
    return seen


_stmt_re = re.compile(r"^\s*(?:Local\s+|Global\s+)?(?:Time\s+)?(Theorem|Lemma|Corollary|Example|Fact|Remark|Proposition)\s+(\w+)", re.M)


def obligations(prop_file):
    total, done, missing = 0, 0, []
    for f in cone(prop_file):
        src = open(os.path.join(COQ, f)).read()
        n = len(_stmt_re.findall(src))
        total += n
        if vo_ok(f):
            done += n
        else:
            missing.append(f)
    return total, done, missing


FORBIDDEN = re.compile(r"\b(Admitted|admit|Axiom|Parameter|Conjecture|Unset\s+Guard|bypass_check|Admit\s+Obligations|type-in-type|impredicative-set)\b")


def forbidden_scan():
    bad = []
    for f in coq_files():
        if f.startswith("gen/") or f.startswith("golden/"):
            continue
        src = open(os.path.join(COQ, f)).read()
        src = re.sub(r"\(\*.*?\*\)", "", src, flags=re.S)
        for m in FORBIDDEN.finditer(src):
            bad.append("%s: %s" % (f, m.group(0)))
    return bad


def check_property_file(pid):
    """re-check properties/Cxx.v alone and parse Print Assumptions; returns (ok, detail, nthm)"""
    rel = "properties/%s.v" % pid
    path = os.path.join(COQ, rel)
    if not os.path.exists(path):
        return False, "no property file " + rel, 0
    src = open(path).read()
    n_print = len(re.findall(r"^\s*Print Assumptions", src, flags=re.M)) + len(re.findall(r"\.\s+Print Assumptions", src))
    n_print = len(re.findall(r"Print Assumptions\s+\w+", re.sub(r"\(\*.*?\*\)", "", src, flags=re.S)))
    with Lock(".coq.lock"):
        rc, out = run(["timeout", "600", "coqc", "-R", "gen", "RSCP", "-R", "golden", "RSCP", "-R", "theories", "RSCP", "-R", "properties", "RSCP",
                       "-w", "-notation-overridden,-deprecated-hint-without-locality,-abstract-large-number", rel], cwd=COQ, timeout=700)
    if rc != 0:
        return False, "coqc %s failed:\n%s" % (rel, out[-3000:]), 0
    closed = out.count("Closed under the global context")
    if "Axioms:" in out or closed != n_print:
        return False, "Print Assumptions of %s: %d of %d theorems closed under the global context\n%s" % (rel, closed, n_print, out[-2000:]), n_print
    return True, "%d theorems, all closed under the global context" % n_print, n_print


def stage_coqchk(pid, timeout=2400):
    """thorough tier: re-check the compiled property file and everything it depends on with the independent checker and
    list the axioms; cached by the hash of every .v file of the development"""
    h = hashlib.sha256()
    for f in coq_files():
        h.update(open(os.path.join(COQ, f), "rb").read())
    cache = os.path.join(ROOT, "runner", "_build", "coqchk.%s.%s.txt" % (pid, h.hexdigest()[:16]))
    if os.path.exists(cache):
        out = open(cache).read()
    else:
        with Lock(".coq.lock"):
            rc, out = run(["timeout", str(timeout), "coqchk", "-silent", "-o", "-R", "gen", "RSCP", "-R", "golden", "RSCP", "-R", "theories", "RSCP",
                           "-R", "properties", "RSCP", "RSCP." + pid], cwd=COQ, timeout=timeout + 60)
        out = "rc=%d\n%s" % (rc, out)
        os.makedirs(os.path.dirname(cache), exist_ok=True)
        open(cache, "w").write(out)
    ok = out.startswith("rc=0") and "* Axioms: <none>" in out
    m = re.search(r"\* Axioms:.*?(?=\n\* |\Z)", out, flags=re.S)
    return ok, (m.group(0).strip() if m else out[-800:])


def first_error(makelog):
    m = re.search(r'File "\./([^"]+)", line (\d+).*?\nError:(.*?)(?:\n\n|\nmake)', makelog, flags=re.S)
    if m:
        return "%s line %s: %s" % (m.group(1), m.group(2), " ".join(m.group(3).split())[:400])
    return makelog[-600:]


# ------------------------------------------------------------------ stage 3: runner
def stage_runner():
    rc, out = run([os.path.join(ROOT, "runner/build.sh")], timeout=1900)
    if rc != 0:
        return None, out
    return out.strip().splitlines()[-1], ""


def run_model(driver, cases_path, out_path, timeout=3600, shards=16):
    """runs the extracted model over the case file, sharded over processes, preserving order"""
    lines = open(cases_path).read().split("\n")
    if lines and lines[-1] == "":
        lines.pop()
    n = len(lines)
    shards = max(1, min(shards, n // 50 + 1))
    procs = []
    d = os.path.dirname(out_path)
    for i in range(shards):
        part = lines[i::shards]          # round-robin, so that expensive cases spread over the shards
        ip = os.path.join(d, "model.in.%d" % i)
        op = os.path.join(d, "model.out.%d" % i)
        open(ip, "w").write("\n".join(part) + ("\n" if part else ""))
        procs.append((subprocess.Popen([driver], stdin=open(ip), stdout=open(op, "w"), stderr=subprocess.STDOUT), ip, op, len(part)))
    ok = True
    res = [None] * n
    t0 = time.time()
    for i, (p, ip, op, cnt) in enumerate(procs):
        try:
            p.wait(timeout=max(1, timeout - (time.time() - t0)))
        except subprocess.TimeoutExpired:
            p.kill()
            ok = False
        got = open(op).read().split("\n")
        if got and got[-1] == "":
            got.pop()
        if len(got) != cnt:
            ok = False
            got = (got + ["MODEL-MISSING"] * cnt)[:cnt]
        res[i::shards] = got
        os.remove(ip)
        os.remove(op)
    open(out_path, "w").write("\n".join(res) + ("\n" if res else ""))
    return ok


# ------------------------------------------------------------------ known findings
def known_findings():
    path = os.path.join(ROOT, "KNOWN_FINDINGS")
    out = []
    if not os.path.exists(path):
        return out
    for line in open(path):
        line = line.strip()
        if not line.startswith("finding:"):
            continue
        m = re.match(r"finding:\s+property=(\S+)\s+id=(\S+)\s+match=/(.*?)/\s+(.*)$", line)
        if m:
            out.append({"property": m.group(1), "id": m.group(2), "re": re.compile(m.group(3)), "text": m.group(4)})
    return out


def write_json(path, obj):
    tmp = path + ".tmp"
    with open(tmp, "w") as f:
        json.dump(obj, f, indent=1, sort_keys=False)
        f.write("\n")
    os.replace(tmp, path)
