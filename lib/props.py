"""Per-property configuration of ./check: which harness driver, comparator and assumptions."""

PROPS = {
    "C14": {
        "exec": "C14",
        "exhaustive": True,
        "assumptions": ["reflect reports dynamic types faithfully (translator, dt_rows)",
                        "encoding/json string quoting/unquoting is the identity on tag and data type names"],
    },
}
