"""Per-property configuration of ./check: which harness driver, comparator and assumptions."""


def _kv(line):
    d = {}
    for x in line.split(" "):
        i = x.find("=")
        if i > 0:
            d[x[:i]] = x[i + 1:]
    return d


def _strip_zero_blocks(hexs):
    if hexs == "-":
        return ""
    while len(hexs) >= 64 and hexs[-64:] == "0" * 64:
        hexs = hexs[:-64]
    return hexs


def cmp_c01(case, impl, model):
    """C01 pins: the decoded tree (rt=) and the plaintext modulo the number of trailing all-zero blocks.
    The exact ciphertext is compared only when the padding is minimal (it then has to be the model's)."""
    if impl == model:
        return None
    ip, mp = impl.split(" | "), model.split(" | ")
    if len(ip) != len(mp):
        return "different number of frames"
    for a, b in zip(ip, mp):
        ia, ib = a.find(" rt="), b.find(" rt=")
        if ia < 0 or ib < 0 or a[ia:] != b[ib:]:
            return "decoded messages differ"
        ka, kb = _kv(a[:ia]), _kv(b[:ib])
        if "p" in ka and _strip_zero_blocks(ka["p"]) != _strip_zero_blocks(kb.get("p", "")):
            return "plaintext frames differ (beyond trailing zero blocks)"
        if "p" in ka and len(ka["p"]) == len(kb.get("p", "")) and ka.get("c") != kb.get("c"):
            return "ciphertexts differ for the same plaintext"
        if "p" not in ka and ka.get("c") != kb.get("c"):
            return "ciphertexts of a stream frame differ"
    return None


def _trace(line):
    line = line.split(" ## ")[0]
    parts = line.split(" || ", 1)
    ev = parts[0].split(" ; ") if parts[0] else []
    rs = parts[1] if len(parts) > 1 else ""
    return ev, rs


def _proj(keep, soft_events=False, soft_results=False):
    """comparator that projects the event trace of a session to the kinds a property pins (plus the call results).
    soft_*: a difference in that part is not by itself a failure of the property (the property does not fix it, the model
    does): it is reported as a broken correspondence - reason prefixed with 'corr:' - unless a direct predicate fails too"""
    def cmp(case, impl, model):
        r = cmp0(case, impl, model)
        if r and ((r == "call results differ" and soft_results) or (r != "call results differ" and not r.startswith("the real client panicked") and soft_events)):
            return "corr:" + r
        return r

    def cmp0(case, impl, model):
        if not case.startswith("S "):
            return None if impl == model else "implementation and model differ"
        if impl.startswith("PANIC") or impl == "HANG":
            return "the real client panicked or hung: " + impl[:200]
        ei, ri = _trace(impl)
        em, rm = _trace(model)
        if ri != rm:
            return "call results differ"
        pi = [e for e in ei if keep(e)]
        pm = [e for e in em if keep(e)]
        if pi != pm:
            for k, (a, b) in enumerate(zip(pi, pm)):
                if a != b:
                    return "event %d differs: real client '%s', model '%s'" % (k, a[:80], b[:80])
            return "the real client produced %d pinned events, the model %d" % (len(pi), len(pm))
        return None
    return cmp


def _k(*prefixes):
    return lambda e: any(e.startswith(p) for p in prefixes)


def _logs_dump_tree(e):
    return e.startswith("LOG ") and (e.endswith(" dump") or e.endswith(" tree"))


CLIENT_ASSUME = ["net.Conn delivers bytes in order and honours armed deadlines (the scripted connection and loopback TCP do)",
                 "the harness sets the client's one net.Conn field by reflection (attach mode starts with connection 0 established; connect() itself is exercised in tcp mode)",
                 "reply frames handed to the client are encoded with rscp.Write on the harness's own cipher states (C01 ties Write to the model)"]

def _json_value(hexs):
    """the JSON value of a hex encoded document: numbers as exact decimals, objects without key order"""
    import json, decimal
    return json.loads(bytes.fromhex(hexs).decode("utf-8"), parse_float=decimal.Decimal, parse_int=decimal.Decimal)


def cmp_c13(case, impl, model):
    if case.startswith("JOUTC "):
        # scalar/container collision under one tag: the property pins validity and "no crash", not the rendering
        return None if impl.split(" ")[0] == model.split(" ")[0] else "one side fails where the other renders"
    if impl == model:
        return None
    # the property fixes the JSON value that is printed, not its spelling (white space, key order inside an object,
    # the way a number or an escape is written)
    if impl.startswith("OK ") and model.startswith("OK "):
        try:
            if _json_value(impl[3:]) == _json_value(model[3:]):
                return "corr:the document is spelled differently from the model's (same JSON value)"
        except Exception:
            return "the output is not one valid JSON document"
    return "the rendered document differs from the model's"


def cmp_c15(case, impl, model):
    """C15 pins status, which streams carry output, the absence of a panic trace, the frames sent - and the JSON value on
    standard output (not its spelling)"""
    if impl == model:
        return None
    li, lm = impl.split(" || ", 1), model.split(" || ", 1)
    ki, km = _kv(li[0]), _kv(lm[0])
    so_i, so_m = ki.pop("stdout", ""), km.pop("stdout", "")
    if ki != km or li[1:] != lm[1:]:
        return "implementation and model differ"
    if so_i == so_m:
        return None
    try:
        if so_i not in ("", "-") and so_m not in ("", "-") and _json_value(so_i) == _json_value(so_m):
            return "corr:standard output is spelled differently from the model's (same JSON value)"
    except Exception:
        pass
    return "implementation and model differ (standard output)"


def soft_eq(case, impl, model):
    """C02: the verdict on arbitrary bytes is pinned by C03; for C02 a different verdict is a broken correspondence only"""
    if impl == model:
        return None
    if impl.startswith("PANIC") or impl == "HANG":
        return "decoding panics or hangs: " + impl[:160]
    return "corr:implementation and model differ"


def extra_c17(work, tier, seed, stats):
    """race detector reports and the footprint scan (package-level variables of rscp written by function bodies)"""
    import glob, json, os, subprocess
    out = []
    for f in sorted(glob.glob(os.path.join(work, "race.*"))):
        txt = open(f).read()
        if "DATA RACE" in txt:
            out.append({"kind": "predicate", "case": "race detector report " + os.path.basename(f), "impl": txt[:4000], "model": None,
                        "message": "the race detector observed an unsynchronised access: " + " ".join(txt.split("\n")[1:4])[:300]})
    fp = os.path.join(work, "bin", "footprint")
    if os.path.exists(fp):
        p = subprocess.run([fp, os.path.join(os.environ.get("REPO", "/repo"), "rscp")], stdout=subprocess.PIPE, stderr=subprocess.STDOUT)
        try:
            d = json.loads(p.stdout.decode())
        except Exception:
            return out + [{"kind": "predicate", "case": "footprint scan", "impl": p.stdout.decode()[:1000], "model": None,
                           "message": "the footprint scan of package rscp failed"}]
        stats["package_level_vars"] = len(d.get("vars") or [])
        for w in d.get("writes") or []:
            if w["var"] in ("Log", "Now"):
                continue
            if w["kind"] == "address":
                # taking the address is not a write; the scan cannot follow the pointer: the footprint argument no longer checks
                out.append({"kind": "soft", "case": "footprint %s %s" % (w["var"], w["pos"]), "impl": json.dumps(w), "model": None,
                            "message": "package rscp takes the address of the package-level variable %s in a function body (%s): the footprint scan cannot tell whether it is written through the pointer" % (w["var"], w["pos"])})
                continue
            out.append({"kind": "predicate", "case": "footprint %s %s" % (w["var"], w["pos"]), "impl": json.dumps(w), "model": None,
                        "message": "package rscp writes the package-level variable %s in a function body (%s at %s): shared mutable state besides the logger and the clock" % (w["var"], w["kind"], w["pos"])})
    return out


CODEC_ASSUME = ["github.com/azihsoyn/rijndael256 + crypto/cipher CBC compute the Gallina Rijndael-256/CBC (compared byte for byte on every W/R case of this run)",
                "hash/crc32.ChecksumIEEE computes the Gallina bit-serial CRC-32 (compared on this run)",
                "encoding/binary little-endian layout, time.Unix normalisation as modelled"]

PROPS = {
    "C01": {"exec": "C01", "compare": cmp_c01, "assumptions": CODEC_ASSUME},
    "C02": {"exec": "C02", "compare": soft_eq, "assumptions": CODEC_ASSUME + ["PARTIAL: absence of Go panics and wall-clock promptness are established by the correspondence run only (a recovered panic or a 20 s timeout is a mismatch)"]},
    "C03": {"exec": "C03", "assumptions": CODEC_ASSUME},
    "C04": {"exec": "C04", "assumptions": CODEC_ASSUME},
    "C16": {"exec": "C16", "assumptions": ["the error text of NewClient names a missing field by the words address / username / password / key, and a bad checksum option by UseChecksum"]},
    "C18": {"exec": "C18", "assumptions": ["github.com/spali/go-slicereader delivers the arguments in order and reports the end of the slice as EOS"]},
    "C05": {"exec": "C05", "compare": _proj(_k("WRITE")), "assumptions": CODEC_ASSUME + CLIENT_ASSUME},
    "C06": {"exec": "C06", "compare": _proj(_k("FRAME")), "assumptions": CODEC_ASSUME + CLIENT_ASSUME + ["the loopback device never calls package rscp: it decrypts with crypto/cipher + rijndael256 under its own key padding and per-connection IV"]},
    "C07": {"exec": "C07", "compare": _proj(_k("READ", "WRITE"), soft_events=True), "assumptions": CODEC_ASSUME + CLIENT_ASSUME},
    "C08": {"exec": "C08", "compare": _proj(_k("FRAME")), "assumptions": CODEC_ASSUME + CLIENT_ASSUME + ["the peer answers each request it receives once and in order (the scripted device does)"]},
    "C09": {"exec": "C09", "compare": _proj(_k("WRITE", "FRAME")), "assumptions": CODEC_ASSUME + CLIENT_ASSUME},
    "C10": {"exec": "C10", "compare": _proj(_k("SETWD", "SETRD", "WRITE", "READ", "CLOSE"), soft_events=True, soft_results=True),
            "assumptions": CLIENT_ASSUME + ["PARTIAL: wall-clock time, the scheduler and the kernel honouring deadlines are outside the model; time is virtual in the scripted connection"]},
    "C11": {"exec": "C11", "compare": _proj(lambda e: _logs_dump_tree(e) or e.startswith("WRITE"), soft_events=True, soft_results=True),
            "assumptions": CLIENT_ASSUME + ["PARTIAL: fmt/logrus rendering is not modelled; the rendered log text is scanned (literal, hex, base64, byte dumps parsed back)",
                                            "ciphertext does not contain the password as a substring (cipher_hides premise of C11_no_secret)"]},
    "C12": {"exec": "C12", "needs": ["e3dc", "e3dc.test"],
            "assumptions": ["JSON text syntax, key matching and duplicate-key rules of encoding/json (the model starts at a syntax tree; generated texts use exact key names)",
                            "decimal -> binary rounding of strconv.ParseFloat and RFC 3339 parsing of time (oracle annotations of the syntax tree)"]},
    "C13": {"exec": "C13", "needs": ["e3dc", "e3dc.test"], "compare": cmp_c13,
            "assumptions": ["number, string and time formatting of encoding/json / strconv / time (oracle table per case)",
                            "for a tag used for both a scalar and a container only validity and the absence of a crash are compared (the property does not fix that rendering)"]},
    "C15": {"exec": "C15", "needs": ["e3dc", "e3dc.test"], "compare": cmp_c15,
            "assumptions": ["PARTIAL: jnovack/flag (flag syntax, environment variables, config file), os (files, stdin) and the process exit path are not modelled; they are exercised through the real binary",
                            "the request text's JSON syntax is handled by encoding/json (the model starts at the syntax tree)"]},
    "C17": {"exec": "C17", "race": True, "needs": ["footprint"], "extra": extra_c17,
            "assumptions": ["PARTIAL: data-race freedom in the sense of the Go memory model is observed with the race detector on the schedules this run produced, not proved",
                            "the footprint scan (go/ast) finds writes to package-level variables by name; aliasing through pointers taken in init is not tracked",
                            "the harness fixes rscp.Now once before the goroutines start"]},
    "C14": {
        "exec": "C14",
        "exhaustive": True,
        "assumptions": ["reflect reports dynamic types faithfully (translator, dt_rows)",
                        "encoding/json string quoting/unquoting is the identity on tag and data type names"],
    },
}
