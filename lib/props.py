"""Per-property configuration of ./check: which harness driver, comparator and assumptions."""


def _kv(line):
    d = {}
    for x in line.split(" "):
        i = x.find("=")
        if i > 0:
            d[x[:i]] = x[i + 1:]
    return d


def _strip_zero_blocks(hexs):
    if hexs == "-":
        return ""
    while len(hexs) >= 64 and hexs[-64:] == "0" * 64:
        hexs = hexs[:-64]
    return hexs


def cmp_c01(case, impl, model):
    """C01 pins: the decoded tree (rt=) and the plaintext modulo the number of trailing all-zero blocks.
    The exact ciphertext is compared only when the padding is minimal (it then has to be the model's)."""
    if impl == model:
        return None
    ip, mp = impl.split(" | "), model.split(" | ")
    if len(ip) != len(mp):
        return "different number of frames"
    for a, b in zip(ip, mp):
        ia, ib = a.find(" rt="), b.find(" rt=")
        if ia < 0 or ib < 0 or a[ia:] != b[ib:]:
            return "decoded messages differ"
        ka, kb = _kv(a[:ia]), _kv(b[:ib])
        if "p" in ka and _strip_zero_blocks(ka["p"]) != _strip_zero_blocks(kb.get("p", "")):
            return "plaintext frames differ (beyond trailing zero blocks)"
        if "p" in ka and len(ka["p"]) == len(kb.get("p", "")) and ka.get("c") != kb.get("c"):
            return "ciphertexts differ for the same plaintext"
        if "p" not in ka and ka.get("c") != kb.get("c"):
            return "ciphertexts of a stream frame differ"
    return None


CODEC_ASSUME = ["github.com/azihsoyn/rijndael256 + crypto/cipher CBC compute the Gallina Rijndael-256/CBC (compared byte for byte on every W/R case of this run)",
                "hash/crc32.ChecksumIEEE computes the Gallina bit-serial CRC-32 (compared on this run)",
                "encoding/binary little-endian layout, time.Unix normalisation as modelled"]

PROPS = {
    "C01": {"exec": "C01", "compare": cmp_c01, "assumptions": CODEC_ASSUME},
    "C02": {"exec": "C02", "assumptions": CODEC_ASSUME + ["PARTIAL: absence of Go panics and wall-clock promptness are established by the correspondence run only (a recovered panic or a 20 s timeout is a mismatch)"]},
    "C03": {"exec": "C03", "assumptions": CODEC_ASSUME},
    "C04": {"exec": "C04", "assumptions": CODEC_ASSUME},
    "C14": {
        "exec": "C14",
        "exhaustive": True,
        "assumptions": ["reflect reports dynamic types faithfully (translator, dt_rows)",
                        "encoding/json string quoting/unquoting is the identity on tag and data type names"],
    },
}
