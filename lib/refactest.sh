#!/bin/bash
# usage: refactest.sh <patch.diff> [<Cxx> ...]   applies a behaviour-preserving rewrite to /repo, checks that the pinned suite passes,
# runs the given quick checks (default: all 18) and prints one line per check; always restores /repo
set -u
patch=$1; shift
checks="$@"; [ -z "$checks" ] && checks="C01 C02 C03 C04 C05 C06 C07 C08 C09 C10 C11 C12 C13 C14 C15 C16 C17 C18"
cd /repo || exit 2
if ! git diff --quiet; then echo "refactest: /repo is not clean"; exit 2; fi
git apply "$patch" || { echo "refactest: patch does not apply"; exit 2; }
trap 'git -C /repo checkout -- . ; git -C /repo clean -fdq' EXIT
export GOFLAGS=-mod=mod GOPROXY=off
suite=$(go build ./... 2>&1 && go test -vet=off -count=1 ./... 2>&1 | grep -c "^FAIL\|^---")
echo "suite-failures=$suite"
cd /verif
for p in $checks; do
  out=$(timeout 1800 ./check "$p" --tier quick 2>&1)
  ok=$(echo "$out" | grep -c "^OK ")
  v=$(echo "$out" | grep -c "^VIOLATION")
  nf=$(echo "$out" | grep -c "no-failing-input-found")
  why=$(echo "$out" | grep -m1 "^\[check\] \(violation\|proof\|correspondence\|build\)" | cut -c1-230)
  if [ "$ok" = 1 ]; then echo "$p OK"; elif [ "$v" = "$nf" ]; then echo "$p tie-broken(no-failing-input-found) $why"; else echo "$p ALARM-WITH-INPUT violations=$v $why"; fi
done
