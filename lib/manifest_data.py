NOTES = ("Every check: translator regenerates coq/gen from /repo, full make of the Coq development, Print Assumptions of properties/<id>.v, "
         "then the extracted model and the real code are run on the same generated cases. See DESIGN.md.")

COMMON_NOTE = ("Trusted: Coq 8.16.1 kernel + vm_compute, no axioms (each property theorem prints 'Closed under the global context'); translator; "
               "ExtrOcamlBasic extraction + OCaml driver; the Go correspondence harness; libraries modelled rather than verified are listed in DESIGN.md section 8. ")

CHECKS = [
    {"property_id": "C14",
     "text": "Coherence of the vocabularies is proved in Coq over the tables regenerated from the source on every run (finite sweeps by vm_compute lifted with forallb_forall; the JSON round trip of a tag for all 2^32 tags); the model's lookup and JSON functions are compared with Tag/DataType methods on all 3564 tags, all 256 type codes and random unknown tags.",
     "design_ref": "6/C14", "technique": "Coq proof over generated tables (translator) + exhaustive correspondence",
     "note": COMMON_NOTE + "Assumes reflect reports dynamic types faithfully."},
]

_todo = "the machinery for this property is not built yet in this commit (planned: Coq model + theorem + correspondence, see DESIGN.md section 6)"
NOT_APPLICABLE = [{"property_id": p, "reason": _todo} for p in
                  ["C01", "C02", "C03", "C04", "C05", "C06", "C07", "C08", "C09", "C10", "C11", "C12", "C13", "C15", "C16", "C17", "C18"]]
