NOTES = ("Every check: translator regenerates coq/gen from /repo, full make of the Coq development, Print Assumptions of properties/<id>.v, "
         "then the extracted model and the real code are run on the same generated cases. See DESIGN.md.")

COMMON_NOTE = ("Trusted: Coq 8.16.1 kernel + vm_compute, no axioms (each property theorem prints 'Closed under the global context'); translator; "
               "ExtrOcamlBasic extraction + OCaml driver; the Go correspondence harness; libraries modelled rather than verified are listed in DESIGN.md section 8. ")

CHECKS = [
    {"property_id": "C01",
     "text": "Theorems C01_plain / C01_roundtrip / C01_stream: for every key, chain value, checksum setting, timestamp and every list of well-formed messages that fits the 16 bit length, the model of Read applied to the model of Write returns exactly the messages, for single frames and for streams on chained cipher states (Gallina Rijndael-256/CBC, cipher correctness proved, no premise left). The models are compared with rscp.Write/rscp.Read byte for byte (ciphertext, plaintext, decoded tree) on generated trees and boundary sizes, and Read(Write(ms)) == ms is evaluated directly on the real code.",
     "design_ref": "6/C01", "technique": "Coq proof (structural induction, CBC/Rijndael inverse) + byte-exact correspondence",
     "note": COMMON_NOTE + "rijndael256, crypto/cipher, hash/crc32, encoding/binary are modelled and compared on every run."},
    {"property_id": "C02",
     "text": "PARTIAL. Proved on the model: fuel adequacy (S(length) units always suffice, more fuel never changes the answer), linear work and nesting depth (<= length/7), bounded buffering and frame size. Absence of Go panics/hangs is carried by the correspondence: the model predicts the verdict of every generated input (structural mutations at every nesting level, all type codes, control words, truncations, extensions, random blocks, chunkings) and a recovered panic or timeout counts as a violation with the input as replay.",
     "design_ref": "6/C02", "technique": "Coq proof of totality/fuel/work bounds + mutation-based correspondence (panic = violation)",
     "note": COMMON_NOTE + "Go runtime panics and wall-clock promptness cannot be expressed in Gallina; they are observed, not proved."},
    {"property_id": "C03",
     "text": "Theorem C03_accept_iff: the model decoder accepts a plaintext exactly when it satisfies the declarative grammar WellFormed (magic, control bits, version, covered length, items with defined types and agreeing lengths, container lengths exact, zero padding, CRC) and then returns exactly the encoded items; C03_functional; C03_read_step and C03_chunks for block-aligned chunked delivery through the cipher. The real Read is compared with the model (Accept tree / incomplete / error) on the mutation families.",
     "design_ref": "6/C03", "technique": "Coq proof of decoder <-> grammar equivalence + correspondence on structural mutations",
     "note": COMMON_NOTE},
    {"property_id": "C04",
     "text": "Theorems C04_burst, C04_two_bits, C04_one_bit: a valid checksummed frame altered in timestamp/payload/CRC by a pattern confined to 32 consecutive bits, or of one or two bits anywhere, is never accepted - from the linear algebra of the CRC register (T linear over xor, injective on 32 bit states; order of x checked by vm_compute up to the maximal frame length 8*65557 bits, bound stated). hash/crc32 is compared with the Gallina CRC and the position of the check with the real Read on single flips, pairs, bursts and random corruptions.",
     "design_ref": "6/C04", "technique": "Coq proof (CRC linear algebra + bounded orbit sweep lifted by lemma) + correspondence on bit-level corruptions",
     "note": COMMON_NOTE + "The two-bit theorem is bounded by the maximal frame length (8*65557 bits), stated in the theorem."},
    {"property_id": "C14",
     "text": "Coherence of the vocabularies is proved in Coq over the tables regenerated from the source on every run (finite sweeps by vm_compute lifted with forallb_forall; the JSON round trip of a tag for all 2^32 tags); the model's lookup and JSON functions are compared with Tag/DataType methods on all 3564 tags, all 256 type codes and random unknown tags.",
     "design_ref": "6/C14", "technique": "Coq proof over generated tables (translator) + exhaustive correspondence",
     "note": COMMON_NOTE + "Assumes reflect reports dynamic types faithfully."},
]

_todo = "the machinery for this property is not built yet in this commit (planned: Coq model + theorem + correspondence, see DESIGN.md section 6)"
NOT_APPLICABLE = [{"property_id": p, "reason": _todo} for p in
                  ["C05", "C06", "C07", "C08", "C09", "C10", "C11", "C12", "C13", "C15", "C16", "C17", "C18"]]
