NOTES = ("Every check: translator regenerates coq/gen from /repo, full make of the Coq development, Print Assumptions of properties/<id>.v, "
         "then the extracted model and the real code are run on the same generated cases. See DESIGN.md.")

COMMON_NOTE = ("Trusted: Coq 8.16.1 kernel + vm_compute, no axioms (each property theorem prints 'Closed under the global context'); translator; "
               "ExtrOcamlBasic extraction + OCaml driver; the Go correspondence harness; libraries modelled rather than verified are listed in DESIGN.md section 8. ")

CHECKS = [
    {"property_id": "C01",
     "text": "Theorems C01_plain / C01_roundtrip / C01_stream: for every key, chain value, checksum setting, timestamp and every list of well-formed messages that fits the 16 bit length, the model of Read applied to the model of Write returns exactly the messages, for single frames and for streams on chained cipher states (Gallina Rijndael-256/CBC, cipher correctness proved, no premise left). The models are compared with rscp.Write/rscp.Read byte for byte (ciphertext, plaintext, decoded tree) on generated trees and boundary sizes, and Read(Write(ms)) == ms is evaluated directly on the real code.",
     "design_ref": "6/C01", "technique": "Coq proof (structural induction, CBC/Rijndael inverse) + byte-exact correspondence",
     "note": COMMON_NOTE + "rijndael256, crypto/cipher, hash/crc32, encoding/binary are modelled and compared on every run."},
    {"property_id": "C02",
     "text": "PARTIAL. Proved on the model: fuel adequacy (S(length) units always suffice, more fuel never changes the answer), linear work and nesting depth (<= length/7), bounded buffering and frame size. Absence of Go panics/hangs is carried by the correspondence: the model predicts the verdict of every generated input (structural mutations at every nesting level, all type codes, control words, truncations, extensions, random blocks, chunkings) and a recovered panic or timeout counts as a violation with the input as replay.",
     "design_ref": "6/C02", "technique": "Coq proof of totality/fuel/work bounds + mutation-based correspondence (panic = violation)",
     "note": COMMON_NOTE + "Go runtime panics and wall-clock promptness cannot be expressed in Gallina; they are observed, not proved."},
    {"property_id": "C03",
     "text": "Theorem C03_accept_iff: the model decoder accepts a plaintext exactly when it satisfies the declarative grammar WellFormed (magic, control bits, version, covered length, items with defined types and agreeing lengths, container lengths exact, zero padding, CRC) and then returns exactly the encoded items; C03_functional; C03_read_step and C03_chunks for block-aligned chunked delivery through the cipher. The real Read is compared with the model (Accept tree / incomplete / error) on the mutation families.",
     "design_ref": "6/C03", "technique": "Coq proof of decoder <-> grammar equivalence + correspondence on structural mutations",
     "note": COMMON_NOTE},
    {"property_id": "C04",
     "text": "Theorems C04_burst, C04_two_bits, C04_one_bit: a valid checksummed frame altered in timestamp/payload/CRC by a pattern confined to 32 consecutive bits, or of one or two bits anywhere, is never accepted - from the linear algebra of the CRC register (T linear over xor, injective on 32 bit states; order of x checked by vm_compute up to the maximal frame length 8*65557 bits, bound stated). hash/crc32 is compared with the Gallina CRC and the position of the check with the real Read on single flips, pairs, bursts and random corruptions.",
     "design_ref": "6/C04", "technique": "Coq proof (CRC linear algebra + bounded orbit sweep lifted by lemma) + correspondence on bit-level corruptions",
     "note": COMMON_NOTE + "The two-bit theorem is bounded by the maximal frame length (8*65557 bits), stated in the theorem."},
    {"property_id": "C05",
     "text": "Theorems C05_valid_iff (the model of validateRequests accepts exactly the acceptable lists: request tags at top level, defined types and matching values at every depth, sizes within the 16 bit limits computed without wrap-around) and C05_send (for every environment, one call of send adds no write at all when it refuses, and otherwise exactly one write attempt whose ciphertext decrypts, on the current chain, to pad32(frame(now, crc, requests)), which is WellFormed and decodes to exactly those requests). validateRequests is compared with the model on the mismatch/size families and whole client sessions over an attached scripted connection are compared event by event (every Write, byte for byte).",
     "design_ref": "6/C05", "technique": "Coq proof (send_spec over all environments + codec round trip) + session-level correspondence",
     "note": COMMON_NOTE + "Sessions use the verif hook VerifAttachConn (sets the conn field only)."},
    {"property_id": "C06",
     "text": "Theorem C06_sessions (invariant over all histories, all peers and faults): on every connection of every session the ciphertexts written are the CBC chain from the all-0xFF IV of the padded plaintext frames of exactly the requests sent on it - so also for the first frame after any reconnect; C06_peer_decrypts: a peer with the same key padding decrypts that chain to those plaintexts and ends on the same chain value (Rijndael-256 inverse proved). Tied to the code over real TCP: a loopback device that never calls package rscp decrypts with its own chains; ciphertext frames per connection and call results are compared with the model for keys of every length 1..64 and multi-connection sessions.",
     "design_ref": "6/C06", "technique": "Coq invariant proof over call histories + CBC/Rijndael inverse + TCP correspondence with an independent device",
     "note": COMMON_NOTE + "The peer->client direction is covered by C01_stream/C07 and by the correspondence (the client decodes every reply of the device)."},
    {"property_id": "C07",
     "text": "Theorem C07_reassembly, proved for the concrete receive loop (Rijndael-256/CBC, RSCP frame verdict, reactive peer): for ANY two lists of non-empty pieces with the same concatenation and ANY receive buffer of at least one byte the loop returns the same result and client state - by an invariant over the pieces (pending ++ consumed = prefix, fewer than 32 bytes pending, reader state = state after the block-aligned prefix). Compared with the real client on every single cut, pairs of cuts, uniform piece sizes 1..97 and random cuts x 10 buffer settings; the one-piece result is recomputed on the real client for every case.",
     "design_ref": "6/C07", "technique": "Coq proof by loop invariant over arbitrary segmentations + scripted-connection correspondence",
     "note": COMMON_NOTE + "Assumes the transport delivers bytes in order."},
    {"property_id": "C08",
     "text": "Theorems call_spec / recovery / exchange on the composed system client || honest reactive peer || fault script (Answer, Silent, CloseBefore, Garbage tail incl. a well-formed stale frame): Sync (in sync or closed) is preserved by every call, the peer's log grows by [] | [auth] | [req] | [auth; req], a successful call returns reply_of its own request, and from a closed state the next call reconnects, re-authenticates and succeeds against a healthy peer - proved for every codec/cipher satisfying a small interface (PeerU.v) and, with every interface premise discharged, for the RSCP codec + Rijndael-256/CBC instance that is extracted and run (C08Proofs.v), for any encodable, non-empty, authentication-granting reply function. The concrete client is run over real TCP against a scripted device on histories over {send one, send several, disconnect} x 9 behaviours; frames per connection and results are compared with the model and pairing/order/recovery are evaluated directly from nonces.",
     "design_ref": "6/C08", "technique": "Coq refinement proof (Sync invariant, peer log) + TCP history correspondence with nonces",
     "note": COMMON_NOTE + "C08_call_spec and C08_recovery are premise-free for the RSCP codec and Rijndael/CBC instance (theories/C08Proofs.v) over an honest peer with any encodable reply function and the fault behaviours Answer, Silent, CloseBefore, Garbage; the behaviours Late, CloseInside, BadCRC, Malformed, RefuseAuth are covered by the correspondence, not by a theorem."},
    {"property_id": "C09",
     "text": "Theorem C09_gate (same invariant as C06, all histories/peers): every frame the client writes is the authentication request or is preceded by a grant (non-zero UChar8/Int32 level under RSCP_AUTHENTICATION as first message) on the same connection, and the first frame of every connection is the authentication request with exactly the configured user and password. All ~600 enumerated authentication replies (4 tags x 18 types x values x 1..3 messages) x 3 follow-ups are run on the real client and compared frame by frame; the gate is also evaluated directly on the real client's writes.",
     "design_ref": "6/C09", "technique": "Coq invariant proof over traces + exhaustive enumeration of authentication replies",
     "note": COMMON_NOTE},
    {"property_id": "C10",
     "text": "PARTIAL. Theorem C10_budget: in the client model (every environment answer carries its duration; an armed deadline cuts an operation off) every call - for every peer, every fuel, hence every prefix of every execution, endless data included - ends with the clock within start + connect? + authentication? + send + receive timeouts; C10_defaults: zero/negative timeouts fall back to 3 s. The real client is run in virtual time over a scripted connection (stall after every byte offset, failing writes, trickles, endless data x 6 timeout settings) and the sequence of SetWriteDeadline/Write/SetReadDeadline/Read/Close with deadline offsets must equal the model's; a blocking read without an armed deadline, a re-armed read deadline or a wrong deadline is a violation.",
     "design_ref": "6/C10", "technique": "Coq proof of a clock bound for all environments + virtual-time trace correspondence",
     "note": COMMON_NOTE + "Wall-clock time, the scheduler and the kernel honouring deadlines are outside the model."},
    {"property_id": "C11",
     "text": "PARTIAL. Theorem C11_no_secret: for every environment, level < 99 and sequence of innocent calls no emitted record (Text / Tree / Dump) reveals the password and the logger's level is restored - under premises stated in the theorem: the ciphertext hides the password and the peer does not echo it (assumptions), the authentication request renders masked (proved: C11_auth_tree_masked; C11_mask_depth: a value under a secret tag is masked at every nesting depth). The real client's rendered log is scanned at every level 0..98 (literal, hex, base64, byte dumps parsed back; secret-tagged values in rendered trees) over successful/refused/failing sessions with a secret-tagged message nested at depth 0..3, and the Tree/Dump records around each transmission are compared with the model's.",
     "design_ref": "6/C11", "technique": "Coq trace invariant (no revealing record) + scan of the real log at all levels",
     "note": COMMON_NOTE + "fmt/logrus rendering and the cipher-hides premise are assumptions."},
    {"property_id": "C14",
     "text": "Coherence of the vocabularies is proved in Coq over the tables regenerated from the source on every run (finite sweeps by vm_compute lifted with forallb_forall; the JSON round trip of a tag for all 2^32 tags); the model's lookup and JSON functions are compared with Tag/DataType methods on all 3564 tags, all 256 type codes and random unknown tags.",
     "design_ref": "6/C14", "technique": "Coq proof over generated tables (translator) + exhaustive correspondence",
     "note": COMMON_NOTE + "Assumes reflect reports dynamic types faithfully."},
]

CHECKS += [
    {"property_id": "C16",
     "text": "Theorems C16_iff (a client is created exactly for configurations naming address, user, password and key with a nil or boolean checksum option), C16_error_names (the error names exactly the missing fields) and C16_defaults (port 5033, checksums on, 3 s timeouts for values <= 0, one-block buffer for 0 or > 2049, key = first 32 bytes of key ++ 0xFF...), C16_constants (the model's defaults are the source's, regenerated every run). NewClient is run on every subset of required fields x 10 checksum kinds x lengths up to 70000 x extreme numbers and compared with the model; a panic is a violation.",
     "design_ref": "6/C16", "technique": "Coq proof on the configuration model + correspondence over the configuration space",
     "note": COMMON_NOTE + "The error text is classified by the field names it mentions."},
    {"property_id": "C18",
     "text": "Theorems C18_grammar (create succeeds with (m, rest) iff the documented grammar Derives args m rest), C18_total (every argument list builds the documented tree or fails with the documented error Fails args e; nothing else), C18_fuel (the fuel error is unreachable), C18_multi. CreateRequest(s) is compared with the model on all 22,620 argument lists of length <= 4 over a 12 symbol alphabet plus random lists and multi-list calls.",
     "design_ref": "6/C18", "technique": "Coq proof of parser <-> grammar equivalence + exhaustive short-list correspondence",
     "note": COMMON_NOTE},
]

CHECKS += [
    {"property_id": "C12",
     "text": "Theorems C12_notations (a request tree written with ANY admissible notation per node - bare, tuple, object; tag by name or number; type explicit or inferred - parses to the message tree it denotes), C12_value_exact (every representable value is carried exactly), C12_int_exact / C12_non_integral_rejected (an integer conversion never changes the value: it accepts only the literal's exact integer, within range), C12_not_array. The model parser runs on annotated syntax trees (exact integer value, strconv float roundings and RFC 3339 instants as oracle annotations) and is compared with the real unmarshalJSONRequests in package main of cmd/e3dc on random trees, every notation assignment of small trees, out-of-range values for every type and malformed texts; expected denotations are checked directly.",
     "design_ref": "6/C12", "technique": "Coq proof (print/parse round trip over all notation assignments, exact conversions) + correspondence through the in-package driver",
     "note": COMMON_NOTE + "JSON text syntax, key matching and float rounding are modelled, not verified."},
    {"property_id": "C13",
     "text": "Theorems C13_merged_entry (what a key of jsonmerged holds: the last scalar, the one container's merged object, or the array of all container occurrences in order), C13_provenance (computed from the messages tagged k alone), C13_no_loss, C13_keys, C13_simple, C13_json. The three renderers produce documents that are compared text for text with the real NewJSON*Messages/json.Marshal output (leaf formatting of floats, strings, times from an oracle table), on repeated/interleaved container tags, collisions, all types incl. NaN/Inf and the whole timestamp range; every output is checked to be valid JSON and deterministic. KNOWN FINDINGS: non-finite floats and years outside 0..9999 make the tool fail (D12).",
     "design_ref": "6/C13", "technique": "Coq proof of the grouping spec (entry k l) + text-exact correspondence through the in-package driver",
     "note": COMMON_NOTE + "Number/string/time formatting is encoding/json's (oracle); two known findings are listed in KNOWN_FINDINGS."},
    {"property_id": "C15",
     "text": "PARTIAL. cli_main composes the request parser, the client over a scripted device and the output formats into the command; theorems C15_contract (exactly one of: help/version with status 0 and text on stderr; status 0 with one document on stdout and nothing on stderr; status 1 with nothing on stdout and a diagnostic), C15_nothing_sent (unusable flags/configuration, missing or malformed request text: nothing is transmitted), C15_unknown_output. The real binary is run in an empty directory with a clean environment against a scripted TCP device (request sources, formats, split, behaviours, flag errors, config files) and its status, exact stdout, stderr and the requests the device received are compared with the model; split vs unsplit output equality is evaluated directly.",
     "design_ref": "6/C15", "technique": "Coq decision/composition model with contract proof + correspondence through the real binary",
     "note": COMMON_NOTE + "jnovack/flag, os and the process exit path are outside the model; the absence of panic traces is observed."},
    {"property_id": "C17",
     "text": "PARTIAL. Theorems call_level_irrelevant (whatever the logger's level - the only datum clients share in the model - a call returns the same result and client state and leaves the same world up to log records, for every environment) and C17_interleave (k clients interleaved in ANY order behave as alone). Under the race detector k in {2,4,8,16} goroutines run client sessions against their own TCP devices and Write/Read loops on their own cipher states; each result must equal the model's sequential prediction and the race report must be empty; a go/ast footprint scan lists every package-level variable of rscp written by a function body (only the logger and the clock are allowed).",
     "design_ref": "6/C17", "technique": "Coq proof of level irrelevance and interleaving + race-detector runs + footprint scan",
     "note": COMMON_NOTE + "Data-race freedom is observed on the schedules the runs produce, not proved."},
]

_todo = "the machinery for this property is not built yet in this commit (planned: Coq model + theorem + correspondence, see DESIGN.md section 6)"
NOT_APPLICABLE = []
