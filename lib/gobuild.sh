#!/bin/bash
# usage: gobuild.sh <outdir> [-race] <pkg>...   builds harness commands against /repo's working tree with the verif hooks overlaid
set -e
. "$(dirname "$0")/env.sh"
out=$1; shift
race=""
if [ "$1" = "-race" ]; then race="-race"; export CGO_ENABLED=1; shift; fi
mkdir -p "$out"
cat > "$out/overlay.json" <<J
{"Replace": {"$REPO/rscp/zz_verif_hooks.go": "$VERIF_ROOT/hooks/rscp_hooks.go.txt",
             "$REPO/cmd/e3dc/zz_verif_driver_test.go": "$VERIF_ROOT/hooks/e3dc_driver_test.go.txt"}}
J
cd "$VERIF_ROOT/harness"
cmp -s "$REPO/go.sum" go.sum || cp "$REPO/go.sum" go.sum
for pkg in "$@"; do
  case "$pkg" in
    e3dc)      # the command line tool itself, built from the working tree (no hooks needed, overlay harmless)
      (cd "$REPO" && go build -o "$out/e3dc" ./cmd/e3dc) ;;
    e3dc.test) # the in-package driver of cmd/e3dc (overlay-injected _test.go)
      (cd "$REPO" && go test -c -tags verif -overlay "$out/overlay.json" -o "$out/e3dc.test" ./cmd/e3dc) ;;
    *)
      go build $race -tags verif -overlay "$out/overlay.json" -o "$out/$(basename $pkg)$race" "./cmd/$pkg" ;;
  esac
done
