#!/bin/bash
# usage: gobuild.sh <outdir> [-race] <pkg>...   builds harness commands against /repo's working tree with the verif hooks overlaid
set -e
. "$(dirname "$0")/env.sh"
out=$1; shift
race=""
if [ "$1" = "-race" ]; then race="-race"; export CGO_ENABLED=1; shift; fi
mkdir -p "$out"
cat > "$out/overlay.json" <<J
{"Replace": {"$REPO/rscp/zz_verif_hooks.go": "$VERIF_ROOT/hooks/rscp_hooks.go.txt",
             "$REPO/cmd/e3dc/zz_verif_driver_test.go": "$VERIF_ROOT/hooks/e3dc_driver_test.go.txt"}}
J
cd "$VERIF_ROOT/harness"
cmp -s "$REPO/go.sum" go.sum || cp "$REPO/go.sum" go.sum
for pkg in "$@"; do
  go build $race -tags verif -overlay "$out/overlay.json" -o "$out/$(basename $pkg)$race" "./cmd/$pkg"
done
